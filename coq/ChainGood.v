(* Chain proofs, cascade: the invariant of the whole chain (every node, every pair of
   consecutive nodes, and the observer), and its preservation by every component poll. *)
From Coq Require Import List Bool Arith NArith Lia Btauto.
Import ListNotations.
From TarpcV Require Import Base Transport TimerWheel Chain ChainSpec ChainBase ChainInv ChainCross
     ChainSrvSpec.
From TarpcV Require Client Server ClientLemmas ClientProofsG1Rec ClientSimBase ChainCasc1 ChainCasc1u ChainSrv.

Notation ph_over := ChainCasc1u.ph_over.
Notation two64 := ClientSimBase.two64.

(* ------------------------------------------------------------------------------------------ *)
(* definitions *)
Definition run_st (st : Server.hstate) : bool :=
  match st with Server.HYielded | Server.HRunning => true | _ => false end.
Definition has_call (h : hinfo) : bool := match hi_call h with Some _ => true | None => false end.
Definition cnt_calls (hs : list hinfo) : nat := length (filter has_call hs).

Record node_ok (T : N) (nd : node) : Prop := {
  no_cli : cli_inv T (n_cli nd);
  no_x : cross T [] (n_cli nd) (n_link nd) (n_srv nd);
  no_srv : srv_inv (n_srv nd);
  no_snow : Server.s_now (n_srv nd) = T;
  no_over : n_over nd = false;
  no_hlen : length (n_hs nd) = length (Server.s_handlers (n_srv nd));
  no_hclamp : forall h, In h (n_hs nd) -> (hi_dl h <= T + MAXT)%N }.

(* handler k of nd owns call j of the next node's client *)
Record own (nd nx : node) : Prop := {
  ow_call : forall k h j, nth_error (n_hs nd) k = Some h -> hi_call h = Some j ->
    j < length (Client.calls (n_cli nx)) /\
    forall hr, nth_error (Server.s_handlers (n_srv nd)) k = Some hr ->
               run_st (Server.h_st hr) = false -> ph_over (n_cli nx) j = true;
  ow_owned : forall j, j < length (Client.calls (n_cli nx)) ->
    exists k h, nth_error (n_hs nd) k = Some h /\ hi_call h = Some j;
  ow_cnt : length (Client.calls (n_cli nx)) = cnt_calls (n_hs nd) }.

Record mon_ok (m : mon) (ch : chain) : Prop := {
  mk_calls : forall nd0, nth_error ch 0 = Some nd0 ->
               length (mo_calls m) = length (Client.calls (n_cli nd0));
  mk_over : forall nd0 j h, nth_error ch 0 = Some nd0 -> nth_error (mo_calls m) j = Some h ->
              hc_over h = true -> ph_over (n_cli nd0) j = true;
  mk_started : forall i k, memp (i, k) (mo_started m) = true ->
                 memp (i, k) (mo_ended m) = true \/
                 exists nd hr, nth_error ch i = Some nd /\
                               nth_error (Server.s_handlers (n_srv nd)) k = Some hr /\
                               Server.h_st hr = Server.HRunning }.

Record good (m : mon) (ch : chain) : Prop := {
  gd_node : forall i nd, nth_error ch i = Some nd -> node_ok (mo_now m) nd;
  gd_own : forall i nd nx, nth_error ch i = Some nd -> nth_error ch (S i) = Some nx -> own nd nx;
  gd_mon : mon_ok m ch }.

(* no request id is about to wrap *)
Definition nowrap (ch : chain) : Prop :=
  forall nd, In nd ch -> (Client.next_id (n_cli nd) + 1 < two64)%N.

(* ------------------------------------------------------------------------------------------ *)
(* server-side frames *)
Lemma srv_inv_set_t s l : srv_inv s -> srv_inv (Server.set_t s l).
Proof. intros [A B C D E F G]. constructor; assumption. Qed.

Lemma cross_set_t T p c l s l' : cross T p c l s -> cross T p c l (Server.set_t s l').
Proof. apply cross_sframe; reflexivity. Qed.

Lemma cross_unset_t T p c l s l' : cross T p c l (Server.set_t s l') -> cross T p c l s.
Proof. apply cross_sframe; reflexivity. Qed.

(* the client of a node, with the link injected, satisfies NI; and back *)
Lemma node_NI T nd :
  node_ok T nd ->
  ChainCasc1u.NI T (n_srv nd)
    (Client.upd_tr (n_cli nd) (n_link nd) (Client.fused (n_cli nd)) (Client.plog (n_cli nd))).
Proof. intros [C X _ _ _ _ _]. apply ChainCasc1u.NI_inject; assumption. Qed.

(* ------------------------------------------------------------------------------------------ *)
(* the observer: which observations move the fields `good` looks at *)
Definition neutral (e : cobs) : bool :=
  match e with
  | KCall _ (Client.CDone _) => false
  | KDisp _ Client.DPending => true
  | KDisp _ _ => false
  | KStream _ KPending => true
  | KStream _ _ => false
  | KHStart _ _ | KHDone _ _ _ | KHDropped _ _ => false
  | KOracle _ | KPanic | KRounds => false
  | _ => true
  end.

Lemma mon_obs_neutral m e : neutral e = true ->
  mo_now (mon_obs m e) = mo_now m /\ mo_calls (mon_obs m e) = mo_calls m /\
  mo_started (mon_obs m e) = mo_started m /\ mo_ended (mon_obs m e) = mo_ended m /\
  mo_tainted (mon_obs m e) = mo_tainted m.
Proof.
  destruct e as [j r|i l|i r|i a b|i k id dl tr body|i r|i k|i k|i k b|i k|i k|i k|i a b|i| |];
    cbn [neutral mon_obs]; try discriminate; try (intros _; repeat split; reflexivity).
  - destruct r; try discriminate; intros _; repeat split; reflexivity.
  - intros _. repeat split.
    + apply (fold_mon_wire_inv mo_now i (mon_wire_now i)).
    + apply (fold_mon_wire_inv mo_calls i (mon_wire_calls i)).
    + apply (fold_mon_wire_inv mo_started i (mon_wire_started i)).
    + apply (fold_mon_wire_inv mo_ended i (mon_wire_ended i)).
    + apply (fold_mon_wire_inv mo_tainted i (mon_wire_tainted i)).
  - destruct r as [d| |]; try discriminate. intros _; repeat split; reflexivity.
  - destruct r; try discriminate. intros _; repeat split; reflexivity.
Qed.

Lemma mon_obs_c04 m e : mo_c04 (mon_obs m e) = mo_c04 m.
Proof.
  destruct e as [j r|i l|i r|i a b|i k id dl tr body|i r|i k|i k|i k b|i k|i k|i k|i a b|i| |];
    cbn [mon_obs]; try reflexivity.
  - destruct r; reflexivity.
  - apply (fold_mon_wire_inv mo_c04 i (mon_wire_c04 i)).
  - destruct r as [d| |]; reflexivity.
  - destruct r; reflexivity.
Qed.
Lemma fold_mon_obs_c04 l : forall m, mo_c04 (fold_left mon_obs l m) = mo_c04 m.
Proof. induction l as [|e r IH]; intro m; cbn; [reflexivity|]. rewrite IH. apply mon_obs_c04. Qed.

Lemma mon_obs_taint_mono m e : mo_tainted m = true -> mo_tainted (mon_obs m e) = true.
Proof.
  intro H.
  destruct e as [j r|i l|i r|i a b|i k id dl tr body|i r|i k|i k|i k b|i k|i k|i k|i a b|i| |];
    cbn [mon_obs]; try exact H; try reflexivity.
  - destruct r; exact H.
  - rewrite (fold_mon_wire_inv mo_tainted i (mon_wire_tainted i)). exact H.
  - destruct r as [d| |]; try exact H; reflexivity.
  - destruct r; try exact H; reflexivity.
Qed.
Lemma fold_taint_mono l : forall m, mo_tainted m = true -> mo_tainted (fold_left mon_obs l m) = true.
Proof. induction l as [|e r IH]; intros m H; cbn; [exact H|]. apply IH, mon_obs_taint_mono, H. Qed.

Lemma fold_untainted_head l1 l2 m :
  mo_tainted (fold_left mon_obs (l1 ++ l2) m) = false -> mo_tainted (fold_left mon_obs l1 m) = false.
Proof.
  rewrite fold_left_app. intro H. destruct (mo_tainted (fold_left mon_obs l1 m)) eqn:E; [|reflexivity].
  rewrite (fold_taint_mono l2 _ E) in H. discriminate.
Qed.

(* observations that are not events do not reach the observer's state at all *)
Lemma mon_obs_nonevent m e : is_event e = false -> mon_obs m e = m.
Proof.
  destruct e as [j r|i l|i r|i a b|i k id dl tr body|i r|i k|i k|i k b|i k|i k|i k|i a b|i| |];
    cbn [is_event mon_obs]; try discriminate; try reflexivity.
  - destruct r; try discriminate; reflexivity.
  - destruct l; [reflexivity|discriminate].
  - destruct r as [d| |]; try discriminate. reflexivity.
  - destruct r; try discriminate. reflexivity.
Qed.
Lemma fold_filter_event l : forall m, fold_left mon_obs (filter is_event l) m = fold_left mon_obs l m.
Proof.
  induction l as [|e r IH]; intro m; cbn; [reflexivity|]. destruct (is_event e) eqn:E; cbn.
  - apply IH.
  - rewrite (mon_obs_nonevent m e E). apply IH.
Qed.

(* observations that taint the run *)
Definition taints (e : cobs) : bool :=
  match e with
  | KDisp _ (Client.DReady _) | KDisp _ Client.DFuel => true
  | KStream _ KEnd | KStream _ (KErr _) | KStream _ KFuel => true
  | KOracle _ | KPanic | KRounds => true
  | _ => false
  end.
Lemma mon_obs_taints m e : taints e = true -> mo_tainted (mon_obs m e) = true.
Proof.
  destruct e as [j r|i l|i r|i a b|i k id dl tr body|i r|i k|i k|i k b|i k|i k|i k|i a b|i| |];
    cbn [taints mon_obs]; try discriminate; try reflexivity.
  - destruct r as [d| |]; try discriminate; reflexivity.
  - destruct r; try discriminate; reflexivity.
Qed.
Lemma fold_taints l : forall m e, In e l -> taints e = true -> mo_tainted (fold_left mon_obs l m) = true.
Proof.
  induction l as [|x r IH]; intros m e Hin Ht; [destruct Hin|]. cbn. destruct Hin as [<-|Hin].
  - apply fold_taint_mono, mon_obs_taints, Ht.
  - eapply IH; eassumption.
Qed.

(* `good` depends on the observer through four fields only *)
Lemma good_core m m' ch :
  mo_now m' = mo_now m -> mo_calls m' = mo_calls m -> mo_started m' = mo_started m ->
  mo_ended m' = mo_ended m -> good m ch -> good m' ch.
Proof.
  intros E1 E2 E3 E4 [A B [C1 C2 C3]]. constructor; [rewrite E1; exact A|exact B|].
  constructor; rewrite ?E2, ?E3, ?E4; assumption.
Qed.

Lemma fold_neutral l : forall m, forallb neutral l = true ->
  mo_now (fold_left mon_obs l m) = mo_now m /\ mo_calls (fold_left mon_obs l m) = mo_calls m /\
  mo_started (fold_left mon_obs l m) = mo_started m /\ mo_ended (fold_left mon_obs l m) = mo_ended m /\
  mo_tainted (fold_left mon_obs l m) = mo_tainted m.
Proof.
  induction l as [|e r IH]; intros m H; cbn; [repeat split; reflexivity|].
  cbn in H. apply andb_true_iff in H. destruct H as [H1 H2].
  destruct (mon_obs_neutral m e H1) as (A1 & A2 & A3 & A4 & A5).
  destruct (IH (mon_obs m e) H2) as (B1 & B2 & B3 & B4 & B5).
  repeat split; congruence.
Qed.

Lemma good_neutral l m ch : forallb neutral l = true -> good m ch -> good (fold_left mon_obs l m) ch.
Proof. intros H G. destruct (fold_neutral l m H) as (A1 & A2 & A3 & A4 & _). eapply good_core; eassumption. Qed.

(* ------------------------------------------------------------------------------------------ *)
(* one client op on a node *)
Lemma ph_over_upd_tr (c : cstate) l f lg j : ph_over (Client.upd_tr c l f lg) j = ph_over c j.
Proof. reflexivity. Qed.

Lemma node_of_NI T nd c1 :
  node_ok T nd -> ChainCasc1u.NI T (n_srv nd) c1 ->
  node_ok T (mknode c1 (Client.tr c1) (n_srv nd) (n_hs nd) (n_over nd)).
Proof.
  intros [C X S Sn Ov Hl Hc] [X1 C1]. constructor; cbn [n_cli n_link n_srv n_hs n_over]; assumption.
Qed.

Lemma cstep_dispatch T nd nd' l :
  node_ok T nd -> cstep nd Client.PollDispatch = (nd', l) ->
  exists lg r a b, l = [Client.OCalls lg; Client.ODisp r; Client.OGauge a b] /\
    n_srv nd' = n_srv nd /\ n_hs nd' = n_hs nd /\ n_over nd' = n_over nd /\
    match r with
    | Client.DPending =>
      node_ok T nd' /\ Client.cancels (n_cli nd') = [] /\
      (forall j, ph_over (n_cli nd') j = ph_over (n_cli nd) j) /\
      length (Client.calls (n_cli nd')) = length (Client.calls (n_cli nd)) /\
      Client.next_id (n_cli nd') = Client.next_id (n_cli nd)
    | _ => True
    end.
Proof.
  intros H E. unfold cstep in E.
  destruct (Client.step ctp cfuel _ Client.PollDispatch) as [c1 l1] eqn:ES. pinj E.
  destruct (ChainCasc1u.NI_step_dispatch T (n_srv nd) cfuel _ _ _ (node_NI T nd H) ES)
    as (lg & r & a & b & -> & R).
  exists lg, r, a, b. split; [reflexivity|]. cbn [n_srv n_hs n_over n_cli]. repeat split.
  destruct r as [d| |]; try exact I.
  destruct R as (R1 & R2 & R3 & R4 & R5). split; [apply node_of_NI; assumption|].
  split; [exact R2|]. split; [exact R3|]. split; [exact R4|exact R5].
Qed.

Lemma cstep_poll_call T nd i nd' l :
  node_ok T nd -> (Client.next_id (n_cli nd) + 1 < two64)%N ->
  cstep nd (Client.PollCall i) = (nd', l) ->
  exists r, l = match r with Client.CNothing => [] | _ => [Client.OCall r] end /\
    n_srv nd' = n_srv nd /\ n_hs nd' = n_hs nd /\ n_over nd' = n_over nd /\
    node_ok T nd' /\
    length (Client.calls (n_cli nd')) = length (Client.calls (n_cli nd)) /\
    (forall j, ph_over (n_cli nd) j = true -> ph_over (n_cli nd') j = true) /\
    (forall o, r = Client.CDone o -> ph_over (n_cli nd') i = true) /\
    (forall j, j <> i -> ph_over (n_cli nd') j = ph_over (n_cli nd) j).
Proof.
  intros H Hw E. unfold cstep in E.
  destruct (Client.step ctp cfuel _ (Client.PollCall i)) as [c1 l1] eqn:ES. pinj E.
  destruct (ChainCasc1u.NI_step_poll_call T (n_srv nd) cfuel _ i _ _ (node_NI T nd H) Hw ES)
    as (r & _ & -> & R1 & R2 & R3 & R4 & R5).
  exists r. split; [reflexivity|]. cbn [n_srv n_hs n_over n_cli].
  split; [reflexivity|]. split; [reflexivity|]. split; [reflexivity|].
  split; [apply node_of_NI; assumption|]. split; [exact R2|]. split; [exact R3|]. split; [exact R4|exact R5].
Qed.

Lemma cstep_drop_call T nd i nd' l :
  node_ok T nd -> cstep nd (Client.DropCall i) = (nd', l) ->
  l = [] /\ n_srv nd' = n_srv nd /\ n_hs nd' = n_hs nd /\ n_over nd' = n_over nd /\
  node_ok T nd' /\
  length (Client.calls (n_cli nd')) = length (Client.calls (n_cli nd)) /\
  (forall j, ph_over (n_cli nd) j = true -> ph_over (n_cli nd') j = true) /\
  (i < length (Client.calls (n_cli nd)) -> ph_over (n_cli nd') i = true) /\
  (forall j, j <> i -> ph_over (n_cli nd') j = ph_over (n_cli nd) j).
Proof.
  intros H E. unfold cstep in E.
  destruct (Client.step ctp cfuel _ (Client.DropCall i)) as [c1 l1] eqn:ES. pinj E.
  destruct (ChainCasc1u.NI_step_drop_call T (n_srv nd) cfuel _ i _ _ (node_NI T nd H) ES)
    as (-> & R1 & R2 & R3 & R4 & R5).
  cbn [n_srv n_hs n_over n_cli].
  split; [reflexivity|]. split; [reflexivity|]. split; [reflexivity|]. split; [reflexivity|].
  split; [apply node_of_NI; assumption|]. split; [exact R2|]. split; [exact R3|]. split; [exact R4|exact R5].
Qed.

(* a nested call future is created on a node's client *)
Lemma node_mk_call T nx dl tr body :
  node_ok T nx -> (dl <= T + MAXT)%N ->
  let nx0 := mknode (mk_call (n_cli nx) dl tr body) (n_link nx) (n_srv nx) (n_hs nx) (n_over nx) in
  node_ok T nx0 /\
  length (Client.calls (n_cli nx0)) = S (length (Client.calls (n_cli nx))) /\
  (forall j, j < length (Client.calls (n_cli nx)) -> ph_over (n_cli nx0) j = ph_over (n_cli nx) j) /\
  Client.next_id (n_cli nx0) = Client.next_id (n_cli nx).
Proof.
  intros NO Hd nx0. pose proof (node_NI T nx NO) as H.
  set (k := {| Client.c_handle := 0; Client.c_phase := Client.PNew; Client.c_id := 0%N;
               Client.c_rel := (dl - Client.now (n_cli nx))%N; Client.c_deadline := dl;
               Client.c_tc := {| Client.tc_tid := N.div2 tr; Client.tc_sid := 0%N; Client.tc_sampled := N.odd tr |};
               Client.c_body := body |}).
  destruct (ChainCasc1u.NI_add_call T (n_srv nx) cfuel _ k H (or_introl eq_refl) Hd) as [H1 H2].
  change (Client.upd_calls _ _) with
    (Client.upd_tr (mk_call (n_cli nx) dl tr body) (n_link nx) (Client.fused (n_cli nx)) (Client.plog (n_cli nx))) in H1.
  destruct (ChainCasc1u.NI_uninject _ _ _ _ _ _ H1 eq_refl) as [C1 X1].
  destruct NO as [C X S Sn Ov Hl Hc].
  split; [constructor; cbn [n_cli n_link n_srv n_hs n_over nx0]; assumption|].
  split; [cbn; rewrite app_length; cbn; lia|]. split; [|reflexivity].
  intros j Hj. apply (H2 j Hj).
Qed.

(* ------------------------------------------------------------------------------------------ *)
(* one server op on a node (the two server-side facts are hypotheses here) *)
Section WithServer.
  Hypothesis HA : stmt_srv_poll.
  Hypothesis HB : stmt_srv_exec.

  Lemma sstep_poll T nd nd' l :
    node_ok T nd -> sstep nd Server.OPoll = (nd', l) ->
    exists log X, l = Server.OCalls log :: X :: Server.gauges (n_srv nd') /\
      n_cli nd' = n_cli nd /\ n_hs nd' = n_hs nd /\ n_over nd' = n_over nd /\
      match X with
      | Server.OYield k id dl tr body =>
        k = length (Server.s_handlers (n_srv nd)) /\ (dl <= T + MAXT)%N /\
        exists hs1 h, Forall2 hrel (Server.s_handlers (n_srv nd)) hs1 /\
          Server.s_handlers (n_srv nd') =
            hs1 ++ [{| Server.h_h := h; Server.h_id := id; Server.h_st := Server.HYielded |}] /\
          cross T [] (n_cli nd) (n_link nd') (n_srv nd') /\ srv_inv (n_srv nd') /\
          Server.s_now (n_srv nd') = T
      | Server.OPending =>
        Forall2 hrel (Server.s_handlers (n_srv nd)) (Server.s_handlers (n_srv nd')) /\
        cross T [] (n_cli nd) (n_link nd') (n_srv nd') /\ srv_inv (n_srv nd') /\
        Server.s_now (n_srv nd') = T /\
        l_c2s (n_link nd') = [] /\ Server.s_respq (n_srv nd') = [] /\
        (forall id w, In (id, w) (Server.s_timers (n_srv nd')) -> (T < w)%N)
      | Server.OStreamEnd | Server.OStreamErr _ | Server.OFuel => True
      | _ => False
      end.
  Proof.
    intros [C X S Sn Ov Hl Hc] E. unfold sstep in E.
    destruct (Server.step stp _ _ scfg _ Server.OPoll) as [s1 l1] eqn:ES. pinj E.
    destruct (HA T (n_cli nd) (Server.set_t (n_srv nd) (n_link nd)) _ _ (cross_set_t _ _ _ _ _ (n_link nd) X)
                 (srv_inv_set_t _ (n_link nd) S) Sn ES) as (log & X0 & -> & R).
    exists log, X0. cbn [n_cli n_srv n_hs n_over n_link]. repeat split. exact R.
  Qed.

  Lemma sstep_exec T nd k st nd' l :
    node_ok T nd -> sstep nd (Server.OHandlerPoll k st) = (nd', l) ->
    exists obs, l = obs ++ Server.gauges (n_srv nd') /\
      n_cli nd' = n_cli nd /\ n_hs nd' = n_hs nd /\ n_over nd' = n_over nd /\
      n_link nd' = n_link nd /\
      Server.execute_poll k st (Server.set_t (n_srv nd) (n_link nd)) = (n_srv nd', obs) /\
      node_ok T nd'.
  Proof.
    intros [C X S Sn Ov Hl Hc] E. unfold sstep, Server.step in E.
    destruct (Server.execute_poll k st _) as [s1 obs] eqn:EE. pinj E.
    exists obs. cbn [n_cli n_srv n_hs n_over n_link].
    split; [reflexivity|]. split; [reflexivity|]. split; [reflexivity|]. split; [reflexivity|].
    split; [|split; [reflexivity|]].
    - destruct (HB T (n_cli nd) (Server.set_t (n_srv nd) (n_link nd)) k st _ _ (cross_set_t _ _ _ _ _ (n_link nd) X)
                   (srv_inv_set_t _ (n_link nd) S) EE) as (_ & _ & Et & _). exact Et.
    - destruct (HB T (n_cli nd) (Server.set_t (n_srv nd) (n_link nd)) k st _ _ (cross_set_t _ _ _ _ _ (n_link nd) X)
                   (srv_inv_set_t _ (n_link nd) S) EE) as (X1 & S1 & Et & En & _ & _ & Ln & _).
      constructor; cbn [n_cli n_srv n_hs n_over n_link]; try assumption.
      + rewrite En. exact Sn.
      + rewrite Ln. exact Hl.
  Qed.
End WithServer.

(* ------------------------------------------------------------------------------------------ *)
(* rebuilding `good` after a node changed *)
Lemma Forall2_nth_l {A B} (R : A -> B -> Prop) l l' k x :
  Forall2 R l l' -> nth_error l k = Some x -> exists y, nth_error l' k = Some y /\ R x y.
Proof.
  intro H. revert k. induction H as [|a b r r' Hab Hr IH]; intros [|k] E; cbn in *; try discriminate.
  - injection E as <-. eauto.
  - apply IH, E.
Qed.
Lemma Forall2_nth_r {A B} (R : A -> B -> Prop) l l' k y :
  Forall2 R l l' -> nth_error l' k = Some y -> exists x, nth_error l k = Some x /\ R x y.
Proof.
  intro H. revert k. induction H as [|a b r r' Hab Hr IH]; intros [|k] E; cbn in *; try discriminate.
  - injection E as <-. eauto.
  - apply IH, E.
Qed.
Lemma Forall2_refl {A} (R : A -> A -> Prop) l : (forall x, R x x) -> Forall2 R l l.
Proof. intro H. induction l; constructor; auto. Qed.
Lemma Forall2_len {A B} (R : A -> B -> Prop) l l' : Forall2 R l l' -> length l' = length l.
Proof. induction 1; cbn; congruence. Qed.

Lemma hrel_refl hr : hrel hr hr.
Proof. repeat split. left. reflexivity. Qed.
Lemma hrel_run hr hr' : hrel hr hr' -> run_st (Server.h_st hr') = run_st (Server.h_st hr).
Proof. intros (_ & _ & [E|(b & E1 & E2)]); [rewrite E; reflexivity|rewrite E1, E2; reflexivity]. Qed.
Lemma hrel_running hr hr' : hrel hr hr' ->
  (Server.h_st hr' = Server.HRunning <-> Server.h_st hr = Server.HRunning).
Proof. intros (_ & _ & [E|(b & E1 & E2)]); [rewrite E; tauto|rewrite E1, E2; split; discriminate]. Qed.

(* the client of a node changed: calls were neither added nor un-resolved *)
Definition cli_mono (c c' : cstate) : Prop :=
  length (Client.calls c') = length (Client.calls c) /\
  forall j, ph_over c j = true -> ph_over c' j = true.

(* the server of a node changed: same incarnations, states related by hrel *)
Definition srv_same (nd nd' : node) : Prop :=
  n_hs nd' = n_hs nd /\ Forall2 hrel (Server.s_handlers (n_srv nd)) (Server.s_handlers (n_srv nd')).

Lemma own_cli nd nx nx' : own nd nx -> cli_mono (n_cli nx) (n_cli nx') -> own nd nx'.
Proof.
  intros [A B C] [L M]. constructor.
  - intros k h j Hk Hj. destruct (A k h j Hk Hj) as [A1 A2]. split; [rewrite L; exact A1|].
    intros hr Hr Hs. apply M, (A2 hr Hr Hs).
  - intros j Hj. rewrite L in Hj. apply B, Hj.
  - rewrite L. exact C.
Qed.

Lemma own_srv nd nd' nx : own nd nx -> srv_same nd nd' -> own nd' nx.
Proof.
  intros [A B C] [E F]. constructor; rewrite ?E; try assumption.
  intros k h j Hk Hj. destruct (A k h j Hk Hj) as [A1 A2]. split; [exact A1|].
  intros hr' Hr' Hs. destruct (Forall2_nth_r _ _ _ _ _ F Hr') as (hr & Hr & Hrel).
  apply (A2 hr Hr). rewrite <- (hrel_run _ _ Hrel). exact Hs.
Qed.

(* node i is replaced: its client is a cli_mono successor, its server srv_same *)
Lemma good_upd m ch i nd nd' :
  good m ch -> nth_error ch i = Some nd -> node_ok (mo_now m) nd' ->
  cli_mono (n_cli nd) (n_cli nd') -> srv_same nd nd' -> good m (set_node i nd' ch).
Proof.
  intros [A B [C1 C2 C3]] Ei Hn Hc Hs. pose proof (nth_error_lt _ _ _ Ei) as Li.
  constructor.
  - intros j x Hj. destruct (Nat.eq_dec i j) as [<-|Hne].
    + rewrite nth_set_node_same in Hj by exact Li. injection Hj as <-. exact Hn.
    + rewrite nth_set_node_other in Hj by exact Hne. eapply A, Hj.
  - intros j x y Hx Hy.
    destruct (Nat.eq_dec i j) as [Eij|Hne1]; destruct (Nat.eq_dec i (S j)) as [Es|Hne2]; try lia.
    + subst j. rewrite nth_set_node_same in Hx by exact Li. injection Hx as <-.
      rewrite nth_set_node_other in Hy by exact Hne2.
      eapply own_srv; [eapply (B i nd y); [exact Ei|exact Hy]|exact Hs].
    + rewrite nth_set_node_other in Hx by exact Hne1. rewrite Es in *.
      rewrite nth_set_node_same in Hy by exact Li. injection Hy as <-.
      eapply own_cli; [eapply (B j x nd); [exact Hx|exact Ei]|exact Hc].
    + rewrite nth_set_node_other in Hx by exact Hne1. rewrite nth_set_node_other in Hy by exact Hne2.
      eapply B; eassumption.
  - destruct Hc as [L M]. constructor.
    + intros nd0 H0. destruct i as [|i].
      * rewrite nth_set_node_same in H0 by exact Li. injection H0 as <-. rewrite L. apply C1, Ei.
      * rewrite nth_set_node_other in H0 by discriminate. apply C1, H0.
    + intros nd0 j h H0 Hj Ho. destruct i as [|i].
      * rewrite nth_set_node_same in H0 by exact Li. injection H0 as <-. apply M. eapply C2; eassumption.
      * rewrite nth_set_node_other in H0 by discriminate. eapply C2; eassumption.
    + intros i0 k Hk. destruct (C3 i0 k Hk) as [He|(x & hr & Hx & Hr & Hst)]; [left; exact He|right].
      destruct (Nat.eq_dec i i0) as [<-|Hne].
      * rewrite Ei in Hx. injection Hx as <-. destruct Hs as [_ F].
        destruct (Forall2_nth_l _ _ _ _ _ F Hr) as (hr' & Hr' & Hrel).
        exists nd', hr'. split; [apply nth_set_node_same, Li|]. split; [exact Hr'|].
        apply (hrel_running _ _ Hrel), Hst.
      * exists x, hr. rewrite nth_set_node_other by exact Hne. auto.
Qed.

(* node i yields a request: one more incarnation (not started, owning no call) *)
Lemma cnt_calls_snoc hs h : hi_call h = None -> cnt_calls (hs ++ [h]) = cnt_calls hs.
Proof.
  intro E. unfold cnt_calls. rewrite filter_app, app_length. cbn. unfold has_call at 2. rewrite E. cbn. lia.
Qed.

Lemma good_yield m ch i nd nd' hs1 newh newi :
  good m ch -> nth_error ch i = Some nd -> node_ok (mo_now m) nd' ->
  n_cli nd' = n_cli nd ->
  Forall2 hrel (Server.s_handlers (n_srv nd)) hs1 ->
  Server.s_handlers (n_srv nd') = hs1 ++ [newh] -> Server.h_st newh = Server.HYielded ->
  n_hs nd' = n_hs nd ++ [newi] -> hi_call newi = None ->
  good m (set_node i nd' ch).
Proof.
  intros [A B [C1 C2 C3]] Ei Hn Ec F Eh Est Ehs Enew. pose proof (nth_error_lt _ _ _ Ei) as Li.
  pose proof (no_hlen _ _ (A i nd Ei)) as HL.
  constructor.
  - intros j x Hj. destruct (Nat.eq_dec i j) as [<-|Hne].
    + rewrite nth_set_node_same in Hj by exact Li. injection Hj as <-. exact Hn.
    + rewrite nth_set_node_other in Hj by exact Hne. eapply A, Hj.
  - intros j x y Hx Hy.
    destruct (Nat.eq_dec i j) as [Eij|Hne1]; destruct (Nat.eq_dec i (S j)) as [Es|Hne2]; try lia.
    + subst j. rewrite nth_set_node_same in Hx by exact Li. injection Hx as <-.
      rewrite nth_set_node_other in Hy by exact Hne2.
      destruct (B i nd y Ei Hy) as [O1 O2 O3]. constructor.
      * intros k h j Hk Hj. rewrite Ehs in Hk.
        destruct (Nat.lt_ge_cases k (length (n_hs nd))) as [Hlt|Hge].
        -- rewrite nth_error_app1 in Hk by exact Hlt. destruct (O1 k h j Hk Hj) as [O1a O1b].
           split; [exact O1a|]. intros hr' Hr' Hs. rewrite Eh in Hr'.
           rewrite nth_error_app1 in Hr' by (rewrite (Forall2_len _ _ _ F), <- HL; exact Hlt).
           destruct (Forall2_nth_r _ _ _ _ _ F Hr') as (hr & Hr & Hrel).
           apply (O1b hr Hr). rewrite <- (hrel_run _ _ Hrel). exact Hs.
        -- rewrite nth_error_app2 in Hk by exact Hge. destruct (k - length (n_hs nd)) as [|d]; cbn in Hk.
           ++ injection Hk as <-. congruence.
           ++ destruct d; discriminate.
      * intros j Hj. destruct (O2 j Hj) as (k & h & Hk & Hc). exists k, h. split; [|exact Hc].
        rewrite Ehs. rewrite nth_error_app1; [exact Hk|]. apply nth_error_Some. congruence.
      * rewrite Ehs, cnt_calls_snoc by exact Enew. exact O3.
    + rewrite nth_set_node_other in Hx by exact Hne1. rewrite Es in *.
      rewrite nth_set_node_same in Hy by exact Li. injection Hy as <-.
      eapply own_cli; [eapply (B j x nd); [exact Hx|exact Ei]|]. rewrite Ec. split; [reflexivity|auto].
    + rewrite nth_set_node_other in Hx by exact Hne1. rewrite nth_set_node_other in Hy by exact Hne2.
      eapply B; eassumption.
  - constructor.
    + intros nd0 H0. destruct i as [|i].
      * rewrite nth_set_node_same in H0 by exact Li. injection H0 as <-. rewrite Ec. apply C1, Ei.
      * rewrite nth_set_node_other in H0 by discriminate. apply C1, H0.
    + intros nd0 j h H0 Hj Ho. destruct i as [|i].
      * rewrite nth_set_node_same in H0 by exact Li. injection H0 as <-. rewrite Ec. eapply C2; eassumption.
      * rewrite nth_set_node_other in H0 by discriminate. eapply C2; eassumption.
    + intros i0 k Hk. destruct (C3 i0 k Hk) as [He|(x & hr & Hx & Hr & Hst)]; [left; exact He|right].
      destruct (Nat.eq_dec i i0) as [<-|Hne].
      * rewrite Ei in Hx. injection Hx as <-.
        destruct (Forall2_nth_l _ _ _ _ _ F Hr) as (hr' & Hr' & Hrel).
        exists nd', hr'. split; [apply nth_set_node_same, Li|]. split.
        -- rewrite Eh. rewrite nth_error_app1; [exact Hr'|]. apply nth_error_Some. congruence.
        -- apply (hrel_running _ _ Hrel), Hst.
      * exists x, hr. rewrite nth_set_node_other by exact Hne. auto.
Qed.

(* which incarnations an observation list starts / ends *)
Definition starts (l : list cobs) : list (nat * nat) :=
  flat_map (fun e => match e with KHStart i k => [(i, k)] | _ => [] end) l.
Definition ends (l : list cobs) : list (nat * nat) :=
  flat_map (fun e => match e with KHDone i k _ | KHDropped i k => [(i, k)] | _ => [] end) l.
Definition resolves (l : list cobs) : bool :=
  existsb (fun e => match e with KCall _ (Client.CDone _) => true | _ => false end) l.

Lemma memp_cons p q l : memp p (q :: l) = (Nat.eqb (fst p) (fst q) && Nat.eqb (snd p) (snd q)) || memp p l.
Proof. reflexivity. Qed.
Lemma memp_app p a b : memp p (a ++ b) = memp p a || memp p b.
Proof. unfold memp. apply existsb_app. Qed.

Lemma fold_started l : forall m p,
  memp p (mo_started (fold_left mon_obs l m)) = memp p (starts l) || memp p (mo_started m).
Proof.
  induction l as [|e r IH]; intros m p; cbn [fold_left starts flat_map]; [reflexivity|].
  rewrite IH, memp_app.
  destruct e as [j r0|i l0|i r0|i a b|i k id dl tr body|i r0|i k|i k|i k b|i k|i k|i k|i a b|i| |];
    cbn [mon_obs mo_started app memp existsb orb]; try reflexivity.
  - destruct r0; reflexivity.
  - rewrite (fold_mon_wire_inv mo_started i (mon_wire_started i)). reflexivity.
  - destruct r0 as [d| |]; reflexivity.
  - destruct r0; reflexivity.
  - unfold memp, starts. cbn [fst snd]. btauto.
Qed.

Lemma fold_ended l : forall m p,
  memp p (mo_ended (fold_left mon_obs l m)) = memp p (ends l) || memp p (mo_ended m).
Proof.
  induction l as [|e r IH]; intros m p; cbn [fold_left ends flat_map]; [reflexivity|].
  rewrite IH, memp_app.
  destruct e as [j r0|i l0|i r0|i a b|i k id dl tr body|i r0|i k|i k|i k b|i k|i k|i k|i a b|i| |];
    cbn [mon_obs mo_ended app memp existsb orb]; try reflexivity.
  - destruct r0; reflexivity.
  - rewrite (fold_mon_wire_inv mo_ended i (mon_wire_ended i)). reflexivity.
  - destruct r0 as [d| |]; reflexivity.
  - destruct r0; reflexivity.
  - unfold memp, ends. cbn [fst snd]. btauto.
  - unfold memp, ends. cbn [fst snd]. btauto.
Qed.

Lemma fold_calls_same l : forall m, resolves l = false -> mo_calls (fold_left mon_obs l m) = mo_calls m.
Proof.
  induction l as [|e r IH]; intros m H; cbn [fold_left]; [reflexivity|].
  cbn in H. apply orb_false_iff in H. destruct H as [H1 H2]. rewrite IH by exact H2.
  destruct e as [j r0|i l0|i r0|i a b|i k id dl tr body|i r0|i k|i k|i k b|i k|i k|i k|i a b|i| |];
    cbn [mon_obs mo_calls]; try reflexivity.
  - destruct r0; try reflexivity. discriminate.
  - apply (fold_mon_wire_inv mo_calls i (mon_wire_calls i)).
  - destruct r0 as [d| |]; reflexivity.
  - destruct r0; reflexivity.
Qed.

Lemma starts_sobs i l : starts (flat_map (tr_sobs i) l) = [].
Proof. induction l as [|o r IH]; [reflexivity|]. cbn [flat_map]. unfold starts in *. rewrite flat_map_app, IH. destruct o; reflexivity. Qed.
Lemma resolves_sobs i l : resolves (flat_map (tr_sobs i) l) = false.
Proof. induction l as [|o r IH]; [reflexivity|]. cbn [flat_map]. unfold resolves in *. rewrite existsb_app, IH. destruct o; reflexivity. Qed.
Lemma ends_sobs i l :
  ends (flat_map (tr_sobs i) l) =
  flat_map (fun o => match o with Server.OHDone k _ | Server.OHDropped k => [(i, k)] | _ => [] end) l.
Proof. induction l as [|o r IH]; [reflexivity|]. cbn [flat_map]. unfold ends in *. rewrite flat_map_app, IH. destruct o; reflexivity. Qed.

(* incarnation k of node i was polled: node i (server only) and possibly node i+1 (client
   only) changed, and the observer saw the poll's events *)
Lemma good_rebuild m m' ch ch2 i k nd nd' :
  good m ch -> nth_error ch i = Some nd -> nth_error ch2 i = Some nd' -> length ch2 = length ch ->
  (forall j, j <> i -> j <> S i -> nth_error ch2 j = nth_error ch j) ->
  node_ok (mo_now m) nd' -> n_cli nd' = n_cli nd ->
  (forall nx, nth_error ch (S i) = Some nx ->
     exists nx', nth_error ch2 (S i) = Some nx' /\ node_ok (mo_now m) nx' /\
                 n_srv nx' = n_srv nx /\ n_hs nx' = n_hs nx /\ own nd' nx') ->
  (forall j hr, j <> k -> nth_error (Server.s_handlers (n_srv nd)) j = Some hr ->
     exists hr', nth_error (Server.s_handlers (n_srv nd')) j = Some hr' /\ hrel hr hr') ->
  mo_now m' = mo_now m -> mo_calls m' = mo_calls m ->
  (forall i0 k0, memp (i0, k0) (mo_started m') = true ->
     memp (i0, k0) (mo_started m) = true \/ (i0 = i /\ k0 = k)) ->
  (forall p, memp p (mo_ended m) = true -> memp p (mo_ended m') = true) ->
  (memp (i, k) (mo_started m') = true ->
     memp (i, k) (mo_ended m') = true \/
     exists hr', nth_error (Server.s_handlers (n_srv nd')) k = Some hr' /\ Server.h_st hr' = Server.HRunning) ->
  good m' ch2.
Proof.
  intros [A B [C1 C2 C3]] Ei Ei' EL Eo Hn Ec Hnx Hh En Ecs S1 S2 S3.
  pose proof (nth_error_lt _ _ _ Ei) as Li.
  assert (NoneS : nth_error ch (S i) = None -> nth_error ch2 (S i) = None).
  { intro H. apply nth_error_None. rewrite EL. apply nth_error_None, H. }
  constructor.
  - rewrite En. intros j x Hj. destruct (Nat.eq_dec j i) as [->|Hne].
    + rewrite Ei' in Hj. injection Hj as <-. exact Hn.
    + destruct (Nat.eq_dec j (S i)) as [->|Hne2].
      * destruct (nth_error ch (S i)) as [nx|] eqn:Ex; [|specialize (NoneS eq_refl); congruence].
        destruct (Hnx nx eq_refl) as (nx' & Hx' & Hok & _). rewrite Hx' in Hj. injection Hj as <-. exact Hok.
      * rewrite Eo in Hj by assumption. eapply A, Hj.
  - intros j x y Hx Hy. destruct (Nat.eq_dec j i) as [->|Hne].
    + rewrite Ei' in Hx. injection Hx as <-.
      destruct (nth_error ch (S i)) as [nx|] eqn:Ex; [|specialize (NoneS eq_refl); congruence].
      destruct (Hnx nx eq_refl) as (nx' & Hx' & _ & _ & _ & Hown). rewrite Hx' in Hy. injection Hy as <-. exact Hown.
    + destruct (Nat.eq_dec j (S i)) as [->|Hne2].
      * (* the pair (i+1, i+2): server side and table of i+1 unchanged, i+2 unchanged *)
        destruct (nth_error ch (S i)) as [nx|] eqn:Ex; [|specialize (NoneS eq_refl); congruence].
        destruct (Hnx nx eq_refl) as (nx' & Hx' & _ & Es & Eh & _). rewrite Hx' in Hx. injection Hx as <-.
        rewrite Eo in Hy by lia.
        eapply own_srv; [eapply (B (S i) nx y); [exact Ex|exact Hy]|].
        split; [exact Eh|]. rewrite Es. apply Forall2_refl, hrel_refl.
      * rewrite Eo in Hx by assumption.
        destruct (Nat.eq_dec (S j) i) as [Esj|Hne3].
        -- (* the pair (i-1, i): the client of i is unchanged *)
           rewrite Esj in Hy. rewrite Ei' in Hy. injection Hy as <-.
           eapply own_cli; [eapply (B j x nd); [exact Hx|rewrite Esj; exact Ei]|].
           rewrite Ec. split; [reflexivity|auto].
        -- rewrite Eo in Hy by lia. eapply B; eassumption.
  - (* the observer *)
    assert (N0 : forall nd0, nth_error ch2 0 = Some nd0 -> exists nd00, nth_error ch 0 = Some nd00 /\ n_cli nd0 = n_cli nd00).
    { intros nd0 H0. destruct i as [|i].
      - rewrite Ei' in H0. injection H0 as <-. exists nd. auto.
      - rewrite Eo in H0 by lia. exists nd0. auto. }
    constructor.
    + intros nd0 H0. destruct (N0 nd0 H0) as (nd00 & H00 & E0). rewrite Ecs, E0. apply C1, H00.
    + intros nd0 j h H0 Hj Ho. destruct (N0 nd0 H0) as (nd00 & H00 & E0). rewrite Ecs in Hj. rewrite E0.
      eapply C2; eassumption.
    + intros i0 k0 Hk. destruct (S1 i0 k0 Hk) as [Hold|[-> ->]].
      * destruct (C3 i0 k0 Hold) as [He|(x & hr & Hx & Hr & Hst)]; [left; apply S2, He|].
        destruct (Nat.eq_dec i0 i) as [->|Hne].
        -- rewrite Ei in Hx. injection Hx as <-.
           destruct (Nat.eq_dec k0 k) as [->|Hnk];
             [destruct (S3 Hk) as [He|(hr' & Hr' & Hst')]; [left; exact He|right; exists nd', hr'; auto]|].
           destruct (Hh k0 hr Hnk Hr) as (hr' & Hr' & Hrel). right. exists nd', hr'.
           split; [exact Ei'|]. split; [exact Hr'|]. apply (hrel_running _ _ Hrel), Hst.
        -- destruct (Nat.eq_dec i0 (S i)) as [->|Hne2].
           ++ destruct (Hnx x Hx) as (nx' & Hx' & _ & Es & _). right. exists nx', hr. rewrite Es. auto.
           ++ right. exists x, hr. rewrite Eo by assumption. auto.
      * destruct (S3 Hk) as [He|(hr' & Hr' & Hst)]; [left; exact He|]. right. exists nd', hr'. auto.
Qed.

(* ownership after incarnation k of nd was polled *)
Lemma own_exec nd nd1 nx nx1 k :
  own nd nx -> n_hs nd1 = n_hs nd -> cli_mono (n_cli nx) (n_cli nx1) ->
  (forall j h0, j <> k -> nth_error (Server.s_handlers (n_srv nd)) j = Some h0 ->
     exists h1, nth_error (Server.s_handlers (n_srv nd1)) j = Some h1 /\ hrel h0 h1) ->
  length (Server.s_handlers (n_srv nd1)) = length (Server.s_handlers (n_srv nd)) ->
  (forall h j hr1, nth_error (n_hs nd) k = Some h -> hi_call h = Some j ->
     nth_error (Server.s_handlers (n_srv nd1)) k = Some hr1 -> run_st (Server.h_st hr1) = false ->
     ph_over (n_cli nx1) j = true) ->
  own nd1 nx1.
Proof.
  intros [A B C] Eh [L M] Ho EL Hk. constructor; rewrite ?Eh, ?L; try assumption.
  - intros k' h j Hk' Hj. destruct (A k' h j Hk' Hj) as [A1 A2]. split; [exact A1|].
    intros hr1 Hr1 Hs. destruct (Nat.eq_dec k' k) as [->|Hne]; [eapply Hk; eassumption|].
    assert (Hex : exists h0, nth_error (Server.s_handlers (n_srv nd)) k' = Some h0).
    { destruct (nth_error (Server.s_handlers (n_srv nd)) k') eqn:E0; [eauto|].
      apply nth_error_None in E0. rewrite <- EL in E0. apply nth_error_None in E0. congruence. }
    destruct Hex as (h0 & H0). destruct (Ho k' h0 Hne H0) as (h1 & H1 & Hrel).
    rewrite H1 in Hr1. injection Hr1 as <-. apply M, (A2 h0 H0). rewrite <- (hrel_run _ _ Hrel). exact Hs.
Qed.

Lemma nth_set_hcall_same k j l h :
  nth_error l k = Some h -> nth_error (set_hcall k j l) k = Some (mkhi (hi_dl h) (hi_tr h) (hi_body h) (Some j)).
Proof.
  intro E. unfold set_hcall. rewrite E. apply ClientLemmas.nth_error_set_nth_same, nth_error_Some. congruence.
Qed.
Lemma nth_set_hcall_other k j l k' : k' <> k -> nth_error (set_hcall k j l) k' = nth_error l k'.
Proof.
  intro H. unfold set_hcall. destruct (nth_error l k); [|reflexivity].
  apply ClientLemmas.nth_error_set_nth_other. congruence.
Qed.
Lemma length_set_hcall k j l : length (set_hcall k j l) = length l.
Proof. unfold set_hcall. destruct (nth_error l k); [apply ClientLemmas.set_nth_length|reflexivity]. Qed.

Lemma cnt_calls_set_hcall k j l h :
  nth_error l k = Some h -> hi_call h = None -> cnt_calls (set_hcall k j l) = S (cnt_calls l).
Proof.
  intros E Hn. unfold set_hcall, cnt_calls. rewrite E.
  revert k E. induction l as [|x r IH]; intros [|k] E; cbn in E; try discriminate.
  - injection E as ->. cbn. unfold has_call at 2. rewrite Hn. cbn. reflexivity.
  - cbn. destruct (has_call x); cbn; rewrite (IH k E); reflexivity.
Qed.

Lemma own_exec_new nd nd1 nx nx1 k h :
  own nd nx -> nth_error (n_hs nd) k = Some h -> hi_call h = None ->
  n_hs nd1 = set_hcall k (length (Client.calls (n_cli nx))) (n_hs nd) ->
  length (Client.calls (n_cli nx1)) = S (length (Client.calls (n_cli nx))) ->
  (forall j, j < length (Client.calls (n_cli nx)) -> ph_over (n_cli nx) j = true -> ph_over (n_cli nx1) j = true) ->
  (forall j h0, j <> k -> nth_error (Server.s_handlers (n_srv nd)) j = Some h0 ->
     exists h1, nth_error (Server.s_handlers (n_srv nd1)) j = Some h1 /\ hrel h0 h1) ->
  length (Server.s_handlers (n_srv nd1)) = length (Server.s_handlers (n_srv nd)) ->
  (forall hr1, nth_error (Server.s_handlers (n_srv nd1)) k = Some hr1 -> run_st (Server.h_st hr1) = false ->
     ph_over (n_cli nx1) (length (Client.calls (n_cli nx))) = true) ->
  own nd1 nx1.
Proof.
  intros [A B C] Ek En Eh L M Ho EL Hk. set (j0 := length (Client.calls (n_cli nx))) in *. constructor.
  - intros k' h' j Hk' Hj. rewrite Eh in Hk'. destruct (Nat.eq_dec k' k) as [->|Hne].
    + rewrite (nth_set_hcall_same _ _ _ _ Ek) in Hk'. injection Hk' as <-. cbn in Hj. injection Hj as <-.
      split; [rewrite L; lia|]. intros hr1 Hr1 Hs. eapply Hk; eassumption.
    + rewrite nth_set_hcall_other in Hk' by exact Hne. destruct (A k' h' j Hk' Hj) as [A1 A2].
      split; [rewrite L; lia|]. intros hr1 Hr1 Hs.
      assert (Hex : exists h0, nth_error (Server.s_handlers (n_srv nd)) k' = Some h0).
      { destruct (nth_error (Server.s_handlers (n_srv nd)) k') eqn:E0; [eauto|].
        apply nth_error_None in E0. rewrite <- EL in E0. apply nth_error_None in E0. congruence. }
      destruct Hex as (h0 & H0). destruct (Ho k' h0 Hne H0) as (h1 & H1 & Hrel).
      rewrite H1 in Hr1. injection Hr1 as <-. apply M; [exact A1|]. apply (A2 h0 H0).
      rewrite <- (hrel_run _ _ Hrel). exact Hs.
  - intros j Hj. rewrite L in Hj. rewrite Eh. destruct (Nat.eq_dec j j0) as [->|Hne].
    + exists k. eexists. split; [apply (nth_set_hcall_same _ _ _ _ Ek)|reflexivity].
    + destruct (B j ltac:(unfold j0 in *; lia)) as (k' & h' & Hk' & Hc). exists k', h'.
      split; [|exact Hc]. rewrite nth_set_hcall_other; [exact Hk'|]. intros ->. rewrite Ek in Hk'. congruence.
  - rewrite L, Eh, (cnt_calls_set_hcall _ _ _ _ Ek En), C. reflexivity.
Qed.

(* ------------------------------------------------------------------------------------------ *)
(* the component polls *)
Section Polls.
  Hypothesis HA : stmt_srv_poll.
  Hypothesis HB : stmt_srv_exec.

  Definition nowrap_at (ch : chain) (i : nat) : Prop :=
    forall nd, nth_error ch i = Some nd -> (Client.next_id (n_cli nd) + 1 < two64)%N.

  Lemma srv_same_refl nd nd' :
    n_hs nd' = n_hs nd -> n_srv nd' = n_srv nd -> srv_same nd nd'.
  Proof. intros E1 E2. split; [exact E1|]. rewrite E2. apply Forall2_refl, hrel_refl. Qed.

  Lemma cli_mono_refl c c' : Client.calls c' = Client.calls c -> cli_mono c c'.
  Proof. intro E. unfold cli_mono, ph_over, ClientProofsG1Rec.ph. rewrite E. auto. Qed.

  (* ---- the dispatch of node i ---- *)
  Lemma gd_poll_dispatch m ch i ch' l :
    good m ch -> Chain.poll_dispatch i ch = (ch', l) ->
    (mo_tainted (fold_left mon_obs l m) = false -> good (fold_left mon_obs l m) ch') /\
    length ch' = length ch /\ (forall j, j <> i -> nth_error ch' j = nth_error ch j) /\
    (forall nd, nth_error ch i = Some nd -> filter is_event l = [] ->
       exists nd', nth_error ch' i = Some nd' /\ node_ok (mo_now m) nd' /\
         Client.cancels (n_cli nd') = [] /\
         n_srv nd' = n_srv nd /\ n_hs nd' = n_hs nd /\
         length (Client.calls (n_cli nd')) = length (Client.calls (n_cli nd)) /\
         (forall j, ph_over (n_cli nd') j = ph_over (n_cli nd) j)).
  Proof.
    intros G E. unfold Chain.poll_dispatch in E. destruct (nth_error ch i) as [nd|] eqn:Ei.
    - destruct (cstep nd Client.PollDispatch) as [nd1 l1] eqn:ES. pinj E.
      destruct (cstep_dispatch _ _ _ _ (gd_node _ _ G i nd Ei) ES) as (lg & r & a & b & -> & E1 & E2 & E3 & R).
      cbn [flat_map tr_cobs app]. pose proof (nth_error_lt _ _ _ Ei) as Li.
      split; [|split; [apply length_set_node|split; [intros j Hj; apply nth_set_node_other; congruence|]]].
      + destruct r as [d| |]; cbn [fold_left mon_obs].
        * cbn. discriminate.
        * intros _. destruct R as (R1 & R2 & R3 & R4 & R5).
          apply (good_neutral [KWire i (wire_of lg); KDisp i Client.DPending; KCGauge i a b]); [reflexivity|].
          eapply good_upd; [exact G|exact Ei|exact R1| |apply srv_same_refl; assumption].
          split; [exact R4|]. intros j Hj. rewrite R3. exact Hj.
        * cbn. discriminate.
      + intros x Hx Hev. injection Hx as <-. exists nd1. rewrite nth_set_node_same by exact Li.
        destruct r as [d| |]; cbn in Hev; try (destruct (wire_of lg); discriminate).
        destruct R as (R1 & R2 & R3 & R4 & R5).
        split; [reflexivity|]. split; [exact R1|]. split; [exact R2|]. split; [exact E1|]. split; [exact E2|]. split; [exact R4|exact R3].
    - pinj E. cbn. split; [intros _; exact G|]. split; [reflexivity|]. split; [reflexivity|]. intros nd Hn. discriminate.
  Qed.

  (* ---- the request stream of node i ---- *)
  Lemma gauges_obs i (s : sstate) :
    flat_map (tr_sobs i) (Server.gauges s) =
    if Server.s_dropped s then []
    else KSGauge i (length (Server.s_inflight s)) (length (Server.s_timers s))
           :: (if Server.s_bad s then [KOracle i] else []).
  Proof. unfold Server.gauges. destruct (Server.s_dropped s); [reflexivity|]. destruct (Server.s_bad s); reflexivity. Qed.

  Lemma gauges_neutral_or_taint i (s : sstate) :
    forallb neutral (flat_map (tr_sobs i) (Server.gauges s)) = true \/
    exists e, In e (flat_map (tr_sobs i) (Server.gauges s)) /\ taints e = true.
  Proof.
    rewrite gauges_obs. destruct (Server.s_dropped s); [left; reflexivity|].
    destruct (Server.s_bad s); [right; exists (KOracle i); split; [right; left; reflexivity|reflexivity]|left; reflexivity].
  Qed.

  Lemma gauges_no_event i (s : sstate) :
    filter is_event (flat_map (tr_sobs i) (Server.gauges s)) = [] \/
    exists e, In e (flat_map (tr_sobs i) (Server.gauges s)) /\ is_event e = true.
  Proof.
    rewrite gauges_obs. destruct (Server.s_dropped s); [left; reflexivity|].
    destruct (Server.s_bad s); [right; exists (KOracle i); split; [right; left; reflexivity|reflexivity]|left; reflexivity].
  Qed.

  Lemma yielded_gauges (s : sstate) :
    flat_map (fun o => match o with
                       | Server.OYield _ _ dl tr body => [mkhi dl tr body None]
                       | _ => [] end) (Server.gauges s) = [].
  Proof. unfold Server.gauges. destruct (Server.s_dropped s); [reflexivity|]. destruct (Server.s_bad s); reflexivity. Qed.
  Lemma over_gauges (s : sstate) :
    existsb (fun o => match o with
                      | Server.OStreamEnd | Server.OStreamErr _ => true
                      | _ => false end) (Server.gauges s) = false.
  Proof. unfold Server.gauges. destruct (Server.s_dropped s); [reflexivity|]. destruct (Server.s_bad s); reflexivity. Qed.

  Lemma gd_poll_requests m ch i ch' l :
    good m ch -> poll_requests i ch = (ch', l) ->
    (mo_tainted (fold_left mon_obs l m) = false -> good (fold_left mon_obs l m) ch') /\
    length ch' = length ch /\ (forall j, j <> i -> nth_error ch' j = nth_error ch j) /\
    (forall nd, nth_error ch i = Some nd -> filter is_event l = [] ->
       exists nd', nth_error ch' i = Some nd' /\ node_ok (mo_now m) nd' /\
         n_cli nd' = n_cli nd /\ n_hs nd' = n_hs nd /\
         Forall2 hrel (Server.s_handlers (n_srv nd)) (Server.s_handlers (n_srv nd')) /\
         l_c2s (n_link nd') = [] /\ Server.s_respq (n_srv nd') = [] /\
         (forall id w, In (id, w) (Server.s_timers (n_srv nd')) -> (mo_now m < w)%N)).
  Proof.
    intros G E. unfold poll_requests in E. destruct (nth_error ch i) as [nd|] eqn:Ei.
    2:{ pinj E. cbn. split; [intros _; exact G|]. split; [reflexivity|]. split; [reflexivity|]. intros nd Hn. discriminate. }
    pose proof (gd_node _ _ G i nd Ei) as NO. pose proof (nth_error_lt _ _ _ Ei) as Li.
    rewrite (no_over _ _ NO), (sv_dropped _ (no_srv _ _ NO)) in E. cbn [orb] in E.
    destruct (sstep nd Server.OPoll) as [nd1 l1] eqn:ES. pinj E.
    destruct (sstep_poll HA _ _ _ _ NO ES) as (log & X & -> & E1 & E2 & E3 & R).
    cbn [flat_map tr_sobs app existsb orb]. rewrite yielded_gauges, over_gauges.
    split; [|split; [apply length_set_node|split; [intros j Hj; apply nth_set_node_other; congruence|]]].
    - intro HT.
      destruct (gauges_neutral_or_taint i (n_srv nd1)) as [GN|(e & He & Hte)].
      2:{ exfalso. rewrite (fold_taints _ m e) in HT; [discriminate| |exact Hte].
          apply in_or_app. right. exact He. }
      destruct X as [lc|k id dl tr body| | |a| | |k|k b|k|k|k|a b|]; try contradiction;
        cbn [tr_sobs app flat_map] in HT |- *.
      + (* a request is yielded *)
        destruct R as (Ek & Hdl & hs1 & h & F & Eh & X1 & S1 & N1).
        apply good_neutral; [cbn [forallb neutral andb]; exact GN|].
        rewrite E3, (no_over _ _ NO). cbn [orb app].
        eapply good_yield with (hs1 := hs1); [exact G|exact Ei| |exact E1|exact F|exact Eh|reflexivity|rewrite E2; reflexivity|reflexivity].
        destruct NO as [C X0 S0 Sn Ov Hl Hc]. constructor; cbn [n_cli n_link n_srv n_hs n_over].
        * rewrite E1. exact C.
        * rewrite E1. exact X1.
        * exact S1.
        * exact N1.
        * reflexivity.
        * rewrite E2, Eh, !app_length, (Forall2_len _ _ _ F), Hl. reflexivity.
        * intros x Hx. rewrite E2 in Hx. apply in_app_or in Hx. destruct Hx as [Hx|[<-|[]]]; [apply Hc, Hx|exact Hdl].
      + (* pending *)
        destruct R as (F & X1 & S1 & N1 & _).
        apply good_neutral; [cbn [forallb neutral andb]; exact GN|].
        rewrite E3, (no_over _ _ NO), app_nil_r. cbn [orb].
        eapply good_upd; [exact G|exact Ei| | |].
        * destruct NO as [C X0 S0 Sn Ov Hl Hc]. constructor; cbn [n_cli n_link n_srv n_hs n_over].
          -- rewrite E1. exact C.
          -- rewrite E1. exact X1.
          -- exact S1.
          -- exact N1.
          -- reflexivity.
          -- rewrite E2, Hl. symmetry. apply (Forall2_len _ _ _ F).
          -- rewrite E2. exact Hc.
        * cbn [n_cli]. rewrite E1. split; [reflexivity|auto].
        * split; [exact E2|exact F].
      + exfalso. rewrite (fold_taints _ m (KStream i KEnd)) in HT; [discriminate|left; reflexivity|reflexivity].
      + exfalso. rewrite (fold_taints _ m (KStream i (KErr a))) in HT; [discriminate|left; reflexivity|reflexivity].
      + exfalso. rewrite (fold_taints _ m (KStream i KFuel)) in HT; [discriminate|left; reflexivity|reflexivity].
    - intros x Hx Hev. injection Hx as <-.
      rewrite nth_set_node_same by exact Li. eexists. split; [reflexivity|].
      destruct X as [lc|k id dl tr body| | |a| | |k|k b|k|k|k|a b|]; try contradiction;
        cbn [tr_sobs app flat_map filter is_event] in Hev; try discriminate.
      destruct R as (F & X1 & S1 & N1 & Q1 & Q2 & Q3).
      cbn [n_cli n_link n_srv n_hs n_over]. rewrite app_nil_r.
      split; [|split; [exact E1|split; [exact E2|split; [exact F|split; [exact Q1|split; [exact Q2|exact Q3]]]]]].
      destruct NO as [C X0 S0 Sn Ov Hl Hc]. constructor; cbn [n_cli n_link n_srv n_hs n_over].
      + rewrite E1. exact C.
      + rewrite E1. exact X1.
      + exact S1.
      + exact N1.
      + rewrite E3, Ov. reflexivity.
      + rewrite E2, Hl. symmetry. apply (Forall2_len _ _ _ F).
      + rewrite E2. exact Hc.
  Qed.

  (* ---- the execute() future of incarnation k of node i ---- *)
  Lemma exec_node T nd k st hr nd1 l1 :
    node_ok T nd -> nth_error (Server.s_handlers (n_srv nd)) k = Some hr ->
    sstep nd (Server.OHandlerPoll k st) = (nd1, l1) ->
    exists obs hr', l1 = obs ++ Server.gauges (n_srv nd1) /\
      node_ok T nd1 /\ n_cli nd1 = n_cli nd /\ n_hs nd1 = n_hs nd /\ n_link nd1 = n_link nd /\
      (forall j h0, j <> k -> nth_error (Server.s_handlers (n_srv nd)) j = Some h0 ->
         exists h1, nth_error (Server.s_handlers (n_srv nd1)) j = Some h1 /\ hrel h0 h1) /\
      nth_error (Server.s_handlers (n_srv nd1)) k = Some hr' /\
      match Server.h_st hr with
      | Server.HDone | Server.HGone => obs = [] /\ Server.h_st hr' = Server.h_st hr
      | Server.HYielded | Server.HRunning =>
        if is_aborted (n_srv nd) hr then
          Server.h_st hr' = Server.HDone /\
          obs = (match Server.h_st hr with Server.HRunning => [Server.OHDropped k] | _ => [] end)
                ++ [Server.OExecReady k]
        else
          match st with
          | Server.SRun => Server.h_st hr' = Server.HRunning /\ obs = [Server.OHPolled k; Server.OExecPending k]
          | Server.SFinish v =>
            run_st (Server.h_st hr') = false /\
            exists tl, obs = Server.OHPolled k :: Server.OHDone k (Server.BOk v) :: tl
          | Server.SFail =>
            run_st (Server.h_st hr') = false /\
            exists tl, obs = Server.OHPolled k :: Server.OHDone k Server.BErr :: tl
          end
      | Server.HWait _ | Server.HPermit _ =>
        run_st (Server.h_st hr') = false /\ (obs = [Server.OExecReady k] \/ obs = [Server.OExecPending k])
      end.
  Proof.
    intros NO Hk ES.
    destruct (sstep_exec HB _ _ _ _ _ _ NO ES) as (obs & -> & E1 & E2 & E3 & E4 & EE & NO1).
    destruct NO as [C X S Sn Ov Hl Hc].
    destruct (HB T (n_cli nd) (Server.set_t (n_srv nd) (n_link nd)) k st _ _
                (cross_set_t _ _ _ _ _ (n_link nd) X) (srv_inv_set_t _ (n_link nd) S) EE)
      as (_ & _ & _ & _ & _ & _ & _ & Ho & Hm).
    cbn [Server.s_handlers Server.set_t Server.s_aborted] in Ho, Hm. rewrite Hk in Hm.
    destruct Hm as (hr' & Hk' & _ & _ & Hm).
    exists obs, hr'. split; [reflexivity|]. split; [exact NO1|]. split; [exact E1|]. split; [exact E2|].
    split; [exact E4|]. split; [exact Ho|]. split; [exact Hk'|].
    unfold is_aborted. destruct (Server.h_st hr) eqn:Est.
    - destruct (existsb _ _); [exact Hm|]. destruct st; [exact Hm| |].
      + destruct Hm as [[Hm|Hm] Ht]; (split; [rewrite Hm; reflexivity|exact Ht]).
      + destruct Hm as [[Hm|Hm] Ht]; (split; [rewrite Hm; reflexivity|exact Ht]).
    - destruct (existsb _ _); [exact Hm|]. destruct st; [exact Hm| |].
      + destruct Hm as [[Hm|Hm] Ht]; (split; [rewrite Hm; reflexivity|exact Ht]).
      + destruct Hm as [[Hm|Hm] Ht]; (split; [rewrite Hm; reflexivity|exact Ht]).
    - destruct Hm as [[Hm Ho']|[Hm Ho']]; (split; [rewrite Hm; reflexivity|auto]).
    - destruct Hm as [[Hm Ho']|[Hm Ho']]; (split; [rewrite Hm; reflexivity|auto]).
    - destruct Hm as [Hm Ho']. split; [exact Ho'|]. 
      rewrite Hm in Hk'. cbn in Hk'. rewrite Hk in Hk'. injection Hk' as <-. exact Est.
    - destruct Hm as [Hm Ho']. split; [exact Ho'|].
      rewrite Hm in Hk'. cbn in Hk'. rewrite Hk in Hk'. injection Hk' as <-. exact Est.
  Qed.

  Definition sends (i : nat) (l1 : list Server.obs) : list (nat * nat) :=
    flat_map (fun o => match o with Server.OHDone k _ | Server.OHDropped k => [(i, k)] | _ => [] end) l1.

  Lemma handler_mon m i k first l1 :
    first = [KHStart i k] \/ first = [] ->
    let m' := fold_left mon_obs (first ++ flat_map (tr_sobs i) l1) m in
    mo_now m' = mo_now m /\ mo_calls m' = mo_calls m /\
    (forall i0 k0, memp (i0, k0) (mo_started m') = true ->
       memp (i0, k0) (mo_started m) = true \/ (i0 = i /\ k0 = k)) /\
    (forall p, memp p (mo_ended m) = true -> memp p (mo_ended m') = true) /\
    (forall p, memp p (mo_started m') = memp p (starts first) || memp p (mo_started m)) /\
    (forall p, memp p (mo_ended m') = memp p (sends i l1) || memp p (mo_ended m)).
  Proof.
    intros Hf m'. subst m'.
    assert (ST : starts (first ++ flat_map (tr_sobs i) l1) = starts first).
    { unfold starts at 1. rewrite flat_map_app. fold (starts first). fold (starts (flat_map (tr_sobs i) l1)).
      rewrite starts_sobs, app_nil_r. reflexivity. }
    assert (EN : ends (first ++ flat_map (tr_sobs i) l1) = sends i l1).
    { unfold ends at 1. rewrite flat_map_app. fold (ends first). fold (ends (flat_map (tr_sobs i) l1)).
      rewrite ends_sobs. destruct Hf as [-> | ->]; reflexivity. }
    split; [apply fold_mon_obs_now|]. split.
    - apply fold_calls_same. unfold resolves. rewrite existsb_app. fold (resolves (flat_map (tr_sobs i) l1)).
      rewrite resolves_sobs. destruct Hf as [-> | ->]; reflexivity.
    - split; [|split; [|split]].
      + intros i0 k0 H. rewrite fold_started, ST in H. apply orb_true_iff in H. destruct H as [H|H]; [|left; exact H].
        right. destruct Hf as [-> | ->]; cbn in H; [|discriminate].
        rewrite orb_false_r in H. apply andb_true_iff in H. destruct H as [H1 H2].
        apply Nat.eqb_eq in H1, H2. auto.
      + intros p H. rewrite fold_ended, H. apply orb_true_r.
      + intro p. rewrite fold_started, ST. reflexivity.
      + intro p. rewrite fold_ended, EN. reflexivity.
  Qed.

  Lemma sobs_app i a b : flat_map (tr_sobs i) (a ++ b) = flat_map (tr_sobs i) a ++ flat_map (tr_sobs i) b.
  Proof. apply flat_map_app. Qed.

  Lemma memp_refl i k l : memp (i, k) ((i, k) :: l) = true.
  Proof. cbn. rewrite !Nat.eqb_refl. reflexivity. Qed.

  (* the observer's side of a handler poll, given what the execute() step reported *)
  Lemma handler_S3 m i k first obs (s1 : sstate) hr hr' :
    first = [KHStart i k] \/ first = [] ->
    (memp (i, k) (mo_started m) = true -> memp (i, k) (mo_ended m) = true \/ Server.h_st hr = Server.HRunning) ->
    (* either the incarnation runs on, or this poll reported its end, or it was not running before *)
    (Server.h_st hr' = Server.HRunning \/ memp (i, k) (sends i obs) = true \/
     (first = [] /\ Server.h_st hr <> Server.HRunning)) ->
    let m' := fold_left mon_obs (first ++ flat_map (tr_sobs i) (obs ++ Server.gauges s1)) m in
    memp (i, k) (mo_started m') = true ->
    memp (i, k) (mo_ended m') = true \/ Server.h_st hr' = Server.HRunning.
  Proof.
    intros Hf Hold Hnew m' Hs. subst m'.
    destruct (handler_mon m i k first (obs ++ Server.gauges s1) Hf) as (_ & _ & _ & _ & ES & EE).
    rewrite EE. rewrite ES in Hs.
    assert (SE : memp (i, k) (sends i (obs ++ Server.gauges s1)) = memp (i, k) (sends i obs)).
    { unfold sends. rewrite flat_map_app, memp_app.
      replace (flat_map _ (Server.gauges s1)) with (@nil (nat * nat)); [apply orb_false_r|].
      unfold Server.gauges. destruct (Server.s_dropped s1); [reflexivity|]. destruct (Server.s_bad s1); reflexivity. }
    rewrite SE. destruct Hnew as [H|[H|[H1 H2]]]; [right; exact H|left; rewrite H; reflexivity|].
    subst first. cbn in Hs. destruct (Hold Hs) as [He|He]; [left; rewrite He; apply orb_true_r|contradiction].
  Qed.

  (* a step that leaves node i+1 alone *)
  Lemma handler_solo m ch i k nd hr first obs hr' nd1 :
    good m ch -> nth_error ch i = Some nd ->
    nth_error (Server.s_handlers (n_srv nd)) k = Some hr ->
    first = [KHStart i k] \/ first = [] ->
    node_ok (mo_now m) nd1 -> n_cli nd1 = n_cli nd -> n_hs nd1 = n_hs nd ->
    (forall j h0, j <> k -> nth_error (Server.s_handlers (n_srv nd)) j = Some h0 ->
       exists h1, nth_error (Server.s_handlers (n_srv nd1)) j = Some h1 /\ hrel h0 h1) ->
    nth_error (Server.s_handlers (n_srv nd1)) k = Some hr' ->
    (Server.h_st hr' = Server.HRunning \/ memp (i, k) (sends i obs) = true \/
     (first = [] /\ Server.h_st hr <> Server.HRunning)) ->
    (forall nx, nth_error ch (S i) = Some nx -> own nd1 nx) ->
    good (fold_left mon_obs (first ++ flat_map (tr_sobs i) (obs ++ Server.gauges (n_srv nd1))) m)
         (set_node i nd1 ch).
  Proof.
    intros G Ei Ek Hf NO1 Ec Eh Ho Hk' Hnew Hown. pose proof (nth_error_lt _ _ _ Ei) as Li.
    assert (Hold : memp (i, k) (mo_started m) = true ->
                   memp (i, k) (mo_ended m) = true \/ Server.h_st hr = Server.HRunning).
    { intro H. destruct (mk_started _ _ (gd_mon _ _ G) i k H) as [He|(x & hx & Hx & Hr & Hst)]; [left; exact He|right].
      rewrite Ei in Hx. injection Hx as <-. rewrite Ek in Hr. injection Hr as <-. exact Hst. }
    destruct (handler_mon m i k first (obs ++ Server.gauges (n_srv nd1)) Hf) as (M1 & M2 & M3 & M4 & _ & _).
    eapply (good_rebuild m _ ch (set_node i nd1 ch) i k nd nd1); try eassumption.
    - apply nth_set_node_same, Li.
    - apply length_set_node.
    - intros j Hj _. apply nth_set_node_other. congruence.
    - intros nx Hx. exists nx. rewrite nth_set_node_other by lia.
      split; [exact Hx|]. split; [apply (gd_node _ _ G (S i) nx Hx)|]. split; [reflexivity|]. split; [reflexivity|].
      apply Hown, Hx.
    - intro Hs. destruct (handler_S3 m i k first obs (n_srv nd1) hr hr' Hf Hold Hnew Hs) as [H|H]; [left; exact H|].
      right. exists hr'. auto.
  Qed.

  (* a step that also changes the client of node i+1 *)
  Lemma handler_duo m ch i k nd hr nx first obs hr' nd1 nx1 :
    good m ch -> nth_error ch i = Some nd -> nth_error ch (S i) = Some nx ->
    nth_error (Server.s_handlers (n_srv nd)) k = Some hr ->
    first = [KHStart i k] \/ first = [] ->
    node_ok (mo_now m) nd1 -> n_cli nd1 = n_cli nd ->
    (forall j h0, j <> k -> nth_error (Server.s_handlers (n_srv nd)) j = Some h0 ->
       exists h1, nth_error (Server.s_handlers (n_srv nd1)) j = Some h1 /\ hrel h0 h1) ->
    nth_error (Server.s_handlers (n_srv nd1)) k = Some hr' ->
    (Server.h_st hr' = Server.HRunning \/ memp (i, k) (sends i obs) = true \/
     (first = [] /\ Server.h_st hr <> Server.HRunning)) ->
    node_ok (mo_now m) nx1 -> n_srv nx1 = n_srv nx -> n_hs nx1 = n_hs nx -> own nd1 nx1 ->
    good (fold_left mon_obs (first ++ flat_map (tr_sobs i) (obs ++ Server.gauges (n_srv nd1))) m)
         (set_node (S i) nx1 (set_node i nd1 ch)).
  Proof.
    intros G Ei Ex Ek Hf NO1 Ec Ho Hk' Hnew NOx Es Ehs Hown. pose proof (nth_error_lt _ _ _ Ei) as Li.
    pose proof (nth_error_lt _ _ _ Ex) as Lx.
    assert (Hold : memp (i, k) (mo_started m) = true ->
                   memp (i, k) (mo_ended m) = true \/ Server.h_st hr = Server.HRunning).
    { intro H. destruct (mk_started _ _ (gd_mon _ _ G) i k H) as [He|(x & hx & Hx & Hr & Hst)]; [left; exact He|right].
      rewrite Ei in Hx. injection Hx as <-. rewrite Ek in Hr. injection Hr as <-. exact Hst. }
    destruct (handler_mon m i k first (obs ++ Server.gauges (n_srv nd1)) Hf) as (M1 & M2 & M3 & M4 & _ & _).
    eapply (good_rebuild m _ ch _ i k nd nd1); try eassumption.
    - rewrite nth_set_node_other by lia. apply nth_set_node_same, Li.
    - rewrite !length_set_node. reflexivity.
    - intros j Hj Hj2. rewrite !nth_set_node_other by congruence. reflexivity.
    - intros nx0 Hx0. rewrite Ex in Hx0. injection Hx0 as <-. exists nx1.
      split; [apply nth_set_node_same; rewrite length_set_node; exact Lx|]. auto.
    - intro Hs. destruct (handler_S3 m i k first obs (n_srv nd1) hr hr' Hf Hold Hnew Hs) as [H|H]; [left; exact H|].
      right. exists hr'. auto.
  Qed.

  Lemma hlen_eq T nd nd1 : node_ok T nd -> node_ok T nd1 -> n_hs nd1 = n_hs nd ->
    length (Server.s_handlers (n_srv nd1)) = length (Server.s_handlers (n_srv nd)).
  Proof. intros A B E. rewrite <- (no_hlen _ _ A), <- (no_hlen _ _ B), E. reflexivity. Qed.

  (* ---- case: the incarnation is aborted (it has not finished): execute() drops it ---- *)
  Lemma gd_ph_aborted m ch i k nd hr nd1 l1 :
    good m ch -> nth_error ch i = Some nd ->
    nth_error (Server.s_handlers (n_srv nd)) k = Some hr ->
    run_st (Server.h_st hr) = true -> is_aborted (n_srv nd) hr = true ->
    sstep nd (Server.OHandlerPoll k Server.SRun) = (nd1, l1) ->
    good (fold_left mon_obs (flat_map (tr_sobs i) l1) m)
      (match option_map hi_call (nth_error (n_hs nd) k), nth_error (set_node i nd1 ch) (S i) with
       | Some (Some j), Some nx =>
         set_node (S i) (fst (cstep nx (Client.DropCall j))) (set_node i nd1 ch)
       | _, _ => set_node i nd1 ch
       end).
  Proof.
    intros G Ei Ek Hrun EA ES. pose proof (gd_node _ _ G i nd Ei) as NO.
    destruct (exec_node _ _ _ _ _ _ _ NO Ek ES) as (obs & hr' & -> & NO1 & Ec & Eh & El & Ho & Hk' & Hm).
    assert (Hm' : Server.h_st hr' = Server.HDone /\
                  obs = (match Server.h_st hr with Server.HRunning => [Server.OHDropped k] | _ => [] end)
                        ++ [Server.OExecReady k]).
    { destruct (Server.h_st hr); try discriminate; rewrite EA in Hm; exact Hm. }
    clear Hm. destruct Hm' as [Hst' Hobs].
    assert (Hnew : Server.h_st hr' = Server.HRunning \/ memp (i, k) (sends i obs) = true \/
                   ([] = @nil cobs /\ Server.h_st hr <> Server.HRunning)).
    { destruct (Server.h_st hr) eqn:Est; try discriminate.
      - right. right. split; [reflexivity|discriminate].
      - right. left. rewrite Hobs. cbn. rewrite !Nat.eqb_refl. reflexivity. }
    change (flat_map (tr_sobs i) (obs ++ Server.gauges (n_srv nd1)))
      with ([] ++ flat_map (tr_sobs i) (obs ++ Server.gauges (n_srv nd1))).
    assert (OwnSame : forall nx, nth_error ch (S i) = Some nx ->
              (forall h j, nth_error (n_hs nd) k = Some h -> hi_call h = Some j -> False) -> own nd1 nx).
    { intros nx Hx Hnone. eapply own_exec; [apply (gd_own _ _ G i nd nx Ei Hx)|exact Eh|split; [reflexivity|auto]|exact Ho| |].
      - eapply hlen_eq; eassumption.
      - intros h j hr1 Hh Hj _ _. exfalso. eapply Hnone; eassumption. }
    destruct (option_map hi_call (nth_error (n_hs nd) k)) as [[j|]|] eqn:EH.
    - destruct (nth_error (set_node i nd1 ch) (S i)) as [nx|] eqn:EX.
      + rewrite nth_set_node_other in EX by lia.
        destruct (cstep nx (Client.DropCall j)) as [nx1 lx] eqn:EC. cbn [fst].
        destruct (cstep_drop_call _ _ _ _ _ (gd_node _ _ G (S i) nx EX) EC)
          as (_ & Es & Ehs & _ & NOx & Lx & Mx & Px & _).
        eapply (handler_duo m ch i k nd hr nx [] obs hr' nd1 nx1); try eassumption; try (right; reflexivity).
        eapply own_exec; [apply (gd_own _ _ G i nd nx Ei EX)|exact Eh|split; [exact Lx|exact Mx]|exact Ho| |].
        * eapply hlen_eq; eassumption.
        * intros h j0 hr1 Hh Hj0 _ _. unfold option_map in EH. rewrite Hh in EH. injection EH as EH.
          rewrite Hj0 in EH. injection EH as <-. apply Px.
          apply (proj1 (ow_call _ _ (gd_own _ _ G i nd nx Ei EX) k h j0 Hh Hj0)).
      + eapply (handler_solo m ch i k nd hr [] obs hr' nd1); try eassumption; try (right; reflexivity).
        intros nx Hx. rewrite nth_set_node_other in EX by lia. congruence.
    - eapply (handler_solo m ch i k nd hr [] obs hr' nd1); try eassumption; try (right; reflexivity).
      intros nx Hx. apply OwnSame; [exact Hx|]. intros h j Hh Hj. unfold option_map in EH. rewrite Hh in EH. congruence.
    - eapply (handler_solo m ch i k nd hr [] obs hr' nd1); try eassumption; try (right; reflexivity).
      intros nx Hx. apply OwnSame; [exact Hx|]. intros h j Hh Hj. unfold option_map in EH. rewrite Hh in EH. discriminate.
  Qed.

  (* ---- case: execute() is sending the response (the handler has finished) ---- *)
  Lemma gd_ph_sending m ch i k nd hr nd1 l1 :
    good m ch -> nth_error ch i = Some nd ->
    nth_error (Server.s_handlers (n_srv nd)) k = Some hr ->
    (exists b, Server.h_st hr = Server.HWait b \/ Server.h_st hr = Server.HPermit b) ->
    sstep nd (Server.OHandlerPoll k Server.SRun) = (nd1, l1) ->
    good (fold_left mon_obs (flat_map (tr_sobs i) l1) m) (set_node i nd1 ch).
  Proof.
    intros G Ei Ek (b & Hb) ES. pose proof (gd_node _ _ G i nd Ei) as NO.
    destruct (exec_node _ _ _ _ _ _ _ NO Ek ES) as (obs & hr' & -> & NO1 & Ec & Eh & El & Ho & Hk' & Hm).
    assert (Hrun : run_st (Server.h_st hr) = false) by (destruct Hb as [-> | ->]; reflexivity).
    assert (Hrun' : run_st (Server.h_st hr') = false) by (destruct Hb as [E|E]; rewrite E in Hm; apply Hm).
    change (flat_map (tr_sobs i) (obs ++ Server.gauges (n_srv nd1)))
      with ([] ++ flat_map (tr_sobs i) (obs ++ Server.gauges (n_srv nd1))).
    eapply (handler_solo m ch i k nd hr [] obs hr' nd1); try eassumption; try (right; reflexivity).
    - right. right. split; [reflexivity|]. destruct Hb as [-> | ->]; discriminate.
    - intros nx Hx. eapply own_exec; [apply (gd_own _ _ G i nd nx Ei Hx)|exact Eh|split; [reflexivity|auto]|exact Ho| |].
      + eapply hlen_eq; eassumption.
      + intros h j hr1 Hh Hj _ _. apply (proj2 (ow_call _ _ (gd_own _ _ G i nd nx Ei Hx) k h j Hh Hj) hr Ek Hrun).
  Qed.

  (* ---- case: a leaf handler is polled ---- *)
  Lemma gd_ph_leaf m ch i k nd hr st nd1 l1 :
    good m ch -> nth_error ch i = Some nd -> nth_error ch (S i) = None ->
    nth_error (Server.s_handlers (n_srv nd)) k = Some hr ->
    run_st (Server.h_st hr) = true -> is_aborted (n_srv nd) hr = false ->
    sstep nd (Server.OHandlerPoll k st) = (nd1, l1) ->
    good (fold_left mon_obs ((match Server.h_st hr with Server.HYielded => [KHStart i k] | _ => [] end)
                             ++ flat_map (tr_sobs i) l1) m) (set_node i nd1 ch).
  Proof.
    intros G Ei Ex Ek Hrun EA ES. pose proof (gd_node _ _ G i nd Ei) as NO.
    destruct (exec_node _ _ _ _ _ _ _ NO Ek ES) as (obs & hr' & -> & NO1 & Ec & Eh & El & Ho & Hk' & Hm).
    assert (Hnew : Server.h_st hr' = Server.HRunning \/ memp (i, k) (sends i obs) = true).
    { destruct (Server.h_st hr); try discriminate; rewrite EA in Hm; destruct st.
      - left. apply Hm.
      - right. destruct Hm as (_ & tl & ->). cbn. rewrite !Nat.eqb_refl. reflexivity.
      - right. destruct Hm as (_ & tl & ->). cbn. rewrite !Nat.eqb_refl. reflexivity.
      - left. apply Hm.
      - right. destruct Hm as (_ & tl & ->). cbn. rewrite !Nat.eqb_refl. reflexivity.
      - right. destruct Hm as (_ & tl & ->). cbn. rewrite !Nat.eqb_refl. reflexivity. }
    eapply (handler_solo m ch i k nd hr _ obs hr' nd1); try eassumption.
    - destruct (Server.h_st hr); auto.
    - destruct Hnew; auto.
    - intros nx Hx. congruence.
  Qed.

  Lemma In_set_hcall k j l h' : In h' (set_hcall k j l) -> exists h0, In h0 l /\ hi_dl h' = hi_dl h0.
  Proof.
    unfold set_hcall. destruct (nth_error l k) as [h|] eqn:E; [|intro H; eauto].
    revert k E. induction l as [|x r IH]; intros [|k] E H; cbn in *; try discriminate.
    - injection E as ->. destruct H as [Hx|H]; [exists h; rewrite <- Hx; auto|exists h'; auto].
    - destruct H as [Hx|H]; [exists h'; rewrite <- Hx; auto|]. destruct (IH k E H) as (h0 & H0 & Hd). exists h0. auto.
  Qed.

  (* ---- case: the async block of an inner node is polled ---- *)
  Lemma gd_ph_inner m ch i k nd nx hr nd1 nx1 st1 nd2 l1 :
    good m ch -> nth_error ch i = Some nd -> nth_error ch (S i) = Some nx ->
    nth_error (Server.s_handlers (n_srv nd)) k = Some hr ->
    run_st (Server.h_st hr) = true -> is_aborted (n_srv nd) hr = false ->
    (Client.next_id (n_cli nx) + 1 < two64)%N ->
    inner_poll k nd nx = (nd1, nx1, st1) ->
    sstep nd1 (Server.OHandlerPoll k st1) = (nd2, l1) ->
    good (fold_left mon_obs ((match Server.h_st hr with Server.HYielded => [KHStart i k] | _ => [] end)
                             ++ flat_map (tr_sobs i) l1) m)
         (set_node (S i) nx1 (set_node i nd2 ch)).
  Proof.
    intros G Ei Ex Ek Hrun EA NW EI ES.
    pose proof (gd_node _ _ G i nd Ei) as NO. pose proof (gd_node _ _ G (S i) nx Ex) as NOx.
    pose proof (gd_own _ _ G i nd nx Ei Ex) as OW.
    assert (Hh : exists h, nth_error (n_hs nd) k = Some h).
    { destruct (nth_error (n_hs nd) k) eqn:E0; [eauto|]. apply nth_error_None in E0.
      rewrite (no_hlen _ _ NO) in E0. apply nth_error_None in E0. congruence. }
    destruct Hh as (h & Hh). unfold inner_poll in EI. rewrite Hh in EI.
    assert (Hf : (match Server.h_st hr with Server.HYielded => [KHStart i k] | _ => [] end) = [KHStart i k] \/
                 (match Server.h_st hr with Server.HYielded => [KHStart i k] | _ => [] end) = []).
    { destruct (Server.h_st hr); auto. }
    (* what the execute() step says, once the handler's step st1 is known *)
    assert (Hexec : forall ndA, n_srv ndA = n_srv nd -> n_link ndA = n_link nd -> n_cli ndA = n_cli nd ->
              node_ok (mo_now m) ndA -> sstep ndA (Server.OHandlerPoll k st1) = (nd2, l1) ->
              exists obs hr', l1 = obs ++ Server.gauges (n_srv nd2) /\ node_ok (mo_now m) nd2 /\
                n_cli nd2 = n_cli nd /\ n_hs nd2 = n_hs ndA /\
                (forall j h0, j <> k -> nth_error (Server.s_handlers (n_srv nd)) j = Some h0 ->
                   exists h1, nth_error (Server.s_handlers (n_srv nd2)) j = Some h1 /\ hrel h0 h1) /\
                nth_error (Server.s_handlers (n_srv nd2)) k = Some hr' /\
                (Server.h_st hr' = Server.HRunning \/ memp (i, k) (sends i obs) = true) /\
                (st1 = Server.SRun \/ run_st (Server.h_st hr') = false) /\
                (run_st (Server.h_st hr') = false -> st1 <> Server.SRun)).
    { intros ndA Es El Ecl NOA ESA. rewrite <- Es in Ek.
      destruct (exec_node _ _ _ _ _ _ _ NOA Ek ESA) as (obs & hr' & -> & NO2 & Ec & Eh & _ & Ho & Hk' & Hm).
      exists obs, hr'. split; [reflexivity|]. split; [exact NO2|]. split; [congruence|]. split; [exact Eh|].
      split; [rewrite <- Es; exact Ho|]. split; [exact Hk'|].
      unfold is_aborted in *. rewrite Es in Hm. 
      destruct (Server.h_st hr); try discriminate; rewrite EA in Hm; destruct st1.
      - destruct Hm as [Hm _]. rewrite Hm. split; [auto|]. split; [auto|]. discriminate.
      - destruct Hm as (Hr & tl & ->). split; [right; cbn; rewrite !Nat.eqb_refl; reflexivity|]. split; [auto|]. discriminate.
      - destruct Hm as (Hr & tl & ->). split; [right; cbn; rewrite !Nat.eqb_refl; reflexivity|]. split; [auto|]. discriminate.
      - destruct Hm as [Hm _]. rewrite Hm. split; [auto|]. split; [auto|]. discriminate.
      - destruct Hm as (Hr & tl & ->). split; [right; cbn; rewrite !Nat.eqb_refl; reflexivity|]. split; [auto|]. discriminate.
      - destruct Hm as (Hr & tl & ->). split; [right; cbn; rewrite !Nat.eqb_refl; reflexivity|]. split; [auto|]. discriminate. }
    (* the handler's step is SRun unless the nested call has resolved *)
    assert (Hst : forall r, st1 = match match r with Client.CNothing => [] | _ => [Client.OCall r] end with
                                  | [Client.OCall (Client.CDone (Client.OReply v))] => Server.SFinish v
                                  | [Client.OCall (Client.CDone _)] => Server.SFail
                                  | _ => Server.SRun end ->
              st1 <> Server.SRun -> exists o, r = Client.CDone o).
    { intros r -> Hne. destruct r as [|o|]; [contradiction|eauto|contradiction]. }
    destruct (hi_call h) as [j|] eqn:EC.
    - (* the nested call exists already *)
      destruct (cstep nx (Client.PollCall j)) as [nx2 lc] eqn:ECS.
      apply pair_equal_spec in EI. destruct EI as [EI1 EI3]. apply pair_equal_spec in EI1. destruct EI1 as [EI1 EI2].
      subst nd1 nx1.
      destruct (cstep_poll_call _ _ _ _ _ NOx NW ECS) as (r & Elc & Es & Ehs & _ & NOx2 & Lx & Mx & Px & _).
      rewrite Elc in EI3. symmetry in EI3.
      destruct (Hexec nd eq_refl eq_refl eq_refl NO ES) as (obs & hr' & -> & NO2 & Ec2 & Eh2 & Ho & Hk' & Hnew & _ & Hrun').
      eapply (handler_duo m ch i k nd hr nx _ obs hr' nd2 nx2); try eassumption.
      + destruct Hnew; auto.
      + eapply own_exec; [exact OW|exact Eh2|split; [exact Lx|exact Mx]|exact Ho| |].
        * eapply hlen_eq; eassumption.
        * intros h' j' hr1 Hh' Hj' Hr1 Hs1. rewrite Hh in Hh'. injection Hh' as <-. rewrite EC in Hj'. injection Hj' as <-.
          rewrite Hk' in Hr1. injection Hr1 as <-.
          destruct (Hst r EI3 (Hrun' Hs1)) as (o & ->). eapply Px. reflexivity.
    - (* first poll: the nested call is made now *)
      set (j0 := length (Client.calls (n_cli nx))) in *.
      set (ndA := mknode (n_cli nd) (n_link nd) (n_srv nd) (set_hcall k j0 (n_hs nd)) (n_over nd)) in *.
      set (nx0 := mknode (mk_call (n_cli nx) (hi_dl h) (hi_tr h) (hi_body h)) (n_link nx) (n_srv nx) (n_hs nx) (n_over nx)) in *.
      destruct (cstep nx0 (Client.PollCall j0)) as [nx2 lc] eqn:ECS.
      apply pair_equal_spec in EI. destruct EI as [EI1 EI3]. apply pair_equal_spec in EI1. destruct EI1 as [EI1 EI2].
      subst nd1 nx1.
      assert (Hdl : (hi_dl h <= mo_now m + MAXT)%N) by (apply (no_hclamp _ _ NO), (nth_error_In _ _ Hh)).
      destruct (node_mk_call _ nx (hi_dl h) (hi_tr h) (hi_body h) NOx Hdl) as (NOx0 & L0 & P0 & N0).
      fold nx0 in NOx0, L0, P0, N0.
      assert (NW0 : (Client.next_id (n_cli nx0) + 1 < two64)%N) by (rewrite N0; exact NW).
      destruct (cstep_poll_call _ _ _ _ _ NOx0 NW0 ECS) as (r & Elc & Es & Ehs & _ & NOx2 & Lx & Mx & Px & Qx).
      rewrite Elc in EI3. symmetry in EI3.
      assert (NOA : node_ok (mo_now m) ndA).
      { destruct NO as [C X S Sn Ov Hl Hc]. constructor; cbn [n_cli n_link n_srv n_hs n_over ndA]; try assumption.
        - rewrite length_set_hcall. exact Hl.
        - intros h' Hin. destruct (In_set_hcall _ _ _ _ Hin) as (h0 & H0 & ->). apply Hc, H0. }
      destruct (Hexec ndA eq_refl eq_refl eq_refl NOA ES) as (obs & hr' & -> & NO2 & Ec2 & Eh2 & Ho & Hk' & Hnew & _ & Hrun').
      eapply (handler_duo m ch i k nd hr nx _ obs hr' nd2 nx2); try eassumption.
      + destruct Hnew; auto.
      + eapply (own_exec_new nd nd2 nx nx2 k h); try eassumption.
        * rewrite Lx, L0. reflexivity.
        * intros j Hj Hov. apply Mx. rewrite (P0 j Hj). exact Hov.
        * rewrite <- (no_hlen _ _ NO2), Eh2. cbn [n_hs ndA]. rewrite length_set_hcall. apply (no_hlen _ _ NO).
        * intros hr1 Hr1 Hs1. rewrite Hk' in Hr1. injection Hr1 as <-.
          destruct (Hst r EI3 (Hrun' Hs1)) as (o & ->). eapply Px. reflexivity.
  Qed.

  (* ---- one poll of incarnation k of node i ---- *)
  Lemma gd_poll_handler m ch i k st ch' l :
    good m ch -> nowrap_at ch (S i) -> poll_handler i k st ch = (ch', l) ->
    good (fold_left mon_obs l m) ch' /\
    length ch' = length ch /\ (forall j, j <> i -> j <> S i -> nth_error ch' j = nth_error ch j).
  Proof.
    intros G NW E. unfold poll_handler in E.
    destruct (nth_error ch i) as [nd|] eqn:Ei; [|pinj E; cbn; auto].
    destruct (nth_error (Server.s_handlers (n_srv nd)) k) as [hr|] eqn:Ek; [|pinj E; cbn; auto].
    assert (Frame1 : forall nd1, length (set_node i nd1 ch) = length ch /\
              (forall j, j <> i -> j <> S i -> nth_error (set_node i nd1 ch) j = nth_error ch j)).
    { intro nd1. split; [apply length_set_node|]. intros j Hj _. apply nth_set_node_other. congruence. }
    assert (Frame2 : forall nd1 nx1, length (set_node (S i) nx1 (set_node i nd1 ch)) = length ch /\
              (forall j, j <> i -> j <> S i ->
                 nth_error (set_node (S i) nx1 (set_node i nd1 ch)) j = nth_error ch j)).
    { intros nd1 nx1. split; [rewrite !length_set_node; reflexivity|].
      intros j Hj Hj2. rewrite !nth_set_node_other by congruence. reflexivity. }
    assert (Main : run_st (Server.h_st hr) = true ->
      (if is_aborted (n_srv nd) hr then
          let '(nd1, l0) := sstep nd (Server.OHandlerPoll k Server.SRun) in
          let ch1 := set_node i nd1 ch in
          let ch2 :=
            match option_map hi_call (nth_error (n_hs nd) k), nth_error ch1 (S i) with
            | Some (Some j), Some nx => set_node (S i) (fst (cstep nx (Client.DropCall j))) ch1
            | _, _ => ch1
            end in
          (ch2, flat_map (tr_sobs i) l0)
        else
          let first := match Server.h_st hr with Server.HYielded => [KHStart i k] | _ => [] end in
          match nth_error ch (S i) with
          | Some nx =>
            let '(nd1, nx1, st0) := inner_poll k nd nx in
            let '(nd2, l0) := sstep nd1 (Server.OHandlerPoll k st0) in
            (set_node (S i) nx1 (set_node i nd2 ch), first ++ flat_map (tr_sobs i) l0)
          | None =>
            let '(nd1, l0) := sstep nd (Server.OHandlerPoll k st) in
            (set_node i nd1 ch, first ++ flat_map (tr_sobs i) l0)
          end) = (ch', l) ->
      good (fold_left mon_obs l m) ch' /\
      length ch' = length ch /\ (forall j, j <> i -> j <> S i -> nth_error ch' j = nth_error ch j)).
    { intros Hrun E0. destruct (is_aborted (n_srv nd) hr) eqn:EA.
      - destruct (sstep nd (Server.OHandlerPoll k Server.SRun)) as [nd1 l0] eqn:ES. cbv zeta in E0. pinj E0.
        split; [eapply gd_ph_aborted; eassumption|].
        destruct (option_map hi_call (nth_error (n_hs nd) k)) as [[j|]|]; try apply Frame1.
        destruct (nth_error (set_node i nd1 ch) (S i)); [apply Frame2|apply Frame1].
      - cbv zeta in E0. destruct (nth_error ch (S i)) as [nx|] eqn:Ex.
        + destruct (inner_poll k nd nx) as [[nd1 nx1] st0] eqn:EI.
          destruct (sstep nd1 (Server.OHandlerPoll k st0)) as [nd2 l0] eqn:ES. pinj E0.
          split; [|apply Frame2]. eapply gd_ph_inner; try eassumption. apply (NW nx Ex).
        + destruct (sstep nd (Server.OHandlerPoll k st)) as [nd1 l0] eqn:ES. pinj E0.
          split; [|apply Frame1]. eapply gd_ph_leaf; eassumption. }
    destruct (Server.h_st hr) eqn:Est.
    - apply Main; [reflexivity|exact E].
    - apply Main; [reflexivity|exact E].
    - destruct (sstep nd (Server.OHandlerPoll k Server.SRun)) as [nd1 l0] eqn:ES. pinj E.
      split; [|apply Frame1]. eapply gd_ph_sending; try eassumption. eexists. left. exact Est.
    - destruct (sstep nd (Server.OHandlerPoll k Server.SRun)) as [nd1 l0] eqn:ES. pinj E.
      split; [|apply Frame1]. eapply gd_ph_sending; try eassumption. eexists. right. exact Est.
    - pinj E. cbn. auto.
    - pinj E. cbn. auto.
  Qed.

  (* ---- the head caller polls call j ---- *)
  Lemma length_set_over j l : length (set_over j l) = length l.
  Proof. unfold set_over. destruct (nth_error l j); [apply ClientLemmas.set_nth_length|reflexivity]. Qed.

  Lemma nth_set_over j l j' h :
    nth_error (set_over j l) j' = Some h -> hc_over h = true ->
    j' = j \/ (nth_error l j' = Some h).
  Proof.
    unfold set_over. destruct (nth_error l j) as [h0|] eqn:E; [|auto].
    destruct (Nat.eq_dec j' j) as [->|Hne]; [auto|]. rewrite ClientLemmas.nth_error_set_nth_other by congruence. auto.
  Qed.

  Lemma good_set_over m ch j :
    good m ch ->
    (forall nd0, nth_error ch 0 = Some nd0 -> j < length (mo_calls m) -> ph_over (n_cli nd0) j = true) ->
    good (mkmon (mo_now m) (set_over j (mo_calls m)) (mo_started m) (mo_ended m) (mo_tainted m)
                (mo_wire m) (mo_c04 m) (mo_c18 m) (mo_c07 m) (mo_c18w m) (mo_fuel m)) ch.
  Proof.
    intros [A B [C1 C2 C3]] H. constructor; [exact A|exact B|]. constructor; cbn [mo_calls mo_started mo_ended].
    - intros nd0 H0. rewrite length_set_over. apply C1, H0.
    - intros nd0 j' h H0 Hj Ho. destruct (nth_set_over _ _ _ _ Hj Ho) as [->|Hold].
      + apply H; [exact H0|]. rewrite <- (length_set_over j). eapply nth_error_lt, Hj.
      + eapply C2; eassumption.
    - exact C3.
  Qed.

  Lemma gd_poll_head m ch j ch' l :
    good m ch -> nowrap_at ch 0 -> poll_head j ch = (ch', l) ->
    good (fold_left mon_obs l m) ch' /\
    length ch' = length ch /\ (forall i, i <> 0 -> nth_error ch' i = nth_error ch i).
  Proof.
    intros G NW E. unfold poll_head in E. destruct (nth_error ch 0) as [nd|] eqn:E0; [|pinj E; cbn; auto].
    destruct (cstep nd (Client.PollCall j)) as [nd1 l1] eqn:ES. pinj E.
    destruct (cstep_poll_call _ _ _ _ _ (gd_node _ _ G 0 nd E0) (NW nd E0) ES)
      as (r & -> & Es & Ehs & _ & NO1 & L1 & M1 & P1 & Q1).
    split; [|split; [apply length_set_node|intros i Hi; apply nth_set_node_other; congruence]].
    assert (G1 : good m (set_node 0 nd1 ch)).
    { eapply good_upd; [exact G|exact E0|exact NO1|split; [exact L1|exact M1]|apply srv_same_refl; assumption]. }
    destruct r as [|o|]; cbn [flat_map app fold_left mon_obs]; try exact G1.
    apply good_set_over; [exact G1|]. intros nd0 H0 _.
    rewrite nth_set_node_same in H0 by (eapply nth_error_lt, E0). injection H0 as <-. eapply P1. reflexivity.
  Qed.
End Polls.
