(* Server proofs, engineer C, final: the pinned statements of C09 and C11 (server halves), from
   engineer A's run_invh (ServerProofsPA4.v) through the glue of ServerProofsPC2.v. *)
From TarpcV Require Import Base Transport TimerWheel Server ServerMon ServerFuel ServerSpec
     ServerProofsPA0 ServerProofsPA4 ServerProofsPC2.

Theorem s_v09_holds : stmt_s_v09.
Proof. exact (s_v09_if run_invh). Qed.
Theorem s09_holds : stmt_s09.
Proof. exact (s09_if run_invh). Qed.
Theorem s_v11_rel_holds : stmt_s_v11_rel.
Proof. exact (s_v11_rel_if run_invh). Qed.
Theorem s_v11_holds : stmt_s_v11.
Proof. exact (s_v11_if run_invh). Qed.
Theorem s11_rel_holds : stmt_s11_rel.
Proof. exact (s11_rel_if run_invh). Qed.
Theorem s11_holds : stmt_s11.
Proof. exact (s11_if run_invh). Qed.
Print Assumptions s_v09_holds.
Print Assumptions s09_holds.
Print Assumptions s_v11_rel_holds.
Print Assumptions s_v11_holds.
Print Assumptions s11_rel_holds.
Print Assumptions s11_holds.
