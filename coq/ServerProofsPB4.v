(* Server proofs, engineer B, part 4: C12 (c) over whole runs, on top of engineer A's
   hypothesis-dependent invariant InvH (ServerProofsPA0.v); the monitor theorems of C12. *)
From Coq Require Import List Bool Arith NArith Lia.
Import ListNotations.
From TarpcV Require Import Base Transport TimerWheel Server ServerMon ServerFuel ServerContract
     ServerSim ServerSim2 ServerSim3 ServerSim4 ServerSim5 ServerSim6 ServerSim7 ServerState
     ServerSpec ServerProofsPA0 ServerProofsPB0 ServerProofsPB1 ServerProofsPB2 ServerProofsPB3.

Lemma G_F12 : forall o o', F12 o' = F12 o -> G o -> G o'.
Proof. intros o o' E HG. unfold F12 in E. injection E as E1 E2 E3 E4 E5. unfold G in *. rewrite E2, E3, E4, E5. exact HG. Qed.

(* the two things used of A's TopH (kept in one place: TopH is still evolving) *)
Lemma toph_invh : forall (T : Type) o (s : @sstate T),
  TopH o s -> h_stop (o_v o) = true -> h_b1 (o_v o) = true -> c_err (o_v o) = false -> InvH o s.
Proof. intros T o s H E1 E2 E3. destruct (H E1 E2) as (_ & _ & _ & _ & K). exact (K E3). Qed.
Lemma toph_safe : forall (T : Type) o (s : @sstate T),
  TopH o s -> h_stop (o_v o) = true -> h_b1 (o_v o) = true -> Safe s.
Proof. intros T o s H E1 E2. destruct (H E1 E2) as (K & _). exact K. Qed.

Section V12C.
  Context {T C : Type}.
  Variable tp : transport T response cmsg.
  Variable ctl : T -> C -> T.
  Variable tfuel : T -> nat.
  Hypothesis TF : tfuel_ok tp tfuel.
  Variable c : cfg.
  Notation st := (@sstate T).
  Notation lim := (cfg_limit c).

  (* engineer A's theorem, as a hypothesis until it is proved *)
  Hypothesis RUNH : run_invh_statement.

  Lemma toph_step : forall o (s : st) p s' l,
    Top o s -> hb_ok s -> TopH o s -> step tp ctl tfuel c s p = (s', l) -> TopH (ostep lim o p l) s'.
  Proof.
    intros o s p s' l HT Hb HH ES.
    pose proof (RUNH T C tp ctl tfuel TF c [p] o s HT Hb HH) as K.
    cbn [run_from] in K. rewrite ES in K. cbn [fst snd orun] in K. exact K.
  Qed.

  (* A's clause (iii') in the form the read loop uses *)
  Lemma NSh_of_InvH : forall o (s : st), InvU o s -> InvH o s -> NSh o s.
  Proof.
    intros o s HI H e k hr oi He Hc Hk Hh Hoi.
    destruct (u_owner _ _ HI e He) as [[k' Ho]|[_ Hno]].
    - destruct Ho as (hr' & oi' & A & B & D & E & F & G0 & G1).
      assert (k' = k) by (eapply NoDup_map_nth_inj; [exact (u_hnodup _ _ HI)|exact A|exact Hk|congruence]).
      subst k'. eapply (invh_cancel_owner o s e k oi HI H He Hc); [|exact Hoi].
      exists hr', oi'. repeat split; auto.
    - exfalso. apply (Hno hr); [eapply nth_error_In; eauto|exact Hh].
  Qed.

  Definition Q12c (o : ostate) (s : st) : Prop := G o /\ TopH o s.

  Lemma q12c_step : forall o (s : st) p s' l,
    Top o s -> hb_ok s -> Q12c o s -> step tp ctl tfuel c s p = (s', l) -> Q12c (ostep lim o p l) s'.
  Proof.
    intros o s p s' l HT Hb (HG & HH) H. split; [|eapply toph_step; eauto].
    assert (NP : match p with OPoll => False | _ => True end -> G (ostep lim o p l)).
    { intro Hp. eapply G_F12; [apply (ostep_F12_nonpoll C c p o l Hp)|exact HG]. }
    destruct p; try (apply NP; exact I). clear NP.
    destruct (h_stop (o_v o)) eqn:EH; [|unfold ostep; rewrite EH; exact HG].
    destruct (HT EH) as (HI & Hnt & Hrest).
    destruct (s_dropped s) eqn:ED.
    { unfold step, poll_requests in H. rewrite ED in H. injection H as <- <-.
      unfold gauges. rewrite ED. cbn [app]. rewrite ostep_poll_dropped; [exact HG|exact EH|].
      rewrite (u_dropped _ _ HI); exact ED. }
    assert (Hod : o_dropped o = false) by (rewrite (u_dropped _ _ HI); exact ED).
    destruct (poll_trace_log tp ctl tfuel TF c s s' l ED H) as (r & s2 & R & ER & -> & Hd1 & HR).
    pose proof (ostep_F12_poll T C c o s' (rev (s_log s2)) R EH Hod Hd1 HR) as E.
    destruct (c_err (o_v o)) eqn:EC; [eapply G_F12; [exact E|exact HG]|].
    eapply G_F12; [exact E|]. unfold o_calls.
    destruct (Hrest eq_refl) as (Hh & _).
    assert (HI0 : InvU (start_poll o) (set_log s [])) by (apply InvU_start_poll; auto).
    assert (HB0 : BInv (start_poll o) (set_log s [])).
    { split; [exact HI0|split; [|exact EC]]. eapply handled_sub; eauto. }
    assert (HN0 : h_b1 (o_v (start_poll o)) = true -> NSh (start_poll o) (set_log s [])).
    { intros Hb1. cbn [start_poll o_v] in Hb1.
      pose proof (NSh_of_InvH o s HI (toph_invh T o s HH EH Hb1 EC)) as K. exact K. }
    destruct (requests_c tp lim (start_poll o) (set_log s []) HI0 HN0 (FM_start_poll o)
                c (poll_fuel tfuel s) (set_log s []) r s2 (start_poll o) eq_refl HB0 Hnt
                (OM_refl _) (SM_refl _) HG ER) as (new & X & GN).
    assert (Hlog : rev (s_log s2) = new).
    { unfold ext in X. sproj. rewrite X, app_nil_r, rev_involutive. reflexivity. }
    rewrite Hlog. exact GN.
  Qed.
End V12C.

Lemma nth_nil_none : forall A k, nth_error (@nil A) k = None.
Proof. intros A k; destruct k; reflexivity. Qed.

Lemma toph_init : forall (T : Type) (c : cfg) (t0 : T), TopH o_init (init c t0).
Proof.
  intros T c t0 _ _. split; [|split; [|split; [reflexivity|split; [reflexivity|intros _]]]].
  - intros k hr H. cbn in H. rewrite nth_nil_none in H. discriminate.
  - intros k oi H. cbn in H. rewrite nth_nil_none in H. discriminate.
  - constructor; cbn [o_init o_incs init s_handlers s_respq s_cancels].
    + intros k oi H. rewrite nth_nil_none in H. discriminate.
    + intros k oi H. rewrite nth_nil_none in H. discriminate.
    + intros k hr oi H. rewrite nth_nil_none in H. discriminate.
    + constructor.
    + intros m [].
    + intros id [].
    + intros k hr H. cbn in H. rewrite nth_nil_none in H. discriminate.
Qed.

(* the C12 (c) flags at the end of every run, given A's run theorem *)
Lemma run_12c : run_invh_statement ->
  forall (T C : Type) (tp : transport T response cmsg) (ctl : T -> C -> T) (tfuel : T -> nat)
         (c : cfg) (t0 : T) (ops : list (op C)),
    tfuel_ok tp tfuel -> G (orun (cfg_limit c) o_init ops (fst (run tp ctl tfuel c t0 ops))).
Proof.
  intros RUNH T C tp ctl tfuel c t0 ops TF. unfold run.
  destruct (top_init c t0) as (HT & Hb).
  assert (HG0 : G o_init) by (intros _; split; [reflexivity|intros _; reflexivity]).
  exact (proj1 (run_gen tp ctl tfuel TF c Q12c (q12c_step tp ctl tfuel TF c RUNH) ops o_init (init c t0)
                  HT Hb (conj HG0 (toph_init T c t0)))).
Qed.

Theorem s_v12c_rel_of : run_invh_statement -> stmt_s_v12c_rel.
Proof.
  intros RUNH T C tp ctl tfuel c t0 ops TF Hb. unfold observe in *.
  exact (proj1 (run_12c RUNH T C tp ctl tfuel c t0 ops TF Hb)).
Qed.

Theorem s_v12c_of : run_invh_statement -> stmt_s_v12c.
Proof.
  intros RUNH T C tp ctl tfuel c t0 ops TF Hb Hk. unfold observe in *.
  exact (proj2 (run_12c RUNH T C tp ctl tfuel c t0 ops TF Hb) Hk).
Qed.

(* the monitors of C12 *)
Theorem s12_rel_of : run_invh_statement -> stmt_s12_rel.
Proof.
  intros RUNH T C tp ctl tfuel c t0 ops TF. unfold c12_rel_ok.
  destruct (server_never_early T C tp ctl tfuel c t0 ops TF) as (Vb & _). cbv zeta in Vb.
  rewrite Vb, (s_v12a T C tp ctl tfuel c t0 ops TF), (s_v12b T C tp ctl tfuel c t0 ops TF). cbn [negb andb].
  destruct (h_b1 _) eqn:Eb; [|reflexivity]. cbn [negb orb].
  exact (s_v12c_rel_of RUNH T C tp ctl tfuel c t0 ops TF Eb).
Qed.

Theorem s12_of : run_invh_statement -> stmt_s12.
Proof.
  intros RUNH T C tp ctl tfuel c t0 ops TF Hk. unfold c12_ok. unfold freed_in_same_poll in Hk.
  destruct (server_never_early T C tp ctl tfuel c t0 ops TF) as (Vb & _). cbv zeta in Vb.
  rewrite Vb, (s_v12a T C tp ctl tfuel c t0 ops TF), (s_v12b T C tp ctl tfuel c t0 ops TF). cbn [negb andb].
  destruct (h_b1 _) eqn:Eb; [|reflexivity]. cbn [negb orb].
  exact (s_v12c_of RUNH T C tp ctl tfuel c t0 ops TF Eb Hk).
Qed.
Print Assumptions s12_of.
