(* Client proofs, group G3, part a: views of the call table and the oneshot slots, and the
   dispatch poll as a sequence of micro-steps (`mstep`, `run_loop_msteps`).
   Used by ClientProofsG3b.v (invariants) and ClientProofsG3.v (C09, C10, C03). *)
From Coq Require Import List Bool Arith NArith Lia ZifyBool ZifyNat ZifyN.
Import ListNotations.
From TarpcV Require Import Base Transport Client ClientS ClientMon ClientSpec ClientLemmas
  ClientProofsG1Frames.
Local Open Scope N_scope.

Arguments N.modulo : simpl never.
Arguments N.add : simpl never.
Arguments N.min : simpl never.
Arguments N.sub : simpl never.

(* ================================================================== small general facts *)
Lemma Forall_app_iff {A} (P : A -> Prop) l1 l2 : Forall P (l1 ++ l2) <-> Forall P l1 /\ Forall P l2.
Proof. apply Forall_app. Qed.

Section G3.
  Context {T : Type}.
  Variable tp : transport T cmsg resp.
  Notation cstate := (@cstate T).
  Notation op := (@op T).
  Implicit Types s : cstate.

  (* ---------------------------------------------------------------- views of the call table *)
  Definition ph s (i : nat) : option phase := option_map c_phase (nth_error (calls s) i).
  Definition idc s (i : nat) : N := match nth_error (calls s) i with Some c => c_id c | None => 0 end.

  Lemma ph_calls_eq s s' : calls s' = calls s -> forall i, ph s' i = ph s i.
  Proof. intros H i. unfold ph. rewrite H. reflexivity. Qed.
  Lemma idc_calls_eq s s' : calls s' = calls s -> forall i, idc s' i = idc s i.
  Proof. intros H i. unfold idc. rewrite H. reflexivity. Qed.

  Lemma calls_set_phase s i p :
    calls (set_phase s i p) =
    match nth_error (calls s) i with
    | Some c => set_nth i {| c_handle := c_handle c; c_phase := p; c_id := c_id c; c_rel := c_rel c;
                             c_deadline := c_deadline c; c_tc := c_tc c; c_body := c_body c |} (calls s)
    | None => calls s end.
  Proof. unfold set_phase. destruct (nth_error (calls s) i); reflexivity. Qed.

  Lemma ph_set_phase s i p j :
    ph (set_phase s i p) j =
    if Nat.eqb j i then match ph s i with Some _ => Some p | None => None end else ph s j.
  Proof.
    unfold ph. rewrite calls_set_phase.
    destruct (nth_error (calls s) i) as [c|] eqn:E; cbn [option_map].
    - destruct (Nat.eqb j i) eqn:Eji.
      + apply Nat.eqb_eq in Eji; subst j.
        rewrite nth_error_set_nth_same; [reflexivity|]. apply nth_error_Some. congruence.
      + apply Nat.eqb_neq in Eji. rewrite nth_error_set_nth_other by congruence. reflexivity.
    - destruct (Nat.eqb j i) eqn:Eji; [|reflexivity].
      apply Nat.eqb_eq in Eji; subst j. rewrite E. reflexivity.
  Qed.

  Lemma idc_set_phase s i p j : idc (set_phase s i p) j = idc s j.
  Proof.
    unfold idc. rewrite calls_set_phase.
    destruct (nth_error (calls s) i) as [c|] eqn:E; [|reflexivity].
    destruct (Nat.eq_dec i j) as [->|Hn].
    - rewrite nth_error_set_nth_same; [rewrite E; reflexivity|]. apply nth_error_Some. congruence.
    - rewrite nth_error_set_nth_other by congruence. reflexivity.
  Qed.

  Lemma length_calls_set_phase s i p : length (calls (set_phase s i p)) = length (calls s).
  Proof. rewrite calls_set_phase. destruct (nth_error _ _); [apply set_nth_length|reflexivity]. Qed.

  Lemma ph_Some_lt s i p : ph s i = Some p -> (i < length (calls s))%nat.
  Proof. unfold ph. intro H. apply nth_error_Some. destruct (nth_error (calls s) i); [congruence|discriminate]. Qed.

  (* set_phase leaves everything but calls alone *)
  Record CFrame s s' : Prop := {
    cf_i : IFrame s s';
    cf_queue : queue s' = queue s;
    cf_cancels : cancels s' = cancels s;
    cf_permits : permits s' = permits s;
    cf_waiters : waiters s' = waiters s;
    cf_rxc : rx_closed s' = rx_closed s;
    cf_inflight : inflight s' = inflight s;
    cf_timers : timers s' = timers s;
    cf_slots : slots s' = slots s }.
  Lemma CFrame_set_phase s i p : CFrame s (set_phase s i p).
  Proof.
    unfold set_phase. destruct (nth_error _ _); repeat (constructor; try reflexivity).
  Qed.

  (* ---------------------------------------------------------------- slots *)
  Definition slot_done (x : slot) : Prop := sl_val x <> None \/ sl_tx_gone x = true.

  Lemma get_slot_slots_eq s s' : slots s' = slots s -> forall id, get_slot s' id = get_slot s id.
  Proof. intros H id. unfold get_slot. rewrite H. reflexivity. Qed.

  Lemma get_slot_set_slot s id x id' :
    get_slot (set_slot s id x) id' = if N.eqb id' id then x else get_slot s id'.
  Proof.
    unfold get_slot, set_slot. cbn [slots upd_slots]. rewrite alookup_aset.
    destruct (N.eqb id' id); reflexivity.
  Qed.

  Lemma get_slot_slot_send s id o id' :
    get_slot (slot_send s id o) id' =
    if N.eqb id' id then
      (if sl_rx_closed (get_slot s id)
       then {| sl_rx_closed := true; sl_val := sl_val (get_slot s id); sl_tx_gone := true |}
       else {| sl_rx_closed := false; sl_val := Some o; sl_tx_gone := true |})
    else get_slot s id'.
  Proof.
    unfold slot_send. destruct (sl_rx_closed (get_slot s id)); rewrite get_slot_set_slot;
      destruct (N.eqb id' id); reflexivity.
  Qed.
  Lemma get_slot_slot_tx_drop s id id' :
    get_slot (slot_tx_drop s id) id' =
    if N.eqb id' id then
      {| sl_rx_closed := sl_rx_closed (get_slot s id); sl_val := sl_val (get_slot s id); sl_tx_gone := true |}
    else get_slot s id'.
  Proof. unfold slot_tx_drop. apply get_slot_set_slot. Qed.
  Lemma get_slot_slot_rx_close s id id' :
    get_slot (slot_rx_close s id) id' =
    if N.eqb id' id then
      {| sl_rx_closed := true; sl_val := sl_val (get_slot s id); sl_tx_gone := sl_tx_gone (get_slot s id) |}
    else get_slot s id'.
  Proof. unfold slot_rx_close. apply get_slot_set_slot. Qed.

  (* monotonicity of "the receiver will not wait": only a fresh slot undoes it *)
  Lemma slot_done_slot_send s id o id' :
    slot_done (get_slot s id') -> slot_done (get_slot (slot_send s id o) id').
  Proof.
    rewrite get_slot_slot_send. destruct (N.eqb id' id) eqn:E; [|tauto].
    intros _. destruct (sl_rx_closed _); right; reflexivity.
  Qed.
  Lemma slot_done_slot_send_same s id o : slot_done (get_slot (slot_send s id o) id).
  Proof.
    rewrite get_slot_slot_send, N.eqb_refl. destruct (sl_rx_closed _); right; reflexivity.
  Qed.
  Lemma slot_done_slot_tx_drop s id id' :
    slot_done (get_slot s id') -> slot_done (get_slot (slot_tx_drop s id) id').
  Proof.
    rewrite get_slot_slot_tx_drop. destruct (N.eqb id' id) eqn:E; [|tauto].
    intros _. right; reflexivity.
  Qed.
  Lemma slot_done_slot_tx_drop_same s id : slot_done (get_slot (slot_tx_drop s id) id).
  Proof. rewrite get_slot_slot_tx_drop, N.eqb_refl. right; reflexivity. Qed.
  Lemma slot_done_slot_rx_close s id id' :
    slot_done (get_slot s id') -> slot_done (get_slot (slot_rx_close s id) id').
  Proof.
    rewrite get_slot_slot_rx_close. destruct (N.eqb id' id) eqn:E; [|tauto].
    apply N.eqb_eq in E; subst. unfold slot_done; cbn [sl_val sl_tx_gone]. tauto.
  Qed.

  (* where a stored value comes from *)
  Lemma val_slot_send s id o id' o' :
    sl_val (get_slot (slot_send s id o) id') = Some o' ->
    (id' = id /\ o' = o) \/ sl_val (get_slot s id') = Some o'.
  Proof.
    rewrite get_slot_slot_send. destruct (N.eqb id' id) eqn:E; [|tauto].
    apply N.eqb_eq in E; subst. destruct (sl_rx_closed _); cbn [sl_val]; [tauto|].
    intros [= <-]. left; split; reflexivity.
  Qed.
  Lemma val_slot_tx_drop s id id' o' :
    sl_val (get_slot (slot_tx_drop s id) id') = Some o' -> sl_val (get_slot s id') = Some o'.
  Proof.
    rewrite get_slot_slot_tx_drop. destruct (N.eqb id' id) eqn:E; [|tauto].
    apply N.eqb_eq in E; subst. cbn [sl_val]. tauto.
  Qed.
  Lemma val_slot_rx_close s id id' o' :
    sl_val (get_slot (slot_rx_close s id) id') = Some o' -> sl_val (get_slot s id') = Some o'.
  Proof.
    rewrite get_slot_slot_rx_close. destruct (N.eqb id' id) eqn:E; [|tauto].
    apply N.eqb_eq in E; subst. cbn [sl_val]. tauto.
  Qed.

  (* ================================================================== micro-steps of a dispatch poll *)
  Definition terr (a : activity) (r : tres) : option activity :=
    match r with TErr => Some a | _ => None end.
  Definition perr {A} (r : pres A) : option activity :=
    match r with PErr a => Some a | _ => None end.
  Definition rerr (r : rres_run) : option activity :=
    match r with RunErr a => Some a | _ => None end.

  (* one effect of `run`, with the context in which the code performs it; the label is the
     fatal error the step ends the pump loop with *)
  Inductive mstep : option activity -> cstate -> cstate -> Prop :=
  | ms_ready s r s' : do_ready tp s = (r, s') -> mstep (terr AReady r) s s'
  | ms_flush s r s' : do_flush tp s = (r, s') -> mstep (terr AFlush r) s s'
  | ms_close s r s' :
      senders s = 0%nat -> queue s = [] -> cancels s = [] -> fst (poll_expired s) = None ->
      do_close tp s = (r, s') -> mstep (terr AClose r) s s'
  | ms_next_item s x s1 : do_next tp s = (RItem x, s1) -> mstep None s (complete s1 x)
  | ms_next_other s r s1 :
      do_next tp s = (r, s1) -> (forall x, r <> RItem x) ->
      mstep (match r with RErr => Some ARead | _ => None end) s s1
  | ms_skip s q s1 :
      q_poll_recv s = (RvSome q, s1) -> sl_rx_closed (get_slot s1 (q_id q)) = true ->
      mstep None s (slot_tx_drop s1 (q_id q))
  | ms_req s q s1 w s3 :
      q_poll_recv s = (RvSome q, s1) -> sl_rx_closed (get_slot s1 (q_id q)) = false ->
      do_send tp (insert_request s1 q) (MReq (q_id q) (q_deadline q) (q_tc q) (q_body q)) = (w, s3) ->
      mstep None s (match w with SOk => s3 | SErr => snd (complete_request s3 (q_id q) OSendErr) end)
  | ms_cskip s id s1 s2 :
      c_poll_recv s = (RvSome id, s1) -> cancel_request s1 id = (None, s2) -> mstep None s s2
  | ms_cancel s id s1 e s2 w s3 :
      c_poll_recv s = (RvSome id, s1) -> cancel_request s1 id = (Some e, s2) ->
      do_send tp s2 (MCancel id (if_tc e)) = (w, s3) ->
      mstep (match w with SErr => Some AWrite | SOk => None end) s s3
  | ms_expired s id s' : poll_expired s = (Some id, s') -> mstep None s s'.

  Inductive msteps : option activity -> cstate -> cstate -> Prop :=
  | mss_nil s : msteps None s s
  | mss_err a s s' : mstep (Some a) s s' -> msteps (Some a) s s'
  | mss_cons e s s1 s2 : mstep None s s1 -> msteps e s1 s2 -> msteps e s s2.

  Lemma msteps_one e s s' : mstep e s s' -> msteps e s s'.
  Proof. destruct e; intro H; [apply mss_err, H|eapply mss_cons; [exact H|apply mss_nil]]. Qed.
  Lemma msteps_trans e s s1 s2 : msteps None s s1 -> msteps e s1 s2 -> msteps e s s2.
  Proof.
    intro H. remember None as n eqn:En. revert En. induction H as [s|a s s' H|e0 s sa sb H1 H2 IH];
      intros En H3; [exact H3|discriminate|].
    eapply mss_cons; [exact H1|]. apply IH; assumption.
  Qed.
  Lemma msteps_snoc e s s1 s2 : msteps None s s1 -> mstep e s1 s2 -> msteps e s s2.
  Proof. intros H1 H2. eapply msteps_trans; [exact H1|apply msteps_one, H2]. Qed.

  (* ---------------------------------------------------------------- queue polls that find nothing *)
  Lemma q_poll_recv_nil s r s' : q_poll_recv s = (r, s') -> (forall q, r <> RvSome q) ->
    s' = s /\ queue s = [].
  Proof.
    unfold q_poll_recv. destruct (queue s) as [|x l].
    - destruct (Nat.eqb _ _); [intros [= <- <-]; auto|].
      destruct (_ && _); intros [= <- <-]; auto.
    - intros [= <- <-] H. exfalso. eapply H; reflexivity.
  Qed.
  Lemma c_poll_recv_nil s r s' : c_poll_recv s = (r, s') -> (forall q, r <> RvSome q) ->
    s' = s /\ cancels s = [].
  Proof.
    unfold c_poll_recv. destruct (cancels s) as [|x l].
    - destruct (Nat.eqb _ _); intros [= <- <-]; auto.
    - intros [= <- <-] H. exfalso. eapply H; reflexivity.
  Qed.
  Lemma c_poll_recv_none s s' : c_poll_recv s = (RvNone, s') -> senders s = 0%nat.
  Proof.
    unfold c_poll_recv. destruct (cancels s) as [|x l]; [|discriminate].
    destruct (Nat.eqb (senders s) 0) eqn:E; [|discriminate]. intros _. apply Nat.eqb_eq, E.
  Qed.
  Lemma poll_expired_none s s' : poll_expired s = (None, s') -> s' = s.
  Proof.
    unfold poll_expired. destruct (min_timer (timers s) None) as [[id w]|]; [|intros [= <-]; reflexivity].
    destruct (N.leb w (now s)); [|intros [= <-]; reflexivity].
    destruct (alookup id _); discriminate.
  Qed.

  (* ---------------------------------------------------------------- ensure_writeable *)
  Lemma ensure_writeable_msteps s r s' : ensure_writeable tp s = (r, s') -> msteps (perr r) s s'.
  Proof.
    unfold ensure_writeable.
    destruct (do_ready tp s) as [r1 s1] eqn:E1. apply ms_ready in E1.
    destruct r1; cbn [terr] in E1; [intros [= <- <-]; apply msteps_one, E1
                                   |intros [= <- <-]; apply msteps_one, E1|].
    destruct (do_flush tp s1) as [r2 s2] eqn:E2. apply ms_flush in E2.
    destruct r2; cbn [terr] in E2;
      [|intros [= <- <-]; eapply mss_cons; [exact E1|apply msteps_one, E2]
       |intros [= <- <-]; eapply mss_cons; [exact E1|apply msteps_one, E2]].
    destruct (do_ready tp s2) as [r3 s3] eqn:E3. apply ms_ready in E3.
    destruct r3; cbn [terr] in E3; intros [= <- <-];
      (eapply mss_cons; [exact E1|eapply mss_cons; [exact E2|apply msteps_one, E3]]).
  Qed.
  Lemma ensure_writeable_not_none s s' : ensure_writeable tp s <> (PNone, s').
  Proof.
    unfold ensure_writeable. destruct (do_ready tp s) as [r1 s1]. destruct r1; try discriminate.
    destruct (do_flush tp s1) as [r2 s2]. destruct r2; try discriminate.
    destruct (do_ready tp s2) as [r3 s3]. destruct r3; discriminate.
  Qed.

  (* ---------------------------------------------------------------- requests *)
  Definition req_spec (s : cstate) (r : pres qitem) (s' : cstate) : Prop :=
    match r with
    | PSome q => exists sa, msteps None s sa /\ q_poll_recv sa = (RvSome q, s') /\
                            sl_rx_closed (get_slot s' (q_id q)) = false
    | PNone => msteps None s s' /\ q_poll_recv s' = (RvNone, s')
    | PPend => msteps None s s'
    | PErr a => msteps (Some a) s s'
    end.

  Lemma req_spec_trans s s1 r s' : msteps None s s1 -> req_spec s1 r s' -> req_spec s r s'.
  Proof.
    intro H. destruct r as [q| | |a]; cbn [req_spec].
    - intros (sa & M & R). exists sa. split; [eapply msteps_trans; eassumption|exact R].
    - intros [M R]. split; [eapply msteps_trans; eassumption|exact R].
    - intro M. eapply msteps_trans; eassumption.
    - intro M. eapply msteps_trans; eassumption.
  Qed.

  Lemma next_request_loop_spec f s r s' : next_request_loop f s = (r, s') -> req_spec s r s'.
  Proof.
    revert s; induction f as [|f IH]; intro s; cbn [next_request_loop].
    - intros [= <- <-]. apply mss_nil.
    - destruct (q_poll_recv s) as [rv s1] eqn:E1. destruct rv as [q| |].
      + destruct (sl_rx_closed (get_slot s1 (q_id q))) eqn:E2.
        * intro H. apply IH in H. eapply req_spec_trans; [|exact H].
          apply msteps_one. eapply ms_skip; eassumption.
        * intros [= <- <-]. exists s. split; [apply mss_nil|]. split; assumption.
      + intros [= <- <-]. pose proof (q_poll_recv_nil _ _ _ E1) as [Hs _]; [discriminate|]. subst s1.
        split; [apply mss_nil|exact E1].
      + intros [= <- <-]. pose proof (q_poll_recv_nil _ _ _ E1) as [Hs _]; [discriminate|]. subst s1.
        apply mss_nil.
  Qed.

  Lemma poll_next_request_spec s r s' : poll_next_request tp s = (r, s') -> req_spec s r s'.
  Proof.
    unfold poll_next_request. destruct (Nat.leb (max_if s) (length (inflight s))).
    - intros [= <- <-]. apply mss_nil.
    - destruct (ensure_writeable tp s) as [w s1] eqn:E1.
      pose proof (ensure_writeable_msteps _ _ _ E1) as M1.
      destruct w as [u| | |a]; cbn [perr] in M1.
      + intro H. apply next_request_loop_spec in H. eapply req_spec_trans; eassumption.
      + intros [= <- <-]. exfalso. eapply ensure_writeable_not_none; eassumption.
      + intros [= <- <-]. exact M1.
      + intros [= <- <-]. exact M1.
  Qed.

  Lemma poll_write_request_spec s r s' : poll_write_request tp s = (r, s') ->
    msteps (perr r) s s' /\ (r = PNone -> q_poll_recv s' = (RvNone, s')).
  Proof.
    unfold poll_write_request. destruct (poll_next_request tp s) as [r1 s1] eqn:E1.
    apply poll_next_request_spec in E1. destruct r1 as [q| | |a]; cbn [req_spec] in E1.
    - destruct E1 as (sa & M & Hq & Hc).
      destruct (do_send tp (insert_request s1 q) _) as [w s3] eqn:E3.
      pose proof (ms_req _ _ _ _ _ Hq Hc E3) as MS.
      destruct w; intros [= <- <-]; (split; [|discriminate]); cbn [perr];
        eapply msteps_snoc; eassumption.
    - intros [= <- <-]. destruct E1 as [M Hq]. split; [exact M|intros _; exact Hq].
    - intros [= <- <-]. split; [exact E1|discriminate].
    - intros [= <- <-]. split; [exact E1|discriminate].
  Qed.

  (* ---------------------------------------------------------------- cancellations *)
  Definition can_spec (s : cstate) (r : pres (N * ifentry)) (s' : cstate) : Prop :=
    match r with
    | PSome (id, e) => exists sa sb, msteps None s sa /\ c_poll_recv sa = (RvSome id, sb) /\
                                     cancel_request sb id = (Some e, s')
    | PNone => msteps None s s' /\ c_poll_recv s' = (RvNone, s')
    | PPend => msteps None s s'
    | PErr a => msteps (Some a) s s'
    end.

  Lemma can_spec_trans s s1 r s' : msteps None s s1 -> can_spec s1 r s' -> can_spec s r s'.
  Proof.
    intro H. destruct r as [[id e]| | |a]; cbn [can_spec].
    - intros (sa & sb & M & R). exists sa, sb. split; [eapply msteps_trans; eassumption|exact R].
    - intros [M R]. split; [eapply msteps_trans; eassumption|exact R].
    - intro M. eapply msteps_trans; eassumption.
    - intro M. eapply msteps_trans; eassumption.
  Qed.

  Lemma next_cancel_loop_spec f s r s' : next_cancel_loop f s = (r, s') -> can_spec s r s'.
  Proof.
    revert s; induction f as [|f IH]; intro s; cbn [next_cancel_loop].
    - intros [= <- <-]. apply mss_nil.
    - destruct (c_poll_recv s) as [rv s1] eqn:E1. destruct rv as [id| |].
      + destruct (cancel_request s1 id) as [e s2] eqn:E2. destruct e as [e|].
        * intros [= <- <-]. exists s, s1. split; [apply mss_nil|]. split; assumption.
        * intro H. apply IH in H. eapply can_spec_trans; [|exact H].
          apply msteps_one. eapply ms_cskip; eassumption.
      + intros [= <- <-]. pose proof (c_poll_recv_nil _ _ _ E1) as [Hs _]; [discriminate|]. subst s1.
        split; [apply mss_nil|exact E1].
      + intros [= <- <-]. pose proof (c_poll_recv_nil _ _ _ E1) as [Hs _]; [discriminate|]. subst s1.
        apply mss_nil.
  Qed.

  Lemma poll_next_cancellation_spec s r s' : poll_next_cancellation tp s = (r, s') -> can_spec s r s'.
  Proof.
    unfold poll_next_cancellation.
    destruct (ensure_writeable tp s) as [w s1] eqn:E1.
    pose proof (ensure_writeable_msteps _ _ _ E1) as M1.
    destruct w as [u| | |a]; cbn [perr] in M1.
    - intro H. apply next_cancel_loop_spec in H. eapply can_spec_trans; eassumption.
    - intros [= <- <-]. exfalso. eapply ensure_writeable_not_none; eassumption.
    - intros [= <- <-]. exact M1.
    - intros [= <- <-]. exact M1.
  Qed.

  Lemma poll_write_cancel_spec s r s' : poll_write_cancel tp s = (r, s') ->
    msteps (perr r) s s' /\ (r = PNone -> c_poll_recv s' = (RvNone, s')).
  Proof.
    unfold poll_write_cancel. destruct (poll_next_cancellation tp s) as [r1 s1] eqn:E1.
    apply poll_next_cancellation_spec in E1. destruct r1 as [[id e]| | |a]; cbn [can_spec] in E1.
    - destruct E1 as (sa & sb & M & Hc & He).
      destruct (do_send tp s1 _) as [w s2] eqn:E2.
      pose proof (ms_cancel _ _ _ _ _ _ _ Hc He E2) as MS.
      destruct w; intros [= <- <-]; (split; [|discriminate]); cbn [perr];
        eapply msteps_snoc; eassumption.
    - intros [= <- <-]. destruct E1 as [M Hq]. split; [exact M|intros _; exact Hq].
    - intros [= <- <-]. split; [exact E1|discriminate].
    - intros [= <- <-]. split; [exact E1|discriminate].
  Qed.

  (* the cancellation half of pump_write leaves the request queue and the senders alone *)
  Lemma queue_next_cancel_loop f s :
    queue (snd (next_cancel_loop f s)) = queue s /\ calls (snd (next_cancel_loop f s)) = calls s.
  Proof.
    revert s; induction f as [|f IH]; intro s; cbn [next_cancel_loop]; [split; reflexivity|].
    destruct (c_poll_recv s) as [rv s1] eqn:E1.
    assert (H1 : queue s1 = queue s /\ calls s1 = calls s).
    { revert E1. unfold c_poll_recv. destruct (cancels s); [destruct (Nat.eqb _ _)|];
        intros [= _ <-]; split; reflexivity. }
    destruct rv as [id| |]; [|exact H1..].
    pose proof (TFrame_cancel_request s1 id) as F. destruct (cancel_request s1 id) as [e s2].
    cbn [snd] in F. destruct H1 as [H1 H1'].
    destruct e; cbn [snd].
    - rewrite (tf_queue _ _ F), (tf_calls _ _ F). split; assumption.
    - destruct (IH s2) as [Ha Hb]. rewrite Ha, Hb, (tf_queue _ _ F), (tf_calls _ _ F). split; assumption.
  Qed.

  Lemma queue_poll_write_cancel s r s' : poll_write_cancel tp s = (r, s') ->
    queue s' = queue s /\ calls s' = calls s /\ handles s' = handles s.
  Proof.
    intro H. pose proof (PFrame_poll_write_cancel tp _ _ _ H) as PF.
    revert H. unfold poll_write_cancel, poll_next_cancellation.
    destruct (ensure_writeable tp s) as [w s1] eqn:E1.
    pose proof (XFrame_ensure_writeable tp _ _ _ E1) as X1.
    assert (K : queue s1 = queue s /\ calls s1 = calls s) by (split; apply X1).
    destruct w as [u| | |a].
    - pose proof (queue_next_cancel_loop (S (length (cancels s1))) s1) as [Q C].
      destruct (next_cancel_loop _ s1) as [r1 s2]. cbn [snd] in Q, C.
      destruct K as [K1 K2].
      destruct r1 as [[id e]| | |a].
      + destruct (do_send tp s2 _) as [w s3] eqn:E3. apply XFrame_do_send in E3.
        destruct w; intros [= _ <-]; rewrite (xf_queue _ _ E3), (xf_calls _ _ E3), Q, C;
          (split; [assumption|split; [assumption|apply PF]]).
      + intros [= _ <-]. rewrite Q, C. split; [assumption|split; [assumption|apply PF]].
      + intros [= _ <-]. rewrite Q, C. split; [assumption|split; [assumption|apply PF]].
      + intros [= _ <-]. rewrite Q, C. split; [assumption|split; [assumption|apply PF]].
    - intros [= _ <-]. destruct K; split; [assumption|split; [assumption|apply PF]].
    - intros [= _ <-]. destruct K; split; [assumption|split; [assumption|apply PF]].
    - intros [= _ <-]. destruct K; split; [assumption|split; [assumption|apply PF]].
  Qed.

  (* ---------------------------------------------------------------- the two pumps and the loop *)
  Lemma pump_read_msteps s r s' : pump_read tp s = (r, s') -> msteps (perr r) s s'.
  Proof.
    unfold pump_read. destruct (do_next tp s) as [r1 s1] eqn:E1.
    destruct r1 as [x| | |].
    - intros [= <- <-]. apply msteps_one. apply ms_next_item, E1.
    - intros [= <- <-]. apply msteps_one. apply (ms_next_other _ _ _ E1). discriminate.
    - intros [= <- <-]. apply msteps_one. apply (ms_next_other _ _ _ E1). discriminate.
    - intros [= <- <-]. apply msteps_one. apply (ms_next_other _ _ _ E1). discriminate.
  Qed.

  Lemma pump_write_msteps s r s' : pump_write tp s = (r, s') -> msteps (perr r) s s'.
  Proof.
    unfold pump_write.
    destruct (poll_write_request tp s) as [r1 s1] eqn:E1.
    apply poll_write_request_spec in E1 as [M1 N1].
    assert (K : forall r1' : pres unit, (r1' = PNone -> r1 = PNone) ->
      (let '(r2, s2) := poll_write_cancel tp s1 in
       match r2 with
       | PErr a => (PErr a, s2)
       | PSome _ => (PSome tt, s2)
       | _ =>
         let '(e, s3) := poll_expired s2 in
         match e with
         | Some _ => (PSome tt, s3)
         | None =>
           match r1', r2 with
           | PNone, PNone =>
             let '(c, s4) := do_close tp s3 in
             match c with TOk => (PNone, s4) | TErr => (PErr AClose, s4) | TPending => (PPend, s4) end
           | _, _ =>
             let '(f, s4) := do_flush tp s3 in
             match f with TErr => (PErr AFlush, s4) | _ => (PPend, s4) end
           end
         end
       end) = (r, s') -> msteps (perr r) s1 s').
    { intros r1' Hr1.
      destruct (poll_write_cancel tp s1) as [r2 s2] eqn:E2.
      pose proof (queue_poll_write_cancel _ _ _ E2) as (Q2 & C2 & H2).
      apply poll_write_cancel_spec in E2 as [M2 N2].
      assert (KE : forall r2' : pres unit, (r2' = PNone -> r2 = PNone) -> msteps None s1 s2 ->
        (let '(e, s3) := poll_expired s2 in
         match e with
         | Some _ => (PSome tt, s3)
         | None =>
           match r1', r2' with
           | PNone, PNone =>
             let '(c, s4) := do_close tp s3 in
             match c with TOk => (PNone, s4) | TErr => (PErr AClose, s4) | TPending => (PPend, s4) end
           | _, _ =>
             let '(f, s4) := do_flush tp s3 in
             match f with TErr => (PErr AFlush, s4) | _ => (PPend, s4) end
           end
         end) = (r, s') -> msteps (perr r) s1 s').
      { intros r2' Hr2 M2'.
        destruct (poll_expired s2) as [e s3] eqn:E3. destruct e as [id|].
        - intros [= <- <-]. cbn [perr]. eapply msteps_snoc; [exact M2'|]. eapply ms_expired, E3.
        - pose proof (poll_expired_none _ _ E3). subst s3.
          assert (KF : (let '(f, s4) := do_flush tp s2 in
               match f with TErr => (PErr AFlush, s4) | _ => (@PPend unit, s4) end) = (r, s') ->
               msteps (perr r) s1 s').
          { destruct (do_flush tp s2) as [f s4] eqn:E4. apply ms_flush in E4.
            destruct f; cbn [terr] in E4; intros [= <- <-]; cbn [perr];
              (eapply msteps_snoc; [exact M2'|exact E4]). }
          destruct r1'; try exact KF. destruct r2'; try exact KF.
          specialize (Hr1 eq_refl). specialize (Hr2 eq_refl). subst r1 r2.
          specialize (N1 eq_refl). specialize (N2 eq_refl).
          pose proof (q_poll_recv_nil _ _ _ N1) as [_ Q1]; [discriminate|].
          pose proof (c_poll_recv_nil _ _ _ N2) as [_ CN]; [discriminate|].
          pose proof (c_poll_recv_none _ _ N2) as SN.
          destruct (do_close tp s2) as [c s4] eqn:E4.
          assert (MS : mstep (terr AClose c) s2 s4).
          { apply ms_close; try assumption; [congruence|rewrite E3; reflexivity]. }
          destruct c; cbn [terr] in MS; intros [= <- <-]; cbn [perr];
            (eapply msteps_snoc; [exact M2'|exact MS]). }
      destruct r2 as [u2| | |a2]; cbn [perr] in M2.
      - intros [= <- <-]. exact M2.
      - apply (KE PNone); [reflexivity|exact M2].
      - apply (KE PPend); [discriminate|exact M2].
      - intros [= <- <-]. exact M2. }
    destruct r1 as [u| | |a]; cbn [perr] in M1.
    - intros [= <- <-]. exact M1.
    - intro H. apply (K PNone) in H; [|reflexivity]. eapply msteps_trans; eassumption.
    - intro H. apply (K PPend) in H; [|discriminate]. eapply msteps_trans; eassumption.
    - intros [= <- <-]. exact M1.
  Qed.

  Lemma run_loop_msteps f s r s' : run_loop tp f s = (r, s') -> msteps (rerr r) s s'.
  Proof.
    revert s; induction f as [|f IH]; intro s; cbn [run_loop]; [intros [= <- <-]; apply mss_nil|].
    destruct (pump_read tp s) as [rd s1] eqn:E1. apply pump_read_msteps in E1.
    destruct rd as [u| | |a]; cbn [perr] in E1; [| | |intros [= <- <-]; exact E1];
      destruct (pump_write tp s1) as [wr s2] eqn:E2; apply pump_write_msteps in E2;
      pose proof (msteps_trans _ _ _ _ E1 E2) as E12;
      (destruct wr as [u'| | |a']; cbn [perr] in E12; [| | |intros [= <- <-]; exact E12]);
      (assert (KL : run_loop tp f s2 = (r, s') -> msteps (rerr r) s s')
         by (intro H; apply IH in H; eapply msteps_trans; eassumption));
      try (intros [= <- <-]; exact E12); try exact KL;
      destruct (Nat.eqb _ 0); try (intros [= <- <-]; exact E12); try exact KL.
  Qed.

(*MORE*)
End G3.
