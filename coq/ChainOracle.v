(* Chain proofs: inside the clock range the timer-order oracle of no node ever disagrees.
   `SL n (n_srv nd)` (TimerWheelProofs6) for every node is an invariant of Chain.step while the
   sum of the Advance ops stays at or below LIMIT = 2^36 - 1 - MAX_TIMEOUT ms; hence no KOracle
   in any trace, and every SettleAll reaches a quiet round (no KRounds). *)
From Coq Require Import List Bool Arith NArith Lia.
Import ListNotations.
From TarpcV Require Import Base Transport TimerWheel Chain ChainBase ChainLoops ChainSpec.
From TarpcV Require Client Server ServerFuel ChainRounds5 TimerWheelProofs5 TimerWheelProofs6.
Local Open Scope N_scope.

Notation LIMIT := TimerWheelProofs5.LIMIT.
Notation SLs := (TimerWheelProofs6.SL (T := link)).

Definition chain_advs (ops : list cop) : N :=
  fold_right (fun o a => match o with Advance dt => dt + a | _ => a end) 0 ops.

Definition CO (n : N) (ch : chain) : Prop := Forall (fun nd => SLs n (n_srv nd)) ch.
Definition noo (l : list cobs) : Prop := forall i, ~ In (KOracle i) l.

Lemma noo_nil : noo []. Proof. intros i []. Qed.
Lemma noo_app a b : noo a -> noo b -> noo (a ++ b).
Proof. intros A B i H. apply in_app_or in H. destruct H; [eapply A|eapply B]; eassumption. Qed.
Lemma noo_tr_cobs i l : noo (flat_map (tr_cobs i) l).
Proof. intros j H. apply in_flat_map in H. destruct H as (o & _ & H). destruct o; cbn in H; intuition discriminate. Qed.
Lemma noo_tr_sobs i l : ~ In Server.OOracle l -> noo (flat_map (tr_sobs i) l).
Proof.
  intros N j H. apply in_flat_map in H. destruct H as (o & Io & H). destruct o; cbn in H; try (intuition discriminate).
Qed.

(* ---------------------------------------------------------------- one step of a node *)
Lemma cstep_srv nd o : n_srv (fst (cstep nd o)) = n_srv nd.
Proof. unfold cstep. destruct (Client.step _ _ _ _). reflexivity. Qed.

Lemma sstep_SL n nd o nd1 l :
  sstep nd o = (nd1, l) -> SLs n (n_srv nd) -> n + TimerWheelProofs6.adv1 o <= LIMIT ->
  SLs (n + TimerWheelProofs6.adv1 o) (n_srv nd1) /\ ~ In Server.OOracle l.
Proof.
  unfold sstep. intros H K LM.
  destruct (Server.step stp (fun t (_ : unit) => t) (fun t => length (l_c2s t)) scfg
                        (Server.set_t (n_srv nd) (n_link nd)) o) as [s1 l1] eqn:ES.
  injection H as <- <-. cbn [n_srv].
  assert (K0 : SLs n (Server.set_t (n_srv nd) (n_link nd))).
  { revert K. apply TimerWheelProofs6.SL_frame; ServerFuel.sproj; reflexivity. }
  exact (TimerWheelProofs6.SL_step stp _ _ n _ o _ _ ES K0 LM).
Qed.
Lemma sstep_SL0 n nd o nd1 l :
  TimerWheelProofs6.adv1 o = 0 -> sstep nd o = (nd1, l) -> SLs n (n_srv nd) -> n <= LIMIT ->
  SLs n (n_srv nd1) /\ ~ In Server.OOracle l.
Proof.
  intros A H K LM. pose proof (sstep_SL n nd o nd1 l H K) as R. rewrite A, N.add_0_r in R. apply R, LM.
Qed.

Lemma CO_set i nd ch n : CO n ch -> SLs n (n_srv nd) -> CO n (set_node i nd ch).
Proof. intros A B. apply Forall_set_node; assumption. Qed.
Lemma CO_nth n ch i nd : CO n ch -> nth_error ch i = Some nd -> SLs n (n_srv nd).
Proof. intros A B. exact (Forall_nth _ _ _ _ A B). Qed.
Lemma SL_le n (s : Server.sstate (T := link)) : SLs n s -> n <= LIMIT.
Proof. intros [_ [_ L]]. exact L. Qed.

(* ---------------------------------------------------------------- the component polls *)
Lemma co_poll_head n j ch ch' l : CO n ch -> poll_head j ch = (ch', l) -> CO n ch' /\ noo l.
Proof.
  unfold poll_head. intros K H. destruct (nth_error ch 0) as [nd|] eqn:E; [|injection H as <- <-; split; [exact K|apply noo_nil]].
  pose proof (cstep_srv nd (Client.PollCall j)) as S. destruct (cstep nd (Client.PollCall j)) as [nd1 l1]. cbn [fst] in S.
  injection H as <- <-. split; [apply CO_set; [exact K|rewrite S; eapply CO_nth; eassumption]|].
  intros i H. apply in_flat_map in H. destruct H as (o & _ & H). destruct o; cbn in H; intuition discriminate.
Qed.
Lemma co_poll_dispatch n i ch ch' l : CO n ch -> Chain.poll_dispatch i ch = (ch', l) -> CO n ch' /\ noo l.
Proof.
  unfold Chain.poll_dispatch. intros K H. destruct (nth_error ch i) as [nd|] eqn:E; [|injection H as <- <-; split; [exact K|apply noo_nil]].
  pose proof (cstep_srv nd Client.PollDispatch) as S. destruct (cstep nd Client.PollDispatch) as [nd1 l1]. cbn [fst] in S.
  injection H as <- <-. split; [apply CO_set; [exact K|rewrite S; eapply CO_nth; eassumption]|apply noo_tr_cobs].
Qed.
Lemma co_poll_requests n i ch ch' l : CO n ch -> poll_requests i ch = (ch', l) -> CO n ch' /\ noo l.
Proof.
  unfold poll_requests. intros K H. destruct (nth_error ch i) as [nd|] eqn:E; [|injection H as <- <-; split; [exact K|apply noo_nil]].
  destruct (n_over nd || _); [injection H as <- <-; split; [exact K|apply noo_nil]|].
  destruct (sstep nd Server.OPoll) as [nd1 l1] eqn:ES. injection H as <- <-.
  pose proof (CO_nth _ _ _ _ K E) as K0.
  destruct (sstep_SL0 n nd Server.OPoll nd1 l1 eq_refl ES K0 (SL_le _ _ K0)) as [K1 NO].
  split; [apply CO_set; [exact K|exact K1]|apply noo_tr_sobs, NO].
Qed.
Lemma co_poll_handler n i k st ch ch' l : CO n ch -> poll_handler i k st ch = (ch', l) -> CO n ch' /\ noo l.
Proof.
  unfold poll_handler. intros K H. destruct (nth_error ch i) as [nd|] eqn:E; [|injection H as <- <-; split; [exact K|apply noo_nil]].
  destruct (nth_error (Server.s_handlers (n_srv nd)) k) as [hr|]; [|injection H as <- <-; split; [exact K|apply noo_nil]].
  pose proof (CO_nth _ _ _ _ K E) as K0. pose proof (SL_le _ _ K0) as LM.
  assert (Plain : forall nd0 st0 nd1 l1, n_srv nd0 = n_srv nd -> sstep nd0 (Server.OHandlerPoll k st0) = (nd1, l1) ->
                    SLs n (n_srv nd1) /\ noo (flat_map (tr_sobs i) l1)).
  { intros nd0 st0 nd1 l1 EQ ES. destruct (sstep_SL0 n nd0 (Server.OHandlerPoll k st0) nd1 l1 eq_refl ES ltac:(rewrite EQ; exact K0) LM) as [A B].
    split; [exact A|apply noo_tr_sobs, B]. }
  assert (First : forall (x : list cobs) l0, (x = [KHStart i k] \/ x = []) -> noo l0 -> noo (x ++ l0)).
  { intros x l0 [-> | ->] A; [|exact A]. apply noo_app; [|exact A]. intros j [Z|[]]. discriminate. }
  assert (Run : forall b : bool,
    (if b
     then
      let '(nd1, l0) := sstep nd (Server.OHandlerPoll k Server.SRun) in
      let ch1 := set_node i nd1 ch in
      let ch2 :=
        match option_map hi_call (nth_error (n_hs nd) k) with
        | Some (Some j) =>
            match nth_error ch1 (S i) with
            | Some nx => set_node (S i) (fst (cstep nx (Client.DropCall j))) ch1
            | None => ch1
            end
        | _ => ch1
        end in
      (ch2, flat_map (tr_sobs i) l0)
     else
      let first := match Server.h_st hr with
                   | Server.HYielded => [KHStart i k]
                   | _ => []
                   end in
      match nth_error ch (S i) with
      | Some nx =>
          let '(nd1, nx1, st1) := inner_poll k nd nx in
          let '(nd2, l0) := sstep nd1 (Server.OHandlerPoll k st1) in
          (set_node (S i) nx1 (set_node i nd2 ch), first ++ flat_map (tr_sobs i) l0)
      | None =>
          let '(nd1, l0) := sstep nd (Server.OHandlerPoll k st) in
          (set_node i nd1 ch, first ++ flat_map (tr_sobs i) l0)
      end) = (ch', l) -> CO n ch' /\ noo l).
  { intros [|].
    - destruct (sstep nd (Server.OHandlerPoll k Server.SRun)) as [nd1 l0] eqn:ES. cbv zeta.
      destruct (Plain nd _ _ _ eq_refl ES) as [A B].
      assert (K1 : CO n (set_node i nd1 ch)) by (apply CO_set; assumption).
      destruct (option_map hi_call (nth_error (n_hs nd) k)) as [[j|]|]; try (intros [= <- <-]; split; assumption).
      destruct (nth_error (set_node i nd1 ch) (S i)) as [nx|] eqn:En.
      + assert (KX : SLs n (n_srv (fst (cstep nx (Client.DropCall j))))) by (rewrite cstep_srv; eapply CO_nth; eassumption).
        intros [= <- <-]. split; [|exact B]. apply CO_set; [exact K1|exact KX].
      + intros [= <- <-]. split; [exact K1|exact B].
    - destruct (nth_error ch (S i)) as [nx|] eqn:En.
      + destruct (inner_poll k nd nx) as [[nd1 nx1] st1] eqn:EI.
        assert (S1 : n_srv nd1 = n_srv nd /\ n_srv nx1 = n_srv nx).
        { unfold inner_poll in EI. destruct (nth_error (n_hs nd) k) as [h|]; [|injection EI as <- <- _; split; reflexivity].
          destruct (hi_call h) as [j|].
          - pose proof (cstep_srv nx (Client.PollCall j)) as S. destruct (cstep nx (Client.PollCall j)) as [nx2 lx].
            injection EI as <- <- _. split; [reflexivity|exact S].
          - match type of EI with context [cstep ?a ?b] => pose proof (cstep_srv a b) as S; destruct (cstep a b) as [nx2 lx] end.
            injection EI as <- <- _. split; [reflexivity|exact S]. }
        destruct S1 as [S1 S2].
        destruct (sstep nd1 (Server.OHandlerPoll k st1)) as [nd2 l0] eqn:ES. intros [= <- <-].
        destruct (Plain nd1 _ _ _ S1 ES) as [A B].
        split; [|apply First; [destruct (Server.h_st hr); auto|exact B]].
        apply CO_set; [apply CO_set; assumption|]. rewrite S2. eapply CO_nth; eassumption.
      + destruct (sstep nd (Server.OHandlerPoll k st)) as [nd1 l0] eqn:ES. intros [= <- <-].
        destruct (Plain nd _ _ _ eq_refl ES) as [A B].
        split; [apply CO_set; assumption|apply First; [destruct (Server.h_st hr); auto|exact B]]. }
  destruct (Server.h_st hr) eqn:Est; try (apply (Run (is_aborted (n_srv nd) hr)); exact H); try (injection H as <- <-; split; [exact K|apply noo_nil]).
  - destruct (sstep nd (Server.OHandlerPoll k Server.SRun)) as [nd1 l0] eqn:ES. injection H as <- <-.
    destruct (Plain nd _ _ _ eq_refl ES) as [A B]. split; [apply CO_set; assumption|exact B].
  - destruct (sstep nd (Server.OHandlerPoll k Server.SRun)) as [nd1 l0] eqn:ES. injection H as <- <-.
    destruct (Plain nd _ _ _ eq_refl ES) as [A B]. split; [apply CO_set; assumption|exact B].
Qed.

(* ---------------------------------------------------------------- SettleAll *)
Definition isO (e : cobs) : bool := match e with KOracle _ => true | _ => false end.
Definition fO (x : bool) (e : cobs) : bool := x || isO e.
Lemma fold_fO l : forall x, fold_left fO l x = false <-> x = false /\ noo l.
Proof.
  induction l as [|e r IH]; intro x; cbn [fold_left].
  - split; [intro H; split; [exact H|apply noo_nil]|intros [H _]; exact H].
  - rewrite IH. unfold fO. split.
    + intros [A B]. apply orb_false_iff in A. destruct A as [A1 A2]. split; [exact A1|].
      intros i [Z|Z]; [subst e; discriminate|exact (B i Z)].
    + intros [A B]. split; [|intros i Z; apply (B i); right; exact Z].
      subst x. cbn. destruct e; try reflexivity. exfalso. apply (B i). left; reflexivity.
Qed.

Lemma noo_gauges n ch : CO n ch -> forall i, noo (all_gauges i ch).
Proof.
  induction 1 as [|nd r K _ IH]; intro i; cbn [all_gauges]; [apply noo_nil|].
  apply noo_app; [intros j [Z|[]]; discriminate|]. apply noo_app; [|apply IH].
  unfold sgauge. destruct (Server.s_dropped _); [apply noo_nil|].
  rewrite (TimerWheelProofs5.si_bad _ (proj1 K)). intros j [Z|[]]. discriminate.
Qed.

Lemma co_settle_all n ch ch' l : CO n ch -> settle_all ch = (ch', l) -> CO n ch' /\ noo l.
Proof.
  intros K H.
  set (Inv := fun (x : bool) (c : chain) => CO n c /\ x = false).
  assert (G : forall x c c' l0, Inv x c -> CO n c' /\ noo l0 -> Inv (fold_left fO l0 x) c').
  { intros x c c' l0 [_ X] [A B]. split; [exact A|]. apply fold_fO. split; assumption. }
  pose proof (lp_settle_all bool fO Inv
    (fun x j c c' l0 I E => G x c c' l0 I (co_poll_head n j c c' l0 (proj1 I) E))
    (fun x i c c' l0 I E => G x c c' l0 I (co_poll_dispatch n i c c' l0 (proj1 I) E))
    (fun x i c c' l0 I E => G x c c' l0 I (co_poll_requests n i c c' l0 (proj1 I) E))
    (fun x i k st c c' l0 I E => G x c c' l0 I (co_poll_handler n i k st c c' l0 (proj1 I) E))) as LS.
  assert (NE : forall (x : bool) e, is_event e = false -> fO x e = x).
  { intros x e E. unfold fO. destruct e; try discriminate; destruct x; reflexivity. }
  assert (TL : forall x c (q : bool), Inv x c -> Inv (fold_left fO ((if q then [] else [KRounds]) ++ all_gauges 0 c) x) c).
  { intros x c q [A X]. split; [exact A|]. apply fold_fO. split; [exact X|].
    apply noo_app; [destruct q; [apply noo_nil|intros j [Z|[]]; discriminate]|eapply noo_gauges, A]. }
  destruct (LS NE TL false ch ch' l (conj K eq_refl) H) as [A B]. split; [exact A|]. apply fold_fO in B. apply B.
Qed.

(* ---------------------------------------------------------------- steps and runs *)
Definition cadv (o : cop) : N := match o with Advance dt => dt | _ => 0 end.
Lemma chain_advs_cons o r : chain_advs (o :: r) = cadv o + chain_advs r.
Proof. destruct o; reflexivity. Qed.

Lemma co_step n ch o :
  CO n ch -> n + cadv o <= LIMIT -> CO (n + cadv o) (fst (step ch o)) /\ noo (snd (step ch o)).
Proof.
  intros K LM. destruct o; cbn [step cadv] in *; rewrite ?N.add_0_r in *.
  - destruct (nth_error ch 0) as [nd|] eqn:E; cbn [fst snd]; (split; [|apply noo_nil]); [|exact K].
    apply CO_set; [exact K|]. rewrite cstep_srv. eapply CO_nth; eassumption.
  - destruct (poll_head j ch) as [c l] eqn:E. eapply co_poll_head; eassumption.
  - destruct (nth_error ch 0) as [nd|] eqn:E; cbn [fst snd]; (split; [|apply noo_nil]); [|exact K].
    apply CO_set; [exact K|]. rewrite cstep_srv. eapply CO_nth; eassumption.
  - destruct (Chain.poll_dispatch i ch) as [c l] eqn:E. eapply co_poll_dispatch; eassumption.
  - destruct (poll_requests i ch) as [c l] eqn:E. eapply co_poll_requests; eassumption.
  - destruct (poll_handler i k st ch) as [c l] eqn:E. eapply co_poll_handler; eassumption.
  - destruct (nth_error ch i) as [nd|] eqn:E; [|split; [exact K|apply noo_nil]].
    destruct (Client.dropped _); [split; [exact K|apply noo_nil]|].
    pose proof (cstep_srv nd Client.DropDispatch) as S. destruct (cstep nd Client.DropDispatch) as [nd1 l1]. cbn [fst snd] in *.
    split; [|apply noo_nil]. apply CO_set; [exact K|]. cbn [n_srv]. rewrite S. eapply CO_nth; eassumption.
  - destruct (nth_error ch i) as [nd|] eqn:E; [|split; [exact K|apply noo_nil]].
    destruct (Server.s_dropped _); [split; [exact K|apply noo_nil]|].
    destruct (sstep nd Server.ODropChannel) as [nd1 l1] eqn:ES. cbn [fst snd].
    pose proof (CO_nth _ _ _ _ K E) as K0.
    destruct (sstep_SL0 n nd Server.ODropChannel nd1 l1 eq_refl ES K0 (SL_le _ _ K0)) as [K1 _].
    split; [|apply noo_nil]. apply CO_set; [exact K|exact K1].
  - cbn [fst snd]. split; [|apply noo_nil]. unfold CO in *. apply Forall_map. revert K. apply Forall_impl.
    intros nd K0. unfold advance_node.
    pose proof (cstep_srv nd (Client.Advance dt)) as S. destruct (cstep nd (Client.Advance dt)) as [nd1 l1]. cbn [fst] in S.
    destruct (sstep nd1 (Server.OAdvance dt)) as [nd2 l2] eqn:ES.
    apply (sstep_SL n nd1 (Server.OAdvance dt) nd2 l2 ES); [rewrite S; exact K0|exact LM].
  - destruct (settle_all ch) as [c l] eqn:E. eapply co_settle_all; eassumption.
Qed.

Lemma co_run ops : forall n ch,
  CO n ch -> n + chain_advs ops <= LIMIT -> forall l, In l (fst (run_from ch ops)) -> noo l.
Proof.
  induction ops as [|o r IH]; intros n ch K LM l; cbn [run_from]; [intros []|].
  rewrite chain_advs_cons in LM.
  destruct (co_step n ch o K ltac:(lia)) as [K1 NO]. destruct (step ch o) as [ch1 l1]. cbn [fst snd] in *.
  specialize (IH (n + cadv o) ch1 K1 ltac:(lia)). destruct (run_from ch1 r) as [ls ch2]. cbn [fst] in *.
  intros [<-|H]; [exact NO|apply IH, H].
Qed.

Lemma CO_init d : CO 0 (init d).
Proof.
  unfold init. induction d as [|d IH]; cbn [repeat]; [constructor|]. constructor; [|exact IH].
  exact (@TimerWheelProofs6.SL_init link unit (fun t _ => t) (fun t => length (l_c2s t)) link0).
Qed.

(* inside the clock range no timer-order oracle of any node ever disagrees ... *)
Theorem chain_no_oracle : forall d ops,
  chain_advs ops <= LIMIT -> forall l i, In l (fst (run d ops)) -> ~ In (KOracle i) l.
Proof. intros d ops LM l i H. unfold run in H. exact (co_run ops 0 (init d) (CO_init d) ltac:(lia) l H i). Qed.

(* ... and therefore every SettleAll reaches a quiet round *)
Theorem chain_rounds_clock : forall d ops,
  chain_advs ops <= LIMIT -> forall l, In l (fst (run d ops)) -> ~ In KRounds l.
Proof. intros d ops LM. apply ChainRounds5.chain_rounds. intros l i. apply chain_no_oracle, LM. Qed.

Print Assumptions chain_no_oracle.
Print Assumptions chain_rounds_clock.
