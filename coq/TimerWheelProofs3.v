(* Timer wheel proofs, part 3: Wheel::poll.  Inside the range (every deadline and the clock below
   2^36 ms since the queue's start): the invariant is kept, the multiset of entries is kept but
   for the entry handed out, that entry is due and has the least deadline of all, and when
   nothing is handed out nothing is due. *)
From Coq Require Import List Bool Arith NArith Lia Permutation.
Import ListNotations.
From TarpcV Require Import TimerWheel TimerWheelProofs0 TimerWheelProofs1 TimerWheelProofs2.
Local Open Scope N_scope.

(* ---------------------------------------------------------------- moving the invariant *)
Lemma eok_elapsed E E' m m' lv sl w :
  eok E m lv sl w -> E <= E' -> E' <= sstart lv w -> ((m' <= lv)%nat -> E' < sstart lv w) -> (m' <= S lv)%nat ->
  eok E' m' lv sl w.
Proof.
  intros [] L1 L2 L3 L4. constructor; try assumption.
  apply N.le_antisymm.
  - rewrite eo_blk. apply N.div_le_mono; [apply rr_nz|exact L1].
  - apply N.div_le_mono; [apply rr_nz|]. pose proof (sstart_le lv w). lia.
Qed.

Lemma eok_cascade lv' w :
  (S lv' <= 5)%nat -> w < RNG ->
  eok (sstart (S lv') w) (S lv') lv' (slot_for w lv') w.
Proof.
  intros L R. constructor; try lia; try reflexivity; try assumption.
  - symmetry. apply sstart_div.
  - rewrite (sstart_decomp lv' w). unfold sstart. lia.
Qed.

(* ---------------------------------------------------------------- cascading a stack *)
Lemma stack_of_fold_add lv' ents : forall l lvx slx e,
  In e (stack_of lvx slx (fold_left (fun l e => add_entry lv' e l) ents l)) ->
  In e (stack_of lvx slx l) \/ (In e ents /\ lvx = lv' /\ slx = slot_for (we_when e) lv').
Proof.
  induction ents as [|a r IH]; intros l lvx slx e H; cbn [fold_left] in H; [left; exact H|].
  apply IH in H. destruct H as [H|(H1 & H2 & H3)]; [|right; split; [right; exact H1|split; assumption]].
  unfold add_entry in H. rewrite stack_of_push in H. destruct (keyb lv' (slot_for (we_when a) lv') lvx slx) eqn:K.
  - apply keyb_true in K. injection K as -> ->. destruct H as [<-|H]; [right; split; [left; reflexivity|split; reflexivity]|].
    left; exact H.
  - left; exact H.
Qed.
Lemma wf_fold_add lv' ents : forall l, wf l -> wf (fold_left (fun l e => add_entry lv' e l) ents l).
Proof. induction ents as [|a r IH]; intros l W; cbn [fold_left]; [exact W|]. apply IH, wf_push, W. Qed.
Lemma wents_fold_add lv' ents : forall l,
  Permutation (wents (fold_left (fun l e => add_entry lv' e l) ents l)) (ents ++ wents l).
Proof.
  induction ents as [|a r IH]; intros l; cbn [fold_left app]; [reflexivity|].
  eapply perm_trans; [apply IH|]. eapply perm_trans; [apply Permutation_app_head, wents_push|].
  symmetry. apply Permutation_middle.
Qed.

(* ---------------------------------------------------------------- the measure of the loop *)
Definition lsum (l : list wslot) : nat := fold_right (fun x a => (ws_level x * length (ws_stack x) + a)%nat) 0%nat l.

Lemma lsum_partition p l : lsum l = (lsum (filter p l) + lsum (filter (fun x => negb (p x)) l))%nat.
Proof. induction l as [|y r IH]; cbn [filter lsum fold_right]; [reflexivity|]. fold (lsum r). destruct (p y); cbn [negb lsum fold_right]; fold (lsum (filter p r)); fold (lsum (filter (fun x => negb (p x)) r)); lia. Qed.
Lemma lsum_key lv sl l : NoDup (map key l) -> lsum (filter (slot_is lv sl) l) = (lv * length (stack_of lv sl l))%nat.
Proof.
  unfold stack_of. induction l as [|y r IH]; intro ND; cbn [filter find]; [cbn; lia|].
  inversion ND as [|? ? NX ND']; subst. destruct (slot_is lv sl y) eqn:S; [|apply IH, ND'].
  assert (E : filter (slot_is lv sl) r = []).
  { apply slot_is_key in S. clear - S NX. induction r as [|z r IH]; cbn [filter]; [reflexivity|].
    destruct (slot_is lv sl z) eqn:Sz.
    - exfalso. apply NX. left. apply slot_is_key in Sz. congruence.
    - apply IH. intro H. apply NX. right; exact H. }
  rewrite E. cbn [lsum fold_right]. apply slot_is_key in S. injection S as -> _. lia.
Qed.
Lemma lsum_push lv sl e l : lsum (push_slot lv sl e l) = (lsum l + lv)%nat.
Proof.
  induction l as [|y r IH]; cbn [push_slot lsum fold_right ws_level ws_stack length]; [lia|].
  destruct (slot_is lv sl y) eqn:S; cbn [lsum fold_right ws_level ws_stack length]; fold (lsum r).
  - apply slot_is_key in S. injection S as -> _. lia.
  - fold (lsum (push_slot lv sl e r)). rewrite IH. lia.
Qed.
Lemma lsum_fold_add lv' ents : forall l,
  lsum (fold_left (fun l e => add_entry lv' e l) ents l) = (lsum l + lv' * length ents)%nat.
Proof.
  induction ents as [|a r IH]; intro l; cbn [fold_left length]; [lia|].
  rewrite IH. unfold add_entry. rewrite lsum_push. lia.
Qed.
Lemma lsum_drop lv sl l : wf l -> lsum l = (lv * length (stack_of lv sl l) + lsum (drop_slot lv sl l))%nat.
Proof. intros [K _]. rewrite (lsum_partition (slot_is lv sl) l), (lsum_key lv sl l K). reflexivity. Qed.

(* ---------------------------------------------------------------- Wheel::poll *)
Lemma wents_stack l e : wf l -> In e (wents l) -> exists lv sl, In e (stack_of lv sl l).
Proof.
  intros [K _] H. apply in_flat_map in H. destruct H as (x & I & He).
  exists (ws_level x), (ws_slot x). rewrite (stack_of_wf l x K I). exact He.
Qed.
Lemma stack_wents l lv sl e : In e (stack_of lv sl l) -> In e (wents l).
Proof. intro H. apply stack_of_in in H. destruct H as (x & I & _ & He). apply in_flat_map. exists x. split; assumption. Qed.

Lemma sstart0 w : sstart 0 w = w.
Proof. unfold sstart. change (rr 0) with 1. rewrite N.div_1_r. lia. Qed.

Lemma eok_up E m m' lv sl w : eok E m lv sl w -> (m <= m')%nat -> (m' <= S lv)%nat -> eok E m' lv sl w.
Proof. intros [] A B. constructor; try assumption. intro H. apply eo_lt. lia. Qed.

Lemma stack_of_cons x l lv sl : stack_of lv sl (x :: l) = if slot_is lv sl x then ws_stack x else stack_of lv sl l.
Proof. unfold stack_of. cbn [find]. destruct (slot_is lv sl x); reflexivity. Qed.

Lemma set_elapsed_le (w : wheel) t : w_elapsed w <= t -> w_elapsed (set_elapsed w t) = t.
Proof. intro H. unfold set_elapsed. cbn [w_elapsed]. destruct (w_elapsed w <? t) eqn:C; [reflexivity|]. apply N.ltb_ge in C. lia. Qed.

Definition pres (now : N) (w w' : wheel) (r : option wentry) : Prop :=
  WI 1 w' /\ w_elapsed w <= w_elapsed w' /\ w_elapsed w' <= now /\
  match r with
  | Some e => Permutation (wents (w_slots w)) (e :: wents (w_slots w')) /\ we_when e <= now /\
              forall e', In e' (wents (w_slots w')) -> we_when e <= we_when e'
  | None => Permutation (wents (w_slots w)) (wents (w_slots w')) /\
            (forall e', In e' (wents (w_slots w')) -> now < we_when e') /\ w_elapsed w' = now /\
            (lsum (w_slots w') <= lsum (w_slots w))%nat /\
            (forall lv sl dl, next_expiration w = Some (lv, sl, dl) -> dl <= now ->
                              (lsum (w_slots w') < lsum (w_slots w))%nat)
  end.

Lemma wheel_poll_spec fuel : forall w m now,
  WI m w -> w_elapsed w <= now -> now < RNG -> (lsum (w_slots w) < fuel)%nat ->
  forall r w', wheel_poll fuel now w = (r, w') -> pres now w w' r.
Proof.
  induction fuel as [|f IH]; intros w m now I LE RN FU r w' HP; [lia|].
  cbn [wheel_poll] in HP. pose proof (next_expiration_spec m w I) as NX.
  destruct I as [RG W OK].
  destruct (next_expiration w) as [[[lv sl] dl]|] eqn:ENX.
  2: { (* empty wheel *)
    injection HP as <- <-. assert (EM : forall e, ~ In e (wents (w_slots w))).
    { intros e H. destruct (wents_stack _ _ W H) as (lv & sl & H'). rewrite NX in H'. destruct H'. }
    split; [|split; [|split]].
    - constructor; [rewrite set_elapsed_le by exact LE; exact RN|exact W|]. cbn [w_slots set_elapsed]. intros lv sl e H. rewrite NX in H. destruct H.
    - rewrite set_elapsed_le by exact LE. exact LE.
    - rewrite set_elapsed_le by exact LE. lia.
    - cbn [w_slots set_elapsed]. split; [reflexivity|]. split; [intros e' H; destruct (EM e' H)|].
      split; [apply set_elapsed_le, LE|]. split; [lia|intros ? ? ? X; rewrite ENX in X; discriminate X]. }
  destruct NX as [BEL LV OCC DL MIN GE].
  (* every entry: dl <= its slot start *)
  assert (ALL : forall lv' sl' e', In e' (stack_of lv' sl' (w_slots w)) -> dl <= sstart lv' (we_when e')).
  { intros lv' sl' e' H. destruct (Nat.eq_dec lv' lv) as [->|N1]; [destruct (N.eq_dec sl' sl) as [->|N2]|].
    - rewrite (DL e' H). lia.
    - apply N.lt_le_incl, (MIN lv sl' e' H). congruence.
    - apply N.lt_le_incl, (MIN lv' sl' e' H). congruence. }
  destruct (dl <=? now) eqn:CD.
  2: { (* nothing due *)
    apply N.leb_gt in CD. injection HP as <- <-. split; [|split; [|split]].
    - constructor; [rewrite set_elapsed_le by exact LE; exact RN|exact W|]. cbn [w_slots set_elapsed].
      intros lv' sl' e' H. rewrite set_elapsed_le by exact LE. specialize (ALL _ _ _ H).
      eapply eok_elapsed; [apply OK, H|exact LE|lia|intros _; lia|lia].
    - rewrite set_elapsed_le by exact LE. exact LE.
    - rewrite set_elapsed_le by exact LE. lia.
    - cbn [w_slots set_elapsed]. split; [reflexivity|]. split; [|split; [apply set_elapsed_le, LE|split; [lia|intros ? ? ? X ?; rewrite ENX in X; injection X as _ _ <-; lia]]].
      intros e' H. destruct (wents_stack _ _ W H) as (lv' & sl' & H'). specialize (ALL _ _ _ H').
      pose proof (sstart_le lv' (we_when e')). lia. }
  apply N.leb_le in CD.
  destruct lv as [|lv'].
  - (* level 0: pop *)
    case_eq (stack_of 0 sl (w_slots w)); [intro ST; congruence|intros e rest ST]. rewrite ST in HP. injection HP as <- <-.
    assert (M1 : (m <= 1)%nat) by (destruct (OK 0%nat sl e) as [_ _ _ _ _ _ LOW]; [rewrite ST; left; reflexivity|exact LOW]).
    set (l' := match rest with
               | [] => drop_slot 0 sl (w_slots w)
               | _ => {| ws_level := 0; ws_slot := sl; ws_stack := rest |} :: drop_slot 0 sl (w_slots w)
               end).
    assert (SUB : forall lvx slx x, In x (stack_of lvx slx l') ->
                    (In x (stack_of lvx slx (w_slots w)) /\ (lvx, slx) <> (0%nat, sl)) \/ ((lvx, slx) = (0%nat, sl) /\ In x rest)).
    { intros lvx slx x H. unfold l' in H. destruct rest as [|r0 rs].
      - rewrite stack_of_drop in H. destruct (keyb 0 sl lvx slx) eqn:K; [destruct H|]. left. split; [exact H|].
        intro Z. apply keyb_true in Z. congruence.
      - rewrite stack_of_cons in H. destruct (slot_is lvx slx _) eqn:S.
        + right. apply slot_is_key in S. split; [symmetry; exact S|exact H].
        + rewrite stack_of_drop in H. destruct (keyb 0 sl lvx slx) eqn:K; [destruct H|]. left. split; [exact H|].
          intro Z. apply keyb_true in Z. congruence. }
    assert (SUB' : forall lvx slx x, In x (stack_of lvx slx l') -> In x (stack_of lvx slx (w_slots w))).
    { intros lvx slx x H. destruct (SUB _ _ _ H) as [[A _]|[A B]]; [exact A|]. injection A as -> ->. rewrite ST. right; exact B. }
    assert (W' : wf l').
    { unfold l'. destruct rest; [apply wf_drop, W|apply wf_cons_replace; [exact W|discriminate]]. }
    assert (PM : Permutation (wents (w_slots w)) (e :: wents l')).
    { eapply perm_trans; [apply (wents_drop 0 sl _ W)|]. rewrite ST. unfold l'. destruct rest; reflexivity. }
    assert (WE : we_when e = dl) by (rewrite <- (DL e); [apply eq_sym, sstart0|rewrite ST; left; reflexivity]).
    split; [|split; [|split]].
    + constructor; [exact RG|exact W'|]. cbn [w_slots w_elapsed]. intros lvx slx x H.
      eapply eok_up; [apply OK, SUB', H|exact M1|lia].
    + cbn [w_elapsed]. lia.
    + cbn [w_elapsed]. lia.
    + cbn [w_slots]. split; [exact PM|]. split; [lia|].
      intros e' H. destruct (wents_stack _ _ W' H) as (lvx & slx & Hx).
      destruct (SUB _ _ _ Hx) as [[A B]|[A B]].
      * pose proof (MIN _ _ _ A B). pose proof (sstart_le lvx (we_when e')). lia.
      * assert (In e' (stack_of 0 sl (w_slots w))) by (rewrite ST; right; exact B).
        rewrite <- (sstart0 (we_when e')), (DL e' H0). lia.
  - (* cascade *)
    set (ents := stack_of (S lv') sl (w_slots w)) in *.
    set (l1 := drop_slot (S lv') sl (w_slots w)).
    set (l2 := fold_left (fun l e => add_entry lv' e l) ents l1).
    set (w2 := set_elapsed {| w_elapsed := w_elapsed w; w_slots := l2 |} dl).
    assert (E2 : w_elapsed w2 = dl) by (apply set_elapsed_le; exact GE).
    assert (S2 : w_slots w2 = l2) by reflexivity.
    assert (I2 : WI (S lv') w2).
    { constructor; [rewrite E2; lia|rewrite S2; apply wf_fold_add, wf_drop, W|].
      rewrite S2, E2. intros lvx slx x H. apply stack_of_fold_add in H. destruct H as [H|(H1 & -> & ->)].
      - unfold l1 in H. rewrite stack_of_drop in H. destruct (keyb (S lv') sl lvx slx) eqn:K; [destruct H|].
        assert (NK : (lvx, slx) <> (S lv', sl)) by (intro Z; apply keyb_true in Z; congruence).
        pose proof (MIN _ _ _ H NK) as LT.
        assert (LX : (S lv' <= lvx)%nat).
        { destruct (Nat.le_gt_cases (S lv') lvx) as [A|A]; [exact A|]. rewrite (BEL lvx slx A) in H. destruct H. }
        eapply eok_elapsed; [apply OK, H|exact GE|lia|intros _; exact LT|lia].
      - rewrite <- (DL x H1). apply eok_cascade; [exact LV|]. apply (OK _ _ _ H1). }
    assert (F2 : (lsum (w_slots w2) < f)%nat).
    { rewrite S2. unfold l2. rewrite lsum_fold_add. unfold l1.
      pose proof (lsum_drop (S lv') sl _ W) as LD. fold ents in LD.
      assert (0 < length ents)%nat by (destruct ents; [congruence|cbn; lia]). nia. }
    assert (LE2 : w_elapsed w2 <= now) by (rewrite E2; exact CD).
    fold ents l1 l2 w2 in HP.
    destruct (IH w2 (S lv') now I2 LE2 RN F2 r w' HP) as (A1 & A2 & A3 & A4).
    assert (PM : Permutation (wents (w_slots w)) (wents (w_slots w2))).
    { rewrite S2. eapply perm_trans; [apply (wents_drop (S lv') sl _ W)|]. fold ents l1. symmetry. apply wents_fold_add. }
    split; [exact A1|]. split; [rewrite E2 in A2; lia|]. split; [exact A3|].
    destruct r.
    + destruct A4 as (B1 & B2 & B3). split; [eapply perm_trans; eassumption|]. split; assumption.
    + destruct A4 as (B1 & B2 & B3 & B4 & _). split; [eapply perm_trans; eassumption|]. split; [assumption|]. split; [assumption|].
      assert (LL : (lsum (w_slots w2) < lsum (w_slots w))%nat).
      { rewrite S2. unfold l2. rewrite lsum_fold_add. unfold l1.
        pose proof (lsum_drop (S lv') sl _ W) as LD. fold ents in LD.
        assert (0 < length ents)%nat by (destruct ents; [congruence|cbn; lia]). nia. }
      split; [lia|intros; lia].
Qed.

(* ---------------------------------------------------------------- Wheel::insert / remove *)
Lemma eok_insert E w :
  E < RNG -> w < RNG -> E < w ->
  eok E 1 (level_for E w) (slot_for w (level_for E w)) w.
Proof.
  intros RE RW LT. destruct (level_for_spec E w RE RW) as (L5 & BL & NE).
  set (lv := level_for E w) in *.
  assert (LEs : E <= sstart lv w /\ ((1 <= lv)%nat -> E < sstart lv w)).
  { destruct lv as [|lv'].
    - rewrite sstart0. split; [lia|intro; lia].
    - assert (D : E / rr (S lv') < w / rr (S lv')).
      { assert (E / rr (S lv') <= w / rr (S lv')) by (apply N.div_le_mono; [apply rr_nz|lia]).
        specialize (NE ltac:(lia)). lia. }
      assert (E < sstart (S lv') w).
      { unfold sstart. pose proof (N.mul_succ_div_gt E (rr (S lv')) (rr_nz _)) as U.
        assert (rr (S lv') * N.succ (E / rr (S lv')) <= rr (S lv') * (w / rr (S lv'))) by (apply N.mul_le_mono_l; lia). lia. }
      split; [lia|intro; assumption]. }
  constructor; try lia; try reflexivity; try assumption; try (symmetry; exact BL); apply LEs.
Qed.

Lemma WI_insert (w : wheel) e :
  WI 1 w -> we_when e < RNG -> w_elapsed w < we_when e ->
  WI 1 {| w_elapsed := w_elapsed w; w_slots := add_entry (level_for (w_elapsed w) (we_when e)) e (w_slots w) |}.
Proof.
  intros [RG W OK] RW LT. constructor; cbn [w_elapsed w_slots]; [exact RG|apply wf_push, W|].
  intros lv sl x H. unfold add_entry in H. rewrite stack_of_push in H.
  destruct (keyb _ _ lv sl) eqn:K; [|apply OK, H].
  apply keyb_true in K. injection K as -> ->. destruct H as [<-|H]; [apply eok_insert; assumption|apply OK, H].
Qed.

Lemma WI_remove (w : wheel) id :
  WI 1 w -> WI 1 {| w_elapsed := w_elapsed w; w_slots := remove_entry id (w_slots w) |}.
Proof.
  intros [RG W OK]. constructor; cbn [w_elapsed w_slots]; [exact RG|apply wf_remove, W|].
  intros lv sl x H. rewrite (stack_of_remove id _ lv sl W) in H. apply filter_In in H. apply OK, H.
Qed.
