(* Server proofs, engineer B, part 5: C06, late clause -- no handler makes progress after the
   channel has surely forgotten its request by expiry / server-side cancel (flags v06l_rel, v06l),
   on top of engineer A's invariant (Safe: an untracked handler is aborted or over). *)
From Coq Require Import List Bool Arith NArith Lia.
Import ListNotations.
From TarpcV Require Import Base Transport TimerWheel Server ServerMon ServerFuel ServerContract
     ServerSim ServerSim2 ServerSim3 ServerSim4 ServerSim5 ServerSim6 ServerSim7 ServerState
     ServerSpec ServerProofsPA0 ServerProofsPB0 ServerProofsPB2 ServerProofsPB3 ServerProofsPB4.

(* ---- what leaves the two flags (and c_k2, and the late marks) alone ------------------------------- *)
Definition F06 (o : ostate) : bool * bool * bool := (v06l (o_v o), v06l_rel (o_v o), c_k2 (o_v o)).
(* no incarnation is marked late unless a blocked poll was seen *)
Definition LF (o : ostate) : Prop := c_k2 (o_v o) = false -> Forall (fun i => oi_late i = false) (o_incs o).

Lemma Forall_upd_nth : forall (P : oinc -> Prop) k f l,
  (forall i, P i -> P (f i)) -> Forall P l -> Forall P (upd_nth k f l).
Proof.
  intros P k f l Hf H. revert k. induction H as [|x r Hx Hr IH]; intros k; destruct k; cbn; constructor; auto.
Qed.
Lemma Forall_close_at : forall kopt w l,
  Forall (fun i => oi_late i = false) l -> Forall (fun i => oi_late i = false) (close_at kopt w l).
Proof. intros [k|] w l H; cbn; [apply Forall_upd_nth; auto|exact H]. Qed.

Lemma ocall_F06 : forall lim o c, F06 (o_call lim o c) = F06 o.
Proof.
  intros lim o c. unfold F06, o_call.
  assert (P : F06 (match o_errcall o with Some _ => chk09 o false | None => o end) = F06 o).
  { unfold F06. destruct (o_errcall o); oproj; rewrite ?andb_true_r; auto. }
  unfold F06 in P. injection P as P1 P2 P3.
  set (o0 := match o_errcall o with Some _ => chk09 o false | None => o end) in *.
  destruct c as [r|m r|r|r|r].
  - oproj. congruence.
  - destruct (resp_body m).
    1,2,4: (destruct (last_open (resp_id m) (o_incs o0)); oproj; rewrite ?andb_true_r, ?orb_false_r; congruence).
    unfold accept_id. destruct (last_open (resp_id m) _); oproj; rewrite ?andb_true_r, ?orb_false_r; congruence.
  - oproj. congruence.
  - oproj. rewrite ?andb_true_r. congruence.
  - unfold resolve_ignored. destruct (o_pend o0) as [[[[a b] d] e]|];
      destruct r as [[id dl tr body|id tr]| | |]; oproj; rewrite ?andb_true_r, ?orb_false_r; try congruence;
      destruct (last_open id _); oproj; rewrite ?andb_true_r, ?orb_false_r; congruence.
Qed.

Lemma ocs_F06 : forall lim new o, F06 (fold_left (o_call lim) new o) = F06 o.
Proof.
  intros lim new; induction new as [|c new IH]; intros o; cbn [fold_left]; [auto|]. rewrite IH. apply ocall_F06.
Qed.

Lemma ocall_LF : forall lim o c, LF o -> LF (o_call lim o c).
Proof.
  intros lim o c H Hk. pose proof (ocall_F06 lim o c) as E. unfold F06 in E. injection E as _ _ E3.
  rewrite E3 in Hk. destruct (ocall_incs lim o c) as (kopt & w & Hi & _). rewrite Hi.
  apply Forall_close_at. exact (H Hk).
Qed.
Lemma ocs_LF : forall lim new o, LF o -> LF (fold_left (o_call lim) new o).
Proof. intros lim new; induction new as [|c new IH]; intros o H; cbn [fold_left]; [auto|]. apply IH, ocall_LF, H. Qed.

Lemma LF_start_poll : forall o, LF o -> LF (start_poll o).
Proof. intros o H. exact H. Qed.

(* the result of a poll: only a blocked idle poll marks, and it sets c_k2 *)
Lemma oresult_F06_LF : forall o r, rshape r ->
  v06l (o_v (o_result o r)) = v06l (o_v o) /\ v06l_rel (o_v (o_result o r)) = v06l_rel (o_v o)
  /\ (c_k2 (o_v (o_result o r)) = false -> c_k2 (o_v o) = false)
  /\ (LF o -> LF (o_result o r)).
Proof.
  intros o r Hr. destruct r; try contradiction.
  - destruct (o_result_yield_proj o k id dl tr body) as (Q1 & _). cbv zeta in Q1.
    assert (E : F06 (o_result o (OYield k id dl tr body)) = F06 o).
    { unfold F06, o_result, accept_id. destruct (last_open id _); oproj; rewrite ?andb_true_r, ?orb_false_r; auto. }
    assert (E1 := f_equal (fun t => fst (fst t)) E). assert (E2 := f_equal (fun t => snd (fst t)) E).
    assert (E3 := f_equal snd E). cbn [F06 fst snd] in E1, E2, E3.
    split; [exact E1|split; [exact E2|split; [intro; congruence|]]].
    intros H Hk. rewrite E3 in Hk. rewrite Q1. apply Forall_app. split; [apply Forall_close_at, (H Hk)|].
    constructor; [reflexivity|constructor].
  - cbn [o_result]. destruct (finish_idle_proj o) as (P1 & _). cbv zeta in P1.
    unfold finish_idle in *. unfold LF. destruct (o_blocked (chk09 (chk08 o _) _)) eqn:EB; oproj; rewrite ?andb_true_r, ?orb_false_r.
    + split; [reflexivity|split; [reflexivity|split; [intros Hk; rewrite orb_true_r in Hk; discriminate|]]].
      intros _ Hk. rewrite orb_true_r in Hk. discriminate.
    + split; [reflexivity|split; [reflexivity|split; [auto|]]]. intros H Hk. specialize (H Hk). unfold settle. apply Forall_forall. intros x Hx.
      apply in_map_iff in Hx. destruct Hx as (y & <- & Hy). rewrite Forall_forall in H. specialize (H y Hy).
      destruct (oi_wire y); cbn; exact H.
  - cbn [o_result]. unfold finish_idle, LF.
    destruct (o_blocked (chk09 (chk08 (chk10 o _) _) _)) eqn:EB; oproj; rewrite ?andb_true_r, ?orb_false_r.
    + split; [reflexivity|split; [reflexivity|split; [intros Hk; rewrite orb_true_r in Hk; discriminate|]]].
      intros _ Hk. rewrite orb_true_r in Hk. discriminate.
    + split; [reflexivity|split; [reflexivity|split; [auto|]]]. intros H Hk. specialize (H Hk). unfold settle. apply Forall_forall. intros x Hx.
      apply in_map_iff in Hx. destruct Hx as (y & <- & Hy). rewrite Forall_forall in H. specialize (H y Hy).
      destruct (oi_wire y); cbn; exact H.
  - unfold o_result, LF. oproj. rewrite ?andb_true_r, ?orb_false_r. split; [reflexivity|split; [reflexivity|split; auto]].
Qed.

Lemma ogauges_F06 : forall x y o a b, F06 (o_gauges x y o a b) = F06 o /\ o_incs (o_gauges x y o a b) = o_incs o.
Proof. intros x y o a b. unfold F06, o_gauges. destruct x; [|destruct y]; oproj; rewrite ?andb_true_r; split; reflexivity. Qed.

Lemma otail_F06 : forall o1 g, F06 (otail o1 g) = F06 o1 /\ o_incs (otail o1 g) = o_incs o1.
Proof.
  intros o1 g. unfold otail. destruct g as [[a b]|]; destruct (o_dropped o1); unfold F06; oproj;
    rewrite ?orb_false_r, ?andb_true_r; auto.
  destruct (c_err (o_v o1)); [auto|].
  destruct (ogauges_F06 false false (chk10 (chk12a o1 true) true) a b) as (E & Ei). unfold F06 in E.
  rewrite E, Ei. oproj. rewrite ?andb_true_r. auto.
Qed.

Lemma otail_LF : forall o1 g, LF o1 -> LF (otail o1 g).
Proof.
  intros o1 g H Hk. destruct (otail_F06 o1 g) as (E & Ei). unfold F06 in E. injection E as _ _ E3.
  rewrite Ei. apply H. congruence.
Qed.

Lemma guard_dropped_F06 : forall k need o, F06 (guard_dropped k need o) = F06 o /\ (LF o -> LF (guard_dropped k need o)).
Proof.
  intros k need o. unfold guard_dropped. destruct (nth_error (o_incs o) k); [|auto].
  match goal with |- context [if ?b then _ else _] => destruct b end; unfold F06, LF; oproj.
  - split; [reflexivity|]. intros H Hk. apply Forall_upd_nth; [|exact (H Hk)].
    intros i Hi. destruct (oi_wire i); cbn; exact Hi.
  - match goal with |- context [if ?b then _ else _] => destruct b end; oproj; [|auto].
    split; [reflexivity|]. intros H Hk. apply Forall_upd_nth; [|exact (H Hk)]. intros i Hi. exact Hi.
Qed.

(* ---- handler events -------------------------------------------------------------------------------- *)
(* incarnation k may still be tracked, or its Cancel was read (then C04 speaks, not C06) *)
Definition Wk (k : nat) (o : ostate) : Prop :=
  forall i, nth_error (o_incs o) k = Some i -> is_open (oi_wire i) = true \/ oi_wire i = WCancelled.

Lemma nth_upd_nth_inv : forall (f : oinc -> oinc) k' l k i',
  nth_error (upd_nth k' f l) k = Some i' -> exists i, nth_error l k = Some i /\ (i' = i \/ i' = f i).
Proof.
  intros f k' l; revert k'. induction l as [|x r IH]; intros k' k i' H.
  - destruct k'; destruct k; cbn in H; discriminate.
  - destruct k' as [|k']; destruct k as [|k]; cbn in H |- *.
    + inversion H. eauto.
    + eauto.
    + inversion H; eauto.
    + apply (IH k' k i' H).
Qed.

Lemma ohevent_incs : forall o e, exists k f,
  o_incs (o_hevent o e) = upd_nth k f (o_incs o)
  /\ (forall i, oi_wire (f i) = oi_wire i /\ oi_late (f i) = oi_late i).
Proof.
  intros o e.
  assert (Hid : exists k f, o_incs o = upd_nth k f (o_incs o)
                 /\ (forall i, oi_wire (f i) = oi_wire i /\ oi_late (f i) = oi_late i)).
  { exists 0, (fun i => i). rewrite upd_nth_id. auto. }
  destruct e; cbn [o_hevent]; try (unfold mark_bad; oproj; exact Hid); try exact Hid.
  - destruct (nth_error (o_incs o) k); [|unfold mark_bad; oproj; exact Hid].
    oproj. exists k, (fun i => set_ph i PStarted). split; [reflexivity|intros i; split; reflexivity].
  - oproj. exists k, (fun i => set_done i b). split; [reflexivity|intros i; split; reflexivity].
  - destruct (nth_error (o_incs o) k); [|unfold mark_bad; oproj; exact Hid].
    oproj. exists k, (fun i => set_ph i PEnded). split; [reflexivity|intros i; split; reflexivity].
Qed.

Lemma ohevent_Wk : forall k o e, Wk k o -> Wk k (o_hevent o e).
Proof.
  intros k o e H i' Hi'. destruct (ohevent_incs o e) as (k' & f & E & Hf). rewrite E in Hi'.
  destruct (nth_upd_nth_inv f k' _ k i' Hi') as (i & Hi & [->| ->]); [exact (H i Hi)|].
  destruct (Hf i) as (A & _). rewrite A. exact (H i Hi).
Qed.

Definition NL (l : list oinc) : Prop := Forall (fun i => oi_late i = false) l.

Lemma ohevent_NL : forall o e, NL (o_incs o) -> NL (o_incs (o_hevent o e)).
Proof.
  intros o e H. destruct (ohevent_incs o e) as (k' & f & E & Hf). rewrite E.
  apply Forall_upd_nth; [|exact H]. intros i Hi. destruct (Hf i) as (_ & B). rewrite B. exact Hi.
Qed.

Lemma ohevent_k2 : forall o e, c_k2 (o_v (o_hevent o e)) = c_k2 (o_v o).
Proof.
  intros o e. destruct e; cbn [o_hevent]; unfold mark_bad; oproj; rewrite ?orb_false_r; auto;
    destruct (nth_error (o_incs o) k); oproj; rewrite ?orb_false_r; auto.
Qed.

Lemma ohevent_flags : forall o e, (forall k, e = OHPolled k -> Wk k o) ->
  v06l_rel (o_v (o_hevent o e)) = v06l_rel (o_v o)
  /\ (NL (o_incs o) -> v06l (o_v (o_hevent o e)) = v06l (o_v o)).
Proof.
  intros o e HW. destruct e; cbn [o_hevent]; unfold mark_bad; oproj; rewrite ?andb_true_r; auto.
  - destruct (nth_error (o_incs o) k) as [i|] eqn:Ei; oproj; rewrite ?andb_true_r; auto.
    assert (Hc : negb (negb (is_open (oi_wire i)) && negb match oi_wire i with WCancelled => true | _ => false end) = true).
    { destruct (HW k eq_refl i Ei) as [H|H]; rewrite H; reflexivity. }
    rewrite Hc, ?andb_true_r. split; [reflexivity|]. intros HN.
    assert (Hl : oi_late i = false).
    { unfold NL in HN. rewrite Forall_forall in HN. apply HN. eapply nth_error_In; eauto. }
    rewrite Hl. cbn [negb andb]. rewrite ?andb_true_r. reflexivity.
  - destruct (nth_error (o_incs o) k); oproj; rewrite ?andb_true_r; auto.
Qed.

Lemma ohevents_06 : forall body o, (forall k, In (OHPolled k) body -> Wk k o) ->
  let o' := fold_left o_hevent body o in
  c_k2 (o_v o') = c_k2 (o_v o) /\ (NL (o_incs o) -> NL (o_incs o'))
  /\ v06l_rel (o_v o') = v06l_rel (o_v o)
  /\ (NL (o_incs o) -> v06l (o_v o') = v06l (o_v o)).
Proof.
  induction body as [|e body IH]; intros o HW; cbv zeta; cbn [fold_left]; [auto|].
  destruct (IH (o_hevent o e)) as (A & B & D & E).
  { intros k Hk. apply ohevent_Wk. apply HW. right. exact Hk. }
  cbv zeta in *.
  destruct (ohevent_flags o e) as (F1 & F2).
  { intros k ->. apply HW. left. reflexivity. }
  rewrite A, D, ohevent_k2, F1. split; [reflexivity|split; [|split; [reflexivity|]]].
  - intros HN. apply B, ohevent_NL, HN.
  - intros HN. rewrite (E (ohevent_NL o e HN)). exact (F2 HN).
Qed.

Lemma ohevents_k2 : forall body o, c_k2 (o_v (fold_left o_hevent body o)) = c_k2 (o_v o).
Proof. induction body as [|e body IH]; intros o; cbn [fold_left]; [auto|]. rewrite IH. apply ohevent_k2. Qed.
Lemma ohevents_NL : forall body o, NL (o_incs o) -> NL (o_incs (fold_left o_hevent body o)).
Proof. induction body as [|e body IH]; intros o H; cbn [fold_left]; [auto|]. apply IH, ohevent_NL, H. Qed.
Lemma ohevents_LF : forall body o, LF o -> LF (fold_left o_hevent body o).
Proof. intros body o H Hk. rewrite ohevents_k2 in Hk. apply ohevents_NL. exact (H Hk). Qed.

(* ---- how one op may change what C06-late reads ------------------------------------------------------ *)
Definition R06 (o o' : ostate) : Prop :=
  (h_b1 (o_v o') = true -> h_b1 (o_v o) = true)
  /\ (c_k2 (o_v o') = false -> c_k2 (o_v o) = false)
  /\ (LF o -> LF o')
  /\ (h_b1 (o_v o') = true ->
      v06l_rel (o_v o') = v06l_rel (o_v o)
      /\ (LF o -> c_k2 (o_v o') = false -> v06l (o_v o') = v06l (o_v o))).

Lemma R06_refl : forall o, R06 o o.
Proof. intros o. unfold R06. auto. Qed.

Lemma R06_trans : forall a b c, R06 a b -> R06 b c -> R06 a c.
Proof.
  intros a b c (A1 & A2 & A3 & A4) (B1 & B2 & B3 & B4).
  split; [auto|split; [auto|split; [auto|]]]. intros Hc.
  destruct (B4 Hc) as (X1 & X2). destruct (A4 (B1 Hc)) as (Y1 & Y2).
  split; [congruence|]. intros HL Hk. rewrite (X2 (A3 HL) Hk). exact (Y2 HL (B2 Hk)).
Qed.

Lemma R06_mk : forall o o',
  (h_b1 (o_v o') = true -> h_b1 (o_v o) = true) ->
  v06l (o_v o') = v06l (o_v o) -> v06l_rel (o_v o') = v06l_rel (o_v o) ->
  (c_k2 (o_v o') = false -> c_k2 (o_v o) = false) -> (LF o -> LF o') -> R06 o o'.
Proof. intros o o' A B D E F. unfold R06. auto. Qed.

Lemma F12_hb1 : forall o o', F12 o' = F12 o -> h_b1 (o_v o') = h_b1 (o_v o).
Proof. intros o o' E. exact (f_equal snd E). Qed.

Lemma R06_eq : forall o o', F12 o' = F12 o -> F06 o' = F06 o -> (LF o -> LF o') -> R06 o o'.
Proof.
  intros o o' E12 E HL. pose proof (F12_hb1 _ _ E12) as Hb.
  assert (E1 := f_equal (fun t => fst (fst t)) E). assert (E2 := f_equal (fun t => snd (fst t)) E).
  assert (E3 := f_equal snd E). cbn [F06 fst snd] in E1, E2, E3.
  apply R06_mk; auto; congruence.
Qed.

Definition P06 (o : ostate) : Prop :=
  LF o /\ (h_b1 (o_v o) = true ->
           v06l_rel (o_v o) = true /\ (c_k2 (o_v o) = false -> v06l (o_v o) = true)).

Lemma P06_R06 : forall o o', R06 o o' -> P06 o -> P06 o'.
Proof.
  intros o o' (A1 & A2 & A3 & A4) (HL & HP). split; [auto|]. intros Hb.
  destruct (A4 Hb) as (X1 & X2). destruct (HP (A1 Hb)) as (Y1 & Y2).
  split; [congruence|]. intros Hk. rewrite (X2 HL Hk). exact (Y2 (A2 Hk)).
Qed.

Lemma ocs_hb1 : forall lim new o, h_b1 (o_v (fold_left (o_call lim) new o)) = true -> h_b1 (o_v o) = true.
Proof.
  intros lim new; induction new as [|c new IH]; intros o H; cbn [fold_left] in H; [exact H|].
  exact (ocall_hb1 lim o c (IH _ H)).
Qed.

Lemma otail_R06 : forall o1 g, R06 o1 (otail o1 g).
Proof.
  intros o1 g. apply R06_eq; [apply otail_F12|exact (proj1 (otail_F06 o1 g))|apply otail_LF].
Qed.

Lemma guard_dropped_R06 : forall k need o, R06 o (guard_dropped k need o).
Proof.
  intros k need o. destruct (guard_dropped_F06 k need o) as (A & B).
  apply R06_eq; [apply guard_dropped_F12|exact A|exact B].
Qed.

Lemma hevents_R06 : forall body o,
  (h_b1 (o_v o) = true -> forall k, In (OHPolled k) body -> Wk k o) ->
  R06 o (fold_left o_hevent body o).
Proof.
  intros body o HW. pose proof (F12_hb1 _ _ (ohevents_F12 body o)) as Hb.
  split; [congruence|split; [rewrite ohevents_k2; auto|split; [apply ohevents_LF|]]].
  intros Hc. rewrite Hb in Hc. destruct (ohevents_06 body o (HW Hc)) as (A & _ & D & E). cbv zeta in *.
  split; [exact D|]. intros HL Hk. rewrite A in Hk. exact (E (HL Hk)).
Qed.

Lemma age_R06 : forall o now,
  R06 o (mko (age now (o_incs o)) now (o_gauge o) (o_dropped o) (o_eof o) (o_dirty o) (o_pend o) (o_first o)
             (o_after_thr o) (o_blocked o) (o_freed o) (o_errcall o) (o_v o)).
Proof.
  intros o now. apply R06_eq; [reflexivity|reflexivity|]. intros H Hk. specialize (H Hk). cbn [o_incs].
  unfold age. apply Forall_forall. intros x Hx. apply in_map_iff in Hx. destruct Hx as (y & <- & Hy).
  rewrite Forall_forall in H. specialize (H y Hy).
  destruct (oi_wire y); try exact H. destruct (N.leb _ _); exact H.
Qed.

(* ================================================================== over the model *)
Section V06L.
  Context {T C : Type}.
  Variable tp : transport T response cmsg.
  Variable ctl : T -> C -> T.
  Variable tfuel : T -> nat.
  Hypothesis TF : tfuel_ok tp tfuel.
  Variable c : cfg.
  Notation st := (@sstate T).
  Notation lim := (cfg_limit c).

  (* which handler steps poll the handler *)
  Lemma exec_body : forall k hs (s : st) s1 body,
    execute_poll k hs s = (s1, body) ->
    forallb plain body = true
    /\ forall k', In (OHPolled k') body ->
         exists hr, nth_error (s_handlers s) k' = Some hr
           /\ (h_st hr = HYielded \/ h_st hr = HRunning) /\ ~ In (h_h hr) (s_aborted s).
  Proof.
    intros k hs s s1 body H. unfold execute_poll in H.
    destruct (nth_error (s_handlers s) k) as [hr|] eqn:Hk;
      [|injection H as _ <-; split; [reflexivity|intros k' []]].
    destruct (existsb (Nat.eqb (h_h hr)) (s_aborted s)) eqn:EA.
    - destruct (h_st hr); injection H as _ <-; (split; [reflexivity|]); intros k' Hin; cbn in Hin;
        repeat (destruct Hin as [Hin|Hin]; try discriminate Hin); contradiction.
    - assert (Hn : ~ In (h_h hr) (s_aborted s)).
      { intros Hin. assert (existsb (Nat.eqb (h_h hr)) (s_aborted s) = true).
        { apply existsb_exists. exists (h_h hr). split; [exact Hin|apply Nat.eqb_refl]. } congruence. }
      destruct (h_st hr) eqn:Est; try destruct hs; try destruct (s_dropped s); try destruct (s_permits s);
        injection H as _ <-; (split; [reflexivity|]); intros k' Hin; cbn in Hin;
        repeat (destruct Hin as [Hin|Hin]; try discriminate Hin); try contradiction;
        inversion Hin; subst k'; exists hr; (split; [exact Hk|split; [auto|exact Hn]]).
  Qed.

  Lemma drop_handler_body : forall k (s : st) s1 body,
    drop_handler k s = (s1, body) -> forallb plain body = true /\ forall k', ~ In (OHPolled k') body.
  Proof.
    intros k s s1 body H. unfold drop_handler in H.
    destruct (nth_error (s_handlers s) k) as [hr|]; [|injection H as _ <-; split; [reflexivity|intros k' []]].
    destruct (h_st hr); injection H as _ <-; (split; [reflexivity|]); intros k' Hin; cbn in Hin;
      repeat (destruct Hin as [Hin|Hin]; try discriminate Hin); contradiction.
  Qed.

  Lemma drop_yielded_body : forall k (s : st) s1 body, drop_yielded k s = (s1, body) -> body = [].
  Proof.
    intros k s s1 body H. unfold drop_yielded in H.
    destruct (nth_error (s_handlers s) k) as [[id h stt]|]; [|injection H as _ <-; reflexivity].
    destruct stt; injection H as _ <-; reflexivity.
  Qed.

  Lemma fst_split_body : forall (s1 : st) body,
    forallb plain body = true -> fst (split_gauges (body ++ gauges s1)) = body.
  Proof.
    intros s1 body Hpl. destruct (s_dropped s1) eqn:ED.
    - unfold gauges. rewrite ED, app_nil_r, (split_gauges_plain _ Hpl). reflexivity.
    - rewrite (split_gauges_app body s1 ED). reflexivity.
  Qed.

  (* a handler that still runs and is not aborted: its incarnation may still be tracked *)
  Lemma safe_Wk : forall o (s : st) k hr,
    InvU o s -> Safe s -> nth_error (s_handlers s) k = Some hr ->
    (h_st hr = HYielded \/ h_st hr = HRunning) -> ~ In (h_h hr) (s_aborted s) -> Wk k o.
  Proof.
    intros o s k hr HI HS Hk Hst Hna i Hi. left.
    destruct (safe_running s k hr HS Hk Hst) as [(e & He & Eh)|Hab]; [|contradiction].
    destruct (u_owner _ _ HI e He) as [[k' (hr' & oi' & A & B & D & E & F & _)]|[_ Hno]].
    - assert (k' = k) by (eapply NoDup_map_nth_inj; [exact (u_hnodup _ _ HI)|exact A|exact Hk|congruence]).
      subst k'. rewrite Hi in B. inversion B; subst oi'. exact F.
    - exfalso. apply (Hno hr); [eapply nth_error_In; eauto|congruence].
  Qed.

  (* a poll of a live channel that has not failed *)
  Lemma poll_R06 : forall o log R a b, rshape R ->
    R06 o (poll_tail c (o_result (o_calls lim (start_poll o) log) R) R a b).
  Proof.
    intros o log R a b HR. unfold o_calls.
    set (oc := fold_left (o_call lim) log (start_poll o)).
    assert (S1 : R06 o oc).
    { apply (R06_trans o (start_poll o)); [apply R06_eq; [reflexivity|reflexivity|apply LF_start_poll]|].
      pose proof (ocs_F06 lim log (start_poll o)) as E. fold oc in E.
      assert (E1 := f_equal (fun t => fst (fst t)) E). assert (E2 := f_equal (fun t => snd (fst t)) E).
      assert (E3 := f_equal snd E). cbn [F06 fst snd] in E1, E2, E3.
      apply R06_mk; [apply ocs_hb1|exact E1|exact E2|congruence|apply ocs_LF]. }
    apply (R06_trans o oc _ S1).
    destruct (oresult_F06_LF oc R HR) as (A1 & A2 & A3 & A4).
    pose proof (F12_hb1 _ _ (oresult_F12 oc R HR)) as Hb.
    apply (R06_trans oc (o_result oc R)); [apply R06_mk; auto; congruence|].
    set (o1 := o_result oc R). unfold poll_tail. destruct (c_err (o_v o1)); [apply R06_refl|].
    match goal with |- R06 o1 (o_gauges ?x ?y ?o2 a b) =>
      destruct (ogauges_F06 x y o2 a b) as (E & Ei); pose proof (ogauges_F12 x y o2 a b) as E12 end.
    apply R06_eq.
    - rewrite E12. unfold F12. oproj. rewrite ?andb_true_r. reflexivity.
    - rewrite E. unfold F06. oproj. rewrite ?andb_true_r. reflexivity.
    - intros H Hk. rewrite Ei. oproj. apply H.
      assert (E3 := f_equal snd E). cbn [F06 snd] in E3. rewrite E3 in Hk. revert Hk. oproj. auto.
  Qed.

  Lemma ostep_poll_err : forall o (s1 : st) log R,
    h_stop (o_v o) = true -> o_dropped o = false -> c_err (o_v o) = true -> s_dropped s1 = false -> rshape R ->
    ostep lim o (@OPoll C) ([OCalls log; R] ++ gauges s1) = hyp_stop o false.
  Proof.
    intros o s1 log R EH Hod EC Hd1 HR. unfold ostep. rewrite EH. cbn [negb].
    rewrite (split_gauges_poll s1 log R Hd1); [|destruct R; try contradiction; exact I].
    rewrite Hod, EC.
    assert (E1 : o_dropped (hyp_stop o false) = false) by (oproj; exact Hod).
    assert (E2 : c_err (o_v (hyp_stop o false)) = true) by (oproj; rewrite EC; reflexivity).
    cbv iota beta. rewrite E1, E2. reflexivity.
  Qed.

  Hypothesis RUNH : run_invh_statement.

  Definition Q06 (o : ostate) (s : st) : Prop := P06 o /\ TopH o s.

  Lemma q06_step : forall o (s : st) p s' l,
    Top o s -> hb_ok s -> Q06 o s -> step tp ctl tfuel c s p = (s', l) -> Q06 (ostep lim o p l) s'.
  Proof.
    intros o s p s' l HT Hb (HP & HH) H. split; [|eapply (toph_step tp ctl tfuel TF c RUNH); eauto].
    destruct (h_stop (o_v o)) eqn:EH; [|unfold ostep; rewrite EH; exact HP].
    destruct (HT EH) as (HI & Hnt & Hrest).
    apply (P06_R06 o); [|exact HP].
    destruct p as [|x|k hs|k|k| |dt].
    - (* a poll *)
      destruct (s_dropped s) eqn:ED.
      { unfold step, poll_requests in H. rewrite ED in H. injection H as <- <-.
        unfold gauges. rewrite ED. cbn [app]. rewrite ostep_poll_dropped; [apply R06_refl|exact EH|].
        rewrite (u_dropped _ _ HI); exact ED. }
      assert (Hod : o_dropped o = false) by (rewrite (u_dropped _ _ HI); exact ED).
      destruct (poll_trace_log tp ctl tfuel TF c s s' l ED H) as (r & s2 & R & ER & -> & Hd1 & HR).
      destruct (c_err (o_v o)) eqn:EC.
      + rewrite (ostep_poll_err o s' _ R EH Hod EC Hd1 HR).
        apply R06_eq; [unfold F12|unfold F06|unfold LF]; oproj; rewrite ?andb_true_r, ?orb_false_r; auto.
      + rewrite (ostep_poll_eq c o s' _ R EH Hod EC Hd1 HR). apply poll_R06, HR.
    - rewrite (ostep_nonpoll c (OCtl x) o l EH I).
      eapply R06_trans; [|apply otail_R06].
      destruct (fst (split_gauges l)); [apply R06_refl|].
      apply R06_eq; [unfold F12|unfold F06|unfold LF]; unfold mark_bad; oproj; rewrite ?andb_true_r, ?orb_false_r; auto.
    - rewrite (ostep_nonpoll c (@OHandlerPoll C k hs) o l EH I).
      eapply R06_trans; [|apply otail_R06].
      unfold step in H. destruct (execute_poll k hs s) as [s1 body] eqn:EE. injection H as <- <-.
      destruct (exec_body k hs s s1 body EE) as (Hpl & Hpo).
      rewrite (fst_split_body s1 body Hpl). apply hevents_R06.
      intros Hb1 k' Hin. destruct (Hpo k' Hin) as (hr & Hk & Hst & Hna).
      exact (safe_Wk o s k' hr HI (toph_safe T o s HH EH Hb1) Hk Hst Hna).
    - rewrite (ostep_nonpoll c (@ODropHandler C k) o l EH I).
      eapply R06_trans; [|apply otail_R06]. eapply R06_trans; [|apply guard_dropped_R06].
      unfold step in H. destruct (drop_handler k s) as [s1 body] eqn:EE. injection H as <- <-.
      destruct (drop_handler_body k s s1 body EE) as (Hpl & Hpo).
      rewrite (fst_split_body s1 body Hpl). apply hevents_R06.
      intros _ k' Hin. exfalso. exact (Hpo k' Hin).
    - rewrite (ostep_nonpoll c (@ODropYielded C k) o l EH I).
      eapply R06_trans; [|apply otail_R06]. eapply R06_trans; [|apply guard_dropped_R06].
      unfold step in H. destruct (drop_yielded k s) as [s1 body] eqn:EE. injection H as <- <-.
      rewrite (drop_yielded_body k s s1 body EE). rewrite (fst_split_body s1 [] eq_refl). apply R06_refl.
    - rewrite (ostep_nonpoll c (@ODropChannel C) o l EH I).
      eapply R06_trans; [|apply otail_R06]. apply R06_eq; reflexivity || auto.
    - rewrite (ostep_nonpoll c (@OAdvance C dt) o l EH I).
      eapply R06_trans; [|apply otail_R06]. apply age_R06.
  Qed.
End V06L.

(* the C06-late flags at the end of every run, given A's run theorem *)
Lemma run_06 : run_invh_statement ->
  forall (T C : Type) (tp : transport T response cmsg) (ctl : T -> C -> T) (tfuel : T -> nat)
         (c : cfg) (t0 : T) (ops : list (op C)),
    tfuel_ok tp tfuel -> P06 (orun (cfg_limit c) o_init ops (fst (run tp ctl tfuel c t0 ops))).
Proof.
  intros RUNH T C tp ctl tfuel c t0 ops TF. unfold run.
  destruct (top_init c t0) as (HT & Hb).
  assert (HP0 : P06 o_init).
  { split; [intros _; constructor|]. intros _. split; [reflexivity|intros _; reflexivity]. }
  exact (proj1 (run_gen tp ctl tfuel TF c (Q06 (T := T)) (q06_step tp ctl tfuel TF c RUNH) ops o_init (init c t0)
                  HT Hb (conj HP0 (toph_init T c t0)))).
Qed.

Theorem s_v06l_rel_of : run_invh_statement -> stmt_s_v06l_rel.
Proof.
  intros RUNH T C tp ctl tfuel c t0 ops TF Hb _. unfold observe in *.
  exact (proj1 (proj2 (run_06 RUNH T C tp ctl tfuel c t0 ops TF) Hb)).
Qed.

Theorem s_v06l_of : run_invh_statement -> stmt_s_v06l.
Proof.
  intros RUNH T C tp ctl tfuel c t0 ops TF Hb _ Hk. unfold observe in *.
  exact (proj2 (proj2 (run_06 RUNH T C tp ctl tfuel c t0 ops TF) Hb) Hk).
Qed.

(* the monitors of C06 *)
Theorem s06_rel_of : run_invh_statement -> stmt_s06_rel.
Proof.
  intros RUNH T C tp ctl tfuel c t0 ops TF. unfold c06_rel_ok.
  destruct (server_never_early T C tp ctl tfuel c t0 ops TF) as (Vb & Ve). cbv zeta in Vb, Ve.
  rewrite Vb, Ve. rewrite orb_true_r. cbn [negb andb].
  destruct (h_b1 _) eqn:Eb; [|reflexivity]. destruct (h_stop _) eqn:Es; [|reflexivity]. cbn [negb andb orb].
  exact (s_v06l_rel_of RUNH T C tp ctl tfuel c t0 ops TF Eb Es).
Qed.

Theorem s06_of : run_invh_statement -> stmt_s06.
Proof.
  intros RUNH T C tp ctl tfuel c t0 ops TF Hk. unfold c06_ok. unfold limiter_blocked_on_sink in Hk.
  destruct (server_never_early T C tp ctl tfuel c t0 ops TF) as (Vb & Ve). cbv zeta in Vb, Ve.
  rewrite Vb, Ve. rewrite orb_true_r. cbn [negb andb].
  destruct (h_b1 _) eqn:Eb; [|reflexivity]. destruct (h_stop _) eqn:Es; [|reflexivity]. cbn [negb andb orb].
  exact (s_v06l_of RUNH T C tp ctl tfuel c t0 ops TF Eb Es Hk).
Qed.
Print Assumptions s_v06l_rel_of.
Print Assumptions s_v06l_of.
Print Assumptions s06_rel_of.
Print Assumptions s06_of.
