From Coq Require Import List NArith Bool Arith.
Import ListNotations.
From TarpcV Require Import Base SpanThreads.

Lemma distinct_NoDup : forall l, distinct l = true -> NoDup l.
Proof.
  induction l as [|x r IH]; cbn [distinct]; intros H; [constructor|].
  apply andb_true_iff in H; destruct H as [Hx Hr]. constructor; [|apply IH; exact Hr].
  intros Hin. apply negb_true_iff in Hx.
  assert (E : existsb (N.eqb x) r = true) by (apply existsb_exists; exists x; split; [exact Hin | apply N.eqb_refl]).
  congruence.
Qed.

(* what an accepted trace guarantees: the span ids on the wire are pairwise different, and every
   request bears its caller's trace id and a span id other than its caller's *)
Theorem c18t_sound : forall calls tr, c18t_ok calls tr = true ->
  NoDup (map (fun e => snd e) tr)
  /\ forall b t sp, In (b, t, sp) tr ->
       exists ct cs, nth_error calls (N.to_nat b) = Some (ct, cs) /\ t = ct /\ sp <> cs.
Proof.
  intros calls tr H; unfold c18t_ok in H.
  apply andb_true_iff in H; destruct H as [H _]. apply andb_true_iff in H; destruct H as [H _].
  apply andb_true_iff in H; destruct H as [Ha Hd]. split; [apply distinct_NoDup; exact Hd|].
  intros b t sp Hin. rewrite forallb_forall in Ha. specialize (Ha _ Hin). unfold entry_ok in Ha.
  destruct (nth_error calls (N.to_nat b)) as [[ct cs]|]; [|discriminate].
  apply andb_true_iff in Ha; destruct Ha as [E1 E2]. apply N.eqb_eq in E1.
  apply negb_true_iff in E2; apply N.eqb_neq in E2. exists ct, cs; auto.
Qed.
