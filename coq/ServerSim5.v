(* Simulation, part 5: the result of a poll, the other ops, and the invariant over whole runs. *)
From Coq Require Import List Bool Arith NArith Lia.
Import ListNotations.
From TarpcV Require Import Base Transport TimerWheel Server ServerMon ServerFuel ServerContract
     ServerSim ServerSim2 ServerSim3 ServerSim4.

Section Results.
  Context {T : Type}.
  Variable tp : transport T response cmsg.
  Variable lim : option nat.
  Notation st := (@sstate T).
  Notation ocs := (fold_left (o_call lim)).

  Lemma InvU_start_poll : forall o (s : st),
    InvU o s -> handled s -> c_err (o_v o) = false -> InvU (start_poll o) (set_log s []).
  Proof.
    intros o s HI Hh Hce.
    apply (InvU_frame_owned o _ s _ HI (all_owned_of_handled _ _ HI Hh) Hce); try reflexivity.
    - exact Hce.
    - unfold same_core; sproj; repeat split; reflexivity.
    - sproj. intros F. exact (u_eof _ _ HI F).
  Qed.

  (* ---- the request is yielded ------------------------------------------------------------------- *)
  Lemma o_result_yield_proj : forall o k id dl tr body,
    let o' := o_result o (OYield k id dl tr body) in
    o_incs o' = close_at (last_open id (o_incs o)) WClosed (o_incs o)
                ++ [mkoi id dl (when_of (o_now o) dl) None PFresh
                         (if N.leb (when_of (o_now o) dl) (o_now o) then WMaybe else WOpen) false]
    /\ o_now o' = o_now o /\ o_dropped o' = o_dropped o /\ o_eof o' = o_eof o /\ o_pend o' = None
    /\ c_err (o_v o') = c_err (o_v o) /\ h_stop (o_v o') = h_stop (o_v o) /\ o_gauge o' = o_gauge o.
  Proof.
    intros o k id dl tr body. cbv zeta. unfold o_result.
    match goal with |- context [accept_id id ?x] =>
      destruct (accept_id_proj id x) as (D1 & D2 & D3 & D4 & D5 & D6 & D7 & D8 & D9 & D10 & D11 & D12 & D13) end.
    oproj. rewrite D1, D2, D3, D4, D6, D11, D13. oproj. repeat split; reflexivity.
  Qed.

  Lemma InvU_result_yield : forall o (s : st) q,
    InvU o s -> PendQ o s q -> c_err (o_v o) = false ->
    let o' := o_result o (OYield (length (s_handlers s)) (q_id q) (q_dl q) (q_tr q) (q_body q)) in
    let s' := set_handlers s (s_handlers s ++ [{| h_h := q_h q; h_id := q_id q; h_st := HYielded |}]) in
    InvU o' s' /\ handled s' /\ c_err (o_v o') = false.
  Proof.
    intros o s q HI (Q1 & Q2 & Q3 & Q4 & Q5 & Q6 & Q7) Hce. cbv zeta.
    destruct (o_result_yield_proj o (length (s_handlers s)) (q_id q) (q_dl q) (q_tr q) (q_body q))
      as (P1 & P2 & P3 & P4 & P5 & P6 & P7 & P8). cbv zeta in *.
    (* first the older incarnation of that id, if one might still have been open, is closed *)
    set (o1 := mko (close_at (last_open (q_id q) (o_incs o)) WClosed (o_incs o)) (o_now o) (o_gauge o)
                   (o_dropped o) (o_eof o) (o_dirty o) (o_pend o) (o_first o) (o_after_thr o)
                   (o_blocked o) (o_freed o) (o_errcall o) (o_v o)).
    assert (HI1 : InvU o1 s).
    { apply (InvU_close o o1 s (q_id q) WClosed HI); try reflexivity; auto.
      intros e k He (hr & oi & A & B & C & D & E & F & G) Hl.
      destruct (last_open_some _ _ _ Hl) as (z & Hz & Hop & _). rewrite B in Hz. inversion Hz; subst z.
      apply open_id_true in Hop. destruct Hop as [Hid _].
      pose proof (Q7 e He (eq_trans (eq_sym D) Hid)) as ->. cbn in C.
      apply (Q3 hr); [eapply nth_error_In; eauto|exact C]. }
    split; [|split; [|congruence]].
    - assert (Hnoopen : forall j x, nth_error (o_incs o1) j = Some x -> open_id (q_id q) x = false).
      { subst o1; oproj. apply close_last_open_none; [exact (u_one_open _ _ HI)|reflexivity]. }
      assert (Hp : pend_id (o_result o (OYield (length (s_handlers s)) (q_id q) (q_dl q) (q_tr q) (q_body q))) = None)
        by (unfold pend_id; rewrite P5; reflexivity).
      assert (Hce' : c_err (o_v (o_result o (OYield (length (s_handlers s)) (q_id q) (q_dl q) (q_tr q) (q_body q)))) = false)
        by congruence.
      assert (Heof : o_eof o1 = true -> o_eof (o_result o (OYield (length (s_handlers s)) (q_id q) (q_dl q) (q_tr q) (q_body q))) = true)
        by (intros E; rewrite P4; exact E).
      assert (Hcore : same_core_but_handlers s
                (set_handlers s (s_handlers s ++ [{| h_h := q_h q; h_id := q_id q; h_st := HYielded |}])))
        by (unfold same_core_but_handlers; sproj; repeat split; reflexivity).
      exact (InvU_yield o1 _ s (set_handlers s (s_handlers s ++ [{| h_h := q_h q; h_id := q_id q; h_st := HYielded |}]))
                        (q_id q) (q_h q) (q_dl q) HI1 Hce Hnoopen Q2 Q3 Q4 Q5 Q6 P1 Hp Hce' P2 P3 Heof
                        eq_refl Hcore eq_refl).
    - intros e He. sproj.
      destruct (classic_handled s e) as [(hr & Hin & Heq)|Hno].
      + exists hr. split; [apply in_or_app; left; exact Hin|exact Heq].
      + pose proof (Q2 e He Hno) as ->. eexists. split; [apply in_or_app; right; left; reflexivity|reflexivity].
  Qed.

  (* ---- Pending / end of stream ------------------------------------------------------------------ *)
  Lemma no_maybe_owner : forall o (s : st) k e oi,
    InvU o s -> Complete s -> In e (s_inflight s) -> owns o s k e -> nth_error (o_incs o) k = Some oi ->
    oi_wire oi <> WMaybe.
  Proof.
    intros o s k e oi HI (Hc & Hd) He Ho Hoi Hm.
    destruct (u_maybe _ _ HI k e oi He Ho Hoi Hm) as [L|R]; [|rewrite Hc in R; contradiction].
    destruct Ho as (hr & oi' & A & B & C & D & E & F & G). rewrite Hoi in B. inversion B; subst oi'.
    assert (In (e_id e, oi_when oi) (due s)).
    { unfold due. apply filter_In. split; [exact F|]. cbn. apply N.leb_le. exact L. }
    rewrite Hd in H. contradiction.
  Qed.

  Lemma finish_idle_proj : forall o,
    let o' := finish_idle o in
    o_incs o' = (if o_blocked o then mark_late (o_now o) (o_incs o) else settle (o_incs o))
    /\ o_now o' = o_now o /\ o_dropped o' = o_dropped o /\ o_eof o' = o_eof o /\ o_pend o' = o_pend o
    /\ c_err (o_v o') = c_err (o_v o) /\ h_stop (o_v o') = h_stop (o_v o) /\ o_blocked o' = o_blocked o.
  Proof.
    intros o. cbv zeta. unfold finish_idle. oproj. destruct (o_blocked o) eqn:EB; oproj;
      rewrite ?orb_false_r, ?andb_true_r; repeat split; auto.
  Qed.

  Lemma InvU_finish_idle : forall o (s : st),
    InvU o s -> (o_blocked o = false -> Complete s) ->
    InvU (finish_idle o) s.
  Proof.
    intros o s HI Hcomp.
    destruct (finish_idle_proj o) as (P1 & P2 & P3 & P4 & P5 & P6 & P7 & P8). cbv zeta in *.
    destruct (o_blocked o) eqn:EB.
    - (* blocked: only the `late` marks change *)
      apply (InvU_map o _ s s (fun i => if is_open (oi_wire i) && N.leb (oi_when i) (o_now o) then set_late i else i) HI).
      + exact P1.
      + intros i. destruct (is_open (oi_wire i) && _); cbn; auto.
      + intros i _. destruct (is_open (oi_wire i) && _); cbn; auto.
      + intros i Hin. destruct (is_open (oi_wire i) && _) eqn:E; cbn; intros Hw; split; auto.
        all: apply In_nth_error in Hin; destruct Hin as (k & Hk); exact (u_open_young _ _ HI k i Hk Hw).
      + intros i _. destruct (is_open (oi_wire i) && _); cbn; auto.
      + intros k e oi He (hr & oi' & A & B & C & D & E & F & G) Hoi. rewrite Hoi in B. inversion B; subst oi'.
        destruct (is_open (oi_wire oi) && _); cbn; exact E.
      + unfold same_tab_but_incs, pend_id. rewrite P3, P5, P6. repeat split; reflexivity.
      + unfold same_core_but_now. repeat split; reflexivity.
      + lia.
      + rewrite P2. exact (u_now _ _ HI).
      + intros _ Hne. exfalso. apply Hne. reflexivity.
      + intros F. rewrite P4. exact (u_eof _ _ HI F).
    - specialize (Hcomp eq_refl).
      apply (InvU_map o _ s s (fun i => match oi_wire i with WMaybe => set_wire i WClosed | _ => i end) HI).
      + exact P1.
      + intros i. destruct (oi_wire i); cbn; auto.
      + intros i _. destruct (oi_wire i) eqn:E; cbn; rewrite ?E; auto.
      + intros i Hin. destruct (oi_wire i) eqn:E; cbn; rewrite ?E; intros Hw; try discriminate.
        split; [reflexivity|]. apply In_nth_error in Hin. destruct Hin as (k & Hk).
        exact (u_open_young _ _ HI k i Hk E).
      + intros i _. destruct (oi_wire i) eqn:E; cbn; rewrite ?E; intros Hw; try discriminate.
      + intros k e oi He Ho Hoi. pose proof (no_maybe_owner _ _ _ _ _ HI Hcomp He Ho Hoi) as Hnm.
        destruct Ho as (hr & oi' & A & B & C & D & E & F & G). rewrite Hoi in B. inversion B; subst oi'.
        destruct (oi_wire oi) eqn:Ew; cbn; rewrite ?Ew; auto; congruence.
      + unfold same_tab_but_incs, pend_id. rewrite P3, P5, P6. repeat split; reflexivity.
      + unfold same_core_but_now. repeat split; reflexivity.
      + lia.
      + rewrite P2. exact (u_now _ _ HI).
      + intros _ Hne. exfalso. apply Hne. reflexivity.
      + intros F. rewrite P4. exact (u_eof _ _ HI F).
  Qed.

  (* ---- the stream yields an error ---------------------------------------------------------------- *)
  Lemma InvU_err : forall o o' (s s' : st),
    InvU o s -> o_incs o' = o_incs o -> o_now o' = o_now o -> o_dropped o' = o_dropped o ->
    (o_eof o = true -> o_eof o' = true) -> c_err (o_v o') = true ->
    (forall id, In id (s_cancels s) -> In id (s_cancels s')) ->
    s_handlers s' = s_handlers s -> s_next_h s' = s_next_h s -> s_inflight s' = s_inflight s ->
    s_timers s' = s_timers s -> s_aborted s' = s_aborted s -> s_now s' = s_now s ->
    s_dropped s' = s_dropped s -> s_fused s' = s_fused s ->
    InvU o' s'.
  Proof.
    intros o o' s s' HI T1 T2 T3 Te Tc Hcan C1 C2 C3 C4 C5 C7 C8 Cf.
    pose proof (u_maybe _ _ HI) as UM. pose proof (u_owner _ _ HI) as UO.
    destruct HI. constructor; rewrite ?T1, ?T2, ?T3, ?C1, ?C2, ?C3, ?C4, ?C5, ?C7, ?C8, ?Cf; auto.
    - intros e He. destruct (UO e He) as [[k Hk]|[_ Hy]].
      + left. exists k. eapply owns_frame; eauto.
      + right. split; [right; exact Tc|exact Hy].
    - intros k e oi Hin Ho Hoi Hm.
      destruct (UM k e oi Hin) as [L|R]; auto. eapply owns_frame; [| | |exact Ho]; auto.
    - rewrite Tc. discriminate.
  Qed.

  Lemma o_result_err_proj : forall o a,
    let o' := o_result o (OStreamErr a) in
    o_incs o' = o_incs o /\ o_now o' = o_now o /\ o_dropped o' = o_dropped o /\ o_eof o' = o_eof o
    /\ c_err (o_v o') = true /\ h_stop (o_v o') = h_stop (o_v o) /\ v_bad (o_v o') = v_bad (o_v o).
  Proof.
    intros o a. cbv zeta. unfold o_result. oproj. rewrite ?orb_false_r, ?andb_true_r, ?orb_true_r.
    repeat split; reflexivity.
  Qed.

  (* ---- gauges ------------------------------------------------------------------------------------ *)
  Lemma o_gauges_proj : forall st' bl o a b,
    let o' := o_gauges st' bl o a b in
    o_incs o' = o_incs o /\ o_now o' = o_now o /\ o_dropped o' = o_dropped o /\ o_eof o' = o_eof o
    /\ o_pend o' = o_pend o /\ c_err (o_v o') = c_err (o_v o) /\ h_stop (o_v o') = h_stop (o_v o)
    /\ v_bad (o_v o') = v_bad (o_v o) /\ o_gauge o' = a.
  Proof.
    intros st' bl o a b. cbv zeta. unfold o_gauges. destruct st'; [|destruct bl]; oproj; repeat split; reflexivity.
  Qed.
End Results.
