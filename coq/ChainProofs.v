(* Chain proofs: the cascade theorem.  Every op keeps the chain invariant unless the run is
   tainted; at a SettleAll that reaches a quiet round with every head call over, the final round
   leaves every node quiet, which is what the monitor c04c_ok asks for. *)
From Coq Require Import List Bool Arith NArith Lia.
Import ListNotations.
From TarpcV Require Import Base Transport TimerWheel Chain ChainSpec ChainBase ChainInv ChainCross
     ChainSrvSpec ChainGood ChainProofsSrv ChainProofsBound ChainQuiet ChainCtx.
From TarpcV Require Client Server ClientProofsG1Rec ChainCasc1u.

(* ------------------------------------------------------------------------------------------ *)
(* the head caller creates a call *)
Lemma cstep_call T nd d tid smp body nd' l :
  node_ok T nd -> (d <= MAXT)%N ->
  cstep nd (Client.Call 0 d tid smp body) = (nd', l) ->
  l = [] /\ n_srv nd' = n_srv nd /\ n_hs nd' = n_hs nd /\ node_ok T nd' /\
  length (Client.calls (n_cli nd')) = S (length (Client.calls (n_cli nd))) /\
  (forall j, j < length (Client.calls (n_cli nd)) -> ph_over (n_cli nd') j = ph_over (n_cli nd) j).
Proof.
  intros NO Hd E. unfold cstep in E. cbn [Client.step] in E. pinj E.
  pose proof (node_NI T nd NO) as H.
  set (c0 := Client.upd_tr (n_cli nd) (n_link nd) (Client.fused (n_cli nd)) (Client.plog (n_cli nd))) in *.
  set (kk := {| Client.c_handle := 0;
                Client.c_phase := match nth_error (Client.handles c0) 0 with Some true => Client.PNew | _ => Client.PGone end;
                Client.c_id := 0%N; Client.c_rel := d; Client.c_deadline := (Client.now c0 + d)%N;
                Client.c_tc := {| Client.tc_tid := tid; Client.tc_sid := 0%N; Client.tc_sampled := smp |};
                Client.c_body := body |}).
  assert (Hp : Client.c_phase kk = Client.PNew \/ Client.c_phase kk = Client.PGone).
  { unfold kk. cbn [Client.c_phase]. destruct (nth_error (Client.handles c0) 0) as [[|]|]; auto. }
  assert (Hdl : (Client.c_deadline kk <= T + MAXT)%N).
  { unfold kk, c0. cbn [Client.c_deadline Client.now Client.upd_tr]. rewrite (cv_now _ _ (no_cli _ _ NO)). lia. }
  destruct (ChainCasc1u.NI_add_call T (n_srv nd) cfuel c0 kk H Hp Hdl) as [H1 H2].
  split; [reflexivity|]. cbn [n_srv n_hs n_cli]. split; [reflexivity|]. split; [reflexivity|].
  split; [apply node_of_NI; assumption|]. split; [cbn; rewrite app_length; cbn; lia|].
  intros j Hj. apply (H2 j Hj).
Qed.

Lemma good_hcall m ch d tid smp body :
  good m ch -> (d <= MAXT)%N ->
  good (mon_op m (HCall d tid smp body)) (fst (step ch (HCall d tid smp body))).
Proof.
  intros G Hd. cbn [step]. destruct (nth_error ch 0) as [nd|] eqn:E0.
  - cbn [fst]. destruct (cstep nd _) as [nd1 l1] eqn:ES. cbn [fst].
    destruct (cstep_call _ _ _ _ _ _ _ _ (gd_node _ _ G 0 nd E0) Hd ES) as (_ & Es & Eh & NO1 & L1 & P1).
    destruct G as [A B [C1 C2 C3]]. pose proof (nth_error_lt _ _ _ E0) as L0.
    constructor; cbn [mon_op mo_now mo_calls mo_started mo_ended].
    + intros j x Hj. destruct j as [|j].
      * rewrite nth_set_node_same in Hj by exact L0. injection Hj as <-. exact NO1.
      * rewrite nth_set_node_other in Hj by discriminate. eapply A, Hj.
    + intros j x y Hx Hy. destruct j as [|j].
      * rewrite nth_set_node_same in Hx by exact L0. injection Hx as <-.
        rewrite nth_set_node_other in Hy by discriminate.
        eapply own_srv; [eapply (B 0 nd y); eassumption|]. apply srv_same_refl; assumption.
      * rewrite !nth_set_node_other in * by discriminate. eapply B; eassumption.
    + constructor; cbn [mo_calls mo_started mo_ended].
      * intros nd0 H0. rewrite nth_set_node_same in H0 by exact L0. injection H0 as <-.
        rewrite app_length, L1, (C1 nd E0). cbn. lia.
      * intros nd0 j h H0 Hj Ho. rewrite nth_set_node_same in H0 by exact L0. injection H0 as <-.
        destruct (Nat.lt_ge_cases j (length (mo_calls m))) as [Hlt|Hge].
        -- rewrite nth_error_app1 in Hj by exact Hlt. rewrite P1 by (rewrite <- (C1 nd E0); exact Hlt).
           eapply C2; eassumption.
        -- rewrite nth_error_app2 in Hj by exact Hge. destruct (j - length (mo_calls m)) as [|x]; cbn in Hj.
           ++ injection Hj as <-. discriminate.
           ++ destruct x; discriminate.
      * intros i k Hk. destruct (C3 i k Hk) as [He|(x & hr & Hx & Hr & Hst)]; [left; exact He|right].
        destruct i as [|i].
        -- rewrite E0 in Hx. injection Hx as <-. exists nd1, hr. rewrite nth_set_node_same by exact L0.
           rewrite Es. auto.
        -- exists x, hr. rewrite nth_set_node_other by discriminate. auto.
  - cbn [fst]. destruct G as [A B [C1 C2 C3]]. constructor; cbn [mon_op mo_now mo_calls mo_started mo_ended]; try assumption.
    constructor; cbn [mo_calls mo_started mo_ended]; try assumption.
    + intros nd0 H0. congruence.
    + intros nd0 j h H0. congruence.
Qed.

(* the head caller drops a call *)
Lemma good_hdrop m ch j :
  good m ch -> good (mon_op m (HDrop j)) (fst (step ch (HDrop j))).
Proof.
  intros G. cbn [step mon_op]. destruct (nth_error ch 0) as [nd|] eqn:E0; cbn [fst].
  - destruct (cstep nd _) as [nd1 l1] eqn:ES. cbn [fst].
    destruct (cstep_drop_call _ _ _ _ _ (gd_node _ _ G 0 nd E0) ES) as (_ & Es & Eh & _ & NO1 & L1 & M1 & P1 & _).
    apply good_set_over.
    + eapply good_upd; [exact G|exact E0|exact NO1|split; [exact L1|exact M1]|apply srv_same_refl; assumption].
    + intros nd0 H0 Hj. rewrite nth_set_node_same in H0 by (eapply nth_error_lt, E0). injection H0 as <-.
      apply P1. rewrite <- (mk_calls _ _ (gd_mon _ _ G) nd E0). exact Hj.
  - apply good_set_over; [exact G|]. intros nd0 H0. congruence.
Qed.

(* the clock advances *)
Lemma node_advance T dt nd :
  node_ok T nd ->
  node_ok (T + dt) (advance_node dt nd) /\
  n_hs (advance_node dt nd) = n_hs nd /\
  Server.s_handlers (n_srv (advance_node dt nd)) = Server.s_handlers (n_srv nd) /\
  Client.calls (n_cli (advance_node dt nd)) = Client.calls (n_cli nd).
Proof.
  intros NO. unfold advance_node.
  destruct (cstep nd (Client.Advance dt)) as [nd1 l1] eqn:E1.
  destruct (sstep nd1 (Server.OAdvance dt)) as [nd2 l2] eqn:E2.
  unfold cstep in E1. destruct (Client.step ctp cfuel _ (Client.Advance dt)) as [c1 lc] eqn:ES. pinj E1.
  destruct (ChainCasc1u.NI_step_advance T (n_srv nd) cfuel _ dt c1 lc (node_NI T nd NO) ES)
    as (_ & Et & C1 & X1 & Ec).
  unfold sstep, Server.step in E2. cbn [n_srv n_link n_cli n_hs n_over] in E2. pinj E2.
  cbn [n_cli n_link n_srv n_hs n_over Server.s_handlers Server.set_now Server.set_t Server.s_t].
  pose proof (ChainCasc1u.ni_x _ _ _ (node_NI T nd NO)) as X0.
  destruct NO as [C X S Sn Ov Hl Hc].
  split; [|split; [reflexivity|split; [reflexivity|exact Ec]]].
  constructor; cbn [n_cli n_link n_srv n_hs n_over Server.s_handlers Server.set_now Server.set_t Server.s_t Server.s_now].
  - exact C1.
  - eapply cross_sframe with (s := n_srv nd); [reflexivity|reflexivity|reflexivity|].
    apply X1. apply cross_advance, X0.
  - destruct S as [S1 S2 S3 S4 S5 S6 S7]. constructor; assumption.
  - rewrite Sn. reflexivity.
  - exact Ov.
  - exact Hl.
  - intros h Hh. specialize (Hc h Hh). lia.
Qed.

Lemma good_advance m ch dt :
  good m ch -> good (mon_op m (Advance dt)) (map (advance_node dt) ch).
Proof.
  intros [A B [C1 C2 C3]].
  assert (Hn : forall i x, nth_error (map (advance_node dt) ch) i = Some x ->
                 exists nd, nth_error ch i = Some nd /\ x = advance_node dt nd).
  { intros i x H. rewrite nth_error_map in H. destruct (nth_error ch i) as [nd|]; [|discriminate].
    injection H as <-. eauto. }
  constructor; cbn [mon_op mo_now mo_calls mo_started mo_ended].
  - intros i x Hx. destruct (Hn i x Hx) as (nd & Hnd & ->). apply node_advance, (A i nd Hnd).
  - intros i x y Hx Hy. destruct (Hn i x Hx) as (nd & Hnd & ->). destruct (Hn (S i) y Hy) as (nx & Hnx & ->).
    destruct (node_advance _ dt nd (A i nd Hnd)) as (_ & E1 & E2 & _).
    destruct (node_advance _ dt nx (A (S i) nx Hnx)) as (_ & _ & _ & E3).
    destruct (B i nd nx Hnd Hnx) as [O1 O2 O3].
    unfold ph_over, ChainCasc1u.ph_over, ClientProofsG1Rec.ph in *.
    constructor; rewrite ?E1, ?E2, ?E3; assumption.
  - constructor; cbn [mo_calls mo_started mo_ended].
    + intros nd0 H0. destruct (Hn 0 nd0 H0) as (nd & Hnd & ->).
      destruct (node_advance _ dt nd (A 0 nd Hnd)) as (_ & _ & _ & E3). rewrite E3. apply C1, Hnd.
    + intros nd0 j h H0 Hj Ho. destruct (Hn 0 nd0 H0) as (nd & Hnd & ->).
      destruct (node_advance _ dt nd (A 0 nd Hnd)) as (_ & _ & _ & E3).
      unfold ph_over, ChainCasc1u.ph_over, ClientProofsG1Rec.ph in *. rewrite E3. eapply C2; eassumption.
    + intros i k Hk. destruct (C3 i k Hk) as [He|(x & hr & Hx & Hr & Hst)]; [left; exact He|right].
      destruct (node_advance _ dt x (A i x Hx)) as (_ & _ & E2 & _).
      exists (advance_node dt x), hr. rewrite nth_error_map, Hx, E2. auto.
Qed.

(* ------------------------------------------------------------------------------------------ *)
(* SettleAll *)
Lemma gu_fold_nt l : forall m ch,
  (forall e, In e l -> neutral e = true \/ taints e = true) -> GU m ch -> GU (fold_left mon_obs l m) ch.
Proof.
  induction l as [|e r IH]; intros m ch H G; cbn [fold_left]; [exact G|].
  apply IH; [intros x Hx; apply H; right; exact Hx|].
  destruct (H e (or_introl eq_refl)) as [Hn|Ht].
  - destruct (mon_obs_neutral m e Hn) as (A1 & A2 & A3 & A4 & A5).
    destruct G as [T|G]; [left; congruence|right; eapply good_core; eassumption].
  - left. apply mon_obs_taints, Ht.
Qed.

Lemma all_gauges_nt ch : forall i e, In e (all_gauges i ch) -> neutral e = true \/ taints e = true.
Proof.
  induction ch as [|nd r IH]; intros i e H; cbn in H; [destruct H|].
  destruct H as [<-|H]; [left; reflexivity|]. apply in_app_or in H. destruct H as [H|H]; [|eapply IH, H].
  unfold sgauge in H. destruct (Server.s_dropped _); [destruct H|].
  destruct H as [<-|H]; [left; reflexivity|]. destruct (Server.s_bad _); [|destruct H].
  destruct H as [<-|[]]. right. reflexivity.
Qed.

Lemma all_gauges_calls ch : forall i m,
  mo_calls (fold_left mon_obs (all_gauges i ch) m) = mo_calls m /\
  mo_started (fold_left mon_obs (all_gauges i ch) m) = mo_started m /\
  mo_ended (fold_left mon_obs (all_gauges i ch) m) = mo_ended m.
Proof.
  induction ch as [|nd r IH]; intros i m; cbn [all_gauges]; [cbn; auto|].
  cbn [app cgauge fold_left mon_obs]. rewrite fold_left_app.
  destruct (IH (S i) (fold_left mon_obs (sgauge i nd) m)) as (A & B & C). rewrite A, B, C.
  unfold sgauge. destruct (Server.s_dropped _); [cbn; auto|]. destruct (Server.s_bad _); cbn; auto.
Qed.

Lemma gauges_zero_all ch : forall i,
  (forall nd, In nd ch -> node_quiet nd) -> gauges_zero (all_gauges i ch) = true.
Proof.
  induction ch as [|nd r IH]; intros i H; cbn [all_gauges]; [reflexivity|].
  unfold gauges_zero in *. cbn [app cgauge forallb]. rewrite forallb_app, (IH (S i)) by (intros x Hx; apply H; right; exact Hx).
  rewrite andb_true_r. destruct (H nd (or_introl eq_refl)) as (_ & E1 & E2).
  unfold sgauge. rewrite E1, E2. destruct (Server.s_dropped _); [reflexivity|]. destruct (Server.s_bad _); reflexivity.
Qed.

(* the events SettleAll reports are events *)
Lemma settle_events n : forall ch acc ch' evs q,
  settle n ch acc = (ch', evs, q) -> forallb is_event acc = true -> forallb is_event evs = true.
Proof.
  induction n as [|n IH]; intros ch acc ch' evs q E H; cbn [settle] in E.
  - pinj E. match goal with H0 : (_, _) = (_, _) |- _ => pinj H0 end. exact H.
  - destruct (round ch) as [ch1 ev] eqn:ER.
    assert (He : forallb is_event ev = true).
    { unfold round in ER. destruct (poll_heads _ _ _ _) as [c1 l1]. destruct (settle_nodes _ _ _ _) as [c2 l2].
      pinj ER. apply forallb_forall. intros x Hx. apply filter_In in Hx. apply Hx. }
    match type of E with (if ?b then _ else _) = _ => destruct b end.
    + pinj E. match goal with H0 : (_, _) = (_, _) |- _ => pinj H0 end. exact H.
    + eapply IH; [exact E|]. rewrite forallb_app, H, He. reflexivity.
Qed.

Lemma gauges_zero_events l : forallb is_event l = true -> gauges_zero l = true.
Proof.
  intro H. unfold gauges_zero. apply forallb_forall. intros e He. rewrite forallb_forall in H.
  specialize (H e He). destruct e; try reflexivity. discriminate.
Qed.

Lemma memp_in p l : In p l -> memp p l = true.
Proof.
  intro H. unfold memp. apply existsb_exists. exists p. split; [exact H|]. rewrite !Nat.eqb_refl. reflexivity.
Qed.

Lemma calls_over_of_mon m ch nd0 :
  good m ch -> nth_error ch 0 = Some nd0 -> forallb hc_over (mo_calls m) = true -> calls_over (n_cli nd0).
Proof.
  intros G E0 H j Hj. rewrite <- (mk_calls _ _ (gd_mon _ _ G) nd0 E0) in Hj.
  apply nth_error_Some in Hj. destruct (nth_error (mo_calls m) j) as [h|] eqn:Eh; [|congruence].
  rewrite forallb_forall in H. eapply (mk_over _ _ (gd_mon _ _ G)); [exact E0|exact Eh|].
  apply H. eapply nth_error_In, Eh.
Qed.

Lemma c04_settle m ch ch' l :
  mo_c04 m = true -> GU m ch -> small m -> settle_all ch = (ch', l) ->
  mo_c04 (mon_settled (fold_left mon_obs l m) l) = true /\
  GU (mon_settled (fold_left mon_obs l m) l) ch'.
Proof.
  intros C G S E. unfold settle_all in E.
  destruct (settle (rounds_of ch) ch []) as [[ch1 ev] q] eqn:ES. pinj E.
  destruct (gu_settle (rounds_of ch) ch [] ch1 ev q m G S ES) as [G1 GQ].
  pose proof (settle_events _ _ _ _ _ _ ES eq_refl) as EV.
  set (l := ev ++ (if q then [] else [KRounds]) ++ all_gauges 0 ch1).
  set (mE := fold_left mon_obs ev m) in *.
  assert (M1 : fold_left mon_obs l m = fold_left mon_obs (all_gauges 0 ch1)
                                         (fold_left mon_obs (if q then [] else [KRounds]) mE)).
  { unfold l, mE. rewrite !fold_left_app. reflexivity. }
  assert (G2 : GU (fold_left mon_obs l m) ch1).
  { rewrite M1. apply gu_fold_nt; [apply all_gauges_nt|]. destruct q; [exact G1|].
    left. cbn. reflexivity. }
  split.
  - unfold mon_settled. cbn [mo_c04]. rewrite fold_mon_obs_c04, C. cbn [andb].
    destruct (negb (mo_tainted (fold_left mon_obs l m)) && forallb hc_over (mo_calls (fold_left mon_obs l m))) eqn:EO;
      [|reflexivity].
    cbn [negb orb]. apply andb_true_iff in EO. destruct EO as [ET EC]. apply negb_true_iff in ET.
    (* the run is untainted: the last round was quiet *)
    destruct q.
    2:{ exfalso. rewrite (fold_taints l m KRounds) in ET; [discriminate| |reflexivity].
        unfold l. apply in_or_app. right. apply in_or_app. left. left. reflexivity. }
    destruct (GQ eq_refl) as (chL & GL & ER).
    assert (ETE : mo_tainted mE = false) by (apply (fold_untainted_head ev ([] ++ all_gauges 0 ch1) m); exact ET).
    destruct GL as [TL|GL]; [congruence|].
    cbn [fold_left] in M1. destruct (all_gauges_calls ch1 0 mE) as (A1 & A2 & A3).
    rewrite M1, A1 in EC. rewrite M1, A2, A3.
    destruct (quiet_round mE chL ch1 GL ETE) as [GF QF].
    { intros nd0 H0. eapply calls_over_of_mon; eassumption. }
    { exact ER. }
    apply andb_true_iff. split.
    + apply forallb_forall. intros [i k] Hin.
      destruct (mk_started _ _ (gd_mon _ _ GF) i k (memp_in _ _ Hin)) as [He|(x & hr & Hx & Hr & Hst)]; [exact He|].
      exfalso. destruct (QF i x Hx) as (Hd & _). specialize (Hd hr (nth_error_In _ _ Hr)). rewrite Hst in Hd. discriminate.
    + unfold l. unfold gauges_zero. rewrite forallb_app. cbn [app].
      apply andb_true_iff. split; [apply gauges_zero_events, EV|].
      apply gauges_zero_all. intros nd Hin. apply In_nth_error in Hin. destruct Hin as [j Hj]. eapply QF, Hj.
  - destruct G2 as [T|G2]; [left; exact T|right]. eapply good_core; [..|exact G2]; reflexivity.
Qed.

(* ------------------------------------------------------------------------------------------ *)
(* every op *)
Lemma mon_op_c04 m o : mo_c04 (mon_op m o) = mo_c04 m.
Proof. destruct o; reflexivity. Qed.

Lemma mon_op_calls_len m o : length (mo_calls (mon_op m o)) <= S (length (mo_calls m)).
Proof.
  destruct o; cbn [mon_op mo_calls]; try lia.
  - rewrite app_length. cbn. lia.
  - rewrite length_set_over. lia.
Qed.

Lemma mon_step_calls_len m o l : length (mo_calls (mon_step m o l)) <= S (length (mo_calls m)).
Proof.
  unfold mon_step. pose proof (mon_op_calls_len m o) as H.
  destruct o; cbn [mon_settled mo_calls]; rewrite fold_calls_len; exact H.
Qed.

Lemma gu_step m ch o ch' l :
  mo_c04 m = true -> GU m ch -> small (mon_op m o) -> step ch o = (ch', l) ->
  mo_c04 (mon_step m o l) = true /\ GU (mon_step m o l) ch'.
Proof.
  intros C G S E. unfold mon_step.
  assert (Plain : forall m1, m1 = mon_op m o -> GU (fold_left mon_obs l m1) ch' ->
            mo_c04 (fold_left mon_obs l m1) = true /\ GU (fold_left mon_obs l m1) ch').
  { intros m1 -> H. split; [rewrite fold_mon_obs_c04, mon_op_c04; exact C|exact H]. }
  destruct o; cbn [step] in E.
  - (* HCall *)
    apply Plain; [reflexivity|].
    assert (El : l = []) by (destruct (nth_error ch 0); pinj E; reflexivity). subst l. cbn [fold_left].
    destruct (N.ltb Client.max_timeout_ms d) eqn:Ed.
    + left. cbn [mon_op mo_tainted]. rewrite Ed. apply orb_true_r.
    + destruct G as [T|G]; [left; cbn [mon_op mo_tainted]; rewrite T; reflexivity|right].
      apply N.ltb_ge in Ed.
      assert (Ech : ch' = fst (step ch (HCall d tid smp body))) by (cbn [step]; destruct (nth_error ch 0); pinj E; reflexivity).
      rewrite Ech. apply good_hcall; [exact G|exact Ed].
  - apply Plain; [reflexivity|]. eapply gu_poll_head; [exact G|exact S|exact E].
  - (* HDrop *)
    apply Plain; [reflexivity|].
    assert (El : l = []) by (destruct (nth_error ch 0); pinj E; reflexivity). subst l. cbn [fold_left].
    destruct G as [T|G]; [left; exact T|right].
    assert (Ech : ch' = fst (step ch (HDrop j))) by (cbn [step]; destruct (nth_error ch 0); pinj E; reflexivity).
    rewrite Ech. apply good_hdrop, G.
  - apply Plain; [reflexivity|]. eapply gu_poll_dispatch; eassumption.
  - apply Plain; [reflexivity|]. eapply gu_poll_requests; eassumption.
  - apply Plain; [reflexivity|]. eapply gu_poll_handler; [exact G|exact S|exact E].
  - apply Plain; [reflexivity|]. apply gu_taint. reflexivity.
  - apply Plain; [reflexivity|]. apply gu_taint. reflexivity.
  - apply Plain; [reflexivity|]. pinj E. cbn [fold_left].
    destruct G as [T|G]; [left; exact T|right; apply good_advance, G].
  - (* SettleAll *)
    cbn [mon_op]. eapply c04_settle; eassumption.
Qed.

(* ------------------------------------------------------------------------------------------ *)
(* the initial chain *)
Lemma node0_ok : node_ok 0 node0.
Proof.
  constructor; cbn [n_cli n_link n_srv n_hs n_over node0].
  - constructor; try reflexivity; try (cbn; intros ? []).
    + constructor; try (cbn; intros; lia); try reflexivity.
      constructor; [intros w []|constructor].
  - constructor; cbn; try reflexivity; try (intros; contradiction); try constructor.
  - constructor; cbn; try reflexivity; try constructor; try (intros; contradiction).
  - reflexivity.
  - reflexivity.
  - reflexivity.
  - intros h [].
Qed.

Lemma init_good d : good mon0 (init d).
Proof.
  assert (Hn : forall i nd, nth_error (init d) i = Some nd -> nd = node0).
  { intros i nd H. apply nth_error_In in H. apply repeat_spec in H. exact H. }
  constructor.
  - intros i nd H. rewrite (Hn i nd H). apply node0_ok.
  - intros i nd nx H1 H2. rewrite (Hn _ _ H1), (Hn _ _ H2). constructor; cbn.
    + intros k h j Hk. destruct k; discriminate.
    + intros j Hj. lia.
    + reflexivity.
  - constructor; cbn [mon0 mo_calls mo_started mo_ended].
    + intros nd0 H. rewrite (Hn 0 _ H). reflexivity.
    + intros nd0 j h _ Hj. destruct j; discriminate.
    + intros i k H. discriminate.
Qed.

(* ------------------------------------------------------------------------------------------ *)
(* the run *)
Lemma cascade_run : forall ops m ch,
  mo_c04 m = true -> GU m ch -> (N.of_nat (length (mo_calls m) + length ops) + 1 < two64)%N ->
  exists m', mon_run m ops (fst (run_from ch ops)) = Some m' /\ mo_c04 m' = true.
Proof.
  induction ops as [|o r IH]; intros m ch C G B; cbn [run_from].
  - exists m. auto.
  - destruct (step ch o) as [ch1 l] eqn:ES. destruct (run_from ch1 r) as [ls ch2] eqn:ER.
    cbn [fst mon_run].
    assert (S0 : small (mon_op m o)).
    { unfold small. pose proof (mon_op_calls_len m o). cbn [length] in B. lia. }
    destruct (gu_step m ch o ch1 l C G S0 ES) as [C1 G1].
    specialize (IH (mon_step m o l) ch1 C1 G1). rewrite ER in IH. apply IH.
    pose proof (mon_step_calls_len m o l). cbn [length] in B. lia.
Qed.

Theorem chain_cascade : stmt_chain_cascade.
Proof.
  intros d ops Hw. unfold c04c_ok, run.
  destruct (cascade_run ops mon0 (init d)) as (m' & -> & C); [reflexivity|right; apply init_good| |exact C].
  unfold chain_no_wrap in Hw. cbn [mon0 mo_calls length]. unfold two64, ClientSimBase.two64. lia.
Qed.

Print Assumptions chain_cascade.
