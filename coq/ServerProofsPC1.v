(* Server proofs, engineer C, part 1: the hypothesis and class flags of the observer are monotone:
   h_b1 and h_stop only ever go from true to false, c_k2 only from false to true, along ostep.
   Observer-only facts. *)
From Coq Require Import List Bool Arith NArith Lia.
Import ListNotations.
From TarpcV Require Import Base Transport TimerWheel Server ServerMon ServerFuel ServerSim ServerSim2.

Definition FL (o o' : ostate) : Prop :=
  (h_b1 (o_v o') = true -> h_b1 (o_v o) = true)
  /\ (h_stop (o_v o') = true -> h_stop (o_v o) = true)
  /\ (c_k2 (o_v o') = false -> c_k2 (o_v o) = false).

Lemma FL_refl : forall o, FL o o. Proof. intros o; repeat split; auto. Qed.
Lemma FL_trans : forall a b c, FL a b -> FL b c -> FL a c.
Proof. intros a b c (A1 & A2 & A3) (B1 & B2 & B3). repeat split; auto. Qed.
Lemma FL_same : forall o o', o_v o' = o_v o -> FL o o'.
Proof. intros o o' H. unfold FL. rewrite H. repeat split; auto. Qed.

Ltac fl :=
  unfold FL; oproj; rewrite ?andb_true_r, ?orb_false_r;
  repeat split; intros Hfl;
  try (apply andb_true_iff in Hfl; destruct Hfl as [Hfl _]);
  try (apply orb_false_iff in Hfl; destruct Hfl as [Hfl _]);
  try exact Hfl; auto.

Lemma FL_chk09 : forall o b, FL o (chk09 o b). Proof. intros; fl. Qed.
Lemma FL_chk08 : forall o b, FL o (chk08 o b). Proof. intros; fl. Qed.
Lemma FL_chk10 : forall o b, FL o (chk10 o b). Proof. intros; fl. Qed.
Lemma FL_chk12a : forall o b, FL o (chk12a o b). Proof. intros; fl. Qed.
Lemma FL_mark_bad : forall o, FL o (mark_bad o). Proof. intros; unfold mark_bad; fl. Qed.
Lemma FL_hyp_stop : forall o b, FL o (hyp_stop o b). Proof. intros; unfold hyp_stop; fl. Qed.

Lemma FL_accept_id : forall id o, FL o (accept_id id o).
Proof. intros id o. unfold accept_id. destruct (last_open id (o_incs o)); fl. Qed.

Lemma FL_ocall : forall lim o c, FL o (o_call lim o c).
Proof.
  intros lim o c. unfold o_call.
  assert (P : FL o (match o_errcall o with Some _ => chk09 o false | None => o end)).
  { destruct (o_errcall o); [apply FL_chk09|apply FL_refl]. }
  set (o0 := match o_errcall o with Some _ => chk09 o false | None => o end) in *.
  eapply FL_trans; [exact P|]. clearbody o0. clear P.
  destruct c as [r|m r|r|r|r].
  - fl.
  - destruct (resp_body m).
    1,2,4: (destruct (last_open (resp_id m) (o_incs o0)); fl).
    unfold accept_id. destruct (last_open (resp_id m) _); fl.
  - fl.
  - fl.
  - unfold resolve_ignored. destruct (o_pend o0) as [[[[a b] d] e]|];
      destruct r as [[id dl tr body|id tr]| | |]; try (fl; fail);
      destruct (last_open id _); fl.
Qed.

Lemma FL_ocalls : forall lim new o, FL o (fold_left (o_call lim) new o).
Proof.
  intros lim new; induction new as [|c new IH]; intros o; cbn [fold_left]; [apply FL_refl|].
  eapply FL_trans; [apply FL_ocall|apply IH].
Qed.

Lemma FL_finish_idle : forall o, FL o (finish_idle o).
Proof. intros o. unfold finish_idle. destruct (o_blocked _); unfold cls_k2; fl. Qed.

Lemma FL_oresult : forall o r, FL o (o_result o r).
Proof.
  intros o r. destruct r; unfold o_result; try apply FL_mark_bad.
  - unfold accept_id. destruct (last_open id _); fl.
  - apply FL_finish_idle.
  - eapply FL_trans; [apply FL_chk10|apply FL_finish_idle].
  - unfold mark_err. fl.
Qed.

Lemma FL_ogauges : forall st' bl o a b, FL o (o_gauges st' bl o a b).
Proof. intros st' bl o a b. unfold o_gauges. destruct st'; [|destruct bl]; fl. Qed.

Lemma FL_ohevent : forall o e, FL o (o_hevent o e).
Proof.
  intros o e. destruct e; unfold o_hevent; try apply FL_mark_bad; try apply FL_refl.
  - destruct (nth_error (o_incs o) k); [fl|apply FL_mark_bad].
  - apply FL_same. reflexivity.
  - destruct (nth_error (o_incs o) k); [fl|apply FL_mark_bad].
Qed.
Lemma FL_ohevents : forall body o, FL o (fold_left o_hevent body o).
Proof.
  induction body as [|e body IH]; intros o; cbn [fold_left]; [apply FL_refl|].
  eapply FL_trans; [apply FL_ohevent|apply IH].
Qed.
Lemma FL_guard_dropped : forall k need o, FL o (guard_dropped k need o).
Proof.
  intros k need o. unfold guard_dropped. destruct (nth_error (o_incs o) k); [|apply FL_refl].
  repeat match goal with |- context [if ?b then _ else _] => destruct b end; apply FL_same; reflexivity.
Qed.

Ltac peel :=
  match goal with
  | |- FL ?o ?o => apply FL_refl
  | |- FL _ (o_gauges _ _ _ _ _) => eapply FL_trans; [|apply FL_ogauges]
  | |- FL _ (chk10 _ _) => eapply FL_trans; [|apply FL_chk10]
  | |- FL _ (chk12a _ _) => eapply FL_trans; [|apply FL_chk12a]
  | |- FL _ (chk08 _ _) => eapply FL_trans; [|apply FL_chk08]
  | |- FL _ (mark_bad _) => eapply FL_trans; [|apply FL_mark_bad]
  | |- FL _ (hyp_stop _ _) => eapply FL_trans; [|apply FL_hyp_stop]
  | |- FL _ (o_result _ _) => eapply FL_trans; [|apply FL_oresult]
  | |- FL _ (o_calls _ _ _) => unfold o_calls
  | |- FL _ (fold_left (o_call _) _ _) => eapply FL_trans; [|apply FL_ocalls]
  | |- FL _ (fold_left o_hevent _ _) => eapply FL_trans; [|apply FL_ohevents]
  | |- FL _ (guard_dropped _ _ _) => eapply FL_trans; [|apply FL_guard_dropped]
  | |- FL _ (start_poll _) => apply FL_same; reflexivity
  | |- FL _ (mko _ _ _ _ _ _ _ _ _ _ _ _ _) => apply FL_same; reflexivity
  | |- FL _ (if ?b then _ else _) => destruct b
  | |- FL _ (match ?x with _ => _ end) => destruct x
  end.

Lemma FL_ostep : forall {C : Type} lim o (p : op C) l, FL o (ostep lim o p l).
Proof.
  intros C lim o p l. unfold ostep. destruct (negb (h_stop (o_v o))); [apply FL_refl|].
  destruct (split_gauges l) as [body g].
  destruct p; destruct g as [[a b]|].
  1,2: destruct (o_dropped o); [destruct body|destruct (c_err (o_v o));
         [|destruct body as [|e1 t]; [|destruct e1; destruct t as [|e2 [|e3 r]]]]].
  all: cbv beta iota zeta; repeat peel.
Qed.
