(* Server proofs, group A, part 1 (A1): the hypothesis-dependent invariant TopH of ServerProofsPA0.v
   is preserved by the non-poll ops OCtl, OAdvance, ODropChannel, ODropHandler, ODropYielded
   (OHandlerPoll is in ServerProofsPA3.v, OPoll in ServerProofsPA0/PA2).  Each lemma has the shape
     Top o s -> hb_ok s -> TopH o s -> step tp ctl tfuel c s p = (s', l) ->
     TopH (ostep (cfg_limit c) o p l) s'. *)
From Coq Require Import List Bool Arith NArith Lia.
Import ListNotations.
From TarpcV Require Import Base Transport TimerWheel Server ServerMon ServerFuel ServerContract
     ServerSim ServerSim2 ServerSim3 ServerSim4 ServerSim5 ServerSim6 ServerSim7 ServerProofsPA0.

(* ---- the tail of every non-poll op (gauges) leaves everything TopH reads alone ---------------- *)
Lemma otail_H : forall o1 g,
  o_incs (otail o1 g) = o_incs o1 /\ h_stop (o_v (otail o1 g)) = h_stop (o_v o1)
  /\ h_b1 (o_v (otail o1 g)) = h_b1 (o_v o1) /\ c_err (o_v (otail o1 g)) = c_err (o_v o1)
  /\ v08 (o_v (otail o1 g)) = v08 (o_v o1) /\ v04 (o_v (otail o1 g)) = v04 (o_v o1).
Proof.
  intros o1 g. unfold otail. destruct g as [[a b]|].
  - destruct (o_dropped o1); [unfold mark_bad; oproj; rewrite ?andb_true_r, ?orb_false_r; repeat split; reflexivity|].
    destruct (c_err (o_v o1)) eqn:EC; [repeat split; auto|].
    match goal with |- context [o_gauges ?x ?y ?z a b] =>
      destruct (o_gauges_proj x y z a b) as (G1 & _ & _ & _ & _ & G6 & G7 & _);
      destruct (o_gauges_flags x y z a b) as (F1 & F2 & F3) end.
    cbv zeta in *. rewrite G1, G6, G7, F1, F2, F3. oproj. rewrite ?andb_true_r. repeat split; auto.
  - destruct (o_dropped o1); [repeat split; reflexivity|].
    unfold mark_bad; oproj; rewrite ?andb_true_r, ?orb_false_r; repeat split; reflexivity.
Qed.

Lemma guard_dropped_v : forall k need o, o_v (guard_dropped k need o) = o_v o.
Proof.
  intros k need o. unfold guard_dropped. destruct (nth_error (o_incs o) k); [|reflexivity].
  repeat match goal with |- context [if ?b then _ else _] => destruct b end; reflexivity.
Qed.

Lemma lastk_upd_nth : forall (f : oinc -> oinc) j l k id,
  (forall i, oi_id (f i) = oi_id i) -> lastk l k id -> lastk (upd_nth j f l) k id.
Proof.
  intros f j l k id Hf L k' oi' Hlt Hk'. destruct (Nat.eq_dec j k') as [<-|Hne].
  - destruct (nth_error l j) as [y|] eqn:E.
    + rewrite (upd_nth_same f j l y E) in Hk'. inversion Hk'; subst. rewrite Hf. exact (L j y Hlt E).
    + exfalso. assert (Hlen : length (upd_nth j f l) = length l).
      { clear. revert j; induction l as [|x r IH]; intros [|j]; cbn; auto. }
      assert (nth_error (upd_nth j f l) j <> None) by congruence.
      apply nth_error_Some in H. rewrite Hlen in H. apply nth_error_None in E. lia.
  - rewrite (upd_nth_other f j k' l Hne) in Hk'. exact (L k' oi' Hlt Hk').
Qed.

Section PA1.
  Context {T C : Type}.
  Variable tp : transport T response cmsg.
  Variable ctl : T -> C -> T.
  Variable tfuel : T -> nat.
  Variable c : cfg.
  Notation st := (@sstate T).
  Notation lim := (cfg_limit c).

  (* TopH only reads the incarnation table and six flags of the observer *)
  Lemma TopH_obs : forall o o' (s : st),
    o_incs o' = o_incs o -> h_stop (o_v o') = h_stop (o_v o) -> h_b1 (o_v o') = h_b1 (o_v o) ->
    c_err (o_v o') = c_err (o_v o) -> v08 (o_v o') = v08 (o_v o) -> v04 (o_v o') = v04 (o_v o) ->
    TopH o s -> TopH o' s.
  Proof.
    intros o o' s E1 E2 E3 E4 E5 E6 H Hs Hb. rewrite E2 in Hs. rewrite E3 in Hb.
    destruct (H Hs Hb) as (A & B & D & E & F).
    split; [exact A|]. split; [unfold OpenTrk; rewrite E1; exact B|]. split; [congruence|]. split; [congruence|].
    intros Hc. rewrite E4 in Hc. eapply InvH_frame; [exact (F Hc)|exact E1|reflexivity..].
  Qed.

  Lemma TopH_tail : forall o1 (s1 : st) g, TopH o1 s1 -> TopH (otail o1 g) s1.
  Proof.
    intros o1 s1 g H. destruct (otail_H o1 g) as (A & B & D & E & F & G).
    eapply TopH_obs; eauto.
  Qed.

  Lemma ostep_nostop : forall (p : op C) o l (s' : st), h_stop (o_v o) = false -> TopH (ostep lim o p l) s'.
  Proof. intros p o l s' H. unfold ostep. rewrite H. cbn [negb]. intros Hs. congruence. Qed.

  (* ---- OCtl ----------------------------------------------------------------------------------- *)
  Lemma topH_ctl : forall o (s : st) x s' l,
    Top o s -> hb_ok s -> TopH o s -> step tp ctl tfuel c s (OCtl x) = (s', l) ->
    TopH (ostep lim o (OCtl x) l) s'.
  Proof.
    intros o s x s' l HT Hhb HH H. unfold step in H. injection H as <- <-.
    destruct (h_stop (o_v o)) eqn:EH; [|apply ostep_nostop; exact EH].
    rewrite (ostep_nonpoll c (OCtl x) o _ EH I). cbn [app]. rewrite fst_split_nil'.
    apply TopH_tail. intros Hs Hb. destruct (HH Hs Hb) as (A & B & D & V4 & F).
    split; [exact A|]. split; [exact B|]. split; [exact D|]. split; [exact V4|].
    intros Hc. eapply InvH_frame; [exact (F Hc)|reflexivity..].
  Qed.

  (* ---- OAdvance ------------------------------------------------------------------------------- *)
  Lemma topH_advance : forall o (s : st) dt s' l,
    Top o s -> hb_ok s -> TopH o s -> step tp ctl tfuel c s (OAdvance dt) = (s', l) ->
    TopH (ostep lim o (@OAdvance C dt) l) s'.
  Proof.
    intros o s dt s' l HT Hhb HH H. unfold step in H. injection H as <- <-.
    destruct (h_stop (o_v o)) eqn:EH; [|apply ostep_nostop; exact EH].
    rewrite (ostep_nonpoll c (@OAdvance C dt) o _ EH I).
    apply TopH_tail. oproj. intros Hs Hb. destruct (HH Hs Hb) as (A & B & D & V4 & F).
    set (f := fun i => match oi_wire i with
                       | WOpen => if N.leb (oi_when i) (o_now o + dt) then set_wire i WMaybe else i
                       | _ => i end).
    assert (Hf1 : forall i, oi_id (f i) = oi_id i /\ oi_done (f i) = oi_done i).
    { intros i. unfold f. destruct (oi_wire i); try (split; reflexivity). destruct (N.leb _ _); split; reflexivity. }
    assert (Hf2 : forall i, oi_wire (f i) = WOpen -> oi_wire i = WOpen).
    { intros i. unfold f. destruct (oi_wire i) eqn:E; cbn; rewrite ?E; auto. }
    assert (Hf3 : forall i, is_open (oi_wire (f i)) = true -> is_open (oi_wire i) = true).
    { intros i. unfold f. destruct (oi_wire i) eqn:E; cbn; rewrite ?E; auto. }
    assert (Hf4 : forall i, oi_wire (f i) = WAnswered -> oi_wire i = WAnswered).
    { intros i. unfold f. destruct (oi_wire i) eqn:E; cbn; rewrite ?E; auto.
      destruct (N.leb _ _); cbn; rewrite ?E; discriminate. }
    split; [exact A|]. split; [|split; [exact D|split; [exact V4|]]].
    - intros k oi Hk Ho. cbn [o_incs] in Hk. unfold age in Hk. fold f in Hk. rewrite nth_error_map in Hk.
      destruct (nth_error (o_incs o) k) as [y|] eqn:Ey; cbn in Hk; [|discriminate]. inversion Hk; subst oi.
      destruct (B k y Ey (Hf2 y Ho)) as (hr & e & X1 & X2 & X3). exists hr, e. auto.
    - intros Hc. eapply (InvH_map o _ s _ f (F Hc)); auto.
  Qed.

  (* ---- ODropChannel --------------------------------------------------------------------------- *)
  Lemma topH_drop_channel : forall o (s : st) s' l,
    Top o s -> hb_ok s -> TopH o s -> step tp ctl tfuel c s ODropChannel = (s', l) ->
    TopH (ostep lim o (@ODropChannel C) l) s'.
  Proof.
    intros o s s' l HT Hhb HH H. unfold step in H. injection H as <- <-.
    destruct (h_stop (o_v o)) eqn:EH; [|apply ostep_nostop; exact EH].
    rewrite (ostep_nonpoll c (@ODropChannel C) o _ EH I).
    apply TopH_tail. oproj. intros Hs Hb. destruct (HH Hs Hb) as (A & B & D & V4 & F).
    assert (Eh : s_handlers (drop_channel s) = s_handlers s)
      by (unfold drop_channel; destruct (s_dropped s); reflexivity).
    assert (Ei : s_inflight (drop_channel s) = s_inflight s)
      by (unfold drop_channel; destruct (s_dropped s); reflexivity).
    assert (Eq : s_respq (drop_channel s) = s_respq s)
      by (unfold drop_channel; destruct (s_dropped s); reflexivity).
    assert (Ec : s_cancels (drop_channel s) = s_cancels s)
      by (unfold drop_channel; destruct (s_dropped s); reflexivity).
    assert (Ea : forall h, In h (s_aborted s) -> In h (s_aborted (drop_channel s))).
    { intros h Hh. unfold drop_channel. destruct (s_dropped s); [exact Hh|]. sproj.
      apply in_or_app. right. exact Hh. }
    assert (Htrk : forall k, trk s k -> trk (drop_channel s) k).
    { intros k (hr & e & X1 & X2 & X3). exists hr, e. rewrite Eh, Ei. auto. }
    assert (Hsafe : Safe (drop_channel s)).
    { intros k hr Hk. rewrite Eh in Hk. destruct (A k hr Hk) as [X|[X|X]]; auto. }
    split; [exact Hsafe|]. split; [intros k oi Hk Ho; apply Htrk; exact (B k oi Hk Ho)|].
    split; [exact D|]. split; [exact V4|]. intros Hc. destruct (F Hc) as [H1 H2 H3 H4 H5 H6 H7].
    constructor; cbn [o_incs]; rewrite ?Eh, ?Eq, ?Ec; auto.
    intros k oi Hk Ho. apply Htrk. exact (H1 k oi Hk Ho).
  Qed.

  (* ---- ODropHandler / ODropYielded --------------------------------------------------------------- *)
  Lemma map_hh_nth : forall (s s1 : st) j hr,
    map h_h (s_handlers s1) = map h_h (s_handlers s) -> nth_error (s_handlers s) j = Some hr ->
    exists hr', nth_error (s_handlers s1) j = Some hr' /\ h_h hr' = h_h hr.
  Proof.
    intros s s1 j hr Hm Hj. pose proof (f_equal (fun l => nth_error l j) Hm) as E. cbn beta in E.
    rewrite !nth_error_map, Hj in E. cbn in E.
    destruct (nth_error (s_handlers s1) j) as [hr'|]; cbn in E; [|discriminate].
    exists hr'. split; [reflexivity|congruence].
  Qed.
  Lemma map_hh_nth_back : forall (s s1 : st) j hr',
    map h_h (s_handlers s1) = map h_h (s_handlers s) -> nth_error (s_handlers s1) j = Some hr' ->
    exists hr, nth_error (s_handlers s) j = Some hr /\ h_h hr' = h_h hr.
  Proof.
    intros s s1 j hr' Hm Hj. pose proof (f_equal (fun l => nth_error l j) Hm) as E. cbn beta in E.
    rewrite !nth_error_map, Hj in E. cbn in E.
    destruct (nth_error (s_handlers s) j) as [hr|]; cbn in E; [|discriminate].
    exists hr. split; [reflexivity|congruence].
  Qed.

  Lemma gdrop_facts : forall d i,
    oi_id (gdrop d i) = oi_id i /\ oi_done (gdrop d i) = oi_done i
    /\ is_open (oi_wire (gdrop d i)) = is_open (oi_wire i)
    /\ (oi_wire (gdrop d i) = WOpen -> oi_wire i = WOpen /\ d = true)
    /\ (oi_wire (gdrop d i) = WAnswered -> oi_wire i = WAnswered).
  Proof.
    intros d i. unfold gdrop. destruct d; cbn; [repeat split; auto|].
    destruct (oi_wire i) eqn:E; cbn; rewrite ?E; repeat split; auto; discriminate.
  Qed.

  Lemma topH_drop_case : forall o (s s1 : st) k need hr,
    InvU o s -> TopH o s ->
    nth_error (s_handlers s) k = Some hr ->
    (match need with
     | PStarted => match h_st hr with HRunning | HWait _ | HPermit _ => True | _ => False end
     | _ => h_st hr = HYielded end) ->
    need = PStarted \/ need = PFresh ->
    hshape k hr HGone s s1 ->
    s_cancels s1 = (if s_dropped s then s_cancels s else s_cancels s ++ [h_id hr]) ->
    s_inflight s1 = s_inflight s -> s_aborted s1 = s_aborted s -> s_respq s1 = s_respq s ->
    TopH (guard_dropped k need o) s1.
  Proof.
    intros o s s1 k need hr HI HH Hk Hst Hneed (Hm & Hshape) Hcan Hi Hab Hq.
    assert (Hoi : exists oi, nth_error (o_incs o) k = Some oi).
    { assert (k < length (o_incs o)) by (rewrite (u_len _ _ HI); apply nth_error_Some; congruence).
      apply nth_error_Some in H. destruct (nth_error (o_incs o) k); [eauto|congruence]. }
    destruct Hoi as (oi & Hoi).
    destruct (u_hand _ _ HI k hr oi Hk Hoi) as (Hidk & Hph & _).
    assert (Hun : unsent (h_st hr)).
    { destruct Hneed as [-> | ->]; destruct (h_st hr); cbn in *; try contradiction; try discriminate; exact I. }
    assert (Hsame : (match oi_ph oi, need with PFresh, PFresh | PStarted, PStarted => true | _, _ => false end) = true).
    { destruct Hneed as [-> | ->]; destruct (h_st hr); cbn in Hst; try contradiction; try discriminate;
        destruct (oi_ph oi); cbn in Hph; try contradiction; reflexivity. }
    destruct (guard_dropped_proj k need o oi Hoi Hsame) as (G1 & _ & _ & _ & _ & _ & G7 & G8). cbv zeta in *.
    pose proof (guard_dropped_v k need o) as Gv.
    set (d := o_dropped o) in *.
    assert (Hd : d = s_dropped s) by exact (u_dropped _ _ HI).
    (* the incarnation table after the drop *)
    assert (Hnth : forall j x, nth_error (upd_nth k (gdrop d) (o_incs o)) j = Some x ->
              (j = k /\ x = gdrop d oi) \/ (j <> k /\ nth_error (o_incs o) j = Some x)).
    { intros j x Hx. destruct (Nat.eq_dec k j) as [<-|Hne].
      - rewrite (upd_nth_same _ _ _ _ Hoi) in Hx. inversion Hx. auto.
      - rewrite (upd_nth_other _ _ _ _ Hne) in Hx. right. split; [congruence|exact Hx]. }
    assert (Hlast : forall j id, lastk (o_incs o) j id -> lastk (upd_nth k (gdrop d) (o_incs o)) j id).
    { intros j id L. apply lastk_upd_nth; [intros i; apply gdrop_facts|exact L]. }
    (* the handler table after the drop *)
    assert (Htrk : forall j, trk s j -> trk s1 j).
    { intros j (hrj & e & X1 & X2 & X3). destruct (map_hh_nth s s1 j hrj Hm X1) as (hr' & Y1 & Y2).
      exists hr', e. rewrite Hi. repeat split; auto. congruence. }
    assert (Hother : forall j hrj, j <> k -> nth_error (s_handlers s) j = Some hrj ->
              exists hr', nth_error (s_handlers s1) j = Some hr' /\ h_h hr' = h_h hrj
                /\ (h_st hr' = h_st hrj \/ exists b, h_st hrj = HWait b /\ h_st hr' = HPermit b)).
    { intros j hrj Hne Hj. destruct (map_hh_nth s s1 j hrj Hm Hj) as (hr' & Y1 & Y2).
      exists hr'. split; [exact Y1|split; [exact Y2|]].
      destruct (Hshape j hr' Y1) as [(-> & _)|(_ & hr0 & Z1 & _ & Z3)]; [congruence|].
      rewrite Hj in Z1. inversion Z1; subst hr0. exact Z3. }
    assert (Hsafe : Safe s -> Safe s1).
    { intros A j hr' Hj. destruct (Hshape j hr' Hj) as [(-> & _ & Z)|(Hne & hr0 & Z1 & _ & Z3)].
      - right; right. rewrite Z. exact I.
      - destruct (map_hh_nth_back s s1 j hr' Hm Hj) as (hr0' & W1 & W2). rewrite Z1 in W1. inversion W1; subst hr0'.
        destruct (A j hr0 Z1) as [X|[X|X]].
        + left. apply Htrk, X.
        + right; left. rewrite Hab, W2. exact X.
        + right; right. destruct Z3 as [Z3|(b & Z3 & _)]; [rewrite Z3; exact X|rewrite Z3 in X; destruct X]. }
    assert (Hopen : OpenTrk o s -> OpenTrk (guard_dropped k need o) s1).
    { intros B j x Hx Hw. rewrite G1 in Hx. apply Htrk. destruct (Hnth j x Hx) as [(-> & ->)|(_ & Hx')].
      - destruct (gdrop_facts d oi) as (_ & _ & _ & F4 & _). apply (B k oi Hoi). apply F4, Hw.
      - exact (B j x Hx' Hw). }
    intros Hs Hb. rewrite Gv in Hs, Hb. destruct (HH Hs Hb) as (A & B & D & V4 & F).
    split; [exact (Hsafe A)|]. split; [exact (Hopen B)|]. rewrite Gv. split; [exact D|]. split; [exact V4|].
    intros Hc. destruct (F Hc) as [H1 H2 H3 H4 H5 H6 H7].
    constructor; rewrite ?G1, ?Hq.
    - intros j x Hx Hw. apply Htrk. destruct (Hnth j x Hx) as [(-> & ->)|(_ & Hx')].
      + destruct (gdrop_facts d oi) as (_ & _ & _ & F4 & _). apply (H1 k oi Hoi). apply F4, Hw.
      + exact (H1 j x Hx' Hw).
    - intros j x Hx Hw. destruct (Hnth j x Hx) as [(-> & ->)|(_ & Hx')].
      + destruct (gdrop_facts d oi) as (F1 & _ & F3 & _). rewrite F1. apply Hlast. apply (H2 k oi Hoi). congruence.
      + apply Hlast. exact (H2 j x Hx' Hw).
    - intros j hr' x Hj Hx Hu. destruct (Hshape j hr' Hj) as [(-> & _ & Z)|(Hne & hr0 & Z1 & _ & Z3)].
      + rewrite Z in Hu. destruct Hu.
      + destruct (Hnth j x Hx) as [(-> & _)|(_ & Hx')]; [congruence|].
        assert (Hu0 : unsent (h_st hr0)).
        { destruct Z3 as [Z3|(b & Z3 & _)]; [rewrite <- Z3; exact Hu|rewrite Z3; exact I]. }
        destruct (H3 j hr0 x Z1 Hx' Hu0) as (L & W & Q). split; [apply Hlast, L|auto].
    - exact H4.
    - intros m Hm'. destruct (H5 m Hm') as (k' & hr' & oi' & X1 & X2 & X3 & X4 & X5 & X6 & X7).
      assert (Hne : k' <> k).
      { intros ->. rewrite Hk in X1. inversion X1; subst hr'. rewrite X5 in Hun. exact Hun. }
      destruct (Hother k' hr' Hne X1) as (hr'' & Y1 & _ & Y3).
      exists k', hr'', oi'. rewrite (upd_nth_other _ _ _ _ (not_eq_sym Hne)). repeat split; auto.
      destruct Y3 as [Y3|(b & Y3 & _)]; congruence.
    - intros id Hid. rewrite Hcan in Hid.
      assert (Hold : In id (s_cancels s) ->
                exists k' hr' oi', nth_error (s_handlers s1) k' = Some hr'
                  /\ nth_error (upd_nth k (gdrop d) (o_incs o)) k' = Some oi' /\ oi_id oi' = id
                  /\ lastk (upd_nth k (gdrop d) (o_incs o)) k' id /\ h_st hr' = HGone
                  /\ oi_wire oi' <> WOpen /\ oi_wire oi' <> WAnswered).
      { intros Hin. destruct (H6 id Hin) as (k' & hr' & oi' & X1 & X2 & X3 & X4 & X5 & X6 & X7).
        assert (Hne : k' <> k).
        { intros ->. rewrite Hk in X1. inversion X1; subst hr'. rewrite X5 in Hun. exact Hun. }
        destruct (Hother k' hr' Hne X1) as (hr'' & Y1 & _ & Y3).
        exists k', hr'', oi'. rewrite (upd_nth_other _ _ _ _ (not_eq_sym Hne)). repeat split; auto.
        destruct Y3 as [Y3|(b & Y3 & _)]; congruence. }
      destruct (s_dropped s) eqn:ED; [exact (Hold Hid)|].
      apply in_app_or in Hid. destruct Hid as [Hid|[<-|[]]]; [exact (Hold Hid)|].
      destruct (map_hh_nth s s1 k hr Hm Hk) as (hr'' & Y1 & _).
      destruct (Hshape k hr'' Y1) as [(_ & _ & Z)|(Hne & _)]; [|congruence].
      destruct (H3 k hr oi Hk Hoi Hun) as (L & W & _).
      destruct (gdrop_facts d oi) as (F1 & _ & _ & F4 & F5).
      exists k, hr'', (gdrop d oi). rewrite (upd_nth_same _ _ _ _ Hoi), F1. repeat split; auto;
        first [apply Hlast; rewrite <- Hidk; exact L
              |intros Hw; destruct (F4 Hw) as (_ & Hdt); congruence
              |intros Hw; apply W, F5, Hw].
    - exact (Hsafe H7).
  Qed.

  (* the drop does nothing: neither the model nor the observer moves *)
  Lemma gd_noop : forall o (s : st) k need,
    InvU o s -> need = PStarted \/ need = PFresh ->
    (forall hr, nth_error (s_handlers s) k = Some hr ->
       match need with
       | PStarted => match h_st hr with HRunning | HWait _ | HPermit _ => False | _ => True end
       | _ => h_st hr <> HYielded end) ->
    guard_dropped k need o = o.
  Proof.
    intros o s k need HI Hneed Hno.
    unfold guard_dropped. destruct (nth_error (o_incs o) k) as [oi|] eqn:Hoi; [|reflexivity].
    assert (Hlt : k < length (s_handlers s)) by (rewrite <- (u_len _ _ HI); apply nth_error_Some; congruence).
    apply nth_error_Some in Hlt. destruct (nth_error (s_handlers s) k) as [hr|] eqn:Hk; [|congruence].
    destruct (u_hand _ _ HI k hr oi Hk Hoi) as (_ & Hph & _). specialize (Hno hr eq_refl).
    assert (Hs : (match oi_ph oi, need with PFresh, PFresh | PStarted, PStarted => true | _, _ => false end) = false).
    { destruct Hneed as [-> | ->]; destruct (h_st hr); cbn in *; try contradiction; try congruence;
        destruct (oi_ph oi); cbn in *; try contradiction; reflexivity. }
    rewrite Hs. reflexivity.
  Qed.

  Lemma fst_split_body : forall body (s1 : st),
    forallb plain body = true -> fst (split_gauges (body ++ gauges s1)) = body.
  Proof.
    intros body s1 Hpl. destruct (s_dropped s1) eqn:ED.
    - unfold gauges. rewrite ED, app_nil_r, (split_gauges_plain _ Hpl). reflexivity.
    - rewrite (split_gauges_app body s1 ED). reflexivity.
  Qed.

  Lemma topH_drop_handler : forall o (s : st) k s' l,
    Top o s -> hb_ok s -> TopH o s -> step tp ctl tfuel c s (ODropHandler k) = (s', l) ->
    TopH (ostep lim o (@ODropHandler C k) l) s'.
  Proof.
    intros o s k s' l HT Hhb HH H. unfold step in H.
    destruct (drop_handler k s) as [s1 body] eqn:EE. injection H as <- <-.
    destruct (h_stop (o_v o)) eqn:EH; [|apply ostep_nostop; exact EH].
    destruct (HT EH) as (HI & _).
    rewrite (ostep_nonpoll c (@ODropHandler C k) o _ EH I).
    assert (Hbody : body = [] \/ body = [OHDropped k]).
    { unfold drop_handler in EE. destruct (nth_error (s_handlers s) k) as [hr|]; [|injection EE as _ <-; auto].
      destruct (h_st hr); injection EE as _ <-; auto. }
    assert (Hpl : forallb plain body = true) by (destruct Hbody as [->| ->]; reflexivity).
    rewrite (fst_split_body body s1 Hpl).
    assert (Hfold : fold_left o_hevent body o = o) by (destruct Hbody as [->| ->]; reflexivity).
    rewrite Hfold. apply TopH_tail.
    unfold drop_handler in EE.
    destruct (nth_error (s_handlers s) k) as [hr|] eqn:Hk.
    2: { injection EE as <- _. rewrite (gd_noop o s k PStarted HI (or_introl eq_refl)); [exact HH|].
         intros hr Hhr. congruence. }
    destruct (add_permit_shape s) as (P1 & P2 & P3 & P4 & P5 & P6 & P7 & P8 & P9 & P10 & P11 & P12 & P13).
    cbv zeta in *.
    assert (Hnoop : match h_st hr with HRunning | HWait _ | HPermit _ => False | _ => True end ->
              s1 = s -> TopH (guard_dropped k PStarted o) s1).
    { intros Hn ->. rewrite (gd_noop o s k PStarted HI (or_introl eq_refl)); [exact HH|].
      intros hr0 Hhr0. rewrite Hk in Hhr0. inversion Hhr0; subst hr0. exact Hn. }
    unfold guard_cancel in EE.
    destruct (h_st hr) eqn:Est; try (injection EE as <- _; apply Hnoop; auto; fail).
    - (* HRunning *)
      injection EE as <- _.
      apply (topH_drop_case o s _ k PStarted hr HI HH Hk); try (rewrite Est; exact I); auto.
      + destruct (s_dropped s); eapply (hshape_set s s); eauto using hrel_refl.
      + destruct (s_dropped s); reflexivity.
      + destruct (s_dropped s); reflexivity.
      + destruct (s_dropped s); reflexivity.
      + destruct (s_dropped s); reflexivity.
    - (* HWait *)
      injection EE as <- _.
      apply (topH_drop_case o s _ k PStarted hr HI HH Hk); try (rewrite Est; exact I); auto.
      + destruct (s_dropped s); eapply (hshape_set s s); eauto using hrel_refl.
      + destruct (s_dropped s); reflexivity.
      + destruct (s_dropped s); reflexivity.
      + destruct (s_dropped s); reflexivity.
      + destruct (s_dropped s); reflexivity.
    - (* HPermit *)
      injection EE as <- _.
      apply (topH_drop_case o s _ k PStarted hr HI HH Hk); try (rewrite Est; exact I); auto.
      + destruct (s_dropped (add_permit s)); eapply (hshape_set s (add_permit s)); eauto.
      + rewrite P9. destruct (s_dropped s); sproj; rewrite ?P7; reflexivity.
      + rewrite P9. destruct (s_dropped s); sproj; rewrite ?P4; reflexivity.
      + rewrite P9. destruct (s_dropped s); sproj; rewrite ?P6; reflexivity.
      + rewrite P9. destruct (s_dropped s); sproj; rewrite ?P11; reflexivity.
  Qed.

  Lemma topH_drop_yielded : forall o (s : st) k s' l,
    Top o s -> hb_ok s -> TopH o s -> step tp ctl tfuel c s (ODropYielded k) = (s', l) ->
    TopH (ostep lim o (@ODropYielded C k) l) s'.
  Proof.
    intros o s k s' l HT Hhb HH H. unfold step in H.
    destruct (drop_yielded k s) as [s1 body] eqn:EE. injection H as <- <-.
    destruct (h_stop (o_v o)) eqn:EH; [|apply ostep_nostop; exact EH].
    destruct (HT EH) as (HI & _).
    rewrite (ostep_nonpoll c (@ODropYielded C k) o _ EH I).
    assert (Hbody : body = []).
    { unfold drop_yielded in EE. destruct (nth_error (s_handlers s) k) as [[h i stt]|]; [|injection EE as _ <-; auto].
      destruct stt; injection EE as _ <-; auto. }
    subst body. cbn [app]. rewrite fst_split_nil'. cbn [fold_left]. apply TopH_tail.
    unfold drop_yielded in EE.
    destruct (nth_error (s_handlers s) k) as [[h i stt]|] eqn:Hk.
    2: { injection EE as <-. rewrite (gd_noop o s k PFresh HI (or_intror eq_refl)); [exact HH|].
         intros hr Hhr. congruence. }
    assert (Hnoop : stt <> HYielded -> s1 = s -> TopH (guard_dropped k PFresh o) s1).
    { intros Hn ->. rewrite (gd_noop o s k PFresh HI (or_intror eq_refl)); [exact HH|].
      intros hr0 Hhr0. rewrite Hk in Hhr0. inversion Hhr0; subst hr0. exact Hn. }
    destruct stt; try (injection EE as <-; apply Hnoop; auto; discriminate).
    unfold guard_cancel in EE. injection EE as <-.
    apply (topH_drop_case o s _ k PFresh _ HI HH Hk); auto.
    - destruct (s_dropped s); eapply (hshape_set s s); eauto using hrel_refl.
    - destruct (s_dropped s); reflexivity.
    - destruct (s_dropped s); reflexivity.
    - destruct (s_dropped s); reflexivity.
    - destruct (s_dropped s); reflexivity.
  Qed.
End PA1.

Print Assumptions topH_ctl.
Print Assumptions topH_advance.
Print Assumptions topH_drop_channel.
Print Assumptions topH_drop_handler.
Print Assumptions topH_drop_yielded.
