(* Client proofs, group G1, part 1: frame lemmas (which fields each function of the dispatch
   poll leaves alone).  Used by ClientProofsG1.v; general enough for the other groups. *)
From Coq Require Import List Bool Arith NArith Lia ZifyBool ZifyNat ZifyN.
Import ListNotations.
From TarpcV Require Import Base Transport Client ClientS ClientMon ClientSpec ClientLemmas.

Arguments N.modulo : simpl never.
Arguments N.add : simpl never.
Arguments N.min : simpl never.
Arguments N.sub : simpl never.

(* ================================================================== frames *)
Section Frames.
  Context {T : Type}.
  Variable tp : transport T cmsg resp.
  Notation cstate := (@cstate T).
  Implicit Types s : cstate.

  (* fields no function called by a dispatch poll ever changes (terminal excepted: only
     poll_dispatch itself sets it) *)
  Record PFrame s s' : Prop := {
    pf_nid : next_id s' = next_id s;
    pf_handles : handles s' = handles s;
    pf_qcap : q_cap s' = q_cap s;
    pf_maxif : max_if s' = max_if s;
    pf_terminal : terminal s' = terminal s;
    pf_finished : finished s' = finished s;
    pf_dropped : dropped s' = dropped s;
    pf_now : now s' = now s }.

  (* internal functions: the transport and its log are untouched *)
  Record IFrame s s' : Prop := {
    if_p : PFrame s s';
    if_tr : tr s' = tr s;
    if_fused : fused s' = fused s;
    if_plog : plog s' = plog s }.

  (* functions on the in-flight tables and the oneshot slots only *)
  Record TFrame s s' : Prop := {
    tf_i : IFrame s s';
    tf_calls : calls s' = calls s;
    tf_queue : queue s' = queue s;
    tf_cancels : cancels s' = cancels s;
    tf_permits : permits s' = permits s;
    tf_waiters : waiters s' = waiters s;
    tf_rxc : rx_closed s' = rx_closed s }.

  (* transport wrappers: only tr, fused, plog change *)
  Record XFrame s s' : Prop := {
    xf_p : PFrame s s';
    xf_calls : calls s' = calls s;
    xf_queue : queue s' = queue s;
    xf_cancels : cancels s' = cancels s;
    xf_permits : permits s' = permits s;
    xf_waiters : waiters s' = waiters s;
    xf_rxc : rx_closed s' = rx_closed s;
    xf_inflight : inflight s' = inflight s;
    xf_timers : timers s' = timers s;
    xf_slots : slots s' = slots s }.

  Lemma PFrame_refl s : PFrame s s.
  Proof. constructor; reflexivity. Qed.
  Lemma PFrame_trans s1 s2 s3 : PFrame s1 s2 -> PFrame s2 s3 -> PFrame s1 s3.
  Proof. intros [] []; constructor; congruence. Qed.
  Lemma IFrame_refl s : IFrame s s.
  Proof. constructor; [apply PFrame_refl|reflexivity..]. Qed.
  Lemma IFrame_trans s1 s2 s3 : IFrame s1 s2 -> IFrame s2 s3 -> IFrame s1 s3.
  Proof. intros [] []; constructor; [eapply PFrame_trans; eassumption|congruence..]. Qed.
  Lemma TFrame_refl s : TFrame s s.
  Proof. constructor; [apply IFrame_refl|reflexivity..]. Qed.
  Lemma TFrame_trans s1 s2 s3 : TFrame s1 s2 -> TFrame s2 s3 -> TFrame s1 s3.
  Proof. intros [] []; constructor; [eapply IFrame_trans; eassumption|congruence..]. Qed.
  Lemma XFrame_refl s : XFrame s s.
  Proof. constructor; [apply PFrame_refl|reflexivity..]. Qed.
  Lemma XFrame_trans s1 s2 s3 : XFrame s1 s2 -> XFrame s2 s3 -> XFrame s1 s3.
  Proof. intros [] []; constructor; [eapply PFrame_trans; eassumption|congruence..]. Qed.
  Lemma IFrame_P s s' : IFrame s s' -> PFrame s s'.
  Proof. apply if_p. Qed.
  Lemma TFrame_I s s' : TFrame s s' -> IFrame s s'.
  Proof. apply tf_i. Qed.
  Lemma TFrame_P s s' : TFrame s s' -> PFrame s s'.
  Proof. intro H. apply if_p, tf_i, H. Qed.
  Lemma XFrame_P s s' : XFrame s s' -> PFrame s s'.
  Proof. apply xf_p. Qed.

  Ltac tframe := repeat (constructor; try reflexivity).

  (* ---------------------------------------------------------------- primitive updaters *)
  Lemma TFrame_upd_slots s v : TFrame s (upd_slots s v).
  Proof. tframe. Qed.
  Lemma TFrame_upd_if s i t : TFrame s (upd_if s i t).
  Proof. tframe. Qed.
  Lemma XFrame_upd_tr s t f l : XFrame s (upd_tr s t f l).
  Proof. tframe. Qed.
  Lemma IFrame_upd_calls s v : IFrame s (upd_calls s v).
  Proof. tframe. Qed.
  Lemma IFrame_upd_q s p q w c : IFrame s (upd_q s p q w c).
  Proof. tframe. Qed.
  Lemma IFrame_upd_cancels s v : IFrame s (upd_cancels s v).
  Proof. tframe. Qed.

  Lemma TFrame_set_slot s id x : TFrame s (set_slot s id x).
  Proof. apply TFrame_upd_slots. Qed.
  Lemma TFrame_slot_send s id o : TFrame s (slot_send s id o).
  Proof. unfold slot_send. destruct (sl_rx_closed _); apply TFrame_set_slot. Qed.
  Lemma TFrame_slot_tx_drop s id : TFrame s (slot_tx_drop s id).
  Proof. apply TFrame_set_slot. Qed.
  Lemma TFrame_slot_rx_close s id : TFrame s (slot_rx_close s id).
  Proof. apply TFrame_set_slot. Qed.
  Lemma TFrame_insert_request s q : TFrame s (insert_request s q).
  Proof. apply TFrame_upd_if. Qed.
  Lemma TFrame_complete_request s id o : TFrame s (snd (complete_request s id o)).
  Proof.
    unfold complete_request. destruct (alookup id (inflight s)); cbn [snd]; [|apply TFrame_refl].
    eapply TFrame_trans; [apply TFrame_upd_if|apply TFrame_slot_send].
  Qed.
  Lemma TFrame_cancel_request s id : TFrame s (snd (cancel_request s id)).
  Proof.
    unfold cancel_request. destruct (alookup id (inflight s)); cbn [snd];
      [apply TFrame_upd_if|apply TFrame_refl].
  Qed.
  Lemma TFrame_fold_slot_send {A} (f : A -> N) o (l : list A) s :
    TFrame s (fold_left (fun acc p => slot_send acc (f p) o) l s).
  Proof.
    revert s; induction l as [|x r IH]; intro s; cbn [fold_left]; [apply TFrame_refl|].
    eapply TFrame_trans; [apply TFrame_slot_send|apply IH].
  Qed.
  Lemma TFrame_fold_slot_tx_drop {A} (f : A -> N) (l : list A) s :
    TFrame s (fold_left (fun acc p => slot_tx_drop acc (f p)) l s).
  Proof.
    revert s; induction l as [|x r IH]; intro s; cbn [fold_left]; [apply TFrame_refl|].
    eapply TFrame_trans; [apply TFrame_slot_tx_drop|apply IH].
  Qed.
  Lemma TFrame_complete_all s o : TFrame s (complete_all s o).
  Proof.
    unfold complete_all. eapply TFrame_trans; [apply (TFrame_upd_if s [] [])|].
    apply (TFrame_fold_slot_send (A := N * ifentry) fst).
  Qed.
  Lemma TFrame_poll_expired s : TFrame s (snd (poll_expired s)).
  Proof.
    unfold poll_expired. destruct (min_timer (timers s) None) as [[id w]|]; [|apply TFrame_refl].
    destruct (N.leb w (now s)); [|apply TFrame_refl].
    destruct (alookup id _); cbn [snd]; [|apply TFrame_upd_if].
    eapply TFrame_trans; [apply TFrame_upd_if|].
    eapply TFrame_trans; [apply TFrame_upd_if|apply TFrame_slot_send].
  Qed.
  Lemma TFrame_complete s r : TFrame s (complete s r).
  Proof. apply TFrame_complete_request. Qed.

  Lemma IFrame_set_phase s i p : IFrame s (set_phase s i p).
  Proof. unfold set_phase. destruct (nth_error _ _); [apply IFrame_upd_calls|apply IFrame_refl]. Qed.
  Lemma IFrame_release_permit s : IFrame s (release_permit s).
  Proof.
    unfold release_permit. destruct (waiters s); [apply IFrame_upd_q|].
    eapply IFrame_trans; [apply IFrame_upd_q|apply IFrame_set_phase].
  Qed.
  Lemma IFrame_q_poll_recv s : IFrame s (snd (q_poll_recv s)).
  Proof.
    unfold q_poll_recv. destruct (queue s).
    - destruct (Nat.eqb _ _); [apply IFrame_refl|]. destruct (_ && _); apply IFrame_refl.
    - cbn [snd]. eapply IFrame_trans; [apply IFrame_upd_q|apply IFrame_release_permit].
  Qed.
  Lemma IFrame_fold_set_phase p (l : list nat) s :
    IFrame s (fold_left (fun acc w => set_phase acc w p) l s).
  Proof.
    revert s; induction l as [|x r IH]; intro s; cbn [fold_left]; [apply IFrame_refl|].
    eapply IFrame_trans; [apply IFrame_set_phase|apply IH].
  Qed.
  Lemma IFrame_q_close s : IFrame s (q_close s).
  Proof.
    unfold q_close. destruct (rx_closed s); [apply IFrame_refl|].
    eapply IFrame_trans; [apply IFrame_fold_set_phase|apply IFrame_upd_q].
  Qed.
  Lemma IFrame_c_poll_recv s : IFrame s (snd (c_poll_recv s)).
  Proof.
    unfold c_poll_recv. destruct (cancels s); [destruct (Nat.eqb _ _); apply IFrame_refl|].
    apply IFrame_upd_cancels.
  Qed.
  Lemma IFrame_next_request_loop f s : IFrame s (snd (next_request_loop f s)).
  Proof.
    revert s; induction f as [|f IH]; intro s; cbn [next_request_loop]; [apply IFrame_refl|].
    pose proof (IFrame_q_poll_recv s) as H. destruct (q_poll_recv s) as [r s1]. cbn [snd] in H.
    destruct r as [q| |]; try exact H.
    destruct (sl_rx_closed _); [|exact H].
    eapply IFrame_trans; [exact H|]. eapply IFrame_trans; [|apply IH].
    apply TFrame_I, TFrame_slot_tx_drop.
  Qed.
  Lemma IFrame_next_cancel_loop f s : IFrame s (snd (next_cancel_loop f s)).
  Proof.
    revert s; induction f as [|f IH]; intro s; cbn [next_cancel_loop]; [apply IFrame_refl|].
    pose proof (IFrame_c_poll_recv s) as H. destruct (c_poll_recv s) as [r s1]. cbn [snd] in H.
    destruct r as [id| |]; try exact H.
    pose proof (TFrame_cancel_request s1 id) as H2.
    destruct (cancel_request s1 id) as [e s2]. cbn [snd] in H2. apply TFrame_I in H2.
    destruct e; [eapply IFrame_trans; eassumption|].
    eapply IFrame_trans; [exact H|]. eapply IFrame_trans; [exact H2|apply IH].
  Qed.
  Lemma IFrame_drain_loop f a s : IFrame s (snd (drain_loop f a s)).
  Proof.
    revert s; induction f as [|f IH]; intro s; cbn [drain_loop]; [apply IFrame_refl|].
    pose proof (IFrame_q_poll_recv s) as H. destruct (q_poll_recv s) as [r s1]. cbn [snd] in H.
    destruct r as [q| |]; try exact H.
    eapply IFrame_trans; [exact H|]. eapply IFrame_trans; [|apply IH].
    apply TFrame_I, TFrame_slot_send.
  Qed.
  Lemma IFrame_shut_down s a : IFrame s (snd (shut_down s a)).
  Proof.
    unfold shut_down. eapply IFrame_trans; [apply IFrame_q_close|].
    eapply IFrame_trans; [apply TFrame_I, TFrame_complete_all|apply IFrame_drain_loop].
  Qed.

  (* ---------------------------------------------------------------- transport wrappers *)
  Lemma do_ready_eq s r s' : do_ready tp s = (r, s') ->
    s' = upd_tr s (tr s') (fused s) (plog s ++ [CReady r]).
  Proof. unfold do_ready. destruct (t_ready tp (tr s)). intros [= <- <-]. reflexivity. Qed.
  Lemma do_send_eq s m r s' : do_send tp s m = (r, s') ->
    s' = upd_tr s (tr s') (fused s) (plog s ++ [CSend m r]).
  Proof. unfold do_send. destruct (t_send tp (tr s) m). intros [= <- <-]. reflexivity. Qed.
  Lemma do_flush_eq s r s' : do_flush tp s = (r, s') ->
    s' = upd_tr s (tr s') (fused s) (plog s ++ [CFlush r]).
  Proof. unfold do_flush. destruct (t_flush tp (tr s)). intros [= <- <-]. reflexivity. Qed.
  Lemma do_close_eq s r s' : do_close tp s = (r, s') ->
    s' = upd_tr s (tr s') (fused s) (plog s ++ [CClose r]).
  Proof. unfold do_close. destruct (t_close tp (tr s)). intros [= <- <-]. reflexivity. Qed.
  Lemma do_next_eq s r s' : do_next tp s = (r, s') ->
    (fused s = true /\ r = REof /\ s' = s) \/
    (fused s = false /\
     s' = upd_tr s (tr s') (match r with REof => true | _ => false end) (plog s ++ [CNext r])).
  Proof.
    unfold do_next. destruct (fused s); [intros [= <- <-]; left; auto|].
    destruct (t_next tp (tr s)). intros [= <- <-]. right. split; reflexivity.
  Qed.

  Lemma XFrame_do_ready s r s' : do_ready tp s = (r, s') -> XFrame s s'.
  Proof. intro H. apply do_ready_eq in H. rewrite H. apply XFrame_upd_tr. Qed.
  Lemma XFrame_do_send s m r s' : do_send tp s m = (r, s') -> XFrame s s'.
  Proof. intro H. apply do_send_eq in H. rewrite H. apply XFrame_upd_tr. Qed.
  Lemma XFrame_do_flush s r s' : do_flush tp s = (r, s') -> XFrame s s'.
  Proof. intro H. apply do_flush_eq in H. rewrite H. apply XFrame_upd_tr. Qed.
  Lemma XFrame_do_close s r s' : do_close tp s = (r, s') -> XFrame s s'.
  Proof. intro H. apply do_close_eq in H. rewrite H. apply XFrame_upd_tr. Qed.
  Lemma XFrame_do_next s r s' : do_next tp s = (r, s') -> XFrame s s'.
  Proof.
    intro H. apply do_next_eq in H. destruct H as [(_ & _ & ->)|(_ & H)]; [apply XFrame_refl|].
    rewrite H. apply XFrame_upd_tr.
  Qed.

  (* ---------------------------------------------------------------- composites *)
  Lemma XFrame_ensure_writeable s r s' : ensure_writeable tp s = (r, s') -> XFrame s s'.
  Proof.
    unfold ensure_writeable.
    destruct (do_ready tp s) as [r1 s1] eqn:E1. apply XFrame_do_ready in E1.
    destruct r1; try (intros [= <- <-]; exact E1).
    destruct (do_flush tp s1) as [r2 s2] eqn:E2. apply XFrame_do_flush in E2.
    pose proof (XFrame_trans _ _ _ E1 E2) as E12.
    destruct r2; try (intros [= <- <-]; exact E12).
    destruct (do_ready tp s2) as [r3 s3] eqn:E3. apply XFrame_do_ready in E3.
    pose proof (XFrame_trans _ _ _ E12 E3) as E13.
    destruct r3; intros [= <- <-]; exact E13.
  Qed.

  Lemma PFrame_next_request_loop f s r s' : next_request_loop f s = (r, s') -> PFrame s s'.
  Proof. intro H. pose proof (IFrame_next_request_loop f s) as F. rewrite H in F. apply F. Qed.
  Lemma PFrame_next_cancel_loop f s r s' : next_cancel_loop f s = (r, s') -> PFrame s s'.
  Proof. intro H. pose proof (IFrame_next_cancel_loop f s) as F. rewrite H in F. apply F. Qed.

  Lemma PFrame_poll_next_request s r s' : poll_next_request tp s = (r, s') -> PFrame s s'.
  Proof.
    unfold poll_next_request. destruct (Nat.leb _ _); [intros [= <- <-]; apply PFrame_refl|].
    destruct (ensure_writeable tp s) as [w s1] eqn:E1. apply XFrame_ensure_writeable, XFrame_P in E1.
    destruct w; try (intros [= <- <-]; exact E1).
    intro H. apply PFrame_next_request_loop in H. eapply PFrame_trans; eassumption.
  Qed.

  Lemma PFrame_poll_write_request s r s' : poll_write_request tp s = (r, s') -> PFrame s s'.
  Proof.
    unfold poll_write_request.
    destruct (poll_next_request tp s) as [r1 s1] eqn:E1. apply PFrame_poll_next_request in E1.
    destruct r1 as [q| | |a]; try (intros [= <- <-]; exact E1).
    destruct (do_send tp (insert_request s1 q) _) as [w s3] eqn:E3.
    apply XFrame_do_send, XFrame_P in E3.
    pose proof (TFrame_P _ _ (TFrame_insert_request s1 q)) as E2.
    pose proof (PFrame_trans _ _ _ E1 (PFrame_trans _ _ _ E2 E3)) as E13.
    destruct w; intros [= <- <-]; [exact E13|].
    eapply PFrame_trans; [exact E13|apply TFrame_P, TFrame_complete_request].
  Qed.

  Lemma PFrame_poll_next_cancellation s r s' :
    poll_next_cancellation tp s = (r, s') -> PFrame s s'.
  Proof.
    unfold poll_next_cancellation.
    destruct (ensure_writeable tp s) as [w s1] eqn:E1. apply XFrame_ensure_writeable, XFrame_P in E1.
    destruct w; try (intros [= <- <-]; exact E1).
    intro H. apply PFrame_next_cancel_loop in H. eapply PFrame_trans; eassumption.
  Qed.

  Lemma PFrame_poll_write_cancel s r s' : poll_write_cancel tp s = (r, s') -> PFrame s s'.
  Proof.
    unfold poll_write_cancel.
    destruct (poll_next_cancellation tp s) as [r1 s1] eqn:E1.
    apply PFrame_poll_next_cancellation in E1.
    destruct r1 as [[id e]| | |a]; try (intros [= <- <-]; exact E1).
    destruct (do_send tp s1 _) as [w s2] eqn:E2. apply XFrame_do_send, XFrame_P in E2.
    destruct w; intros [= <- <-]; eapply PFrame_trans; eassumption.
  Qed.

  Lemma PFrame_pump_read s r s' : pump_read tp s = (r, s') -> PFrame s s'.
  Proof.
    unfold pump_read. destruct (do_next tp s) as [r1 s1] eqn:E1. apply XFrame_do_next, XFrame_P in E1.
    destruct r1; intros [= <- <-]; try exact E1.
    eapply PFrame_trans; [exact E1|apply TFrame_P, TFrame_complete].
  Qed.

  Lemma PFrame_pump_write s r s' : pump_write tp s = (r, s') -> PFrame s s'.
  Proof.
    unfold pump_write.
    destruct (poll_write_request tp s) as [r1 s1] eqn:E1. apply PFrame_poll_write_request in E1.
    assert (K : forall r2 s2, poll_write_cancel tp s1 = (r2, s2) ->
      (let '(e, s3) := poll_expired s2 in
       match e with
       | Some _ => (PSome tt, s3)
       | None =>
         match r1, r2 with
         | PNone, PNone =>
           let '(c, s4) := do_close tp s3 in
           match c with TOk => (PNone, s4) | TErr => (PErr AClose, s4) | TPending => (PPend, s4) end
         | _, _ =>
           let '(f, s4) := do_flush tp s3 in
           match f with TErr => (PErr AFlush, s4) | _ => (PPend, s4) end
         end
       end) = (r, s') -> PFrame s s').
    { intros r2 s2 E2. apply PFrame_poll_write_cancel in E2.
      pose proof (TFrame_P _ _ (TFrame_poll_expired s2)) as E3.
      destruct (poll_expired s2) as [e s3]. cbn [snd] in E3.
      pose proof (PFrame_trans _ _ _ E1 (PFrame_trans _ _ _ E2 E3)) as E13.
      destruct e; [intros [= <- <-]; exact E13|].
      assert (KC : (let '(c, s4) := do_close tp s3 in
           match c with TOk => (PNone, s4) | TErr => (PErr AClose, s4) | TPending => (PPend, s4) end)
           = (r, s') -> PFrame s s').
      { destruct (do_close tp s3) as [c s4] eqn:E4. apply XFrame_do_close, XFrame_P in E4.
        destruct c; intros [= <- <-]; eapply PFrame_trans; eassumption. }
      assert (KF : (let '(f, s4) := do_flush tp s3 in
           match f with TErr => (PErr AFlush, s4) | _ => (PPend, s4) end) = (r, s') -> PFrame s s').
      { destruct (do_flush tp s3) as [c s4] eqn:E4. apply XFrame_do_flush, XFrame_P in E4.
        destruct c; intros [= <- <-]; eapply PFrame_trans; eassumption. }
      destruct r1, r2; assumption. }
    destruct r1 as [u| | |a]; try (intros [= <- <-]; exact E1);
      destruct (poll_write_cancel tp s1) as [r2 s2] eqn:E2;
      (destruct r2 as [u2| | |a2];
       [intros [= <- <-]; apply PFrame_poll_write_cancel in E2; eapply PFrame_trans; eassumption
       |apply (K _ _ eq_refl)..
       |intros [= <- <-]; apply PFrame_poll_write_cancel in E2; eapply PFrame_trans; eassumption]).
  Qed.

  Lemma PFrame_run_loop f s r s' : run_loop tp f s = (r, s') -> PFrame s s'.
  Proof.
    revert s; induction f as [|f IH]; intro s; cbn [run_loop]; [intros [= <- <-]; apply PFrame_refl|].
    destruct (pump_read tp s) as [rd s1] eqn:E1. apply PFrame_pump_read in E1.
    assert (K : (let '(wr, s2) := pump_write tp s1 in
        match wr with
        | PErr a => (RunErr a, s2)
        | _ =>
          match rd, wr with
          | PNone, _ => (RunOk, s2)
          | _, PNone =>
            if Nat.eqb (length (inflight s2)) 0 then (RunOk, s2)
            else match rd with PSome _ => run_loop tp f s2 | _ => (RunPending, s2) end
          | PSome _, _ | _, PSome _ => run_loop tp f s2
          | _, _ => (RunPending, s2)
          end
        end) = (r, s') -> PFrame s s').
    { destruct (pump_write tp s1) as [wr s2] eqn:E2. apply PFrame_pump_write in E2.
      pose proof (PFrame_trans _ _ _ E1 E2) as E12.
      assert (KL : run_loop tp f s2 = (r, s') -> PFrame s s').
      { intro H. apply IH in H. eapply PFrame_trans; eassumption. }
      destruct wr as [u| | |a]; [| | |intros [= <- <-]; exact E12];
        destruct rd as [u'| | |a']; try (intros [= <- <-]; exact E12); try exact KL;
        destruct (Nat.eqb _ 0); try (intros [= <- <-]; exact E12); exact KL. }
    destruct rd as [u| | |a]; try exact K. intros [= <- <-]; exact E1.
  Qed.

  Lemma PFrame_shut_down s a r s' : shut_down s a = (r, s') -> PFrame s s'.
  Proof. intro H. pose proof (IFrame_shut_down s a) as F. rewrite H in F. apply F. Qed.

  (* ================================================================ structure (inversion) lemmas:
     every path through a function of the dispatch poll, once, as an inductive relation *)
  Definition pcast {A B} (r : pres A) : pres B :=
    match r with PSome _ => PPend | PNone => PNone | PPend => PPend | PErr a => PErr a end.
  Definition is_psome {A} (r : pres A) : bool := match r with PSome _ => true | _ => false end.
  Definition ready_res (r : tres) : pres unit :=
    match r with TOk => PSome tt | TErr => PErr AReady | TPending => PPend end.

  Inductive EW s : pres unit -> cstate -> Prop :=
  | EW_first r s1 : do_ready tp s = (r, s1) -> r <> TPending -> EW s (ready_res r) s1
  | EW_flush_err s1 s2 :
      do_ready tp s = (TPending, s1) -> do_flush tp s1 = (TErr, s2) -> EW s (PErr AFlush) s2
  | EW_flush_pend s1 s2 :
      do_ready tp s = (TPending, s1) -> do_flush tp s1 = (TPending, s2) -> EW s PPend s2
  | EW_again s1 s2 r s3 :
      do_ready tp s = (TPending, s1) -> do_flush tp s1 = (TOk, s2) -> do_ready tp s2 = (r, s3) ->
      EW s (ready_res r) s3.

  Lemma ensure_writeable_inv s r s' : ensure_writeable tp s = (r, s') -> EW s r s'.
  Proof.
    unfold ensure_writeable.
    destruct (do_ready tp s) as [r1 s1] eqn:E1.
    destruct r1; try (intros [= <- <-]; apply (EW_first _ _ _ E1); discriminate).
    destruct (do_flush tp s1) as [r2 s2] eqn:E2.
    destruct r2; try (intros [= <- <-]; econstructor; eassumption).
    destruct (do_ready tp s2) as [r3 s3] eqn:E3.
    destruct r3; intros [= <- <-]; apply (EW_again _ _ _ _ _ E1 E2 E3).
  Qed.

  Definition req_msg (q : qitem) : cmsg := MReq (q_id q) (q_deadline q) (q_tc q) (q_body q).

  Inductive PWRQ s : pres unit -> cstate -> Prop :=
  | PWRQ_full : (max_if s <=? length (inflight s))%nat = true -> PWRQ s PPend s
  | PWRQ_notw r s1 :
      (max_if s <=? length (inflight s))%nat = false ->
      ensure_writeable tp s = (r, s1) -> is_psome r = false -> PWRQ s (pcast r) s1
  | PWRQ_none r s1 s2 :
      (max_if s <=? length (inflight s))%nat = false ->
      ensure_writeable tp s = (PSome tt, s1) ->
      next_request_loop (S (length (queue s1))) s1 = (r, s2) -> is_psome r = false ->
      PWRQ s (pcast r) s2
  | PWRQ_send s1 q s2 w s3 :
      (max_if s <=? length (inflight s))%nat = false ->
      ensure_writeable tp s = (PSome tt, s1) ->
      next_request_loop (S (length (queue s1))) s1 = (PSome q, s2) ->
      do_send tp (insert_request s2 q) (req_msg q) = (w, s3) ->
      PWRQ s (PSome tt)
           (match w with SOk => s3 | SErr => snd (complete_request s3 (q_id q) OSendErr) end).

  Lemma poll_write_request_inv s r s' : poll_write_request tp s = (r, s') -> PWRQ s r s'.
  Proof.
    unfold poll_write_request, poll_next_request.
    destruct (Nat.leb _ _) eqn:E0; [intros [= <- <-]; apply PWRQ_full, E0|].
    destruct (ensure_writeable tp s) as [w s1] eqn:E1.
    destruct w as [[]| | |a]; try (intros [= <- <-]; apply (PWRQ_notw _ _ _ E0 E1); reflexivity).
    destruct (next_request_loop _ s1) as [r2 s2] eqn:E2.
    destruct r2 as [q| | |a]; try (intros [= <- <-]; apply (PWRQ_none _ _ _ _ E0 E1 E2); reflexivity).
    destruct (do_send tp _ _) as [w s3] eqn:E3.
    pose proof (PWRQ_send _ _ _ _ _ _ E0 E1 E2 E3) as K.
    destruct w; intros [= <- <-]; exact K.
  Qed.

  Inductive PWC s : pres unit -> cstate -> Prop :=
  | PWC_notw r s1 : ensure_writeable tp s = (r, s1) -> is_psome r = false -> PWC s (pcast r) s1
  | PWC_none r s1 s2 :
      ensure_writeable tp s = (PSome tt, s1) ->
      next_cancel_loop (S (length (cancels s1))) s1 = (r, s2) -> is_psome r = false ->
      PWC s (pcast r) s2
  | PWC_send s1 id e s2 w s3 :
      ensure_writeable tp s = (PSome tt, s1) ->
      next_cancel_loop (S (length (cancels s1))) s1 = (PSome (id, e), s2) ->
      do_send tp s2 (MCancel id (if_tc e)) = (w, s3) ->
      PWC s (match w with SOk => PSome tt | SErr => PErr AWrite end) s3.

  Lemma poll_write_cancel_inv s r s' : poll_write_cancel tp s = (r, s') -> PWC s r s'.
  Proof.
    unfold poll_write_cancel, poll_next_cancellation.
    destruct (ensure_writeable tp s) as [w s1] eqn:E1.
    destruct w as [[]| | |a]; try (intros [= <- <-]; apply (PWC_notw _ _ _ E1); reflexivity).
    destruct (next_cancel_loop _ s1) as [r2 s2] eqn:E2.
    destruct r2 as [[id e]| | |a]; try (intros [= <- <-]; apply (PWC_none _ _ _ _ E1 E2); reflexivity).
    destruct (do_send tp _ _) as [w s3] eqn:E3.
    pose proof (PWC_send _ _ _ _ _ _ _ E1 E2 E3) as K.
    destruct w; intros [= <- <-]; exact K.
  Qed.

  Definition read_res (r : rres resp) : pres unit :=
    match r with RItem _ => PSome tt | RErr => PErr ARead | REof => PNone | RPending => PPend end.
  Lemma pump_read_inv s r s' : pump_read tp s = (r, s') ->
    exists x s1, do_next tp s = (x, s1) /\ r = read_res x /\
                 s' = match x with RItem y => complete s1 y | _ => s1 end.
  Proof.
    unfold pump_read. destruct (do_next tp s) as [x s1]. exists x, s1.
    destruct x; injection H as <- <-; auto.
  Qed.

  Definition idle {A} (r : pres A) : Prop := r = PNone \/ r = PPend.
  Definition close_res (c : tres) : pres unit :=
    match c with TOk => PNone | TErr => PErr AClose | TPending => PPend end.
  Definition flush_res (c : tres) : pres unit :=
    match c with TErr => PErr AFlush | _ => PPend end.

  Inductive PW s : pres unit -> cstate -> Prop :=
  | PW_req_err a s1 : poll_write_request tp s = (PErr a, s1) -> PW s (PErr a) s1
  | PW_req_some u s1 : poll_write_request tp s = (PSome u, s1) -> PW s (PSome tt) s1
  | PW_can_err r1 s1 a s2 :
      poll_write_request tp s = (r1, s1) -> idle r1 ->
      poll_write_cancel tp s1 = (PErr a, s2) -> PW s (PErr a) s2
  | PW_can_some r1 s1 u s2 :
      poll_write_request tp s = (r1, s1) -> idle r1 ->
      poll_write_cancel tp s1 = (PSome u, s2) -> PW s (PSome tt) s2
  | PW_expired r1 s1 r2 s2 id s3 :
      poll_write_request tp s = (r1, s1) -> idle r1 ->
      poll_write_cancel tp s1 = (r2, s2) -> idle r2 ->
      poll_expired s2 = (Some id, s3) -> PW s (PSome tt) s3
  | PW_close s1 s2 s3 c s4 :
      poll_write_request tp s = (PNone, s1) ->
      poll_write_cancel tp s1 = (PNone, s2) ->
      poll_expired s2 = (None, s3) ->
      do_close tp s3 = (c, s4) -> PW s (close_res c) s4
  | PW_flush r1 s1 r2 s2 s3 f s4 :
      poll_write_request tp s = (r1, s1) -> idle r1 ->
      poll_write_cancel tp s1 = (r2, s2) -> idle r2 ->
      r1 = PPend \/ r2 = PPend ->
      poll_expired s2 = (None, s3) ->
      do_flush tp s3 = (f, s4) -> PW s (flush_res f) s4.

  Lemma pump_write_inv s r s' : pump_write tp s = (r, s') -> PW s r s'.
  Proof.
    unfold pump_write.
    destruct (poll_write_request tp s) as [r1 s1] eqn:E1.
    destruct r1 as [u| | |a];
      [intros [= <- <-]; eapply PW_req_some; eassumption| | |
       intros [= <- <-]; eapply PW_req_err; eassumption].
    - assert (I1 : idle (@PNone unit)) by (left; reflexivity).
      destruct (poll_write_cancel tp s1) as [r2 s2] eqn:E2.
      destruct r2 as [u| | |a];
        [intros [= <- <-]; eapply PW_can_some; eassumption| | |
         intros [= <- <-]; eapply PW_can_err; eassumption].
      + destruct (poll_expired s2) as [e s3] eqn:E3.
        destruct e; [intros [= <- <-]; eapply PW_expired; try eassumption; left; reflexivity|].
        destruct (do_close tp s3) as [c s4] eqn:E4.
        pose proof (PW_close _ _ _ _ _ _ E1 E2 E3 E4) as K.
        destruct c; intros [= <- <-]; exact K.
      + destruct (poll_expired s2) as [e s3] eqn:E3.
        destruct e; [intros [= <- <-]; eapply PW_expired; try eassumption; right; reflexivity|].
        destruct (do_flush tp s3) as [c s4] eqn:E4.
        assert (I2 : idle (@PPend unit)) by (right; reflexivity).
        pose proof (PW_flush _ _ _ _ _ _ _ _ E1 I1 E2 I2 (or_intror eq_refl) E3 E4) as K.
        destruct c; intros [= <- <-]; exact K.
    - assert (I1 : idle (@PPend unit)) by (right; reflexivity).
      destruct (poll_write_cancel tp s1) as [r2 s2] eqn:E2.
      destruct r2 as [u| | |a];
        [intros [= <- <-]; eapply PW_can_some; eassumption| | |
         intros [= <- <-]; eapply PW_can_err; eassumption].
      + destruct (poll_expired s2) as [e s3] eqn:E3.
        destruct e; [intros [= <- <-]; eapply PW_expired; try eassumption; left; reflexivity|].
        destruct (do_flush tp s3) as [c s4] eqn:E4.
        assert (I2 : idle (@PNone unit)) by (left; reflexivity).
        pose proof (PW_flush _ _ _ _ _ _ _ _ E1 I1 E2 I2 (or_introl eq_refl) E3 E4) as K.
        destruct c; intros [= <- <-]; exact K.
      + destruct (poll_expired s2) as [e s3] eqn:E3.
        destruct e; [intros [= <- <-]; eapply PW_expired; try eassumption; right; reflexivity|].
        destruct (do_flush tp s3) as [c s4] eqn:E4.
        assert (I2 : idle (@PPend unit)) by (right; reflexivity).
        pose proof (PW_flush _ _ _ _ _ _ _ _ E1 I1 E2 I2 (or_introl eq_refl) E3 E4) as K.
        destruct c; intros [= <- <-]; exact K.
  Qed.

  (* one iteration of run_loop *)
  Inductive RL (f : nat) s : rres_run -> cstate -> Prop :=
  | RL_rd_err a s1 : pump_read tp s = (PErr a, s1) -> RL f s (RunErr a) s1
  | RL_wr_err rd s1 a s2 :
      pump_read tp s = (rd, s1) -> (forall b, rd <> PErr b) ->
      pump_write tp s1 = (PErr a, s2) -> RL f s (RunErr a) s2
  | RL_eof s1 wr s2 :
      pump_read tp s = (PNone, s1) -> pump_write tp s1 = (wr, s2) -> (forall b, wr <> PErr b) ->
      RL f s RunOk s2
  | RL_closed rd s1 s2 :
      pump_read tp s = (rd, s1) -> rd = PSome tt \/ rd = PPend ->
      pump_write tp s1 = (PNone, s2) -> length (inflight s2) = 0%nat ->
      RL f s RunOk s2
  | RL_pending s1 wr s2 :
      pump_read tp s = (PPend, s1) -> pump_write tp s1 = (wr, s2) ->
      (wr = PPend \/ (wr = PNone /\ length (inflight s2) <> 0%nat)) ->
      RL f s RunPending s2
  | RL_cont rd s1 wr s2 r s3 :
      pump_read tp s = (rd, s1) -> pump_write tp s1 = (wr, s2) ->
      ((rd = PSome tt /\ (wr = PSome tt \/ wr = PPend \/ (wr = PNone /\ length (inflight s2) <> 0%nat)))
       \/ (rd = PPend /\ wr = PSome tt)) ->
      run_loop tp f s2 = (r, s3) -> RL f s r s3.

  Lemma run_loop_inv f s r s' : run_loop tp (S f) s = (r, s') -> RL f s r s'.
  Proof.
    cbn [run_loop].
    destruct (pump_read tp s) as [rd s1] eqn:E1.
    destruct rd as [[]| | |a]; [| | |intros [= <- <-]; eapply RL_rd_err; eassumption].
    - destruct (pump_write tp s1) as [wr s2] eqn:E2.
      destruct wr as [[]| | |a];
        [| | |intros [= <- <-]; eapply RL_wr_err; try eassumption; discriminate].
      + intro H. eapply RL_cont; try eassumption. left. split; [reflexivity|]. left; reflexivity.
      + destruct (Nat.eqb _ 0) eqn:E3.
        * apply Nat.eqb_eq in E3. intros [= <- <-]. eapply RL_closed; try eassumption. left; reflexivity.
        * apply Nat.eqb_neq in E3. intro H. eapply RL_cont; try eassumption. left. split; [reflexivity|].
          right; right; split; [reflexivity|exact E3].
      + intro H. eapply RL_cont; try eassumption. left. split; [reflexivity|]. right; left; reflexivity.
    - destruct (pump_write tp s1) as [wr s2] eqn:E2.
      destruct wr as [[]| | |a];
        [| | |intros [= <- <-]; eapply RL_wr_err; try eassumption; discriminate];
        intros [= <- <-]; eapply RL_eof; try eassumption; discriminate.
    - destruct (pump_write tp s1) as [wr s2] eqn:E2.
      destruct wr as [[]| | |a];
        [| | |intros [= <- <-]; eapply RL_wr_err; try eassumption; discriminate].
      + intro H. eapply RL_cont; try eassumption. right. split; reflexivity.
      + destruct (Nat.eqb _ 0) eqn:E3.
        * apply Nat.eqb_eq in E3. intros [= <- <-]. eapply RL_closed; try eassumption. right; reflexivity.
        * apply Nat.eqb_neq in E3. intros [= <- <-]. eapply RL_pending; try eassumption.
          right; split; [reflexivity|exact E3].
      + intros [= <- <-]. eapply RL_pending; try eassumption. left; reflexivity.
  Qed.

  (* ---------------------------------------------------------------- more frames *)
  (* the cancellation side: the request queue and the call table are untouched *)
  Record CFrame s s' : Prop := {
    cf_i : IFrame s s';
    cf_calls : calls s' = calls s;
    cf_queue : queue s' = queue s;
    cf_permits : permits s' = permits s;
    cf_waiters : waiters s' = waiters s;
    cf_rxc : rx_closed s' = rx_closed s }.
  Lemma CFrame_refl s : CFrame s s.
  Proof. constructor; [apply IFrame_refl|reflexivity..]. Qed.
  Lemma CFrame_trans s1 s2 s3 : CFrame s1 s2 -> CFrame s2 s3 -> CFrame s1 s3.
  Proof. intros [] []; constructor; [eapply IFrame_trans; eassumption|congruence..]. Qed.
  Lemma TFrame_C s s' : TFrame s s' -> CFrame s s'.
  Proof. intros []; constructor; assumption. Qed.
  Lemma CFrame_c_poll_recv s : CFrame s (snd (c_poll_recv s)).
  Proof.
    unfold c_poll_recv. destruct (cancels s); [destruct (Nat.eqb _ _); apply CFrame_refl|].
    repeat (constructor; try reflexivity).
  Qed.
  Lemma CFrame_next_cancel_loop f s : CFrame s (snd (next_cancel_loop f s)).
  Proof.
    revert s; induction f as [|f IH]; intro s; cbn [next_cancel_loop]; [apply CFrame_refl|].
    pose proof (CFrame_c_poll_recv s) as H. destruct (c_poll_recv s) as [r s1]. cbn [snd] in H.
    destruct r as [id| |]; try exact H.
    pose proof (TFrame_cancel_request s1 id) as H2.
    destruct (cancel_request s1 id) as [e s2]. cbn [snd] in H2. apply TFrame_C in H2.
    destruct e; [eapply CFrame_trans; eassumption|].
    eapply CFrame_trans; [exact H|]. eapply CFrame_trans; [exact H2|apply IH].
  Qed.

  (* the write side never touches the Fuse flag *)
  Lemma fused_do_ready s r s' : do_ready tp s = (r, s') -> fused s' = fused s.
  Proof. intro H. apply do_ready_eq in H. rewrite H. reflexivity. Qed.
  Lemma fused_do_send s m r s' : do_send tp s m = (r, s') -> fused s' = fused s.
  Proof. intro H. apply do_send_eq in H. rewrite H. reflexivity. Qed.
  Lemma fused_do_flush s r s' : do_flush tp s = (r, s') -> fused s' = fused s.
  Proof. intro H. apply do_flush_eq in H. rewrite H. reflexivity. Qed.
  Lemma fused_do_close s r s' : do_close tp s = (r, s') -> fused s' = fused s.
  Proof. intro H. apply do_close_eq in H. rewrite H. reflexivity. Qed.
  Lemma fused_ensure_writeable s r s' : ensure_writeable tp s = (r, s') -> fused s' = fused s.
  Proof.
    intro H. apply ensure_writeable_inv in H.
    destruct H as [r s1 H1 _|s1 s2 H1 H2|s1 s2 H1 H2|s1 s2 r s3 H1 H2 H3];
      repeat match goal with
             | H : do_ready _ _ = _ |- _ => apply fused_do_ready in H
             | H : do_flush _ _ = _ |- _ => apply fused_do_flush in H
             end; congruence.
  Qed.
  Lemma fused_T s s' : TFrame s s' -> fused s' = fused s.
  Proof. intro H. apply H. Qed.
  Lemma fused_poll_write_request s r s' : poll_write_request tp s = (r, s') -> fused s' = fused s.
  Proof.
    intro H. apply poll_write_request_inv in H.
    destruct H as [_|r s1 _ H1 _|r s1 s2 _ H1 H2 _|s1 q s2 w s3 _ H1 H2 H3]; [reflexivity|..].
    - eapply fused_ensure_writeable, H1.
    - apply fused_ensure_writeable in H1.
      pose proof (IFrame_next_request_loop (S (length (queue s1))) s1) as F. rewrite H2 in F.
      destruct F as [_ _ F _]. cbn [snd] in F. congruence.
    - apply fused_ensure_writeable in H1.
      pose proof (IFrame_next_request_loop (S (length (queue s1))) s1) as F. rewrite H2 in F.
      destruct F as [_ _ F _]. cbn [snd] in F.
      apply fused_do_send in H3. pose proof (fused_T _ _ (TFrame_insert_request s2 q)) as F2.
      destruct w; [congruence|].
      rewrite (fused_T _ _ (TFrame_complete_request s3 (q_id q) OSendErr)). congruence.
  Qed.
  Lemma fused_poll_write_cancel s r s' : poll_write_cancel tp s = (r, s') -> fused s' = fused s.
  Proof.
    intro H. apply poll_write_cancel_inv in H.
    destruct H as [r s1 H1 _|r s1 s2 H1 H2 _|s1 id e s2 w s3 H1 H2 H3].
    - eapply fused_ensure_writeable, H1.
    - apply fused_ensure_writeable in H1.
      pose proof (IFrame_next_cancel_loop (S (length (cancels s1))) s1) as F. rewrite H2 in F.
      destruct F as [_ _ F _]. cbn [snd] in F. congruence.
    - apply fused_ensure_writeable in H1.
      pose proof (IFrame_next_cancel_loop (S (length (cancels s1))) s1) as F. rewrite H2 in F.
      destruct F as [_ _ F _]. cbn [snd] in F.
      apply fused_do_send in H3. congruence.
  Qed.
  Lemma fused_poll_expired s e s' : poll_expired s = (e, s') -> fused s' = fused s.
  Proof. intro H. pose proof (TFrame_poll_expired s) as F. rewrite H in F. apply F. Qed.
  Lemma fused_pump_write s r s' : pump_write tp s = (r, s') -> fused s' = fused s.
  Proof.
    intro H. apply pump_write_inv in H.
    destruct H;
      repeat match goal with
             | H : poll_write_request _ _ = _ |- _ => apply fused_poll_write_request in H
             | H : poll_write_cancel _ _ = _ |- _ => apply fused_poll_write_cancel in H
             | H : poll_expired _ = _ |- _ => apply fused_poll_expired in H
             | H : do_close _ _ = _ |- _ => apply fused_do_close in H
             | H : do_flush _ _ = _ |- _ => apply fused_do_flush in H
             end; congruence.
  Qed.

  (* the request-queue side (and the oneshot slots): cancel queue and in-flight tables untouched *)
  Record QFrame s s' : Prop := {
    qf_i : IFrame s s';
    qf_cancels : cancels s' = cancels s;
    qf_inflight : inflight s' = inflight s;
    qf_timers : timers s' = timers s }.
  Lemma QFrame_refl s : QFrame s s.
  Proof. constructor; [apply IFrame_refl|reflexivity..]. Qed.
  Lemma QFrame_trans s1 s2 s3 : QFrame s1 s2 -> QFrame s2 s3 -> QFrame s1 s3.
  Proof. intros [] []; constructor; [eapply IFrame_trans; eassumption|congruence..]. Qed.
  Lemma QFrame_upd_calls s v : QFrame s (upd_calls s v).
  Proof. repeat (constructor; try reflexivity). Qed.
  Lemma QFrame_upd_q s p q w c : QFrame s (upd_q s p q w c).
  Proof. repeat (constructor; try reflexivity). Qed.
  Lemma QFrame_upd_slots s v : QFrame s (upd_slots s v).
  Proof. repeat (constructor; try reflexivity). Qed.
  Lemma QFrame_set_phase s i p : QFrame s (set_phase s i p).
  Proof. unfold set_phase. destruct (nth_error _ _); [apply QFrame_upd_calls|apply QFrame_refl]. Qed.
  Lemma QFrame_set_slot s id x : QFrame s (set_slot s id x).
  Proof. apply QFrame_upd_slots. Qed.
  Lemma QFrame_slot_send s id o : QFrame s (slot_send s id o).
  Proof. unfold slot_send. destruct (sl_rx_closed _); apply QFrame_set_slot. Qed.
  Lemma QFrame_slot_tx_drop s id : QFrame s (slot_tx_drop s id).
  Proof. apply QFrame_set_slot. Qed.
  Lemma QFrame_slot_rx_close s id : QFrame s (slot_rx_close s id).
  Proof. apply QFrame_set_slot. Qed.
  Lemma QFrame_release_permit s : QFrame s (release_permit s).
  Proof.
    unfold release_permit. destruct (waiters s); [apply QFrame_upd_q|].
    eapply QFrame_trans; [apply QFrame_upd_q|apply QFrame_set_phase].
  Qed.
  Lemma QFrame_q_poll_recv s : QFrame s (snd (q_poll_recv s)).
  Proof.
    unfold q_poll_recv. destruct (queue s).
    - destruct (Nat.eqb _ _); [apply QFrame_refl|]. destruct (_ && _); apply QFrame_refl.
    - cbn [snd]. eapply QFrame_trans; [apply QFrame_upd_q|apply QFrame_release_permit].
  Qed.
  Lemma QFrame_next_request_loop f s : QFrame s (snd (next_request_loop f s)).
  Proof.
    revert s; induction f as [|f IH]; intro s; cbn [next_request_loop]; [apply QFrame_refl|].
    pose proof (QFrame_q_poll_recv s) as H. destruct (q_poll_recv s) as [r s1]. cbn [snd] in H.
    destruct r as [q| |]; try exact H.
    destruct (sl_rx_closed _); [|exact H].
    eapply QFrame_trans; [exact H|]. eapply QFrame_trans; [apply QFrame_slot_tx_drop|apply IH].
  Qed.
  Lemma QFrame_fold_set_phase p (l : list nat) s :
    QFrame s (fold_left (fun acc w => set_phase acc w p) l s).
  Proof.
    revert s; induction l as [|x r IH]; intro s; cbn [fold_left]; [apply QFrame_refl|].
    eapply QFrame_trans; [apply QFrame_set_phase|apply IH].
  Qed.
  Lemma QFrame_q_close s : QFrame s (q_close s).
  Proof.
    unfold q_close. destruct (rx_closed s); [apply QFrame_refl|].
    eapply QFrame_trans; [apply QFrame_fold_set_phase|apply QFrame_upd_q].
  Qed.
  Lemma QFrame_drain_loop f a s : QFrame s (snd (drain_loop f a s)).
  Proof.
    revert s; induction f as [|f IH]; intro s; cbn [drain_loop]; [apply QFrame_refl|].
    pose proof (QFrame_q_poll_recv s) as H. destruct (q_poll_recv s) as [r s1]. cbn [snd] in H.
    destruct r as [q| |]; try exact H.
    eapply QFrame_trans; [exact H|]. eapply QFrame_trans; [apply QFrame_slot_send|apply IH].
  Qed.

  (* queue lengths along the two dequeue loops *)
  Lemma queue_release_permit s : queue (release_permit s) = queue s.
  Proof.
    unfold release_permit. destruct (waiters s); [reflexivity|].
    unfold set_phase. destruct (nth_error _ _); reflexivity.
  Qed.
  Lemma queue_q_poll_recv s r s' : q_poll_recv s = (r, s') ->
    match r with RvSome _ => S (length (queue s')) = length (queue s) | _ => s' = s end.
  Proof.
    unfold q_poll_recv. destruct (queue s) eqn:Q.
    - destruct (Nat.eqb _ _); [intros [= <- <-]; reflexivity|].
      destruct (_ && _); intros [= <- <-]; reflexivity.
    - intros [= <- <-]. rewrite queue_release_permit. reflexivity.
  Qed.
  Lemma queue_slot_tx_drop s id : queue (slot_tx_drop s id) = queue s.
  Proof. reflexivity. Qed.
  Lemma queue_next_request_loop f s r s' : next_request_loop f s = (r, s') ->
    (length (queue s') + (if is_psome r then 1 else 0) <= length (queue s))%nat.
  Proof.
    revert s; induction f as [|f IH]; intro s; cbn [next_request_loop];
      [intros [= <- <-]; cbn; lia|].
    destruct (q_poll_recv s) as [x s1] eqn:E. apply queue_q_poll_recv in E.
    destruct x as [q| |]; try (intros [= <- <-]; subst s1; cbn; lia).
    destruct (sl_rx_closed _).
    - intro H. apply IH in H. rewrite queue_slot_tx_drop in H. lia.
    - intros [= <- <-]. cbn. lia.
  Qed.
  Lemma cancels_next_cancel_loop f s r s' : next_cancel_loop f s = (r, s') ->
    (length (cancels s') + (if is_psome r then 1 else 0) <= length (cancels s))%nat.
  Proof.
    revert s; induction f as [|f IH]; intro s; cbn [next_cancel_loop];
      [intros [= <- <-]; cbn; lia|].
    unfold c_poll_recv. destruct (cancels s) as [|id rest] eqn:Q.
    - destruct (Nat.eqb _ _); intros [= <- <-]; rewrite Q; cbn; lia.
    - pose proof (TFrame_cancel_request (upd_cancels s rest) id) as F.
      destruct (cancel_request _ id) as [[e|] s2]; cbn [snd] in F.
      + intros [= <- <-]. rewrite (tf_cancels _ _ F). cbn. lia.
      + intro H. apply IH in H. rewrite (tf_cancels _ _ F) in H. cbn in *. lia.
  Qed.

  (* ---------------------------------------------------------------- the user side *)
  (* what no op other than PollDispatch / DropDispatch changes *)
  Record UFrame s s' : Prop := {
    uf_terminal : terminal s' = terminal s;
    uf_finished : finished s' = finished s;
    uf_dropped : dropped s' = dropped s;
    uf_maxif : max_if s' = max_if s;
    uf_qcap : q_cap s' = q_cap s;
    uf_inflight : inflight s' = inflight s;
    uf_timers : timers s' = timers s;
    uf_fused : fused s' = fused s;
    uf_plog : plog s' = plog s }.
  Lemma UFrame_refl s : UFrame s s.
  Proof. constructor; reflexivity. Qed.
  Lemma UFrame_trans s1 s2 s3 : UFrame s1 s2 -> UFrame s2 s3 -> UFrame s1 s3.
  Proof. intros [] []; constructor; congruence. Qed.

  Lemma UFrame_upd_calls s v : UFrame s (upd_calls s v).
  Proof. constructor; reflexivity. Qed.
  Lemma UFrame_upd_slots s v : UFrame s (upd_slots s v).
  Proof. constructor; reflexivity. Qed.
  Lemma UFrame_upd_cancels s v : UFrame s (upd_cancels s v).
  Proof. constructor; reflexivity. Qed.
  Lemma UFrame_upd_q s p q w c : UFrame s (upd_q s p q w c).
  Proof. constructor; reflexivity. Qed.
  Lemma UFrame_upd_misc s n h t : UFrame s (upd_misc s n h t).
  Proof. constructor; reflexivity. Qed.
  Lemma UFrame_set_phase s i p : UFrame s (set_phase s i p).
  Proof. unfold set_phase. destruct (nth_error _ _); [apply UFrame_upd_calls|apply UFrame_refl]. Qed.
  Lemma UFrame_set_slot s id x : UFrame s (set_slot s id x).
  Proof. apply UFrame_upd_slots. Qed.
  Lemma UFrame_slot_tx_drop s id : UFrame s (slot_tx_drop s id).
  Proof. apply UFrame_set_slot. Qed.
  Lemma UFrame_slot_rx_close s id : UFrame s (slot_rx_close s id).
  Proof. apply UFrame_set_slot. Qed.
  Lemma UFrame_push_cancel s id : UFrame s (push_cancel s id).
  Proof. unfold push_cancel. destruct (dropped s); [apply UFrame_refl|apply UFrame_upd_cancels]. Qed.
  Lemma UFrame_release_permit s : UFrame s (release_permit s).
  Proof.
    unfold release_permit. destruct (waiters s); [apply UFrame_upd_q|].
    eapply UFrame_trans; [apply UFrame_upd_q|apply UFrame_set_phase].
  Qed.
  Lemma UFrame_with_id s i c id : UFrame s (with_id s i c id).
  Proof. apply UFrame_upd_calls. Qed.
  Lemma UFrame_fail_shutdown s i id : UFrame s (snd (fail_shutdown s i id)).
  Proof.
    unfold fail_shutdown. cbn [snd].
    eapply UFrame_trans; [apply UFrame_slot_tx_drop|].
    eapply UFrame_trans; [apply UFrame_slot_rx_close|].
    eapply UFrame_trans; [apply UFrame_push_cancel|apply UFrame_set_phase].
  Qed.
  Lemma UFrame_poll_slot s i id : UFrame s (snd (poll_slot s i id)).
  Proof.
    unfold poll_slot. destruct (sl_val _); cbn [snd].
    - eapply UFrame_trans; [apply UFrame_slot_rx_close|apply UFrame_set_phase].
    - destruct (sl_tx_gone _); cbn [snd]; [|apply UFrame_refl].
      eapply UFrame_trans; [apply UFrame_slot_rx_close|apply UFrame_set_phase].
  Qed.
  Lemma UFrame_enqueue s i c id tc : UFrame s (snd (enqueue s i c id tc)).
  Proof.
    unfold enqueue. eapply UFrame_trans; [apply UFrame_upd_q|].
    eapply UFrame_trans; [apply UFrame_set_phase|apply UFrame_poll_slot].
  Qed.
  Lemma UFrame_poll_call s i : UFrame s (snd (poll_call s i)).
  Proof.
    unfold poll_call. destruct (nth_error (calls s) i) as [c|]; [|apply UFrame_refl].
    destruct (c_phase c); try apply UFrame_refl.
    - set (s1 := set_slot _ _ _).
      assert (F1 : UFrame s s1).
      { unfold s1. eapply UFrame_trans; [apply UFrame_upd_misc|].
        eapply UFrame_trans; [apply UFrame_with_id|apply UFrame_set_slot]. }
      destruct (rx_closed s1).
      + eapply UFrame_trans; [exact F1|apply UFrame_fail_shutdown].
      + destruct (permits s1).
        * cbn [snd]. eapply UFrame_trans; [exact F1|].
          eapply UFrame_trans; [apply UFrame_upd_q|apply UFrame_set_phase].
        * eapply UFrame_trans; [exact F1|].
          eapply UFrame_trans; [apply UFrame_upd_q|apply UFrame_enqueue].
    - destruct (rx_closed s).
      + eapply UFrame_trans; [apply UFrame_upd_q|apply UFrame_fail_shutdown].
      + apply UFrame_enqueue.
    - apply UFrame_fail_shutdown.
    - apply UFrame_poll_slot.
  Qed.
  Lemma UFrame_guard_close s i : UFrame s (guard_close s i).
  Proof.
    unfold guard_close. destruct (nth_error (calls s) i) as [c|]; [|apply UFrame_refl].
    destruct (c_phase c); try apply UFrame_refl.
    - apply UFrame_set_phase.
    - eapply UFrame_trans; [apply UFrame_upd_q|].
      eapply UFrame_trans; [apply UFrame_slot_tx_drop|].
      eapply UFrame_trans; [apply UFrame_slot_rx_close|apply UFrame_set_phase].
    - eapply UFrame_trans; [apply UFrame_set_phase|].
      eapply UFrame_trans; [|eapply UFrame_trans; [apply UFrame_slot_tx_drop|apply UFrame_slot_rx_close]].
      destruct (rx_closed _); [apply UFrame_upd_q|apply UFrame_release_permit].
    - eapply UFrame_trans; [apply UFrame_slot_tx_drop|].
      eapply UFrame_trans; [apply UFrame_slot_rx_close|apply UFrame_set_phase].
    - eapply UFrame_trans; [apply UFrame_slot_rx_close|apply UFrame_set_phase].
  Qed.
  Lemma UFrame_guard_cancel s i : UFrame s (guard_cancel s i).
  Proof.
    unfold guard_cancel. destruct (nth_error (calls s) i) as [c|]; [|apply UFrame_refl].
    destruct (c_phase c); try apply UFrame_refl.
    eapply UFrame_trans; [apply UFrame_push_cancel|apply UFrame_set_phase].
  Qed.

  Variable fuel_of : cstate -> nat.
  Lemma UFrame_step s o s' os :
    step tp fuel_of s o = (s', os) -> o <> PollDispatch -> o <> DropDispatch -> UFrame s s'.
  Proof.
    destruct o; cbn [step]; intros H N1 N2; try congruence.
    - injection H as <- _. destruct (nth_error _ _) as [[|]|]; try apply UFrame_refl.
      apply UFrame_upd_misc.
    - injection H as <- _. destruct (nth_error _ _) as [[|]|]; try apply UFrame_refl.
      apply UFrame_upd_misc.
    - injection H as <- _. apply UFrame_upd_calls.
    - pose proof (UFrame_poll_call s i) as F. destruct (poll_call s i) as [r s1].
      injection H as <- _. exact F.
    - injection H as <- _. destruct (option_map _ _) as [[]|];
        try (eapply UFrame_trans; [apply UFrame_guard_close|apply UFrame_guard_cancel]).
      apply UFrame_refl.
    - injection H as <- _. destruct (option_map _ _) as [[]|]; try apply UFrame_guard_close.
      apply UFrame_refl.
    - injection H as <- _. apply UFrame_guard_cancel.
    - injection H as <- _. apply UFrame_upd_misc.
    - injection H as <- _. constructor; reflexivity.
  Qed.
End Frames.

Arguments pcast {A B} r.
Arguments is_psome {A} r.
Arguments idle {A} r.
