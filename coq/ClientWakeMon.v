(* C02: the executable monitor `c02_ok` of ClientWake.v accepts every wake-driven run of the
   model (stmt_c02_monitor).  Simulation between the observer state `wmon` and the model state:
   which calls are resolved, whether the dispatch has ended, the transport flags the script set,
   and delivered = read + |inbox|. *)
From Coq Require Import List Bool Arith NArith Lia ZifyNat ZifyN.
Import ListNotations.
From TarpcV Require Import Base Transport Client ClientS ClientWake ClientWakeSpec ClientLemmas
  ClientProofsG1Frames ClientProofsG1 ClientProofsG1C11 ClientProofsG1Fuel ClientSimBase
  ClientProofsG1Rec ClientWakeProofs ClientWakeSettles.

Arguments N.modulo : simpl never.
Arguments N.add : simpl never.
Arguments N.min : simpl never.
Arguments N.sub : simpl never.

(* ================================================================== the transport across a step *)
Record TF (t t' : stransport resp) : Prop := {
  tf_ready : st_ready t' = st_ready t;
  tf_flushok : st_flushok t' = st_flushok t;
  tf_cap : st_cap t' = st_cap t;
  tf_coupled : st_coupled t' = st_coupled t;
  tf_eof : st_eof t' = st_eof t;
  tf_fr : st_fail_ready t' = true -> st_fail_ready t = true;
  tf_fs : st_fail_send t' = true -> st_fail_send t = true;
  tf_ff : st_fail_flush t' = true -> st_fail_flush t = true;
  tf_fc : st_fail_close t' = true -> st_fail_close t = true;
  tf_fn : st_fail_next t' = true -> st_fail_next t = true }.

Lemma TF_refl t : TF t t.
Proof. constructor; auto. Qed.
Lemma TF_trans t1 t2 t3 : TF t1 t2 -> TF t2 t3 -> TF t1 t3.
Proof. intros [] []. constructor; try congruence; auto. Qed.

Lemma TF_s_ready (t : stransport resp) : TF t (snd (s_ready t)).
Proof.
  unfold s_ready. destruct (st_fail_ready t) eqn:E; [constructor; cbn; auto; congruence|].
  destruct (_ && _); apply TF_refl.
Qed.
Lemma TF_s_send (t : stransport resp) (m : cmsg) : TF t (snd (s_send t m)).
Proof. unfold s_send. destruct (st_fail_send t) eqn:E; constructor; cbn; auto; congruence. Qed.
Lemma TF_s_flush (t : stransport resp) : TF t (snd (s_flush t)).
Proof.
  unfold s_flush. destruct (st_fail_flush t) eqn:E; [constructor; cbn; auto; congruence|].
  destruct (st_flushok t) eqn:E2; [constructor; cbn; auto; congruence|apply TF_refl].
Qed.
Lemma TF_s_close (t : stransport resp) : TF t (snd (s_close t)).
Proof.
  unfold s_close. destruct (st_fail_close t) eqn:E; [constructor; cbn; auto; congruence|].
  destruct (st_closeok t); apply TF_refl.
Qed.
Lemma TF_s_next (t : stransport resp) : TF t (snd (s_next t)).
Proof.
  unfold s_next. destruct (st_fail_next t) eqn:E; [constructor; cbn; auto; congruence|].
  destruct (st_inbox t); [destruct (st_eof t); apply TF_refl|constructor; cbn; auto; congruence].
Qed.

(* ================================================================== one dispatch poll: phases only
   move to live phases; the transport flags; inbox + reads is conserved *)
Section DispatchRel.
  Implicit Types s : sstate.

  Record DR s s' : Prop := {
    dr_len : length (calls s') = length (calls s);
    dr_chg : forall j k k', nth_error (calls s) j = Some k -> nth_error (calls s') j = Some k' ->
                            c_phase k' = c_phase k \/ is_live (c_phase k') = true;
    dr_handles : handles s' = handles s;
    dr_tf : TF (tr s) (tr s');
    dr_cons : (length (st_inbox (tr s)) + length (reads_of (plog s))
               = length (st_inbox (tr s')) + length (reads_of (plog s')))%nat }.

  Lemma DR_refl s : DR s s.
  Proof.
    constructor; [reflexivity| |reflexivity|apply TF_refl|reflexivity].
    intros j k k' H1 H2. left. congruence.
  Qed.
  Lemma DR_trans s1 s2 s3 : DR s1 s2 -> DR s2 s3 -> DR s1 s3.
  Proof.
    intros [L1 C1 H1 T1 N1] [L2 C2 H2 T2 N2]. constructor; try congruence.
    - intros j k k'' E1 E3. destruct (nth_error (calls s2) j) as [k'|] eqn:E2.
      + destruct (C2 _ _ _ E2 E3) as [X|X]; [|right; exact X].
        destruct (C1 _ _ _ E1 E2) as [Y|Y]; [left; congruence|right; congruence].
      + exfalso. apply nth_error_None in E2. assert (nth_error (calls s1) j <> None) by congruence.
        apply nth_error_Some in H. lia.
    - eapply TF_trans; eassumption.
  Qed.
  Lemma DR_same s s' :
    calls s' = calls s -> handles s' = handles s -> tr s' = tr s -> plog s' = plog s -> DR s s'.
  Proof.
    intros E1 E2 E3 E4. constructor; rewrite ?E1, ?E2, ?E3, ?E4;
      [reflexivity| |reflexivity|apply TF_refl|reflexivity].
    intros j k k' H1 H2. left. congruence.
  Qed.
  Lemma DR_T s s' : TFrame s s' -> DR s s'.
  Proof.
    intro F. pose proof (tf_i _ _ F) as I.
    apply DR_same; [apply F|apply (if_p _ _ I)|apply I|apply I].
  Qed.
  Lemma DR_C s s' : CFrame s s' -> DR s s'.
  Proof.
    intro F. pose proof (cf_i _ _ F) as I.
    apply DR_same; [apply F|apply (if_p _ _ I)|apply I|apply I].
  Qed.

  Lemma DR_X s s' c :
    XFrame s s' -> TF (tr s) (tr s') -> plog s' = plog s ++ [c] ->
    (length (st_inbox (tr s)) = length (st_inbox (tr s'))
                                + match c with CNext (RItem _) => 1 | _ => 0 end)%nat ->
    DR s s'.
  Proof.
    intros F Tt Ep Ei. constructor.
    - rewrite (xf_calls _ _ F). reflexivity.
    - intros j k k' H1 H2. rewrite (xf_calls _ _ F), H1 in H2. left. congruence.
    - apply (xf_p _ _ F).
    - exact Tt.
    - rewrite Ep, reads_snoc, app_length. destruct c as [| | | |[]]; cbn [length] in *; lia.
  Qed.

  Lemma DR_do_ready s r s' : do_ready stp s = (r, s') -> DR s s'.
  Proof.
    intro H. pose proof (XFrame_do_ready _ _ _ _ H) as F. pose proof (inbox_do_ready _ _ _ H) as Ei.
    pose proof (do_ready_eq _ _ _ _ H) as Ep.
    eapply (DR_X s s' (CReady r)); [exact F| |rewrite Ep; reflexivity|rewrite Ei; cbn; lia].
    unfold do_ready in H. cbn [stp scripted t_ready] in H. pose proof (TF_s_ready (tr s)) as X.
    destruct (s_ready (tr s)). injection H as _ <-. exact X.
  Qed.
  Lemma DR_do_send s m r s' : do_send stp s m = (r, s') -> DR s s'.
  Proof.
    intro H. pose proof (XFrame_do_send _ _ _ _ _ H) as F. pose proof (inbox_do_send _ _ _ _ H) as Ei.
    pose proof (do_send_eq _ _ _ _ _ H) as Ep.
    eapply (DR_X s s' (CSend m r)); [exact F| |rewrite Ep; reflexivity|rewrite Ei; cbn; lia].
    unfold do_send in H. cbn [stp scripted t_send] in H. pose proof (TF_s_send (tr s) m) as X.
    destruct (s_send (tr s) m). injection H as _ <-. exact X.
  Qed.
  Lemma DR_do_flush s r s' : do_flush stp s = (r, s') -> DR s s'.
  Proof.
    intro H. pose proof (XFrame_do_flush _ _ _ _ H) as F. pose proof (inbox_do_flush _ _ _ H) as Ei.
    pose proof (do_flush_eq _ _ _ _ H) as Ep.
    eapply (DR_X s s' (CFlush r)); [exact F| |rewrite Ep; reflexivity|rewrite Ei; cbn; lia].
    unfold do_flush in H. cbn [stp scripted t_flush] in H. pose proof (TF_s_flush (tr s)) as X.
    destruct (s_flush (tr s)). injection H as _ <-. exact X.
  Qed.
  Lemma DR_do_close s r s' : do_close stp s = (r, s') -> DR s s'.
  Proof.
    intro H. pose proof (XFrame_do_close _ _ _ _ H) as F. pose proof (inbox_do_close _ _ _ H) as Ei.
    pose proof (do_close_eq _ _ _ _ H) as Ep.
    eapply (DR_X s s' (CClose r)); [exact F| |rewrite Ep; reflexivity|rewrite Ei; cbn; lia].
    unfold do_close in H. cbn [stp scripted t_close] in H. pose proof (TF_s_close (tr s)) as X.
    destruct (s_close (tr s)). injection H as _ <-. exact X.
  Qed.
  Lemma DR_do_next s r s' : do_next stp s = (r, s') -> DR s s'.
  Proof.
    intro H. destruct (do_next_eq _ _ _ _ H) as [(_ & _ & ->)|(Hf & Ep)]; [apply DR_refl|].
    pose proof (XFrame_do_next _ _ _ _ H) as F.
    unfold do_next in H. rewrite Hf in H. cbn [stp scripted t_next] in H.
    pose proof (TF_s_next (tr s)) as X.
    assert (Ei : (length (st_inbox (tr s)) = length (st_inbox (snd (s_next (tr s))))
                  + match fst (s_next (tr s)) with RItem _ => 1 | _ => 0 end)%nat).
    { unfold s_next. destruct (st_fail_next (tr s)); [cbn; lia|].
      destruct (st_inbox (tr s)) eqn:E; [destruct (st_eof (tr s)); cbn; rewrite E; cbn; lia|cbn; lia]. }
    destruct (s_next (tr s)) as [r0 t0]. injection H as <- <-. cbn [fst snd] in *.
    eapply (DR_X s _ (CNext r0)); [exact F|exact X|reflexivity|exact Ei].
  Qed.

  Lemma DR_set_phase s i p : is_live p = true -> DR s (set_phase s i p).
  Proof.
    intro Hp. constructor.
    - apply sp_length.
    - intros j k k' H1 H2.
      destruct (nth_set_phase_inv _ _ _ _ _ H2) as (k0 & E0 & _ & [[_ ->]|[_ Hk]]).
      + left. congruence.
      + right. rewrite Hk. exact Hp.
    - apply sp_handles.
    - rewrite sp_tr. apply TF_refl.
    - rewrite sp_tr, sp_plog. reflexivity.
  Qed.

  Lemma DR_release_permit s : DR s (release_permit s).
  Proof.
    unfold release_permit. destruct (waiters s); [apply DR_same; reflexivity|].
    eapply DR_trans; [|apply DR_set_phase; reflexivity]. apply DR_same; reflexivity.
  Qed.

  Lemma DR_q_poll_recv s : DR s (snd (q_poll_recv s)).
  Proof.
    unfold q_poll_recv. destruct (queue s).
    - destruct (Nat.eqb _ _); [apply DR_refl|]. destruct (_ && _); apply DR_refl.
    - cbn [snd]. eapply DR_trans; [|apply DR_release_permit]. apply DR_same; reflexivity.
  Qed.

  Lemma DR_next_request_loop f : forall s, DR s (snd (next_request_loop f s)).
  Proof.
    induction f as [|f IH]; intro s; cbn [next_request_loop]; [apply DR_refl|].
    pose proof (DR_q_poll_recv s) as H. destruct (q_poll_recv s) as [r s1]. cbn [snd] in H.
    destruct r as [q| |]; try exact H.
    destruct (sl_rx_closed _); [|exact H].
    eapply DR_trans; [exact H|]. eapply DR_trans; [apply DR_T, TFrame_slot_tx_drop|apply IH].
  Qed.

  Lemma DR_ensure_writeable s r s' : ensure_writeable stp s = (r, s') -> DR s s'.
  Proof.
    intro H. apply ensure_writeable_inv in H.
    destruct H as [r s1 H1 _|s1 s2 H1 H2|s1 s2 H1 H2|s1 s2 r s3 H1 H2 H3];
      repeat match goal with
             | H : do_ready _ _ = _ |- _ => apply DR_do_ready in H
             | H : do_flush _ _ = _ |- _ => apply DR_do_flush in H
             end; eauto using DR_trans.
  Qed.

  Lemma DR_poll_write_request s r s' : poll_write_request stp s = (r, s') -> DR s s'.
  Proof.
    intro H. apply poll_write_request_inv in H.
    destruct H as [_|r s1 _ H1 Hr|r s1 s2 _ H1 H2 Hr|s1 q s2 w s3 _ H1 H2 H3].
    - apply DR_refl.
    - eapply DR_ensure_writeable, H1.
    - pose proof (DR_next_request_loop (S (length (queue s1))) s1) as F. rewrite H2 in F.
      eapply DR_trans; [eapply DR_ensure_writeable, H1|exact F].
    - pose proof (DR_next_request_loop (S (length (queue s1))) s1) as F. rewrite H2 in F. cbn [snd] in F.
      assert (D3 : DR s s3).
      { eapply DR_trans; [eapply DR_ensure_writeable, H1|]. eapply DR_trans; [exact F|].
        eapply DR_trans; [apply DR_T, TFrame_insert_request|eapply DR_do_send, H3]. }
      destruct w; [exact D3|]. eapply DR_trans; [exact D3|apply DR_T, TFrame_complete_request].
  Qed.

  Lemma DR_poll_write_cancel s r s' : poll_write_cancel stp s = (r, s') -> DR s s'.
  Proof.
    intro H. apply poll_write_cancel_inv in H.
    destruct H as [r s1 H1 Hr|r s1 s2 H1 H2 Hr|s1 id e s2 w s3 H1 H2 H3].
    - eapply DR_ensure_writeable, H1.
    - pose proof (CFrame_next_cancel_loop (S (length (cancels s1))) s1) as F. rewrite H2 in F.
      eapply DR_trans; [eapply DR_ensure_writeable, H1|apply DR_C, F].
    - pose proof (CFrame_next_cancel_loop (S (length (cancels s1))) s1) as F. rewrite H2 in F.
      eapply DR_trans; [eapply DR_ensure_writeable, H1|].
      eapply DR_trans; [apply DR_C, F|eapply DR_do_send, H3].
  Qed.

  Lemma DR_pump_write s r s' : pump_write stp s = (r, s') -> DR s s'.
  Proof.
    intro H. apply pump_write_inv in H.
    destruct H as [a s1 H1|u s1 H1|r1 s1 a s2 H1 I1 H2|r1 s1 u s2 H1 I1 H2
                  |r1 s1 r2 s2 id s3 H1 I1 H2 I2 H3|s1 s2 s3 x s4 H1 H2 H3 H4
                  |r1 s1 r2 s2 s3 x s4 H1 I1 H2 I2 I12 H3 H4];
      pose proof (DR_poll_write_request _ _ _ H1) as R1; try exact R1;
      pose proof (DR_poll_write_cancel _ _ _ H2) as R2; try (eapply DR_trans; eassumption);
      pose proof (DR_T _ _ (TFrame_poll_expired s2)) as R3; rewrite H3 in R3; cbn [snd] in R3.
    - eapply DR_trans; [exact R1|eapply DR_trans; eassumption].
    - eapply DR_trans; [exact R1|]. eapply DR_trans; [exact R2|]. eapply DR_trans; [exact R3|].
      eapply DR_do_close, H4.
    - eapply DR_trans; [exact R1|]. eapply DR_trans; [exact R2|]. eapply DR_trans; [exact R3|].
      eapply DR_do_flush, H4.
  Qed.

  Lemma DR_pump_read s r s' : pump_read stp s = (r, s') -> DR s s'.
  Proof.
    intro H. apply pump_read_inv in H. destruct H as (x & s1 & H1 & -> & ->).
    pose proof (DR_do_next _ _ _ H1) as R1. destruct x; try exact R1.
    eapply DR_trans; [exact R1|apply DR_T, TFrame_complete].
  Qed.

  Lemma DR_run_loop f : forall s r s', run_loop stp f s = (r, s') -> DR s s'.
  Proof.
    induction f as [|f IH]; intros s r s' H; [cbn in H; injection H as _ <-; apply DR_refl|].
    apply run_loop_inv in H.
    destruct H as [a s1 H1|rd s1 a s2 H1 N1 H2|s1 wr s2 H1 H2 N2|rd s1 s2 H1 D1 H2 L2
                  |s1 wr s2 H1 H2 D2|rd s1 wr s2 r s3 H1 H2 D' H3];
      pose proof (DR_pump_read _ _ _ H1) as R1; try exact R1;
      pose proof (DR_pump_write _ _ _ H2) as R2; try (eapply DR_trans; eassumption).
    eapply DR_trans; [exact R1|]. eapply DR_trans; [exact R2|]. eapply IH; eassumption.
  Qed.

  Lemma DR_fold_closed l : forall s,
    DR s (fold_left (fun acc w => set_phase acc w PAcqClosed) l s).
  Proof.
    induction l as [|w r IH]; intro s; cbn [fold_left]; [apply DR_refl|].
    eapply DR_trans; [apply (DR_set_phase s w PAcqClosed); reflexivity|apply IH].
  Qed.
  Lemma DR_q_close s : DR s (q_close s).
  Proof.
    unfold q_close. destruct (rx_closed s); [apply DR_refl|].
    eapply DR_trans; [apply DR_fold_closed|apply DR_same; reflexivity].
  Qed.
  Lemma DR_drain_loop f a : forall s, DR s (snd (drain_loop f a s)).
  Proof.
    induction f as [|f IH]; intro s; cbn [drain_loop]; [apply DR_refl|].
    pose proof (DR_q_poll_recv s) as H. destruct (q_poll_recv s) as [r s1]. cbn [snd] in H.
    destruct r as [q| |]; try exact H.
    eapply DR_trans; [exact H|]. eapply DR_trans; [apply DR_T, TFrame_slot_send|apply IH].
  Qed.
  Lemma DR_shut_down s a : DR s (snd (shut_down s a)).
  Proof.
    unfold shut_down. eapply DR_trans; [apply DR_q_close|].
    eapply DR_trans; [apply DR_T, TFrame_complete_all|apply DR_drain_loop].
  Qed.

  Lemma DR_poll_dispatch f s r s1 : poll_dispatch stp f s = (r, s1) -> DR s s1.
  Proof.
    unfold poll_dispatch. intro H. destruct (terminal s) as [a|].
    - pose proof (DR_shut_down s a) as X. destruct (shut_down s a) as [b s']. cbn [snd] in X.
      destruct b; injection H as _ <-; exact X.
    - destruct (run_loop stp f s) as [rr s'] eqn:Er. apply DR_run_loop in Er.
      destruct rr as [|a| |]; try (injection H as _ <-; exact Er).
      pose proof (DR_shut_down (upd_term s' (Some a)) a) as X.
      destruct (shut_down _ a) as [b s3]. cbn [snd] in X.
      assert (s1 = s3) by (destruct b; congruence). subst s1.
      eapply DR_trans; [exact Er|]. eapply DR_trans; [|exact X]. apply DR_same; reflexivity.
  Qed.

  (* a poll that returns Pending found the inbox empty *)
  Lemma pending_inbox f : forall s s', run_loop stp f s = (RunPending, s') -> st_inbox (tr s') = [].
  Proof.
    induction f as [|f IH]; intros s s' H; [cbn in H; discriminate|].
    apply run_loop_inv in H. remember RunPending as rr eqn:Er.
    destruct H as [a s1 H1|rd s1 a s2 H1 N1 H2|s1 wr s2 H1 H2 N2|rd s1 s2 H1 D1 H2 L2
                  |s1 wr s2 H1 H2 D2|rd s1 wr s2 r s3 H1 H2 D' H3]; try discriminate.
    - apply pump_read_inv in H1. destruct H1 as (x & s0 & Hn & Hr & Hs).
      destruct x; try discriminate. subst s1.
      assert (E0 : st_inbox (tr s0) = []).
      { unfold do_next in Hn. destruct (fused s); [discriminate|].
        cbn [stp scripted t_next] in Hn. unfold s_next in Hn.
        destruct (st_fail_next (tr s)); [discriminate|].
        destruct (st_inbox (tr s)) eqn:E; [|discriminate].
        destruct (st_eof (tr s)); [discriminate|]. injection Hn as <-. cbn [tr upd_tr]. exact E. }
      pose proof (dr_cons _ _ (DR_pump_write _ _ _ H2)) as C.
      pose proof (ML_pump_write _ _ _ _ H2) as [[seg Es] _].
      rewrite Es in C. unfold reads_of in C. rewrite flat_map_app, app_length, E0 in C. cbn [length] in C.
      apply length_zero_iff_nil. lia.
    - subst r. eapply IH, H3.
  Qed.
End DispatchRel.

(* ================================================================== calls that are over *)
Section Resolved.
  Implicit Types s : sstate.

  Definition nl s (j : nat) : Prop :=
    exists k, nth_error (calls s) j = Some k /\ is_live (c_phase k) = false.

  Lemma is_live_pclass p q : pclass p = pclass q -> is_live p = is_live q.
  Proof. destruct p, q; cbn; intro H; try reflexivity; discriminate. Qed.

  Lemma DR_nl s s' j : DR s s' -> nl s' j -> nl s j.
  Proof.
    intros D (k' & E' & Hl).
    destruct (nth_error (calls s) j) as [k|] eqn:E.
    - exists k. split; [exact E|]. destruct (dr_chg _ _ D _ _ _ E E') as [X|X]; congruence.
    - exfalso. apply nth_error_None in E. assert (nth_error (calls s') j <> None) by congruence.
      apply nth_error_Some in H. rewrite (dr_len _ _ D) in H. lia.
  Qed.

  Lemma Ch_nl i s s' j : Ch i s s' -> j <> i -> nl s' j -> nl s j.
  Proof.
    intros C Hne (k' & E' & Hl). pose proof (ch_other _ _ _ C j Hne) as X.
    unfold cls in X. rewrite !nth_error_map, E' in X. cbn in X.
    destruct (nth_error (calls s) j) as [k|] eqn:E; [|discriminate]. cbn in X. apply Some_inj in X.
    exists k. split; [exact E|]. rewrite <- Hl. apply is_live_pclass. symmetry. exact X.
  Qed.

  Lemma nl_ph s j : nl s j <-> exists p, ph s j = Some p /\ is_live p = false.
  Proof.
    unfold nl, ph. split.
    - intros (k & E & H). exists (c_phase k). rewrite E. auto.
    - intros (p & E & H). destruct (nth_error (calls s) j) as [k|] eqn:Ek; [|discriminate].
      cbn in E. injection E as <-. exists k. auto.
  Qed.

  Lemma nl_poll_call s i r s' :
    poll_call s i = (r, s') -> forall j, nl s' j -> nl s j \/ (j = i /\ exists o, r = CDone o).
  Proof.
    intros H j Hj. destruct (poll_call_eff s i r s' H) as [C E].
    destruct (Nat.eq_dec j i) as [->|Hne]; [|left; eapply Ch_nl; eassumption].
    apply nl_ph in Hj. destruct Hj as (p' & Ep' & Hl). unfold pc_eff in E. rewrite Ep' in E.
    destruct (ph s i) as [p0|] eqn:Ep0; [|destruct E; discriminate].
    destruct r as [|o|].
    - destruct E as [_ [X|X]]; injection X as ->; discriminate.
    - right. split; [reflexivity|eauto].
    - destruct E as [_ X]. injection X as ->. left. apply nl_ph. eauto.
  Qed.

  Lemma winv_of_Inv s : Inv s -> ClientSimBase.winv s.
  Proof.
    intro I. pose proof (ix_w _ (iv_x _ I)) as W.
    constructor; [apply (w_acq _ _ W)|apply (w_nd _ _ W)].
  Qed.

  Lemma nl_guard_close s i j : Inv s -> j <> i -> nl (guard_close s i) j -> nl s j.
  Proof.
    intros I Hne. destruct (guard_close_eff s i (winv_of_Inv s I)) as [C _]. eapply Ch_nl; eassumption.
  Qed.
  Lemma nl_guard_cancel s i j : nl (guard_cancel s i) j -> nl s j.
  Proof.
    destruct (guard_cancel_eff s i) as [C P]. destruct (Nat.eq_dec j i) as [->|Hne];
      [|eapply Ch_nl; eassumption].
    intro H. apply nl_ph in H. destruct H as (p' & Ep' & Hl). rewrite P in Ep'. apply nl_ph.
    destruct (ph s i) as [p0|]; [|discriminate]. destruct p0; cbn in Ep'; injection Ep' as <-;
      try discriminate; eexists; split; reflexivity.
  Qed.

  (* the transport is untouched by the user-side functions *)
  Lemma tr_fs_pre s id : tr (fs_pre s id) = tr s.
  Proof. unfold fs_pre, push_cancel. destruct (dropped _); reflexivity. Qed.
  Lemma tr_fail_shutdown s i id : tr (snd (fail_shutdown s i id)) = tr s.
  Proof. rewrite fail_shutdown_eq. cbn [snd]. rewrite sp_tr. apply tr_fs_pre. Qed.
  Lemma tr_poll_slot s i id : tr (snd (poll_slot s i id)) = tr s.
  Proof.
    destruct (poll_slot_cases s i id) as [E|[o E]]; rewrite E; cbn [snd]; [reflexivity|].
    rewrite sp_tr. reflexivity.
  Qed.
  Lemma tr_enqueue s i c id tc : tr (snd (enqueue s i c id tc)) = tr s.
  Proof. rewrite enqueue_eq, tr_poll_slot. unfold enq_state. rewrite sp_tr. reflexivity. Qed.
  Lemma tr_poll_call s i : tr (snd (poll_call s i)) = tr s.
  Proof.
    unfold poll_call. destruct (nth_error (calls s) i) as [k|]; [|reflexivity].
    destruct (c_phase k); try reflexivity.
    - cbv zeta. match goal with |- context [rx_closed ?x] => set (s1 := x) end.
      destruct (rx_closed s1); [rewrite tr_fail_shutdown; reflexivity|].
      destruct (permits s1); [cbn [snd]; rewrite sp_tr; reflexivity|].
      rewrite tr_enqueue. reflexivity.
    - destruct (rx_closed s); [rewrite tr_fail_shutdown; reflexivity|apply tr_enqueue].
    - apply tr_fail_shutdown.
    - apply tr_poll_slot.
  Qed.
  Lemma tr_guard_close s i : tr (guard_close s i) = tr s.
  Proof.
    unfold guard_close. destruct (nth_error (calls s) i) as [k|]; [|reflexivity].
    destruct (c_phase k); try reflexivity; try (rewrite sp_tr; reflexivity).
    set (s1 := set_phase s i PClosing).
    assert (E : tr s1 = tr s) by apply sp_tr.
    destruct (rx_closed s1); cbn [tr slot_rx_close slot_tx_drop set_slot upd_slots upd_q]; [exact E|].
    rewrite (if_tr _ _ (qf_i _ _ (QFrame_release_permit s1))). exact E.
  Qed.
  Lemma tr_guard_cancel s i : tr (guard_cancel s i) = tr s.
  Proof.
    unfold guard_cancel. destruct (nth_error (calls s) i) as [k|]; [|reflexivity].
    destruct (c_phase k); try reflexivity. rewrite sp_tr. unfold push_cancel.
    destruct (dropped s); reflexivity.
  Qed.
End Resolved.

(* ================================================================== what a settle does, as seen
   by the observer *)
Section SettleRel.
  Implicit Types s : sstate.

  Record SR s (o : sobs) s' (o' : sobs) : Prop := {
    sr_handles : handles s' = handles s;
    sr_len : length (calls s') = length (calls s);
    sr_nl : forall j, nl s' j -> nl s j \/ In j (map fst (so_done o'));
    sr_done : forall x, In x (so_done o) -> In x (so_done o');
    sr_tf : TF (tr s) (tr s');
    sr_cons : (length (st_inbox (tr s)) + length (so_read o)
               = length (st_inbox (tr s')) + length (so_read o'))%nat;
    sr_dropped : dropped s' = dropped s;
    sr_fin : (finished s' = finished s /\ so_disp o' = so_disp o) \/
             (finished s = None /\ exists d, finished s' = Some d /\ so_disp o' = Some d) }.

  Lemma SR_refl s o : SR s o s o.
  Proof. constructor; auto using TF_refl. Qed.
  Lemma SR_trans s1 o1 s2 o2 s3 o3 : SR s1 o1 s2 o2 -> SR s2 o2 s3 o3 -> SR s1 o1 s3 o3.
  Proof.
    intros [A1 A2 A3 A4 A5 A6 A7 A8] [B1 B2 B3 B4 B5 B6 B7 B8].
    constructor; [congruence|congruence| |auto| | |congruence|].
    - intros j Hj. destruct (B3 j Hj) as [X|X]; [|right; exact X].
      destruct (A3 j X) as [Y|Y]; [left; exact Y|right].
      apply in_map_iff in Y. destruct Y as (x & <- & Hx). apply in_map, B4, Hx.
    - eapply TF_trans; eassumption.
    - lia.
    - destruct A8 as [[F1 D1]|(F1 & d & F2 & D2)]; destruct B8 as [[G1 E1]|(G1 & e & G2 & E2)].
      + left. split; congruence.
      + right. split; [congruence|]. exists e. split; [exact G2|exact E2].
      + right. split; [exact F1|]. exists d. split; congruence.
      + congruence.
  Qed.

  Lemma fd_poll_dispatch f s r s1 :
    poll_dispatch stp f s = (r, s1) -> finished s1 = finished s /\ dropped s1 = dropped s.
  Proof.
    unfold poll_dispatch. intro H. destruct (terminal s) as [a|].
    - pose proof (if_p _ _ (IFrame_shut_down s a)) as F. destruct (shut_down s a) as [b s']. cbn [snd] in F.
      destruct b; injection H as _ <-; split; apply F.
    - destruct (run_loop stp f s) as [rr s'] eqn:Er. apply PFrame_run_loop in Er.
      destruct rr as [|a| |]; try (injection H as _ <-; split; apply Er).
      pose proof (if_p _ _ (IFrame_shut_down (upd_term s' (Some a)) a)) as F.
      destruct (shut_down _ a) as [b s3]. cbn [snd] in F.
      assert (s1 = s3) by (destruct b; congruence). subst s1.
      rewrite (pf_finished _ _ F), (pf_dropped _ _ F). split; apply Er.
  Qed.

  Lemma SR_disp_half s o s1 o1 : disp_half stp sfuel s o = (s1, o1) -> SR s o s1 o1.
  Proof.
    unfold disp_half. intro H.
    destruct (finished s) eqn:Ef; [injection H as <- <-; apply SR_refl|].
    destruct (dropped s) eqn:Ed; [injection H as <- <-; apply SR_refl|].
    set (s0 := upd_tr s (tr s) (fused s) []) in *.
    destruct (poll_dispatch stp (sfuel s0) s0) as [res s'] eqn:Ep. injection H as <- <-.
    pose proof (DR_poll_dispatch _ _ _ _ Ep) as D. destruct (fd_poll_dispatch _ _ _ _ Ep) as [F1 F2].
    assert (Ec : calls (after_pd res s') = calls s') by (unfold after_pd; destruct res; reflexivity).
    constructor; cbn [so_done so_read so_disp].
    - unfold after_pd. destruct res; apply (dr_handles _ _ D).
    - rewrite Ec. apply (dr_len _ _ D).
    - intros j Hj. left. apply (DR_nl s0 s' j D). unfold nl in *. rewrite Ec in Hj. exact Hj.
    - auto.
    - unfold after_pd. destruct res; apply (dr_tf _ _ D).
    - pose proof (dr_cons _ _ D) as C. cbn [tr plog s0 upd_tr] in C. rewrite app_length.
      assert (Et : tr (after_pd res s') = tr s') by (unfold after_pd; destruct res; reflexivity).
      rewrite Et. cbn [length] in C. unfold reads_of in C at 1. cbn in C. lia.
    - unfold after_pd. destruct res; cbn [dropped upd_tr upd_fin]; rewrite F2; reflexivity.
    - unfold after_pd. destruct res as [d| |]; cbn [finished upd_tr upd_fin].
      + right. split; [exact Ef|]. exists d. auto.
      + left. rewrite F1. split; reflexivity.
      + left. rewrite F1. split; reflexivity.
  Qed.

  Lemma SR_poll_calls n : forall s i acc s2 dn,
    poll_calls s i n acc = (s2, dn) ->
    handles s2 = handles s /\ length (calls s2) = length (calls s) /\
    (forall j, nl s2 j -> nl s j \/ In j (map fst dn)) /\ (forall x, In x acc -> In x dn) /\
    tr s2 = tr s /\ dropped s2 = dropped s /\ finished s2 = finished s.
  Proof.
    induction n as [|n IH]; intros s i acc s2 dn H.
    - cbn in H. injection H as <- <-. repeat split; auto.
    - rewrite poll_calls_step in H.
      destruct (match nth_error (calls s) i with Some c => is_live (c_phase c) | None => false end);
        [|apply IH in H; exact H].
      pose proof (UFrame_poll_call s i) as U. pose proof (tr_poll_call s i) as Et.
      destruct (poll_call s i) as [r s1] eqn:Ep. cbn [snd] in U, Et.
      destruct (poll_call_eff _ _ _ _ Ep) as [C _].
      apply IH in H. destruct H as (A1 & A2 & A3 & A4 & A5 & A6 & A7).
      split; [rewrite A1; apply C|]. split; [rewrite A2; apply C|].
      split; [|split; [|split; [congruence|split; [rewrite A6; apply U|rewrite A7; apply U]]]].
      + intros j Hj. destruct (A3 j Hj) as [X|X]; [|right; exact X].
        destruct (nl_poll_call _ _ _ _ Ep j X) as [Y|[-> [o ->]]]; [left; exact Y|right].
        apply in_map_iff. exists (i, o). split; [reflexivity|]. apply A4, in_or_app. right. left. reflexivity.
      + intros x Hx. apply A4. destruct r; try exact Hx. apply in_or_app. left. exact Hx.
  Qed.

  Lemma SR_round s o s2 o2 q : round stp sfuel s o = (s2, o2, q) -> SR s o s2 o2.
  Proof.
    unfold round. intro H.
    destruct (disp_half stp sfuel s o) as [s1 o1] eqn:Ed.
    destruct (poll_calls s1 0 (length (calls s1)) []) as [s2' dn] eqn:Ec.
    apply pair_equal_spec in H. destruct H as [H _].
    apply pair_equal_spec in H. destruct H as [<- <-].
    eapply SR_trans; [eapply SR_disp_half, Ed|].
    destruct (SR_poll_calls _ _ _ _ _ _ Ec) as (A1 & A2 & A3 & A4 & A5 & A6 & A7).
    constructor; cbn [so_done so_read so_disp]; auto.
    - intros j Hj. destruct (A3 j Hj) as [X|X]; [left; exact X|right].
      rewrite map_app. apply in_or_app. right. exact X.
    - intros x Hx. apply in_or_app. left. exact Hx.
    - rewrite A5. apply TF_refl.
    - rewrite A5. reflexivity.
  Qed.

  Lemma SR_settle n : forall s o s' r, settle stp sfuel n s o = (s', r) -> SR s o s' r.
  Proof.
    induction n as [|n IH]; intros s o s' r H.
    - cbn in H. injection H as <- <-. constructor; cbn; auto using TF_refl.
    - rewrite settle_S in H. destruct (round stp sfuel s o) as [[s2 o2] q] eqn:Er.
      apply SR_round in Er. destruct q; [injection H as <- <-; exact Er|].
      eapply SR_trans; [exact Er|apply IH, H].
  Qed.
End SettleRel.

(* ================================================================== the C02 conclusions on a settled
   state (the proofs of c02_dead_holds / c02_quiescent_holds of ClientWakeProofs.v, on any state
   with the invariant and a quiet last round; writability only as `Wp`) *)
Section Settled.
  Implicit Types s : sstate.

  Lemma dead_state s :
    Inv s -> QF stp sfuel s -> (exists a, finished s = Some (DErr a)) \/ dropped s = true ->
    forall i k, nth_error (calls s) i = Some k -> is_live (c_phase k) = false.
  Proof.
    intros I Q Hdead i k Ek.
    destruct (is_live (c_phase k)) eqn:Hl; [exfalso|reflexivity].
    destruct (r_dead _ (iv_r _ I) Hdead) as (Hc & Hq & Hi).
    destruct (qf_calls _ _ _ Q i k Ek Hl) as [Hp|(Hp & Hv & Ht)].
    - pose proof (w_in _ _ (ix_w _ (iv_x _ I)) i k Ek Hp) as X.
      rewrite (w_closed _ _ (ix_w _ (iv_x _ I)) Hc) in X. exact X.
    - destruct (iv_l _ I i k Ek Hp) as [L|[L|[L|L]]].
      + rewrite Hq in L. exact L.
      + rewrite Hi in L. exact L.
      + contradiction.
      + congruence.
  Qed.

  Lemma last_poll s :
    QF stp sfuel s -> finished s = None -> dropped s = false ->
    exists sa sb, Inv sa /\ run_loop stp (sfuel sa) sa = (RunPending, sb) /\
      s = after_pd DPending sb /\ sends_of (plog sb) = [] /\ reads_of (plog sb) = [] /\
      length (inflight sb) = length (inflight sa) /\ terminal sb = None.
  Proof.
    intros Q Hf Hd.
    destruct (qf_disp _ _ _ Q Hf Hd) as (sa & sb & Ia & Pa & Ta & Ep & Es & Qs & Qr & Ln & Tb).
    exists sa, sb. repeat (split; [assumption|]). split; [|auto].
    unfold poll_dispatch in Ep. rewrite Ta in Ep.
    destruct (run_loop stp (sfuel sa) sa) as [rr s1] eqn:Er.
    destruct rr as [|a| |]; try discriminate; [|injection Ep as ->; reflexivity].
    exfalso. destruct (shut_down (upd_term s1 (Some a)) a) as [b s2] eqn:E2.
    pose proof (pf_terminal _ _ (PFrame_shut_down _ _ _ _ E2)) as X. cbn [terminal upd_term] in X.
    assert (s2 = sb) by (destruct b; congruence). subst s2. congruence.
  Qed.

  Lemma inbox_state s :
    QF stp sfuel s -> finished s = None -> dropped s = false -> st_inbox (tr s) = [].
  Proof.
    intros Q Hf Hd. destruct (last_poll s Q Hf Hd) as (sa & sb & _ & Er & Es & _).
    rewrite Es. unfold after_pd. cbn [tr upd_tr]. eapply pending_inbox, Er.
  Qed.

  Lemma quiescent_state s :
    Inv s -> QF stp sfuel s -> (1 <= q_cap s)%nat -> (1 <= max_if s)%nat -> Wp (tr s) ->
    finished s = None -> dropped s = false ->
    forall i k, nth_error (calls s) i = Some k -> is_live (c_phase k) = true -> inflight s <> [].
  Proof.
    intros I Q Hq1 Hm1 HWr Hf Hd i k Ek Hl.
    destruct (last_poll s Q Hf Hd) as (sa & sb & Ia & Er & Es & Qs & Qr & Ln & Tb).
    assert (HWb : Wp (tr sb)) by (rewrite Es in HWr; exact HWr).
    destruct (quiet_run _ _ _ Er (conj Qs Qr) (iv_k _ Ia) Ln HWb) as [Hfut Hfull].
    assert (Efull : queue s <> [] -> (max_if s <= length (inflight s))%nat) by (rewrite Es; exact Hfull).
    assert (Tn : terminal s = None) by (rewrite Es; exact Tb).
    pose proof (iv_x _ I) as X. pose proof (ix_w _ X) as W.
    assert (Hopen : rx_closed s = false).
    { destruct (rx_closed s) eqn:Ec; [|reflexivity]. destruct (r_closed _ (iv_r _ I) Ec); congruence. }
    assert (Hfullc : queue s <> [] -> inflight s <> []).
    { intro Hne. specialize (Efull Hne). intro E0. rewrite E0 in Efull. cbn in Efull. lia. }
    destruct (qf_calls _ _ _ Q i k Ek Hl) as [Hp|(Hp & Hv & Ht)].
    - apply Hfullc. intro Hq0.
      pose proof (w_in _ _ W i k Ek Hp) as Hwi.
      assert (Hwn : waiters s <> []) by (intro E0; rewrite E0 in Hwi; exact Hwi).
      pose proof (w_perm _ _ W Hopen Hwn) as Hp0. pose proof (w_acct _ _ W Hopen) as Ha.
      assert (Hz : count is_asg (calls s) = 0%nat).
      { destruct (count is_asg (calls s)) eqn:E0; [reflexivity|exfalso].
        destruct (count_ex is_asg (calls s)) as (j & kj & Ej & Hj); [lia|].
        unfold is_asg in Hj. destruct (c_phase kj) eqn:Hpj; try discriminate.
        destruct (qf_calls _ _ _ Q j kj Ej) as [Y|[Y _]]; [rewrite Hpj; reflexivity|congruence|congruence]. }
      rewrite Hq0, Hp0, Hz in Ha. cbn in Ha. lia.
    - destruct (iv_l _ I i k Ek Hp) as [L|[L|[L|L]]].
      + apply Hfullc. intro E0. rewrite E0 in L. exact L.
      + intro E0. rewrite E0 in L. exact L.
      + contradiction.
      + congruence.
  Qed.
End Settled.

(* ================================================================== observer <-> model *)
Lemma memn_cons x i l : memn x (i :: l) = Nat.eqb x i || memn x l.
Proof. reflexivity. Qed.
Lemma memn_app x l1 l2 : memn x (l1 ++ l2) = memn x l1 || memn x l2.
Proof. unfold memn. apply existsb_app. Qed.
Lemma memn_In x l : memn x l = true <-> In x l.
Proof.
  unfold memn. rewrite existsb_exists. split.
  - intros (y & Hin & He). apply Nat.eqb_eq in He. subst. exact Hin.
  - intro H. exists x. split; [exact H|apply Nat.eqb_refl].
Qed.

Section MonRel.
  Implicit Types (s : sstate) (m : wmon).
  Variable c : ccfg.

  Definition mdead s : Prop := (exists a, finished s = Some (DErr a)) \/ dropped s = true.

  Record MR m s : Prop := {
    mr_inv : Inv s;
    mr_qcap : q_cap s = cf_qcap c;
    mr_maxif : max_if s = cf_maxif c;
    mr_cap : st_cap (tr s) = cf_cap c;
    mr_coupled : st_coupled (tr s) = cf_coupled c;
    mr_handles : wm_handles m = handles s;
    mr_calls : wm_calls m = length (calls s);
    mr_live : length (wm_live m) = wm_calls m;
    mr_acc : forall j, nl s j ->
               nth j (wm_live m) false = false \/ memn j (wm_done m) = true \/
               memn j (wm_dropped m) = true;
    mr_alive : wm_ended m = false -> finished s = None /\ dropped s = false;
    mr_dead : wm_dead m = true -> mdead s;
    mr_ready : st_ready (tr s) = wm_ready m;
    mr_flush : st_flushok (tr s) = wm_flush m;
    mr_clean : wm_tainted m = false ->
               st_fail_ready (tr s) = false /\ st_fail_send (tr s) = false /\
               st_fail_flush (tr s) = false /\ st_fail_close (tr s) = false /\
               st_fail_next (tr s) = false /\ st_eof (tr s) = false /\
               wm_delivered m = (wm_read m + length (st_inbox (tr s)))%nat }.

  Lemma unresolved_live m s :
    MR m s -> wm_unresolved m = true ->
    exists i k, nth_error (calls s) i = Some k /\ is_live (c_phase k) = true.
  Proof.
    intros R H. unfold wm_unresolved in H. apply existsb_exists in H.
    destruct H as (i & Hin & Hi). apply in_seq in Hin. rewrite (mr_calls _ _ R) in Hin.
    destruct (nth_error (calls s) i) as [k|] eqn:Ek;
      [|apply nth_error_None in Ek; lia].
    exists i, k. split; [exact Ek|]. destruct (is_live (c_phase k)) eqn:Hl; [reflexivity|exfalso].
    apply andb_true_iff in Hi. destruct Hi as [Hi H3]. apply andb_true_iff in Hi. destruct Hi as [H1 H2].
    destruct (mr_acc _ _ R i) as [X|[X|X]]; [exists k; auto|..]; rewrite X in *; discriminate.
  Qed.

  (* an op that leaves the transport alone *)
  Lemma MR_upd m s m' s' :
    MR m s -> Inv s' -> q_cap s' = q_cap s -> max_if s' = max_if s -> tr s' = tr s ->
    wm_handles m' = handles s' -> wm_calls m' = length (calls s') ->
    length (wm_live m') = wm_calls m' ->
    (forall j, nl s' j -> nth j (wm_live m') false = false \/ memn j (wm_done m') = true \/
                          memn j (wm_dropped m') = true) ->
    (wm_ended m' = false -> finished s' = None /\ dropped s' = false) ->
    (wm_dead m' = true -> mdead s') ->
    wm_ready m' = wm_ready m -> wm_flush m' = wm_flush m -> wm_tainted m' = wm_tainted m ->
    wm_delivered m' = wm_delivered m -> wm_read m' = wm_read m -> MR m' s'.
  Proof.
    intros R I E1 E2 E3 H1 H2 H3 H4 H5 H6 F1 F2 F3 F4 F5. destruct R.
    constructor; rewrite ?E1, ?E2, ?E3, ?F1, ?F2, ?F3, ?F4, ?F5; assumption.
  Qed.

  (* ---------------------------------------------------------------- WSettle *)
  Lemma TF_clean (t t' : stransport resp) :
    TF t t' ->
    st_fail_ready t = false /\ st_fail_send t = false /\ st_fail_flush t = false /\
    st_fail_close t = false /\ st_fail_next t = false /\ st_eof t = false ->
    st_fail_ready t' = false /\ st_fail_send t' = false /\ st_fail_flush t' = false /\
    st_fail_close t' = false /\ st_fail_next t' = false /\ st_eof t' = false.
  Proof.
    intros [T1 T2 T3 T4 T5 T6 T7 T8 T9 T10] (A & B & C & D & E & F).
    repeat split; try congruence; apply Bool.not_true_is_false; intro X;
      first [apply T6 in X|apply T7 in X|apply T8 in X|apply T9 in X|apply T10 in X]; congruence.
  Qed.

  Definition settle_mon m (r : sobs) : wmon :=
    {| wm_calls := wm_calls m; wm_live := wm_live m; wm_done := map fst (so_done r) ++ wm_done m;
       wm_dropped := wm_dropped m; wm_handles := wm_handles m;
       wm_dead := match so_disp r with Some (DErr _) => true | _ => wm_dead m end;
       wm_ended := match so_disp r with Some _ => true | None => wm_ended m end;
       wm_ready := wm_ready m; wm_flush := wm_flush m; wm_tainted := wm_tainted m;
       wm_delivered := wm_delivered m; wm_read := wm_read m + length (so_read r) |}.

  Lemma MR_settle m s s1 r :
    MR m s -> NW s ->
    settle stp sfuel (rounds_of s + length (st_inbox (tr s))) s sobs0 = (s1, r) ->
    so_fuel r = false /\ MR (settle_mon m r) s1 /\ QF stp sfuel s1.
  Proof.
    intros R Hnw Es. pose proof (mr_inv _ _ R) as I.
    pose proof (settle_no_fuel _ _ _ I Hnw Es) as Hf. split; [exact Hf|].
    pose proof (SR_settle _ _ _ _ _ Es) as [A1 A2 A3 A4 A5 A6 A7 A8].
    pose proof (settle_Inv stp sfuel (rounds_of s + length (st_inbox (tr s))) s sobs0 I Hnw) as [I1 _].
    rewrite Es in I1. cbn [fst] in I1.
    pose proof (CF_settle stp sfuel (rounds_of s + length (st_inbox (tr s))) s sobs0) as [C1 C2].
    rewrite Es in C1, C2. cbn [fst] in C1, C2.
    split; [|eapply settle_quiet; eassumption].
    destruct R. cbn [so_disp sobs0 so_read length] in *.
    constructor; cbn [settle_mon wm_calls wm_live wm_done wm_dropped wm_handles wm_dead wm_ended
                      wm_ready wm_flush wm_tainted wm_delivered wm_read].
    - exact I1.
    - congruence.
    - congruence.
    - rewrite (tf_cap _ _ A5). assumption.
    - rewrite (tf_coupled _ _ A5). assumption.
    - congruence.
    - congruence.
    - assumption.
    - intros j Hj. rewrite memn_app. destruct (A3 j Hj) as [X|X].
      + destruct (mr_acc0 j X) as [Y|[Y|Y]]; auto. right; left. rewrite Y. apply orb_true_r.
      + right; left. apply memn_In in X. rewrite X. reflexivity.
    - destruct (so_disp r) eqn:Ed; [discriminate|]. intro He. destruct (mr_alive0 He) as [F1 F2].
      split; [|congruence]. destruct A8 as [[X _]|(_ & d & _ & X)]; congruence.
    - intro Hd. destruct A8 as [[X Y]|(X & d & Y & Z)].
      + rewrite Y in Hd. destruct (mr_dead0 Hd) as [[a Ha]|Ha]; [left; exists a; congruence|right; congruence].
      + rewrite Z in Hd. destruct d as [|a].
        * destruct (mr_dead0 Hd) as [[a Ha]|Ha]; [congruence|right; congruence].
        * left. exists a. exact Y.
    - rewrite (tf_ready _ _ A5). assumption.
    - rewrite (tf_flushok _ _ A5). assumption.
    - intro Ht. destruct (mr_clean0 Ht) as (B1 & B2 & B3 & B4 & B5 & B6 & B7).
      destruct (TF_clean _ _ A5 (conj B1 (conj B2 (conj B3 (conj B4 (conj B5 B6)))))) as (D1 & D2 & D3 & D4 & D5 & D6).
      repeat (split; [assumption|]). alia.
  Qed.

  (* the three clauses checked after a settle *)
  Lemma settle_clauses m s a :
    MR m s -> QF stp sfuel s -> (1 <= cf_qcap c)%nat -> a = N.of_nat (length (inflight s)) ->
    (negb (wm_dead m) || negb (wm_unresolved m))
    && (negb (negb (wm_ended m) && (wm_ready m && wm_flush m && negb (wm_tainted m)
                                    && (Nat.eqb (cf_cap c) 0 || cf_coupled c))
              && wm_unresolved m && (1 <=? cf_maxif c)%nat) || (1 <=? a)%N)
    && (wm_ended m || wm_tainted m || Nat.eqb (wm_delivered m) (wm_read m)) = true.
  Proof.
    intros R Q Hq ->. pose proof (mr_inv _ _ R) as I.
    apply andb_true_iff. split; [apply andb_true_iff; split|].
    - (* (b) *)
      destruct (wm_dead m) eqn:Hd; [|reflexivity]. cbn [negb orb].
      destruct (wm_unresolved m) eqn:Hu; [exfalso|reflexivity].
      destruct (unresolved_live _ _ R Hu) as (i & k & Ek & Hl).
      rewrite (dead_state s I Q (mr_dead _ _ R Hd) i k Ek) in Hl. discriminate.
    - (* (c) *)
      destruct (wm_ended m) eqn:He; [reflexivity|]. cbn [negb andb].
      destruct (wm_ready m) eqn:Hr; [|reflexivity]. destruct (wm_flush m) eqn:Hfl; [|reflexivity].
      destruct (wm_tainted m) eqn:Ht; [reflexivity|]. cbn [negb andb].
      destruct (Nat.eqb (cf_cap c) 0 || cf_coupled c) eqn:Hc; [|reflexivity]. cbn [andb].
      destruct (wm_unresolved m) eqn:Hu; [|reflexivity]. cbn [andb].
      destruct (1 <=? cf_maxif c)%nat eqn:Hm; [|reflexivity]. cbn [negb orb].
      apply Nat.leb_le in Hm.
      destruct (mr_alive _ _ R He) as [Hf Hdr].
      destruct (unresolved_live _ _ R Hu) as (i & k & Ek & Hl).
      destruct (mr_clean _ _ R Ht) as (B1 & B2 & B3 & B4 & B5 & B6 & _).
      assert (HW : Wp (tr s)).
      { unfold Wp. rewrite (mr_ready _ _ R), (mr_flush _ _ R), (mr_cap _ _ R), (mr_coupled _ _ R).
        repeat (split; [assumption|]). apply orb_true_iff in Hc. destruct Hc as [Hc|Hc].
        - left. apply Nat.eqb_eq, Hc.
        - right; left. exact Hc. }
      assert (Hne : inflight s <> []).
      { eapply (quiescent_state s I Q); try eassumption.
        - rewrite (mr_qcap _ _ R). exact Hq.
        - rewrite (mr_maxif _ _ R). exact Hm. }
      apply N.leb_le. destruct (inflight s); [congruence|cbn [length]; alia].
    - (* (d) *)
      destruct (wm_ended m) eqn:He; [reflexivity|]. destruct (wm_tainted m) eqn:Ht; [reflexivity|].
      cbn [orb]. destruct (mr_alive _ _ R He) as [Hf Hdr].
      destruct (mr_clean _ _ R Ht) as (_ & _ & _ & _ & _ & _ & B7).
      rewrite (inbox_state s Q Hf Hdr) in B7. cbn [length] in B7. apply Nat.eqb_eq. alia.
  Qed.
End MonRel.

(* ================================================================== explicit ops *)
Lemma set_nth_noop {A} (h : nat) (x : A) (l : list A) :
  nth_error l h = None \/ nth_error l h = Some x -> set_nth h x l = l.
Proof.
  revert h; induction l as [|y r IH]; intros [|h]; cbn; try reflexivity.
  - intros [H|H]; [discriminate|injection H as ->; reflexivity].
  - intro H. rewrite (IH h H). reflexivity.
Qed.

Definition op_mon (m : wmon) (o : sop) (l : list obs) : wmon :=
  let m1 := wm_op m o in
  match o, l with
  | SPollCall i, [OCall (CDone _)] =>
    {| wm_calls := wm_calls m1; wm_live := wm_live m1; wm_done := i :: wm_done m1; wm_dropped := wm_dropped m1; wm_handles := wm_handles m1; wm_dead := wm_dead m1; wm_ended := wm_ended m1; wm_ready := wm_ready m1; wm_flush := wm_flush m1; wm_tainted := wm_tainted m1; wm_delivered := wm_delivered m1; wm_read := wm_read m1 |}
  | SPollD, [OCalls cl; ODisp r; _] =>
    {| wm_calls := wm_calls m1; wm_live := wm_live m1; wm_done := wm_done m1; wm_dropped := wm_dropped m1; wm_handles := wm_handles m1; wm_dead := match r with DReady (DErr _) => true | _ => wm_dead m1 end; wm_ended := match r with DReady _ => true | _ => wm_ended m1 end; wm_ready := wm_ready m1; wm_flush := wm_flush m1; wm_tainted := wm_tainted m1; wm_delivered := wm_delivered m1; wm_read := wm_read m1 + length (reads_of cl) |}
  | _, _ => m1
  end.

Definition no_panic (l : list obs) : bool :=
  negb (existsb (fun x => match x with OPanic | OSpin => true | _ => false end) l).

Section OpRel.
  Implicit Types (s : sstate) (m : wmon).
  Variable c : ccfg.

  Lemma nl_calls_eq s s' j : calls s' = calls s -> nl s' j -> nl s j.
  Proof. unfold nl. intros ->. auto. Qed.

  Lemma MR_op m s o s1 l :
    MR c m s -> NW s -> step stp sfuel s (to_op o) = (s1, l) ->
    no_panic l = true /\ MR c (op_mon m o l) s1.
  Proof.
    intros R Hnw H. pose proof (mr_inv _ _ _ R) as I.
    pose proof (Inv_step stp sfuel s (to_op o) I Hnw) as I1. rewrite H in I1. cbn [fst] in I1.
    pose proof (CF_step stp sfuel s (to_op o)) as [C1 C2]. rewrite H in C1, C2. cbn [fst] in C1, C2.
    destruct o; cbn [to_op step] in H.
    - (* SClone *)
      injection H as <- <-. split; [reflexivity|]. unfold op_mon. cbn [wm_op].
      rewrite (mr_handles _ _ _ R).
      destruct (nth_error (handles s) h) as [[|]|] eqn:Eh; try exact R.
      eapply (MR_upd c m s); try exact R; try exact I1; try reflexivity; try apply R.
    - (* SDropH *)
      injection H as <- <-. split; [reflexivity|]. unfold op_mon. cbn [wm_op].
      destruct (nth_error (handles s) h) as [[|]|] eqn:Eh.
      + eapply (MR_upd c m s); try exact R; try exact I1; try reflexivity; try apply R.
        cbn. rewrite (mr_handles _ _ _ R). reflexivity.
      + eapply (MR_upd c m s); try exact R; try exact I1; try reflexivity; try apply R.
        cbn. rewrite (mr_handles _ _ _ R). apply set_nth_noop. right. exact Eh.
      + eapply (MR_upd c m s); try exact R; try exact I1; try reflexivity; try apply R.
        cbn. rewrite (mr_handles _ _ _ R). apply set_nth_noop. left. exact Eh.
    - (* SCall *)
      injection H as <- <-. split; [reflexivity|]. unfold op_mon. cbn [wm_op].
      rewrite (mr_handles _ _ _ R).
      set (alive := match nth_error (handles s) h with Some true => true | _ => false end).
      eapply (MR_upd c m s); try exact R; try exact I1; try reflexivity;
        cbn [wm_handles wm_calls wm_live wm_done wm_dropped wm_ended wm_dead calls upd_calls handles
             finished dropped]; try apply R.
      + rewrite app_length, (mr_calls _ _ _ R). cbn. lia.
      + rewrite app_length, (mr_live _ _ _ R). cbn. lia.
      + intros j (k & Ek & Hl). cbn [calls upd_calls] in Ek.
        pose proof (mr_live _ _ _ R) as Ll. pose proof (mr_calls _ _ _ R) as Lc.
        destruct (Nat.lt_ge_cases j (length (calls s))) as [Hlt|Hge].
        * rewrite nth_error_app1 in Ek by exact Hlt. rewrite app_nth1 by lia.
          apply (mr_acc _ _ _ R). exists k. auto.
        * assert (j = length (calls s)).
          { assert (nth_error (calls s ++ [
              {| c_handle := h; c_phase := match nth_error (handles s) h with Some true => PNew | _ => PGone end;
                 c_id := 0; c_rel := d; c_deadline := (now s + d)%N;
                 c_tc := {| tc_tid := tid; tc_sid := 0; tc_sampled := sampled |}; c_body := body |}]) j <> None)
              by congruence.
            apply nth_error_Some in H. rewrite app_length in H. cbn in H. lia. }
          subst j. left. rewrite app_nth2 by lia. rewrite Ll, Lc, Nat.sub_diag. cbn [nth].
          rewrite nth_error_app2 in Ek by lia. rewrite Nat.sub_diag in Ek. cbn in Ek.
          injection Ek as <-. cbn [c_phase] in Hl. unfold alive.
          destruct (nth_error (handles s) h) as [[|]|]; try reflexivity. discriminate.
    - (* SPollCall *)
      pose proof (tr_poll_call s i) as Et. pose proof (UFrame_poll_call s i) as U.
      destruct (poll_call s i) as [r s1'] eqn:Ep. cbn [snd] in Et, U. injection H as <- <-.
      destruct (poll_call_eff _ _ _ _ Ep) as [Ch1 _].
      split; [destruct r; reflexivity|].
      assert (Hnl : forall j, nl s1' j -> nl s j \/ (j = i /\ exists o, r = CDone o))
        by (apply (nl_poll_call _ _ _ _ Ep)).
      destruct r as [|o|]; unfold op_mon; cbn [wm_op].
      + eapply (MR_upd c m s); try exact R; try exact I1; try reflexivity; try assumption; try apply R.
        * rewrite (mr_handles _ _ _ R). symmetry. apply Ch1.
        * rewrite (mr_calls _ _ _ R). symmetry. apply Ch1.
        * intros j Hj. destruct (Hnl j Hj) as [X|[_ [o X]]]; [apply (mr_acc _ _ _ R), X|discriminate].
        * intro He. rewrite (uf_finished _ _ U), (uf_dropped _ _ U). apply (mr_alive _ _ _ R He).
        * intro Hd. unfold mdead. rewrite (uf_finished _ _ U), (uf_dropped _ _ U). apply (mr_dead _ _ _ R Hd).
      + eapply (MR_upd c m s); try exact R; try exact I1; try reflexivity; try assumption;
          cbn [wm_handles wm_calls wm_live wm_done wm_dropped wm_ended wm_dead]; try apply R.
        * rewrite (mr_handles _ _ _ R). symmetry. apply Ch1.
        * rewrite (mr_calls _ _ _ R). symmetry. apply Ch1.
        * intros j Hj. rewrite memn_cons. destruct (Hnl j Hj) as [X|[-> _]].
          -- destruct (mr_acc _ _ _ R j X) as [Y|[Y|Y]]; auto. right; left. rewrite Y. apply orb_true_r.
          -- right; left. rewrite Nat.eqb_refl. reflexivity.
        * intro He. rewrite (uf_finished _ _ U), (uf_dropped _ _ U). apply (mr_alive _ _ _ R He).
        * intro Hd. unfold mdead. rewrite (uf_finished _ _ U), (uf_dropped _ _ U). apply (mr_dead _ _ _ R Hd).
      + eapply (MR_upd c m s); try exact R; try exact I1; try reflexivity; try assumption; try apply R.
        * rewrite (mr_handles _ _ _ R). symmetry. apply Ch1.
        * rewrite (mr_calls _ _ _ R). symmetry. apply Ch1.
        * intros j Hj. destruct (Hnl j Hj) as [X|[_ [o X]]]; [apply (mr_acc _ _ _ R), X|discriminate].
        * intro He. rewrite (uf_finished _ _ U), (uf_dropped _ _ U). apply (mr_alive _ _ _ R He).
        * intro Hd. unfold mdead. rewrite (uf_finished _ _ U), (uf_dropped _ _ U). apply (mr_dead _ _ _ R Hd).
    - (* SDropCall *)
      injection H as <- <-. split; [reflexivity|]. unfold op_mon. cbn [wm_op].
      set (s1 := match option_map c_phase (nth_error (calls s) i) with
                 | Some PClosing => s | _ => guard_cancel (guard_close s i) i end) in *.
      destruct (guard_close_eff s i (winv_of_Inv s I)) as [Cg _].
      destruct (guard_cancel_eff (guard_close s i) i) as [Cc _].
      pose proof (Ch_trans _ _ _ _ Cg Cc) as Ch2.
      assert (Ch1 : Ch i s s1) by (unfold s1; destruct (option_map _ _) as [[]|]; try exact Ch2; apply Ch_refl).
      assert (Et : tr s1 = tr s).
      { unfold s1; destruct (option_map _ _) as [[]|]; try reflexivity;
          rewrite tr_guard_cancel, tr_guard_close; reflexivity. }
      assert (U : UFrame s s1).
      { unfold s1; destruct (option_map _ _) as [[]|]; try apply UFrame_refl;
          (eapply UFrame_trans; [apply UFrame_guard_close|apply UFrame_guard_cancel]). }
      eapply (MR_upd c m s); try exact R; try exact I1; try reflexivity; try assumption;
        cbn [wm_handles wm_calls wm_live wm_done wm_dropped wm_ended wm_dead]; try apply R.
      + rewrite (mr_handles _ _ _ R). symmetry. apply Ch1.
      + rewrite (mr_calls _ _ _ R). symmetry. apply Ch1.
      + intros j Hj. rewrite memn_cons. destruct (Nat.eq_dec j i) as [->|Hne].
        * right; right. rewrite Nat.eqb_refl. reflexivity.
        * destruct (mr_acc _ _ _ R j (Ch_nl _ _ _ _ Ch1 Hne Hj)) as [Y|[Y|Y]]; auto.
          right; right. rewrite Y. apply orb_true_r.
      + intro He. rewrite (uf_finished _ _ U), (uf_dropped _ _ U). apply (mr_alive _ _ _ R He).
      + intro Hd. unfold mdead. rewrite (uf_finished _ _ U), (uf_dropped _ _ U). apply (mr_dead _ _ _ R Hd).
    - (* SGClose *)
      injection H as <- <-. split; [reflexivity|]. unfold op_mon. cbn [wm_op].
      set (s1 := match option_map c_phase (nth_error (calls s) i) with
                 | Some PClosing => s | _ => guard_close s i end) in *.
      destruct (guard_close_eff s i (winv_of_Inv s I)) as [Cg _].
      assert (Ch1 : Ch i s s1) by (unfold s1; destruct (option_map _ _) as [[]|]; try exact Cg; apply Ch_refl).
      assert (Et : tr s1 = tr s).
      { unfold s1; destruct (option_map _ _) as [[]|]; try reflexivity; apply tr_guard_close. }
      assert (U : UFrame s s1).
      { unfold s1; destruct (option_map _ _) as [[]|]; try apply UFrame_refl; apply UFrame_guard_close. }
      eapply (MR_upd c m s); try exact R; try exact I1; try reflexivity; try assumption;
        cbn [wm_handles wm_calls wm_live wm_done wm_dropped wm_ended wm_dead]; try apply R.
      + rewrite (mr_handles _ _ _ R). symmetry. apply Ch1.
      + rewrite (mr_calls _ _ _ R). symmetry. apply Ch1.
      + intros j Hj. rewrite memn_cons. destruct (Nat.eq_dec j i) as [->|Hne].
        * right; right. rewrite Nat.eqb_refl. reflexivity.
        * destruct (mr_acc _ _ _ R j (Ch_nl _ _ _ _ Ch1 Hne Hj)) as [Y|[Y|Y]]; auto.
          right; right. rewrite Y. apply orb_true_r.
      + intro He. rewrite (uf_finished _ _ U), (uf_dropped _ _ U). apply (mr_alive _ _ _ R He).
      + intro Hd. unfold mdead. rewrite (uf_finished _ _ U), (uf_dropped _ _ U). apply (mr_dead _ _ _ R Hd).
    - (* SGCancel *)
      injection H as <- <-. split; [reflexivity|]. unfold op_mon. cbn [wm_op].
      destruct (guard_cancel_eff s i) as [Cc _]. pose proof (UFrame_guard_cancel s i) as U.
      eapply (MR_upd c m s); try exact R; try exact I1; try reflexivity; try assumption; try apply R.
      + apply tr_guard_cancel.
      + rewrite (mr_handles _ _ _ R). symmetry. apply Cc.
      + rewrite (mr_calls _ _ _ R). symmetry. apply Cc.
      + intros j Hj. apply (mr_acc _ _ _ R), (nl_guard_cancel s i j Hj).
      + intro He. rewrite (uf_finished _ _ U), (uf_dropped _ _ U). apply (mr_alive _ _ _ R He).
      + intro Hd. unfold mdead. rewrite (uf_finished _ _ U), (uf_dropped _ _ U). apply (mr_dead _ _ _ R Hd).
    - (* SPollD *)
      destruct (finished s) eqn:Ef.
      { injection H as <- <-. split; [reflexivity|exact R]. }
      destruct (dropped s) eqn:Ed.
      { injection H as <- <-. split; [reflexivity|exact R]. }
      set (s0 := upd_tr s (tr s) (fused s) []) in *.
      destruct (poll_dispatch stp (sfuel s0) s0) as [r s'] eqn:Ep.
      pose proof (DR_poll_dispatch _ _ _ _ Ep) as D. destruct (fd_poll_dispatch _ _ _ _ Ep) as [F1 F2].
      set (s2 := match r with DReady d => upd_fin s' (Some d) (dropped s') | _ => s' end) in *.
      injection H as <- <-. unfold gauges. cbn [app]. split; [reflexivity|].
      unfold op_mon. cbn [wm_op].
      assert (Ec : calls s2 = calls s') by (unfold s2; destruct r; reflexivity).
      assert (Et : tr s2 = tr s') by (unfold s2; destruct r; reflexivity).
      assert (Eh : handles s2 = handles s') by (unfold s2; destruct r; reflexivity).
      destruct R.
      constructor; cbn [wm_handles wm_calls wm_live wm_done wm_dropped wm_ended wm_dead wm_ready
                        wm_flush wm_tainted wm_delivered wm_read tr calls handles finished dropped
                        q_cap max_if upd_tr].
      + exact I1.
      + cbn [q_cap upd_tr] in C1. congruence.
      + cbn [max_if upd_tr] in C2. congruence.
      + rewrite Et, (tf_cap _ _ (dr_tf _ _ D)). assumption.
      + rewrite Et, (tf_coupled _ _ (dr_tf _ _ D)). assumption.
      + rewrite Eh, (dr_handles _ _ D). assumption.
      + rewrite Ec, (dr_len _ _ D). assumption.
      + assumption.
      + intros j Hj. apply mr_acc0. apply (DR_nl s0 s' j D). unfold nl in *.
        cbn [calls upd_tr] in Hj. rewrite Ec in Hj. exact Hj.
      + intro He. unfold s2. destruct r as [d| |]; [discriminate| |];
          cbn [finished dropped]; rewrite F1, F2; auto.
      + intro Hd. unfold s2, mdead. destruct r as [[|a]| |]; cbn [finished dropped upd_fin].
        * exfalso. destruct (mr_dead0 Hd) as [[a Ha]|Ha]; [rewrite Ef in Ha|rewrite Ed in Ha]; discriminate.
        * left. exists a. reflexivity.
        * exfalso. destruct (mr_dead0 Hd) as [[a Ha]|Ha]; [rewrite Ef in Ha|rewrite Ed in Ha]; discriminate.
        * exfalso. destruct (mr_dead0 Hd) as [[a Ha]|Ha]; [rewrite Ef in Ha|rewrite Ed in Ha]; discriminate.
      + rewrite Et, (tf_ready _ _ (dr_tf _ _ D)). assumption.
      + rewrite Et, (tf_flushok _ _ (dr_tf _ _ D)). assumption.
      + intro Ht. destruct (mr_clean0 Ht) as (B1 & B2 & B3 & B4 & B5 & B6 & B7). rewrite Et.
        destruct (TF_clean _ _ (dr_tf _ _ D) (conj B1 (conj B2 (conj B3 (conj B4 (conj B5 B6))))))
          as (D1 & D2 & D3 & D4 & D5 & D6).
        repeat (split; [assumption|]).
        pose proof (dr_cons _ _ D) as Cn. cbn [tr plog s0 upd_tr] in Cn. unfold reads_of in Cn at 1.
        cbn in Cn. alia.
    - (* SDropD *)
      injection H as <- <-. split; [reflexivity|]. unfold op_mon. cbn [wm_op].
      destruct (dropped s) eqn:Ed.
      + eapply (MR_upd c m s); try exact R; try exact I1; try reflexivity; try apply R.
        * discriminate.
        * intros _. right. exact Ed.
      + assert (Ec : DR s (drop_dispatch s)).
        { unfold drop_dispatch.
          set (s1 := q_close s). set (s2 := fold_left _ (queue s1) s1). set (s3 := fold_left _ (inflight s2) s2).
          pose proof (TFrame_fold_slot_tx_drop q_id (queue s1) s1) as T2.
          pose proof (TFrame_fold_slot_tx_drop (A := N * ifentry) fst (inflight s2) s2) as T3.
          eapply DR_trans; [apply DR_q_close|]. eapply DR_trans; [apply DR_T, T2|].
          eapply DR_trans; [apply DR_T, T3|]. apply DR_same; reflexivity. }
        assert (Et : tr (drop_dispatch s) = tr s).
        { unfold drop_dispatch. cbn [tr upd_fin upd_cancels upd_if upd_q].
          rewrite (if_tr _ _ (tf_i _ _ (TFrame_fold_slot_tx_drop fst _ _))).
          rewrite (if_tr _ _ (tf_i _ _ (TFrame_fold_slot_tx_drop q_id _ _))).
          apply (if_tr _ _ (IFrame_q_close s)). }
        eapply (MR_upd c m s); try exact R; try exact I1; try reflexivity; try assumption;
          cbn [wm_handles wm_calls wm_live wm_done wm_dropped wm_ended wm_dead]; try apply R.
        * rewrite (mr_handles _ _ _ R). symmetry. apply Ec.
        * rewrite (mr_calls _ _ _ R). symmetry. apply Ec.
        * intros j Hj. apply (mr_acc _ _ _ R), (DR_nl _ _ _ Ec Hj).
        * discriminate.
        * intros _. right. reflexivity.
    - (* SAdv *)
      injection H as <- <-. split; [reflexivity|]. unfold op_mon. cbn [wm_op].
      eapply (MR_upd c m s); try exact R; try exact I1; try reflexivity; try apply R.
    - (* STr *)
      injection H as <- <-. split; [reflexivity|]. unfold op_mon.
      destruct R.
      assert (Base : forall m', wm_calls m' = wm_calls m -> wm_live m' = wm_live m ->
                wm_done m' = wm_done m -> wm_dropped m' = wm_dropped m -> wm_handles m' = wm_handles m ->
                wm_dead m' = wm_dead m -> wm_ended m' = wm_ended m ->
                st_ready (s_control (tr s) o) = wm_ready m' ->
                st_flushok (s_control (tr s) o) = wm_flush m' ->
                (wm_tainted m' = false ->
                 let t := s_control (tr s) o in
                 st_fail_ready t = false /\ st_fail_send t = false /\ st_fail_flush t = false /\
                 st_fail_close t = false /\ st_fail_next t = false /\ st_eof t = false /\
                 wm_delivered m' = (wm_read m' + length (st_inbox t))%nat) ->
                MR c m' (upd_tr s (s_control (tr s) o) (fused s) (plog s))).
      { intros m' E1 E2 E3 E4 E5 E6 E7 Hr Hfl Hcl.
        constructor; cbn [tr calls handles finished dropped q_cap max_if upd_tr];
          rewrite ?E1, ?E2, ?E3, ?E4, ?E5, ?E6, ?E7; try assumption.
        - destruct o; cbn [s_control]; try assumption; destruct (st_eof (tr s)); assumption.
        - destruct o; cbn [s_control]; try assumption; destruct (st_eof (tr s)); assumption. }
      destruct o as [x| |b|b|b|mm|k]; cbn [wm_op]; apply Base; try reflexivity;
        cbn [wm_ready wm_flush wm_tainted wm_delivered wm_read s_control];
        try assumption; try discriminate.
      + (* TDeliver *) destruct (st_eof (tr s)); assumption.
      + destruct (st_eof (tr s)); assumption.
      + intro Ht. destruct (mr_clean0 Ht) as (B1 & B2 & B3 & B4 & B5 & B6 & B7).
        rewrite B6. cbn [st_with st_fail_ready st_fail_send st_fail_flush st_fail_close st_fail_next
                         st_eof st_inbox]. rewrite app_length. cbn [length].
        repeat (split; [assumption|]). alia.
    - (* SNop *)
      injection H as <- <-. split; [reflexivity|]. unfold op_mon. cbn [wm_op].
      eapply (MR_upd c m s); try exact R; try exact I1; try reflexivity; try apply R.
  Qed.
End OpRel.

(* ================================================================== the run *)
Lemma run_mon c (Hq : (1 <= cf_qcap c)%nat) ops : forall s m,
  MR c m s -> (N.of_nat (length (calls s) + length ops) < two64)%N ->
  c02_run c m ops (wrun_from s ops) = true.
Proof.
  induction ops as [|o r IH]; intros s m R Hb; [reflexivity|].
  assert (Hnw : NW s) by (unfold NW; cbn [length] in Hb; lia).
  pose proof (mr_inv _ _ _ R) as I.
  destruct (Inv_wstep s o I Hnw) as [_ L1].
  destruct o as [o|]; cbn [wrun_from wstep] in *.
  - destruct (step stp sfuel s (to_op o)) as [s1 l] eqn:Es. cbn [fst] in L1.
    change (c02_run c m (WOp o :: r) (WO l :: wrun_from s1 r))
      with (no_panic l && c02_run c (op_mon m o l) r (wrun_from s1 r)).
    destruct (MR_op c m s o s1 l R Hnw Es) as [Np R1]. rewrite Np. cbn [andb].
    apply IH; [exact R1|]. cbn [length] in Hb. lia.
  - destruct (settle stp sfuel (rounds_of s + length (st_inbox (tr s))) s sobs0) as [s1 rr] eqn:Es.
    cbn [fst] in L1.
    destruct (MR_settle c m s s1 rr R Hnw Es) as (Hf & R1 & Q1). rewrite Hf.
    change (c02_run c m (WSettle :: r)
              (WS (so_sent rr) (so_read rr) (so_done rr) (so_disp rr)
                  (N.of_nat (length (inflight s1))) (N.of_nat (length (timers s1))) :: wrun_from s1 r))
      with (let m1 := settle_mon m rr in
            (negb (wm_dead m1) || negb (wm_unresolved m1))
            && (negb (negb (wm_ended m1) && (wm_ready m1 && wm_flush m1 && negb (wm_tainted m1)
                                             && (Nat.eqb (cf_cap c) 0 || cf_coupled c))
                      && wm_unresolved m1 && (1 <=? cf_maxif c)%nat)
                || (1 <=? N.of_nat (length (inflight s1)))%N)
            && (wm_ended m1 || wm_tainted m1 || Nat.eqb (wm_delivered m1) (wm_read m1))
            && c02_run c m1 r (wrun_from s1 r)).
    cbv zeta. rewrite (settle_clauses c (settle_mon m rr) s1 _ R1 Q1 Hq eq_refl). cbn [andb].
    apply IH; [exact R1|]. cbn [length] in Hb. lia.
Qed.

Theorem c02_monitor_holds : stmt_c02_monitor.
Proof.
  unfold stmt_c02_monitor, c02_ok, wrun. intros c ops Hw Hq.
  apply run_mon; [exact Hq| |unfold wno_wrap, two64 in *; cbn; exact Hw].
  constructor; try reflexivity.
  - apply Inv_cinit.
  - intros j (k & Ek & _). destruct j; discriminate.
  - intros _. split; reflexivity.
  - discriminate.
  - intros _. repeat split; reflexivity.
Qed.
Print Assumptions c02_monitor_holds.
