(* Chain proofs, server side: induction principles for the polling loops of the server model
   (one hypothesis per primitive effect), and what a server can yield: only requests that were
   in its link. *)
From Coq Require Import List Bool Arith NArith Lia.
Import ListNotations.
From TarpcV Require Import Base Transport TimerWheel Server ServerFuel ServerSim ServerSim2.
From TarpcV Require Chain ChainCli.

Notation link := Chain.link.
Notation stp := Chain.stp.
Notation sst := (@sstate Chain.link).

Section Principles.
  Context {T : Type}.
  Variable tp : transport T response cmsg.
  Notation st := (@sstate T).
  Variable P : st -> Prop.
  (* after a request has been read and registered (PReady): the request, the state *)
  Variable Q : treq -> st -> Prop.

  Hypothesis P_scancel : forall s id r,
    s_cancels s = id :: r -> P s -> P (snd (remove_request id (set_cancels s r))).
  Hypothesis P_expired : forall s r s', poll_expired s = (r, s') -> P s -> P s'.
  Hypothesis P_next_other : forall s r s',
    do_next tp s = (r, s') -> (forall m, r <> RItem m) -> P s -> P s'.
  Hypothesis P_fused : forall s, P s -> P (set_fused s true).
  Hypothesis P_req : forall s id dl tr body s1 h s2,
    do_next tp s = (RItem (MReq id dl tr body), s1) -> P s ->
    start_request id dl s1 = Some (h, s2) ->
    Q {| q_id := id; q_h := h; q_dl := dl; q_tr := tr; q_body := body |} s2.
  Hypothesis P_dup : forall s id dl tr body s1,
    do_next tp s = (RItem (MReq id dl tr body), s1) -> P s -> start_request id dl s1 = None -> P s1.
  Hypothesis P_cancel : forall s id tr s1,
    do_next tp s = (RItem (MCancel id tr), s1) -> P s -> P (cancel_request id s1).

  Lemma base_poll_next_ind : forall f (s : st) r s',
    base_poll_next tp f s = (r, s') -> P s ->
    match r with PReady q => Q q s' | _ => P s' end.
  Proof.
    induction f as [|f IH]; intros s r s' H K; cbn [base_poll_next] in H; [injection H as <- <-; exact K|].
    set (cs := match s_cancels s with
               | id :: r0 => (RSReady, snd (remove_request id (set_cancels s r0)))
               | [] => (RSClosed, s) end) in H.
    assert (Hc : P (snd cs)).
    { subst cs. destruct (s_cancels s) as [|id r0] eqn:EC; cbn [snd]; [exact K|].
      eapply P_scancel; eassumption. }
    destruct cs as [cst s1]. cbn [snd] in Hc.
    destruct (poll_expired s1) as [est s2] eqn:EE.
    pose proof (P_expired _ _ _ EE Hc) as K2.
    assert (Hfin : forall rst sx r s', P sx ->
               match combine (combine cst est) rst with
               | RSReady => base_poll_next tp f sx
               | RSClosed => (PEnd, sx)
               | RSPending => (PPending, sx)
               end = (r, s') ->
               match r with PReady q => Q q s' | _ => P s' end).
    { intros rst sx r0 s0 Kx HH. destruct (combine (combine cst est) rst).
      - eapply IH; eassumption.
      - injection HH as <- <-. exact Kx.
      - injection HH as <- <-. exact Kx. }
    destruct (s_fused s2).
    - eapply Hfin; eassumption.
    - destruct (do_next tp s2) as [rr s3] eqn:EN.
      destruct rr as [m| | |].
      + destruct m as [id dl tr body|id tr].
        * destruct (start_request id dl s3) as [[h s4]|] eqn:ES.
          -- injection H as <- <-. eapply P_req; eassumption.
          -- eapply IH; [exact H|]. eapply P_dup; eassumption.
        * eapply Hfin; [|exact H]. eapply P_cancel; eassumption.
      + injection H as <- <-. eapply P_next_other; [exact EN|discriminate|exact K2].
      + eapply Hfin; [|exact H]. apply P_fused. eapply P_next_other; [exact EN|discriminate|exact K2].
      + eapply Hfin; [|exact H]. eapply P_next_other; [exact EN|discriminate|exact K2].
  Qed.

  (* ---- Requests (no limiter) ---- *)
  Hypothesis P_ready : forall s r s', do_ready tp s = (r, s') -> P s -> P s'.
  Hypothesis P_flush : forall s r s', do_flush tp s = (r, s') -> P s -> P s'.
  Hypothesis Q_ready : forall q s r s', do_ready tp s = (r, s') -> Q q s -> Q q s'.
  Hypothesis Q_flush : forall q s r s', do_flush tp s = (r, s') -> Q q s -> Q q s'.
  (* a response leaves the queue and is handed to the channel's sink *)
  Hypothesis P_resp : forall s m r e s',
    s_respq s = m :: r -> base_start_send tp m (add_permit (set_respq s r)) = (e, s') -> P s -> P s'.
  Hypothesis Q_resp : forall q s m r e s',
    s_respq s = m :: r -> base_start_send tp m (add_permit (set_respq s r)) = (e, s') -> Q q s -> Q q s'.
  (* a request that was read but is dropped because the write side failed *)
  Hypothesis Q_fail : forall q s, Q q s -> P (set_cancels s (s_cancels s ++ [q_id q])).

  Lemma ensure_writeable_ind (R : st -> Prop) :
    (forall s r s', do_ready tp s = (r, s') -> R s -> R s') ->
    (forall s r s', do_flush tp s = (r, s') -> R s -> R s') ->
    forall s w s', ensure_writeable tp s = (w, s') -> R s -> R s'.
  Proof.
    intros Hr Hf s w s' H K. unfold ensure_writeable in H.
    destruct (do_ready tp s) as [r1 s1] eqn:E1. pose proof (Hr _ _ _ E1 K) as K1.
    destruct r1; try (injection H as <- <-; exact K1).
    destruct (do_flush tp s1) as [r2 s2] eqn:E2. pose proof (Hf _ _ _ E2 K1) as K2.
    destruct r2; try (injection H as <- <-; exact K2).
    destruct (do_ready tp s2) as [r3 s3] eqn:E3. pose proof (Hr _ _ _ E3 K2) as K3.
    destruct r3; injection H as <- <-; exact K3.
  Qed.

  Lemma pump_write_ind (R : st -> Prop) :
    (forall s r s', do_ready tp s = (r, s') -> R s -> R s') ->
    (forall s r s', do_flush tp s = (r, s') -> R s -> R s') ->
    (forall s m r e s', s_respq s = m :: r ->
        base_start_send tp m (add_permit (set_respq s r)) = (e, s') -> R s -> R s') ->
    forall rc s w s', pump_write tp rc s = (w, s') -> R s -> R s'.
  Proof.
    intros Hr Hf Hs rc s w s' H K. unfold pump_write, poll_next_response in H.
    destruct (ensure_writeable tp s) as [ew s1] eqn:E1.
    pose proof (ensure_writeable_ind R Hr Hf _ _ _ E1 K) as K1.
    destruct ew.
    - destruct (s_respq s1) as [|m r] eqn:EQ.
      + destruct (do_flush tp s1) as [fl s2] eqn:E2. pose proof (Hf _ _ _ E2 K1) as K2.
        destruct fl; try (injection H as <- <-; exact K2).
        destruct (rc && _); injection H as <- <-; exact K2.
      + destruct (base_start_send tp m _) as [e s2] eqn:E2.
        injection H as <- <-. eapply Hs; eassumption.
    - destruct (do_flush tp s1) as [fl s2] eqn:E2. pose proof (Hf _ _ _ E2 K1) as K2.
      destruct fl; try (injection H as <- <-; exact K2).
      destruct (rc && _); injection H as <- <-; exact K2.
    - injection H as <- <-. exact K1.
  Qed.

  Lemma pump_write_nofuel rc (s : st) w s' : pump_write tp rc s = (w, s') -> w <> PFuel.
  Proof.
    unfold pump_write, poll_next_response. destruct (ensure_writeable tp s) as [ew s1].
    destruct ew.
    - destruct (s_respq s1) as [|m r].
      + destruct (do_flush tp s1) as [fl s2]. destruct fl; try (intros [= <- <-]; discriminate).
        destruct (rc && _); intros [= <- <-]; discriminate.
      + destruct (base_start_send tp m _) as [e s2]. destruct e; intros [= <- <-]; discriminate.
    - destruct (do_flush tp s1) as [fl s2]. destruct fl; try (intros [= <- <-]; discriminate).
      destruct (rc && _); intros [= <- <-]; discriminate.
    - intros [= <- <-]; discriminate.
  Qed.

  Lemma requests_poll_next_ind : forall f (s : st) r s',
    requests_poll_next tp (mkcfg None 100) f s = (r, s') -> P s ->
    match r with PReady q => Q q s' | _ => P s' end.
  Proof.
    induction f as [|f IH]; intros s r s' H K; cbn [requests_poll_next] in H; [injection H as <- <-; exact K|].
    unfold pump_read in H. cbn [cfg_limit] in H.
    destruct (base_poll_next tp (S f) s) as [rd s1] eqn:ER.
    pose proof (base_poll_next_ind _ _ _ _ ER K) as K1.
    destruct rd as [q| |a| |].
    - destruct (pump_write tp false s1) as [wr s2] eqn:EW.
      pose proof (pump_write_ind (Q q) (Q_ready q) (Q_flush q) (Q_resp q) _ _ _ _ EW K1) as K2.
      pose proof (pump_write_nofuel _ _ _ _ EW) as NF.
      destruct wr; try (injection H as <- <-; exact K2); [injection H as <- <-; apply Q_fail, K2|congruence].
    - destruct (pump_write tp true s1) as [wr s2] eqn:EW.
      pose proof (pump_write_ind P P_ready P_flush P_resp _ _ _ _ EW K1) as K2.
      destruct wr; try (injection H as <- <-; exact K2). eapply IH; eassumption.
    - injection H as <- <-. exact K1.
    - destruct (pump_write tp false s1) as [wr s2] eqn:EW.
      pose proof (pump_write_ind P P_ready P_flush P_resp _ _ _ _ EW K1) as K2.
      destruct wr; try (injection H as <- <-; exact K2). eapply IH; eassumption.
    - injection H as <- <-. exact K1.
  Qed.
End Principles.

(* ------------------------------------------------------------------------------------------ *)
(* frames of the link under the server's primitives (transport Chain.stp) *)
Section LinkFrames.
  Implicit Types s : sst.

  Lemma st_add_permit s : s_t (add_permit s) = s_t s.
  Proof.
    unfold add_permit. destruct (s_waiters s) as [|k r]; [reflexivity|].
    sproj. destruct (nth_error _ k) as [[? ? []]|]; reflexivity.
  Qed.

  Lemma st_remove_request id s : s_t (snd (remove_request id s)) = s_t s.
  Proof. unfold remove_request. destruct (find_entry id s); reflexivity. Qed.
  Lemma st_cancel_request id s : s_t (cancel_request id s) = s_t s.
  Proof. unfold cancel_request. destruct (find_entry id s); reflexivity. Qed.
  Lemma st_poll_expired s r s' : poll_expired s = (r, s') -> s_t s' = s_t s.
  Proof. intro H. apply poll_expired_shape in H. apply H. Qed.
  Lemma st_start_request id dl s h s' : start_request id dl s = Some (h, s') -> s_t s' = s_t s.
  Proof. intro H. apply start_request_shape in H. apply H. Qed.

  Lemma st_do_ready s r s' : do_ready stp s = (r, s') -> s_t s' = s_t s.
  Proof. unfold do_ready. cbn. intros [= <- <-]. reflexivity. Qed.
  Lemma st_do_flush s r s' : do_flush stp s = (r, s') -> s_t s' = s_t s.
  Proof. unfold do_flush. cbn. intros [= <- <-]. reflexivity. Qed.

  (* reading: the head of the client->server queue, if any *)
  Lemma do_next_stp s r s' :
    do_next stp s = (r, s') ->
    match Chain.l_c2s (s_t s) with
    | x :: rest => r = RItem x /\ Chain.l_c2s (s_t s') = rest
    | [] => (forall m, r <> RItem m) /\ s_t s' = s_t s
    end
    /\ Chain.l_s2c (s_t s') = Chain.l_s2c (s_t s)
    /\ Chain.l_cgone (s_t s') = Chain.l_cgone (s_t s)
    /\ Chain.l_sgone (s_t s') = Chain.l_sgone (s_t s).
  Proof.
    unfold do_next. cbn. destruct (Chain.l_c2s (s_t s)) as [|x rest]; intros [= <- <-]; cbn.
    - repeat split. destruct (Chain.l_cgone _); discriminate.
    - repeat split.
  Qed.

  (* writing: only the server->client queue grows *)
  Lemma do_send_stp m s r s' :
    do_send stp m s = (r, s') ->
    Chain.l_c2s (s_t s') = Chain.l_c2s (s_t s)
    /\ Chain.l_cgone (s_t s') = Chain.l_cgone (s_t s)
    /\ Chain.l_sgone (s_t s') = Chain.l_sgone (s_t s)
    /\ (Chain.l_cgone (s_t s) = false ->
        r = SOk /\ Chain.l_s2c (s_t s') = Chain.l_s2c (s_t s) ++ [Chain.conv_resp m])
    /\ (Chain.l_cgone (s_t s) = true -> r = SErr /\ s_t s' = s_t s).
  Proof.
    unfold do_send. cbn. destruct (Chain.l_cgone (s_t s)) eqn:E; intros [= <- <-]; cbn;
      repeat split; try congruence; intro; discriminate.
  Qed.

  Lemma c2s_base_start_send m s e s' :
    base_start_send stp m s = (e, s') -> Chain.l_c2s (s_t s') = Chain.l_c2s (s_t s).
  Proof.
    unfold base_start_send. pose proof (st_remove_request (resp_id m) s) as E.
    destruct (remove_request (resp_id m) s) as [was s1]. cbn [snd] in E.
    destruct was; [|intros [= <- <-]; rewrite E; reflexivity].
    destruct (do_send stp m s1) as [r s2] eqn:ES. apply do_send_stp in ES.
    intros [= <- <-]. destruct ES as (-> & _). rewrite E. reflexivity.
  Qed.
End LinkFrames.

(* ------------------------------------------------------------------------------------------ *)
(* a server yields only what its link held *)
Notation mkey := ChainCli.mkey.

Section Ctx.
  Variable Hs : list (N * N * N).
  Implicit Types s : sst.

  Definition sok s : Prop := incl (flat_map mkey (Chain.l_c2s (s_t s))) Hs.
  Definition qok (q : treq) s : Prop := sok s /\ In (q_dl q, q_tr q, q_body q) Hs.

  Lemma sok_eq s s' : Chain.l_c2s (s_t s') = Chain.l_c2s (s_t s) -> sok s -> sok s'.
  Proof. unfold sok. intros ->. auto. Qed.

  Lemma sok_requests_poll_next f s r s' :
    requests_poll_next stp (mkcfg None 100) f s = (r, s') -> sok s ->
    match r with PReady q => qok q s' | _ => sok s' end.
  Proof.
    apply (requests_poll_next_ind stp sok qok).
    - intros x id r0 _. apply sok_eq. rewrite st_remove_request. reflexivity.
    - intros x r0 x' E. apply sok_eq. rewrite (st_poll_expired _ _ _ E). reflexivity.
    - intros x r0 x' E N. apply do_next_stp in E. destruct E as (E & _).
      destruct (Chain.l_c2s (s_t x)) as [|y rest] eqn:EL.
      + destruct E as (_ & E). apply sok_eq. rewrite E. reflexivity.
      + destruct E as (-> & _). exfalso. eapply N. reflexivity.
    - intros x. apply sok_eq. reflexivity.
    - intros x id dl tr body s1 h s2 E K ES. apply do_next_stp in E. destruct E as (E & _).
      unfold sok in K. destruct (Chain.l_c2s (s_t x)) as [|y rest] eqn:EL.
      + destruct E as (N & _). exfalso. eapply N. reflexivity.
      + destruct E as ([= <-] & E). split.
        * unfold sok. rewrite (st_start_request _ _ _ _ _ ES), E.
          intros z Hz. apply K. cbn. right. exact Hz.
        * apply K. cbn. left. reflexivity.
    - intros x id dl tr body s1 E K _. apply do_next_stp in E. destruct E as (E & _).
      unfold sok in *. destruct (Chain.l_c2s (s_t x)) as [|y rest] eqn:EL.
      + destruct E as (_ & E). rewrite E, EL. exact K.
      + destruct E as (_ & E). rewrite E. intros z Hz. apply K. cbn. apply in_or_app. right. exact Hz.
    - intros x id tr s1 E K. apply do_next_stp in E. destruct E as (E & _).
      unfold sok in *. rewrite st_cancel_request. destruct (Chain.l_c2s (s_t x)) as [|y rest] eqn:EL.
      + destruct E as (_ & E). rewrite E, EL. exact K.
      + destruct E as (_ & E). rewrite E. intros z Hz. apply K. cbn. apply in_or_app. right. exact Hz.
    - intros x r0 x' E. apply sok_eq. rewrite (st_do_ready _ _ _ E). reflexivity.
    - intros x r0 x' E. apply sok_eq. rewrite (st_do_flush _ _ _ E). reflexivity.
    - intros q x r0 x' E [A B]. split; [|exact B]. revert A. apply sok_eq. rewrite (st_do_ready _ _ _ E). reflexivity.
    - intros q x r0 x' E [A B]. split; [|exact B]. revert A. apply sok_eq. rewrite (st_do_flush _ _ _ E). reflexivity.
    - intros x m r0 e x' _ E. apply sok_eq. rewrite (c2s_base_start_send _ _ _ _ E), st_add_permit. reflexivity.
    - intros q x m r0 e x' _ E [A B]. split; [|exact B]. revert A. apply sok_eq.
      rewrite (c2s_base_start_send _ _ _ _ E), st_add_permit. reflexivity.
    - intros q x [A _]. revert A. apply sok_eq. reflexivity.
  Qed.
End Ctx.

(* ------------------------------------------------------------------------------------------ *)
(* the ops of the server model other than OPoll leave the link alone *)
Section StepFrames.
  Context {C : Type}.
  Variable ctl : link -> C -> link.
  Variable tfuel : link -> nat.
  Implicit Types s : sst.

  Lemma st_execute_poll k hs s : s_t (fst (execute_poll k hs s)) = s_t s.
  Proof.
    unfold execute_poll. destruct (nth_error (s_handlers s) k) as [hr|]; [|reflexivity].
    destruct (h_st hr) eqn:EH; try reflexivity;
      destruct (existsb _ _); cbn [fst]; sproj; rewrite ?st_add_permit; try reflexivity;
      try (destruct hs; cbn [fst]; sproj; try reflexivity;
           destruct (s_dropped s); cbn [fst]; sproj; try reflexivity;
           destruct (s_permits s); cbn [fst]; sproj; reflexivity);
      destruct (s_dropped s); cbn [fst]; sproj; reflexivity.
  Qed.

  Lemma st_drop_channel s : s_t (drop_channel s) = s_t s.
  Proof. unfold drop_channel. destruct (s_dropped s); reflexivity. Qed.

  Lemma st_step_other c s (o : op C) :
    (match o with OPoll | OCtl _ => False | _ => True end) -> s_t (fst (step stp ctl tfuel c s o)) = s_t s.
  Proof.
    destruct o; unfold step; intro H; try contradiction.
    - pose proof (st_execute_poll k st s) as E. destruct (execute_poll k st s). exact E.
    - assert (E : s_t (fst (drop_handler k s)) = s_t s).
      { unfold drop_handler. destruct (nth_error _ _) as [hr|]; [|reflexivity].
        unfold guard_cancel.
        destruct (h_st hr); cbn [fst]; sproj; try reflexivity;
          destruct (s_dropped _) eqn:ED; sproj; rewrite ?st_add_permit; reflexivity. }
      destruct (drop_handler k s). exact E.
    - assert (E : s_t (fst (drop_yielded k s)) = s_t s).
      { unfold drop_yielded. destruct (nth_error _ _) as [[? ? []]|]; try reflexivity.
        unfold guard_cancel. cbn [fst]. sproj. destruct (s_dropped s); reflexivity. }
      destruct (drop_yielded k s). exact E.
    - cbn [fst]. apply st_drop_channel.
    - reflexivity.
  Qed.
End StepFrames.

Section CtxStep.
  Variable Hs : list (N * N * N).
  Context {C : Type}.
  Variable ctl : link -> C -> link.
  Variable tfuel : link -> nat.
  Implicit Types s : sst.

  Lemma sok_step_poll s s' l :
    step stp ctl tfuel (mkcfg None 100) s OPoll = (s', l) -> sok Hs s ->
    sok Hs s' /\ forall k id dl tr b, In (OYield k id dl tr b) l -> In (dl, tr, b) Hs.
  Proof.
    unfold step. destruct (poll_requests stp tfuel (mkcfg None 100) s) as [s1 l1] eqn:EP.
    intros [= <- <-] K.
    assert (NG : forall (sx : sst) k id dl tr b, ~ In (OYield k id dl tr b) (gauges sx)).
    { intros sx k id dl tr b Hin. unfold gauges in Hin. destruct (s_dropped sx); [exact Hin|].
      destruct Hin as [Hin|Hin]; [discriminate|]. destruct (s_bad sx); [destruct Hin as [Hin|[]]; discriminate|exact Hin]. }
    assert (G : sok Hs s1 /\ forall k id dl tr b, In (OYield k id dl tr b) l1 -> In (dl, tr, b) Hs).
    { unfold poll_requests in EP. destruct (s_dropped s).
      - injection EP as <- <-. split; [exact K|intros k id dl tr b []].
      - destruct (requests_poll_next stp _ _ _) as [r s2] eqn:ER.
        assert (K0 : sok Hs (set_log s [])) by (revert K; apply sok_eq; reflexivity).
        pose proof (sok_requests_poll_next Hs _ _ _ _ ER K0) as K1.
        destruct r as [q| |a| |]; injection EP as <- <-.
        + destruct K1 as [A B]. split; [revert A; apply sok_eq; reflexivity|].
          intros k id dl tr b Hin. destruct Hin as [Hin|[Hin|[]]]; [discriminate|].
          injection Hin as _ _ <- <- <-. exact B.
        + split; [exact K1|]. intros k id dl tr b Hin. destruct Hin as [Hin|[Hin|[]]]; discriminate.
        + split; [exact K1|]. intros k id dl tr b Hin. destruct Hin as [Hin|[Hin|[]]]; discriminate.
        + split; [exact K1|]. intros k id dl tr b Hin. destruct Hin as [Hin|[Hin|[]]]; discriminate.
        + split; [exact K1|]. intros k id dl tr b Hin. destruct Hin as [Hin|[Hin|[]]]; discriminate. }
    destruct G as [G1 G2]. split; [exact G1|].
    intros k id dl tr b Hin. apply in_app_or in Hin. destruct Hin as [Hin|Hin]; [eapply G2, Hin|exfalso; eapply NG, Hin].
  Qed.
End CtxStep.

(* ------------------------------------------------------------------------------------------ *)
(* the observations of the ops other than OPoll: handler events and gauges only *)
Definition is_hobs (o : obs) : bool :=
  match o with
  | OHPolled _ | OHDone _ _ | OHDropped _ | OExecReady _ | OExecPending _ | OGauges _ _ | OOracle => true
  | _ => false
  end.

Section HObs.
  Context {C : Type}.
  Variable ctl : link -> C -> link.
  Variable tfuel : link -> nat.
  Implicit Types s : sst.

  Lemma hobs_execute_poll k hs s : forallb is_hobs (snd (execute_poll k hs s)) = true.
  Proof.
    unfold execute_poll. destruct (nth_error (s_handlers s) k) as [hr|]; [|reflexivity].
    destruct (h_st hr); try reflexivity; destruct (existsb _ _); try reflexivity;
      try (destruct hs; try reflexivity; destruct (s_dropped s); try reflexivity;
           destruct (s_permits s); reflexivity);
      destruct (s_dropped s); reflexivity.
  Qed.

  Lemma hobs_gauges s : forallb is_hobs (gauges s) = true.
  Proof. unfold gauges. destruct (s_dropped s); [reflexivity|]. destruct (s_bad s); reflexivity. Qed.

  Lemma hobs_step_other c s (o : op C) :
    (match o with OPoll | OCtl _ => False | _ => True end) ->
    forallb is_hobs (snd (step stp ctl tfuel c s o)) = true.
  Proof.
    destruct o; unfold step; intro H; try contradiction.
    - pose proof (hobs_execute_poll k st s) as E. destruct (execute_poll k st s) as [s1 l1].
      cbn [snd] in *. rewrite forallb_app, E. apply hobs_gauges.
    - assert (E : forallb is_hobs (snd (drop_handler k s)) = true).
      { unfold drop_handler. destruct (nth_error _ _) as [hr|]; [|reflexivity]. destruct (h_st hr); reflexivity. }
      destruct (drop_handler k s) as [s1 l1]. cbn [snd] in *. rewrite forallb_app, E. apply hobs_gauges.
    - assert (E : forallb is_hobs (snd (drop_yielded k s)) = true).
      { unfold drop_yielded. destruct (nth_error _ _) as [[? ? []]|]; reflexivity. }
      destruct (drop_yielded k s) as [s1 l1]. cbn [snd] in *. rewrite forallb_app, E. apply hobs_gauges.
    - cbn [snd app]. apply hobs_gauges.
    - cbn [snd app]. apply hobs_gauges.
  Qed.
End HObs.
