(* C02, server half, monitor proof, part 2: what a QUIET round of `settle` says about the state it
   ends in (scripted transport).  A quiet round leaves the digest unchanged, so the potential Psi of
   ServerWakeSettles.v is unchanged, so every unit of the round took the one branch that changes
   nothing: the state after the round equals the state before it up to the log, the timer-wheel
   oracle and its disagreement flag. *)
From Coq Require Import List Bool Arith NArith Lia.
Import ListNotations.
From TarpcV Require Import Base Transport TimerWheel Server ServerMon ServerFuel ServerContract
     ServerSim ServerSim2 ServerSim3 ServerSim4 ServerProps ServerWake ServerWakeSpec ServerWakeSettles.

Record Eqv (s s' : st) : Prop := {
  eq_t : s_t s' = s_t s; eq_fused : s_fused s' = s_fused s; eq_inflight : s_inflight s' = s_inflight s;
  eq_timers : s_timers s' = s_timers s; eq_cancels : s_cancels s' = s_cancels s;
  eq_aborted : s_aborted s' = s_aborted s; eq_next_h : s_next_h s' = s_next_h s;
  eq_respq : s_respq s' = s_respq s; eq_permits : s_permits s' = s_permits s;
  eq_waiters : s_waiters s' = s_waiters s; eq_handlers : s_handlers s' = s_handlers s;
  eq_now : s_now s' = s_now s; eq_dropped : s_dropped s' = s_dropped s }.

Lemma Eqv_refl s : Eqv s s.
Proof. constructor; reflexivity. Qed.
Lemma Eqv_trans a b c : Eqv a b -> Eqv b c -> Eqv a c.
Proof. intros H1 H2. destruct H1, H2. constructor; etransitivity; eassumption. Qed.
Lemma Eqv_Psi a b : Eqv a b -> Psi b = Psi a.
Proof.
  intros H. destruct H as [E1 E2 E3 E4 E5 E6 E7 E8 E9 E10 E11 E12 E13]. unfold Psi.
  rewrite E1, E2, E4, E5, E8, E11. reflexivity.
Qed.

(* monotone chains: if the ends agree, so does every link *)
Lemma R_le a b : R a b -> Psi b <= Psi a.
Proof. intros [L _]. exact L. Qed.

(* ================================================================== the transport *)
Definition rdy (t : ST) : bool := st_ready t && (Nat.eqb (st_cap t) 0 || (st_buffered t <? st_cap t)).

Lemma q_ready (s : st) r s' :
  do_ready stp s = (r, s') -> Psi s' = Psi s ->
  Eqv s s' /\ st_fail_ready (s_t s) = false /\ r = (if rdy (s_t s) then TOk else TPending).
Proof.
  unfold do_ready. cbn [scripted t_ready]. unfold s_ready, rdy.
  destruct (st_fail_ready (s_t s)) eqn:E.
  - intros [= <- <-]. unfold Psi, tpot. sproj.
    cbn [st_with st_inbox st_buffered st_fail_ready st_fail_send st_fail_flush st_fail_next]. rewrite E. cbn [Nat.b2n]. intros HP; exfalso; lia.
  - destruct (st_ready (s_t s) && _); intros [= <- <-] _; (split; [constructor; reflexivity|split; reflexivity]).
Qed.

Lemma st_with_same (t : ST) :
  st_with t (st_ready t) (st_flushok t) (st_closeok t) (st_buffered t) (st_fail_ready t) (st_fail_send t)
          (st_fail_flush t) (st_fail_close t) (st_fail_next t) (st_inbox t) (st_eof t) = t.
Proof. destruct t. reflexivity. Qed.

Lemma q_flush (s : st) r s' :
  do_flush stp s = (r, s') -> Psi s' = Psi s ->
  Eqv s s' /\ st_fail_flush (s_t s) = false
  /\ ((r = TOk /\ st_flushok (s_t s) = true /\ (st_coupled (s_t s) = true -> st_buffered (s_t s) = 0))
      \/ (r = TPending /\ st_flushok (s_t s) = false)).
Proof.
  unfold do_flush. cbn [scripted t_flush]. unfold s_flush.
  destruct (st_fail_flush (s_t s)) eqn:E.
  - intros [= <- <-]. unfold Psi, tpot. sproj.
    cbn [st_with st_inbox st_buffered st_fail_ready st_fail_send st_fail_flush st_fail_next]. rewrite E. cbn [Nat.b2n]. intros HP; exfalso; lia.
  - destruct (st_flushok (s_t s)) eqn:EF.
    + intros [= <- <-]. unfold Psi, tpot. sproj.
      cbn [st_with st_inbox st_buffered st_fail_ready st_fail_send st_fail_flush st_fail_next]. intros HP.
      assert (HB : st_coupled (s_t s) = true -> st_buffered (s_t s) = 0).
      { intros EC. rewrite EC in HP. cbn [Nat.eqb] in HP. destruct (st_buffered (s_t s)); [reflexivity|cbn [Nat.eqb] in HP; rewrite E in HP; cbn [Nat.b2n] in HP; lia]. }
      split; [|split; [reflexivity|left; auto]].
      assert (ET : st_with (s_t s) (st_ready (s_t s)) (st_flushok (s_t s)) (st_closeok (s_t s))
                     (if st_coupled (s_t s) then 0 else st_buffered (s_t s)) (st_fail_ready (s_t s)) (st_fail_send (s_t s))
                     (st_fail_flush (s_t s)) (st_fail_close (s_t s)) (st_fail_next (s_t s)) (st_inbox (s_t s)) (st_eof (s_t s)) = s_t s).
      { destruct (st_coupled (s_t s)); [rewrite <- (HB eq_refl)|]; apply st_with_same. }
      constructor; sproj; try reflexivity. rewrite <- E, <- EF. exact ET.
    + intros [= <- <-] _. split; [constructor; reflexivity|split; [reflexivity|right; auto]].
Qed.

Lemma q_next (s : st) r s' :
  do_next stp s = (r, s') -> Psi s' = Psi s ->
  Eqv s s' /\ st_fail_next (s_t s) = false /\ st_inbox (s_t s) = []
  /\ ((r = REof /\ st_eof (s_t s) = true) \/ (r = RPending /\ st_eof (s_t s) = false)).
Proof.
  unfold do_next. cbn [scripted t_next]. unfold s_next.
  destruct (st_fail_next (s_t s)) eqn:E.
  - intros [= <- <-]. unfold Psi, tpot. sproj.
    cbn [st_with st_inbox st_buffered st_fail_ready st_fail_send st_fail_flush st_fail_next]. rewrite E. cbn [Nat.b2n]. intros HP; exfalso; lia.
  - destruct (st_inbox (s_t s)) as [|x q] eqn:EI.
    + destruct (st_eof (s_t s)); intros [= <- <-] _;
        (split; [constructor; reflexivity|split; [reflexivity|split; [reflexivity|auto]]]).
    + intros [= <- <-]. unfold Psi, tpot. sproj.
      cbn [st_with st_inbox st_buffered st_fail_ready st_fail_send st_fail_flush st_fail_next]. rewrite EI, ?E. cbn [length Nat.b2n]. intros HP; exfalso; lia.
Qed.

Lemma q_expired (s : st) r s' :
  poll_expired s = (r, s') -> Psi s' = Psi s -> Eqv s s' /\ r <> RSReady.
Proof.
  intros H HP. destruct (R_poll_expired _ _ _ H) as (_ & Sx).
  assert (N : r <> RSReady) by (intros X; specialize (Sx X); lia).
  split; [|exact N].
  destruct (poll_expired_shape _ _ _ H) as (A1 & A2 & A3 & A4 & A5 & A6 & A7 & A8 & A9 & _ & A11 & HH).
  destruct HH as [(_ & B1 & B2 & B3 & _)|(X & _)]; [|congruence].
  constructor; assumption.
Qed.

(* ================================================================== the units of a stream poll *)
Lemma combine_ready a b c : combine (combine a b) c = RSReady -> a = RSReady \/ b = RSReady \/ c = RSReady.
Proof. destruct a, b, c; cbn; intros H; try discriminate; auto. Qed.

Lemma q_base f (s : st) r s' :
  base_poll_next stp (S f) s = (r, s') -> Psi s' = Psi s ->
  Eqv s s' /\ (r = PPending \/ r = PEnd)
  /\ (s_fused s = true \/ (st_inbox (s_t s) = [] /\ st_fail_next (s_t s) = false)).
Proof.
  intros H HP. cbn [base_poll_next] in H.
  set (cs := match s_cancels s with
             | id :: r0 => (RSReady, snd (remove_request id (set_cancels s r0)))
             | [] => (RSClosed, s) end) in H.
  assert (Hc : Psi (snd cs) <= Psi s /\ (fst cs = RSReady -> Psi (snd cs) < Psi s)
               /\ (fst cs <> RSReady -> snd cs = s)).
  { subst cs. destruct (s_cancels s) as [|id r0] eqn:EC; cbn [fst snd]; [split; [lia|split; [discriminate|reflexivity]]|].
    pose proof (Psi_remove_request id (set_cancels s r0)) as A.
    assert (B : Psi (set_cancels s r0) + 1 = Psi s) by (unfold Psi; sproj; rewrite EC; cbn [length]; lia).
    split; [lia|split; [intros _; lia|congruence]]. }
  destruct cs as [cst s1]. cbn [fst snd] in Hc. destruct Hc as (L1 & S1 & E1).
  destruct (poll_expired s1) as [est s2] eqn:EE.
  destruct (R_poll_expired _ _ _ EE) as ([L2 _] & S2).
  assert (Hfin : forall rst sx, Psi sx <= Psi s2 -> (rst = RSReady -> Psi sx < Psi s2) ->
            match combine (combine cst est) rst with
            | RSReady => base_poll_next stp f sx
            | RSClosed => (PEnd, sx)
            | RSPending => (PPending, sx)
            end = (r, s') ->
            s' = sx /\ s1 = s /\ Psi s2 = Psi s1 /\ Psi sx = Psi s2 /\ rst <> RSReady /\ (r = PPending \/ r = PEnd)).
  { intros rst sx Lx Sx HH.
    assert (Hstrict : cst = RSReady \/ est = RSReady \/ rst = RSReady -> Psi sx < Psi s).
    { intros [X|[X|X]]; [specialize (S1 X)|specialize (S2 X)|specialize (Sx X)]; lia. }
    destruct (combine (combine cst est) rst) eqn:ECB.
    - exfalso. destruct (R_base_poll_next _ _ _ _ HH) as ([LL _] & _).
      specialize (Hstrict (combine_ready _ _ _ ECB)). lia.
    - injection HH as <- <-.
      assert (N1 : cst <> RSReady) by (intros X; specialize (Hstrict (or_introl X)); lia).
      assert (N3 : rst <> RSReady) by (intros X; specialize (Hstrict (or_intror (or_intror X))); lia).
      repeat split; auto; lia.
    - injection HH as <- <-.
      assert (N1 : cst <> RSReady) by (intros X; specialize (Hstrict (or_introl X)); lia).
      assert (N3 : rst <> RSReady) by (intros X; specialize (Hstrict (or_intror (or_intror X))); lia).
      repeat split; auto; lia. }
  destruct (s_fused s2) eqn:EF.
  - destruct (Hfin RSClosed s2) as (-> & -> & P2 & _ & _ & Hr); [lia|discriminate|exact H|].
    destruct (q_expired _ _ _ EE P2) as (V & _).
    split; [exact V|split; [exact Hr|left]]. rewrite <- (eq_fused _ _ V). exact EF.
  - destruct (do_next stp s2) as [rr s3] eqn:EN. destruct (R_do_next _ _ _ EN) as ([L3 _] & S3).
    destruct rr as [m| | |].
    + exfalso. specialize (S3 m eq_refl). destruct m as [id dl tr body|id tr].
      * destruct (start_request id dl s3) as [[h s4]|] eqn:ES.
        -- apply Psi_start_request in ES. injection H as _ <-. lia.
        -- destruct (R_base_poll_next _ _ _ _ H) as ([LL _] & _). lia.
      * pose proof (Psi_cancel_request id s3) as A.
        destruct (Hfin RSReady (cancel_request id s3)) as (_ & _ & _ & _ & N & _); [lia|intros _; lia|exact H|].
        apply N. reflexivity.
    + exfalso. injection H as _ <-.
      assert (P3 : Psi s3 = Psi s2) by lia.
      destruct (q_next _ _ _ EN P3) as (_ & _ & _ & [(X & _)|(X & _)]); discriminate.
    + exfalso.
      assert (P4 : Psi (set_fused s3 true) <= Psi s3).
      { unfold Psi. sproj. destruct (s_fused s3); lia. }
      destruct (Hfin RSClosed (set_fused s3 true)) as (_ & _ & _ & P5 & _); [lia|discriminate|exact H|].
      assert (P3 : Psi s3 = Psi s2) by lia.
      destruct (q_next _ _ _ EN P3) as (V & _).
      assert (F3 : s_fused s3 = false) by (rewrite (eq_fused _ _ V); exact EF).
      unfold Psi in P5, P3. sproj. rewrite F3 in *. lia.
    + destruct (Hfin RSPending s3) as (-> & -> & P2 & P3 & _ & Hr); [lia|discriminate|exact H|].
      destruct (q_expired _ _ _ EE P2) as (V2 & _).
      destruct (q_next _ _ _ EN P3) as (V3 & FN & IB & _).
      split; [eapply Eqv_trans; eassumption|split; [exact Hr|right]].
      rewrite <- (eq_t _ _ V2). auto.
Qed.

Lemma Complete_Eqv (a b : st) : Eqv a b -> Complete b -> Complete a.
Proof.
  intros V (A & B). unfold Complete, due in *. rewrite <- (eq_cancels _ _ V), <- (eq_timers _ _ V), <- (eq_now _ _ V). auto.
Qed.
Lemma Complete_Eqv' (a b : st) : Eqv a b -> Complete a -> Complete b.
Proof.
  intros V (A & B). unfold Complete, due in *. rewrite (eq_cancels _ _ V), (eq_timers _ _ V), (eq_now _ _ V). auto.
Qed.

(* what a quiet read half establishes *)
Definition ReadOk (s : st) : Prop :=
  Complete s /\ (s_fused s = true \/ (st_inbox (s_t s) = [] /\ st_fail_next (s_t s) = false)).

Lemma q_base' f (s : st) r s' :
  base_poll_next stp (S f) s = (r, s') -> Psi s' = Psi s ->
  Eqv s s' /\ (r = PPending \/ r = PEnd) /\ ReadOk s.
Proof.
  intros H HP. destruct (q_base _ _ _ _ H HP) as (V & Hr & HI).
  split; [exact V|split; [exact Hr|split; [|exact HI]]].
  pose proof (base_complete stp _ _ _ _ H) as HC. apply (Complete_Eqv _ _ V).
  destruct Hr as [-> | ->]; tauto.
Qed.

Lemma q_maxreq f limit (s : st) r s' :
  maxreq_poll_next stp (S f) limit s = (r, s') -> Psi s' = Psi s ->
  Eqv s s' /\ (r = PPending \/ r = PEnd)
  /\ ((rdy (s_t s) = false /\ r = PPending) \/ ReadOk s).
Proof.
  intros H HP. cbn [maxreq_poll_next] in H.
  destruct (limit <=? length (s_inflight s)).
  2: { destruct (q_base' _ _ _ _ H HP) as (V & Hr & X). auto. }
  destruct (do_ready stp s) as [x s1] eqn:ER. pose proof (R_le _ _ (R_do_ready _ _ _ ER)) as L1.
  destruct x.
  - destruct (base_poll_next stp (S f) s1) as [y s2] eqn:EB.
    destruct (R_base_poll_next _ _ _ _ EB) as ([L2 _] & S2).
    destruct y as [q| | | |].
    + exfalso. specialize (S2 q eq_refl).
      destruct (base_start_send stp (mkresp (q_id q) BThrottle) s2) as [e s3] eqn:ESS.
      apply Psi_base_start_send in ESS.
      destruct e; [injection H as _ <-; lia|].
      destruct (R_maxreq_poll_next _ _ _ _ _ H) as ([LL _] & _). lia.
    + injection H as <- <-. assert (P1 : Psi s1 = Psi s) by lia. assert (P2 : Psi s2 = Psi s1) by lia.
      destruct (q_ready _ _ _ ER P1) as (V1 & _). destruct (q_base' _ _ _ _ EB P2) as (V2 & _ & (C2 & I2)).
      split; [eapply Eqv_trans; eassumption|split; [auto|right]].
      split; [eapply Complete_Eqv; eassumption|]. rewrite <- (eq_fused _ _ V1), <- (eq_t _ _ V1). exact I2.
    + exfalso. injection H as _ <-. assert (P1 : Psi s1 = Psi s) by lia. assert (P2 : Psi s2 = Psi s1) by lia.
      destruct (q_base' _ _ _ _ EB P2) as (_ & [X|X] & _); discriminate.
    + injection H as <- <-. assert (P1 : Psi s1 = Psi s) by lia. assert (P2 : Psi s2 = Psi s1) by lia.
      destruct (q_ready _ _ _ ER P1) as (V1 & _). destruct (q_base' _ _ _ _ EB P2) as (V2 & _ & (C2 & I2)).
      split; [eapply Eqv_trans; eassumption|split; [auto|right]].
      split; [eapply Complete_Eqv; eassumption|]. rewrite <- (eq_fused _ _ V1), <- (eq_t _ _ V1). exact I2.
    + exfalso. injection H as _ <-. assert (P1 : Psi s1 = Psi s) by lia. assert (P2 : Psi s2 = Psi s1) by lia.
      destruct (q_base' _ _ _ _ EB P2) as (_ & [X|X] & _); discriminate.
  - exfalso. injection H as _ <-. destruct (q_ready _ _ _ ER HP) as (_ & _ & X). destruct (rdy _); discriminate.
  - injection H as <- <-. destruct (q_ready _ _ _ ER HP) as (V & _ & X).
    split; [exact V|split; [auto|left]]. split; [|reflexivity]. destruct (rdy (s_t s)); [discriminate|reflexivity].
Qed.

Lemma q_pump_read c f (s : st) r s' :
  pump_read stp c (S f) s = (r, s') -> Psi s' = Psi s ->
  Eqv s s' /\ (r = PPending \/ r = PEnd)
  /\ ((cfg_limit c <> None /\ rdy (s_t s) = false /\ r = PPending) \/ ReadOk s).
Proof.
  unfold pump_read. destruct (cfg_limit c) as [l|].
  - intros H HP. destruct (q_maxreq _ _ _ _ _ H HP) as (V & Hr & [(A & B)|X]); [|auto].
    split; [exact V|split; [exact Hr|left]]. split; [discriminate|auto].
  - intros H HP. destruct (q_base' _ _ _ _ H HP) as (V & Hr & X). auto.
Qed.

(* the sink as the script left it: ready, flushing, unlimited or coupled *)
Definition Wt (t : ST) : Prop :=
  st_ready t = true /\ st_flushok t = true /\ (st_cap t = 0 \/ st_coupled t = true).

Lemma q_ensure (s : st) w s' :
  ensure_writeable stp s = (w, s') -> Psi s' = Psi s ->
  Eqv s s' /\ ((w = WOk /\ rdy (s_t s) = true)
               \/ (w = WPending /\ rdy (s_t s) = false
                   /\ (st_flushok (s_t s) = true -> st_coupled (s_t s) = true -> st_buffered (s_t s) = 0))).
Proof.
  intros H HP. unfold ensure_writeable in H.
  destruct (do_ready stp s) as [r s1] eqn:E1. pose proof (R_le _ _ (R_do_ready _ _ _ E1)) as L1.
  destruct r.
  - injection H as <- <-. destruct (q_ready _ _ _ E1 HP) as (V & _ & X). split; [exact V|left]. split; [reflexivity|].
    destruct (rdy (s_t s)); [reflexivity|discriminate].
  - exfalso. injection H as _ <-. destruct (q_ready _ _ _ E1 HP) as (_ & _ & X). destruct (rdy _); discriminate.
  - destruct (do_flush stp s1) as [f s2] eqn:E2. pose proof (R_le _ _ (R_do_flush _ _ _ E2)) as L2.
    assert (Hr1 : Psi s1 = Psi s -> Eqv s s1 /\ rdy (s_t s) = false).
    { intros P1. destruct (q_ready _ _ _ E1 P1) as (V & _ & X). split; [exact V|].
      destruct (rdy (s_t s)); [discriminate|reflexivity]. }
    destruct f.
    + destruct (do_ready stp s2) as [r2 s3] eqn:E3. pose proof (R_le _ _ (R_do_ready _ _ _ E3)) as L3.
      assert (P1 : Psi s1 = Psi s) by (destruct r2; injection H as _ <-; lia).
      assert (P2 : Psi s2 = Psi s1) by (destruct r2; injection H as _ <-; lia).
      assert (P3 : Psi s3 = Psi s2) by (destruct r2; injection H as _ <-; lia).
      destruct (Hr1 P1) as (V1 & N1).
      destruct (q_flush _ _ _ E2 P2) as (V2 & _ & [(_ & F1 & F2)|(X & _)]); [|discriminate].
      destruct (q_ready _ _ _ E3 P3) as (V3 & _ & X3).
      assert (T2 : s_t s2 = s_t s) by (rewrite (eq_t _ _ V2); exact (eq_t _ _ V1)).
      rewrite T2, N1 in X3. subst r2. injection H as <- <-.
      split; [eapply Eqv_trans; [exact V1|eapply Eqv_trans; eassumption]|right].
      split; [reflexivity|split; [exact N1|]]. rewrite <- (eq_t _ _ V1). intros _. exact F2.
    + exfalso. injection H as _ <-. assert (P2 : Psi s2 = Psi s1) by lia.
      destruct (q_flush _ _ _ E2 P2) as (_ & _ & [(X & _)|(X & _)]); discriminate.
    + injection H as <- <-. assert (P1 : Psi s1 = Psi s) by lia. assert (P2 : Psi s2 = Psi s1) by lia.
      destruct (Hr1 P1) as (V1 & N1).
      destruct (q_flush _ _ _ E2 P2) as (V2 & _ & [(X & _)|(_ & F1)]); [discriminate|].
      split; [eapply Eqv_trans; eassumption|right]. split; [reflexivity|split; [exact N1|]].
      rewrite <- (eq_t _ _ V1). intros X. congruence.
Qed.

Lemma q_pump_write rc (s : st) w s' :
  pump_write stp rc s = (w, s') -> Psi s' = Psi s ->
  Eqv s s' /\ (w = PPending \/ w = PEnd)
  /\ (rdy (s_t s) = true -> s_respq s = [])
  /\ (rdy (s_t s) = false -> st_flushok (s_t s) = true -> st_coupled (s_t s) = true -> st_buffered (s_t s) = 0).
Proof.
  intros H HP. unfold pump_write, poll_next_response in H.
  destruct (ensure_writeable stp s) as [x s1] eqn:EW. pose proof (R_le _ _ (R_ensure_writeable _ _ _ EW)) as L1.
  assert (Hfl : forall x0, (let '(f, s2) := do_flush stp s1 in
              match f with
              | TErr => (PErr AFlush, s2)
              | TPending => (PPending, s2)
              | TOk => match x0 : pres response with
                       | PEnd => (PEnd, s2)
                       | _ => if rc && Nat.eqb (length (s_inflight s2)) 0 then (PEnd, s2) else (PPending, s2)
                       end
              end) = (w, s') -> Psi s1 = Psi s /\ Eqv s1 s' /\ (w = PPending \/ w = PEnd)).
  { intros x0 HH. destruct (do_flush stp s1) as [f s2] eqn:EF. pose proof (R_le _ _ (R_do_flush _ _ _ EF)) as L2.
    assert (P1 : Psi s1 = Psi s) by (destruct f; [destruct x0; try destruct (rc && _)| |]; injection HH as _ <-; lia).
    assert (P2 : Psi s2 = Psi s1) by (destruct f; [destruct x0; try destruct (rc && _)| |]; injection HH as _ <-; lia).
    destruct (q_flush _ _ _ EF P2) as (V2 & _ & [(-> & _)|(-> & _)]).
    - split; [exact P1|]. destruct x0; try destruct (rc && _); injection HH as <- <-; auto.
    - split; [exact P1|]. injection HH as <- <-; auto. }
  destruct x as [| |a].
  - destruct (s_respq s1) as [|m q] eqn:EQ.
    + destruct (Hfl PPending H) as (P1 & V2 & Hw).
      destruct (q_ensure _ _ _ EW P1) as (V1 & [(_ & X)|(X & _)]); [|discriminate].
      split; [eapply Eqv_trans; eassumption|split; [exact Hw|split]].
      * intros _. rewrite <- (eq_respq _ _ V1). exact EQ.
      * intros Y. congruence.
    + exfalso. destruct (Psi_add_permit (set_respq s1 q)) as (D & _).
      destruct (base_start_send stp m (add_permit (set_respq s1 q))) as [e s2] eqn:ES.
      apply Psi_base_start_send in ES.
      assert (P1 : Psi (set_respq s1 q) + 2 = Psi s1) by (unfold Psi; sproj; rewrite EQ; cbn [length]; lia).
      destruct e; injection H as _ <-; lia.
  - destruct (Hfl PPending H) as (P1 & V2 & Hw).
    destruct (q_ensure _ _ _ EW P1) as (V1 & [(X & _)|(_ & N & F)]); [discriminate|].
    split; [eapply Eqv_trans; eassumption|split; [exact Hw|split]].
    + intros Y. congruence.
    + intros _. exact F.
  - exfalso. injection H as _ <-. destruct (q_ensure _ _ _ EW HP) as (_ & [(X & _)|(X & _)]); discriminate.
Qed.

Lemma Wt_rdy (t : ST) :
  Wt t -> (rdy t = false -> st_flushok t = true -> st_coupled t = true -> st_buffered t = 0) -> rdy t = true.
Proof.
  intros (A & B & D) F. destruct (rdy t) eqn:E; [reflexivity|]. exfalso.
  unfold rdy in E. rewrite A in E. cbn [andb] in E. apply orb_false_iff in E. destruct E as [E1 E2].
  apply Nat.eqb_neq in E1. apply Nat.ltb_ge in E2.
  destruct D as [D|D]; [contradiction|]. specialize (F eq_refl B D). lia.
Qed.

(* impl Stream for Requests: poll_next *)
Lemma q_requests c f (s : st) r s' :
  requests_poll_next stp c (S f) s = (r, s') -> Psi s' = Psi s ->
  Eqv s s' /\ (r = PPending \/ r = PEnd)
  /\ (Wt (s_t s) -> rdy (s_t s) = true /\ s_respq s = [])
  /\ (cfg_limit c = None \/ rdy (s_t s) = true -> ReadOk s).
Proof.
  intros H HP. cbn [requests_poll_next] in H.
  destruct (pump_read stp c (S f) s) as [rd s1] eqn:ER.
  destruct (R_pump_read _ _ _ _ _ ER) as ([L1 _] & S1).
  assert (Hmain : forall rc wr s2, pump_write stp rc s1 = (wr, s2) -> s2 = s' -> (rd = PPending \/ rd = PEnd) ->
            (r = PPending \/ r = PEnd) ->
            Eqv s s' /\ (r = PPending \/ r = PEnd)
            /\ (Wt (s_t s) -> rdy (s_t s) = true /\ s_respq s = [])
            /\ (cfg_limit c = None \/ rdy (s_t s) = true -> ReadOk s)).
  { intros rc wr s2 EW -> Hrd Hr. pose proof (R_le _ _ (proj1 (R_pump_write _ _ _ _ EW))) as L2.
    assert (P1 : Psi s1 = Psi s) by lia. assert (P2 : Psi s' = Psi s1) by lia.
    destruct (q_pump_read _ _ _ _ _ ER P1) as (V1 & _ & HR).
    destruct (q_pump_write _ _ _ _ EW P2) as (V2 & _ & Q1 & Q2).
    rewrite (eq_t _ _ V1), (eq_respq _ _ V1) in *.
    split; [eapply Eqv_trans; eassumption|split; [exact Hr|split]].
    - intros W. pose proof (Wt_rdy _ W Q2) as X. auto.
    - intros [X|X]; destruct HR as [(A & B & _)|Y]; auto; congruence. }
  destruct rd as [q| |a| |].
  - exfalso. specialize (S1 q eq_refl). destruct (pump_write stp false s1) as [wr s2] eqn:EW.
    pose proof (R_le _ _ (proj1 (R_pump_write _ _ _ _ EW))) as L2.
    destruct wr as [u| |a| |]; injection H as _ <-; unfold Psi in *; sproj; try rewrite app_length in *; cbn [length] in *; lia.
  - destruct (pump_write stp true s1) as [wr s2] eqn:EW.
    destruct (R_pump_write _ _ _ _ EW) as ([L2 _] & S2).
    destruct wr as [u| |a| |].
    + exfalso. specialize (S2 u eq_refl). destruct (R_requests_poll_next _ _ _ _ _ H) as ([LL _] & _). lia.
    + injection H as <- <-. apply (Hmain _ _ _ EW); auto.
    + exfalso. injection H as _ <-. assert (P2 : Psi s2 = Psi s1) by lia.
      destruct (q_pump_write _ _ _ _ EW P2) as (_ & [X|X] & _); discriminate.
    + injection H as <- <-. apply (Hmain _ _ _ EW); auto.
    + exfalso. injection H as _ <-. assert (P2 : Psi s2 = Psi s1) by lia.
      destruct (q_pump_write _ _ _ _ EW P2) as (_ & [X|X] & _); discriminate.
  - exfalso. injection H as _ <-. destruct (q_pump_read _ _ _ _ _ ER HP) as (_ & [X|X] & _); discriminate.
  - destruct (pump_write stp false s1) as [wr s2] eqn:EW.
    destruct (R_pump_write _ _ _ _ EW) as ([L2 _] & S2).
    destruct wr as [u| |a| |].
    + exfalso. specialize (S2 u eq_refl). destruct (R_requests_poll_next _ _ _ _ _ H) as ([LL _] & _). lia.
    + injection H as <- <-. apply (Hmain _ _ _ EW); auto.
    + exfalso. injection H as _ <-. assert (P2 : Psi s2 = Psi s1) by lia.
      destruct (q_pump_write _ _ _ _ EW P2) as (_ & [X|X] & _); discriminate.
    + injection H as <- <-. apply (Hmain _ _ _ EW); auto.
    + exfalso. injection H as _ <-. assert (P2 : Psi s2 = Psi s1) by lia.
      destruct (q_pump_write _ _ _ _ EW P2) as (_ & [X|X] & _); discriminate.
  - exfalso. injection H as _ <-. assert (P1 : Psi s1 = Psi s) by lia.
    destruct (q_pump_read _ _ _ _ _ ER P1) as (_ & [X|X] & _); discriminate.
Qed.

(* ================================================================== the handler half *)
Lemma set_hst_id k x (l : list hrec) hr : nth_error l k = Some hr -> h_st hr = x -> set_hst k x l = l.
Proof.
  revert k; induction l as [|y r IH]; intros [|k] H E; cbn [nth_error set_hst] in *; try discriminate.
  - inversion H; subst y. destruct hr as [h i z]. cbn in *. subst z. reflexivity.
  - rewrite (IH k H E). reflexivity.
Qed.
Lemma set_handlers_id (s : st) : set_handlers s (s_handlers s) = s.
Proof. destruct s. reflexivity. Qed.

(* what a live handler looks like when polling it changes nothing *)
Definition stuck (s : st) (hr : hrec) : Prop :=
  ~ In (h_h hr) (s_aborted s)
  /\ (h_st hr = HRunning \/ exists b, h_st hr = HWait b /\ s_dropped s = false).

Lemma not_aborted (s : st) h : existsb (Nat.eqb h) (s_aborted s) = false -> ~ In h (s_aborted s).
Proof.
  intros E Hin. assert (existsb (Nat.eqb h) (s_aborted s) = true).
  { apply existsb_exists. exists h. split; [exact Hin|apply Nat.eqb_refl]. } congruence.
Qed.

Lemma q_exec k hs (s : st) s' l hr :
  execute_poll k hs s = (s', l) -> Psi s' = Psi s -> nth_error (s_handlers s) k = Some hr ->
  h_st hr <> HYielded ->
  s' = s /\ filter keep_hev l = [] /\ (h_live (h_st hr) = true -> stuck s hr /\ (h_st hr = HRunning -> hs = SRun)).
Proof.
  intros H HP Hk Hny.
  destruct (exec_pot _ _ _ _ _ H) as (_ & P2). destruct (P2 HP) as (_ & Fl).
  { intros hr0 E. rewrite Hk in E. inversion E; subst. exact Hny. }
  unfold execute_poll in H. rewrite Hk in H. cbv beta zeta in H.
  assert (F0 : forall x, Psi (set_handlers s (set_hst k x (s_handlers s))) + wh (h_st hr) = Psi s + wh x)
    by (intro x; apply (Psi_sethst s s k hr x eq_refl Hk)).
  assert (FW : forall x w, Psi (set_handlers (set_waiters s w) (set_hst k x (s_handlers (set_waiters s w))))
                           + wh (h_st hr) = Psi s + wh x).
  { intros x w. rewrite (Psi_sethst s (set_waiters s w) k hr x eq_refl Hk). reflexivity. }
  assert (FQ : forall x p m, Psi (set_handlers (set_respq (set_permits s p) (s_respq s ++ [m]))
                                   (set_hst k x (s_handlers (set_respq (set_permits s p) (s_respq s ++ [m])))))
                             + wh (h_st hr) = Psi s + 2 + wh x).
  { intros x p m. rewrite (Psi_sethst s (set_respq (set_permits s p) (s_respq s ++ [m])) k hr x eq_refl Hk).
    unfold Psi. sproj. rewrite app_length. cbn [length]. lia. }
  assert (FQ' : forall x m, Psi (set_handlers (set_respq s (s_respq s ++ [m]))
                                   (set_hst k x (s_handlers (set_respq s (s_respq s ++ [m])))))
                             + wh (h_st hr) = Psi s + 2 + wh x).
  { intros x m. rewrite (Psi_sethst s (set_respq s (s_respq s ++ [m])) k hr x eq_refl Hk).
    unfold Psi. sproj. rewrite app_length. cbn [length]. lia. }
  assert (FP : 3 <= wh (h_st hr) ->
               Psi (set_handlers (add_permit s) (set_hst k HDone (s_handlers (add_permit s)))) + 3 <= Psi s).
  { intro W3. destruct (add_permit_nth s k hr Hk) as (hr' & A & B).
    pose proof (Psi_sethst (add_permit s) (add_permit s) k hr' HDone eq_refl A) as X. cbn [wh] in X.
    destruct (Psi_add_permit s) as [Y _].
    assert (3 <= wh (h_st hr')).
    { destruct B as [B|(b & B1 & B2)]; [rewrite B; exact W3|rewrite B2; cbn; lia]. }
    lia. }
  split; [|split; [exact Fl|]].
  - (* the state *)
    destruct (h_st hr) eqn:Est; try congruence; cbn [wh] in *.
    + destruct (existsb _ _); [exfalso; injection H as <- _; specialize (F0 HDone); cbn [wh] in F0; lia|].
      destruct hs.
      * injection H as <- _. rewrite (set_hst_id k HRunning _ hr Hk Est). apply set_handlers_id.
      * exfalso. destruct (s_dropped s); [|destruct (s_permits s)]; injection H as <- _.
        -- specialize (F0 HDone). cbn [wh] in F0. lia.
        -- specialize (FW (HWait (BOk v)) (s_waiters s ++ [k])). cbn [wh s_handlers set_waiters] in FW. lia.
        -- specialize (FQ HDone n (mkresp (h_id hr) (BOk v))). cbn [wh] in FQ. sproj. lia.
      * exfalso. destruct (s_dropped s); [|destruct (s_permits s)]; injection H as <- _.
        -- specialize (F0 HDone). cbn [wh] in F0. lia.
        -- specialize (FW (HWait BErr) (s_waiters s ++ [k])). cbn [wh s_handlers set_waiters] in FW. lia.
        -- specialize (FQ HDone n (mkresp (h_id hr) BErr)). cbn [wh] in FQ. sproj. lia.
    + destruct (existsb _ _).
      { exfalso. injection H as <- _. specialize (FW HDone (remove_waiter k (s_waiters s))). cbn [wh s_handlers set_waiters] in FW. lia. }
      destruct (s_dropped s); injection H as <- _; [exfalso|reflexivity].
      specialize (FW HDone (remove_waiter k (s_waiters s))). cbn [wh s_handlers set_waiters] in FW. lia.
    + exfalso. destruct (existsb _ _); [injection H as <- _; specialize (FP ltac:(lia)); lia|].
      destruct (s_dropped s); injection H as <- _.
      * specialize (F0 HDone). cbn [wh] in F0. lia.
      * specialize (FQ' HDone (mkresp (h_id hr) b)). cbn [wh s_handlers set_respq] in FQ'. sproj. lia.
  - (* why *)
    intros Hl. destruct (h_st hr) eqn:Est; try discriminate; try congruence; cbn [wh] in *.
    + destruct (existsb _ _) eqn:EA; [exfalso; injection H as <- _; specialize (F0 HDone); cbn [wh] in F0; lia|].
      split; [split; [exact (not_aborted _ _ EA)|left; exact Est]|]. intros _.
      destruct hs; [reflexivity|exfalso..].
      * destruct (s_dropped s); [|destruct (s_permits s)]; injection H as <- _.
        -- specialize (F0 HDone). cbn [wh] in F0. lia.
        -- specialize (FW (HWait (BOk v)) (s_waiters s ++ [k])). cbn [wh s_handlers set_waiters] in FW. lia.
        -- specialize (FQ HDone n (mkresp (h_id hr) (BOk v))). cbn [wh] in FQ. sproj. lia.
      * destruct (s_dropped s); [|destruct (s_permits s)]; injection H as <- _.
        -- specialize (F0 HDone). cbn [wh] in F0. lia.
        -- specialize (FW (HWait BErr) (s_waiters s ++ [k])). cbn [wh s_handlers set_waiters] in FW. lia.
        -- specialize (FQ HDone n (mkresp (h_id hr) BErr)). cbn [wh] in FQ. sproj. lia.
    + destruct (existsb _ _) eqn:EA.
      { exfalso. injection H as <- _. specialize (FW HDone (remove_waiter k (s_waiters s))). cbn [wh s_handlers set_waiters] in FW. lia. }
      destruct (s_dropped s) eqn:ED.
      { exfalso. injection H as <- _. specialize (FW HDone (remove_waiter k (s_waiters s))). cbn [wh s_handlers set_waiters] in FW. lia. }
      split; [split; [exact (not_aborted _ _ EA)|right; exists b; split; [exact Est|exact ED]]|discriminate].
    + exfalso. destruct (existsb _ _); [injection H as <- _; specialize (FP ltac:(lia)); lia|].
      destruct (s_dropped s); injection H as <- _.
      * specialize (F0 HDone). cbn [wh] in F0. lia.
      * specialize (FQ' HDone (mkresp (h_id hr) b)). cbn [wh s_handlers set_respq] in FQ'. sproj. lia.
Qed.

Lemma q_poll_handlers rel : forall n (s : st) i acc s2 hev,
  poll_handlers rel s i n acc = (s2, hev) -> Psi s2 = Psi s -> NY s ->
  s2 = s /\ hev = acc
  /\ forall k hr, i <= k < i + n -> nth_error (s_handlers s) k = Some hr -> h_live (h_st hr) = true ->
                  stuck s hr /\ (h_st hr = HRunning -> rel_of k rel = SRun).
Proof.
  induction n as [|n IH]; intros s i acc s2 hev H HP Hny; cbn [poll_handlers] in H.
  { injection H as <- <-. split; [reflexivity|split; [reflexivity|]]. intros k hr Hk. lia. }
  destruct (nth_error (s_handlers s) i) as [hr|] eqn:Hi.
  2:{ injection H as <- <-. split; [reflexivity|split; [reflexivity|]].
      intros k hr Hk Hn. exfalso. apply nth_error_None in Hi.
      assert (k < length (s_handlers s)) by (apply nth_error_Some; congruence). lia. }
  destruct (h_live (h_st hr)) eqn:Hl.
  - destruct (execute_poll i (rel_of i rel) s) as [s1 l] eqn:EX.
    destruct (exec_pot _ _ _ _ _ EX) as [P1 _].
    destruct (poll_handlers_pot _ _ _ _ _ _ _ H) as (Q1 & _ & _).
    assert (E1 : Psi s1 = Psi s) by lia.
    assert (Hn : h_st hr <> HYielded) by (intros Y; apply (Hny i); exists hr; auto).
    destruct (q_exec _ _ _ _ _ _ EX E1 Hi Hn) as (-> & Fl & Hst).
    destruct (IH _ _ _ _ _ H HP Hny) as (-> & -> & Hall).
    split; [reflexivity|split; [rewrite Fl; apply app_nil_r|]].
    intros k hr0 Hk Hk0 Hl0. destruct (Nat.eq_dec k i) as [->|N].
    + rewrite Hi in Hk0. inversion Hk0; subst hr0. exact (Hst Hl0).
    + apply Hall; auto. lia.
  - destruct (IH _ _ _ _ _ H HP Hny) as (-> & -> & Hall).
    split; [reflexivity|split; [reflexivity|]].
    intros k hr0 Hk Hk0 Hl0. destruct (Nat.eq_dec k i) as [->|N].
    + rewrite Hi in Hk0. inversion Hk0; subst hr0. congruence.
    + apply Hall; auto. lia.
Qed.

(* ================================================================== the digest determines Psi *)
Lemma nat_list_eqb_eq : forall a b : list nat, list_eqb Nat.eqb a b = true -> a = b.
Proof.
  induction a as [|x a IH]; intros [|y b] H; cbn [list_eqb] in H; try discriminate; [reflexivity|].
  apply andb_true_iff in H. destruct H as [E H]. apply Nat.eqb_eq in E. subst y. rewrite (IH b H). reflexivity.
Qed.

Lemma split_at_99 : forall (l1 l2 r1 r2 : list nat),
  l1 ++ 99 :: r1 = l2 ++ 99 :: r2 -> (forall x, In x l1 -> x <> 99) -> (forall x, In x l2 -> x <> 99) ->
  l1 = l2 /\ r1 = r2.
Proof.
  induction l1 as [|a l1 IH]; intros [|b l2] r1 r2 H N1 N2; cbn [app] in H.
  - inversion H. auto.
  - exfalso. inversion H. apply (N2 b); [left; reflexivity|congruence].
  - exfalso. inversion H. apply (N1 a); [left; reflexivity|congruence].
  - inversion H. subst b. destruct (IH l2 r1 r2 H2) as (-> & ->).
    + intros x Hx. apply N1. right. exact Hx.
    + intros x Hx. apply N2. right. exact Hx.
    + auto.
Qed.

Lemma codes_not_99 (l : list hrec) x : In x (codes l) -> x <> 99.
Proof.
  unfold codes. intros H. apply in_map_iff in H. destruct H as (h & <- & _). destruct (h_st h); cbn; lia.
Qed.

Definition wcode (n : nat) : nat := match n with 0 | 1 => 4 | 2 | 3 => 3 | _ => 0 end.
Lemma WH_codes (l : list hrec) : WH l = list_sum (map wcode (codes l)).
Proof.
  induction l as [|x r IH]; cbn [WH codes map list_sum]; [reflexivity|].
  unfold codes in IH. rewrite IH. destruct (h_st x); reflexivity.
Qed.

Lemma digest_Psi (a b : st) : digest_eqb (digest sdig a) (digest sdig b) = true -> Psi a = Psi b.
Proof.
  unfold digest_eqb, digest. cbn [fst snd]. intros H.
  apply andb_true_iff in H. destruct H as [H F2]. apply andb_true_iff in H. destruct H as [H F1].
  apply nat_list_eqb_eq in H. apply Bool.eqb_prop in F1. cbn [app] in H.
  injection H as E1 E2 E3 E4 E5 E6 E7 H.
  fold (codes (s_handlers a)) (codes (s_handlers b)) in H.
  apply split_at_99 in H; try apply codes_not_99. destruct H as (EC & ET).
  unfold sdig in ET. injection ET as T1 T2 T3 T4 T5 T6 T7.
  unfold Psi, tpot. rewrite !WH_codes, EC, E5, E3, E2, T1, T2, T3, T4, T5, T6, F1. reflexivity.
Qed.

(* ================================================================== the state a settle ends in *)
Definition QEnd (c : cfg) (w : WST) : Prop :=
  let s := w_s w in
  NY s
  /\ (forall k hr, nth_error (s_handlers s) k = Some hr -> h_live (h_st hr) = true -> stuck s hr)
  /\ (s_dropped s = false -> w_end w = None ->
      (Wt (s_t s) -> rdy (s_t s) = true /\ s_respq s = [])
      /\ (cfg_limit c = None \/ rdy (s_t s) = true -> ReadOk s)).

Lemma ReadOk_Eqv (a b : st) : Eqv a b -> ReadOk a -> ReadOk b.
Proof.
  intros V (A & B). split; [eapply Complete_Eqv'; eassumption|].
  rewrite (eq_fused _ _ V), (eq_t _ _ V). exact B.
Qed.

Lemma poll_fuel_S (s : st) : exists f, poll_fuel sfuel s = S f.
Proof. unfold poll_fuel. eexists. cbn [Nat.add]. reflexivity. Qed.

Lemma round_quiet c (w : WST) s1 e1 ev1 s2 hev :
  stream_half c w = (s1, e1, ev1, false) ->
  poll_handlers (w_rel w) s1 0 (length (s_handlers s1)) [] = (s2, hev) ->
  digest_eqb (digest sdig (w_s w)) (digest sdig s2)
    && match ev1, hev with [], [] => true | _, _ => false end
    && Bool.eqb (is_some e1) (is_some (w_end w)) = true ->
  NY (w_s w) -> QEnd c (mkw s2 (w_rel w) e1).
Proof.
  intros ES EH HQ Hny.
  apply andb_true_iff in HQ. destruct HQ as [HQ HE]. apply andb_true_iff in HQ. destruct HQ as [HD HV].
  apply Bool.eqb_prop in HE. apply digest_Psi in HD.
  assert (Hev : ev1 = [] /\ hev = []) by (destruct ev1, hev; try discriminate; auto). destruct Hev as (-> & ->).
  destruct (stream_pot _ _ _ _ _ _ ES) as (_ & L1 & E1).
  destruct (poll_handlers_pot _ _ _ _ _ _ _ EH) as (L2 & Y2 & _).
  assert (EW : endw e1 = endw (w_end w)) by (unfold endw; rewrite HE; reflexivity).
  assert (P1 : Psi s1 = Psi (w_s w)) by lia. assert (P2 : Psi s2 = Psi s1) by lia.
  destruct E1 as (_ & C1 & _ & _); [lia|].
  assert (Hny1 : NY s1) by exact (NY_codes _ _ C1 Hny).
  destruct (q_poll_handlers _ _ _ _ _ _ _ EH P2 Hny1) as (-> & _ & Hst).
  unfold QEnd. cbn [w_s w_rel w_end]. split; [exact Hny1|split].
  - intros k hr Hk Hl. apply (Hst k hr); auto.
    assert (k < length (s_handlers s1)) by (apply nth_error_Some; congruence). lia.
  - intros Hd He. unfold stream_half in ES. cbv zeta in ES.
    destruct (s_dropped (w_s w) || is_some (w_end w)) eqn:EB.
    { exfalso. injection ES as <- <-. rewrite He in EB. cbn [is_some] in EB. rewrite Hd in EB. discriminate. }
    apply orb_false_iff in EB. destruct EB as [ED _].
    destruct (poll_requests stp sfuel c (w_s w)) as [s' l] eqn:EP.
    unfold poll_requests in EP. rewrite ED in EP.
    destruct (poll_fuel_S (w_s w)) as (f & Ef). rewrite Ef in EP.
    destruct (requests_poll_next stp c (S f) (set_log (w_s w) [])) as [r sr] eqn:ER.
    destruct r as [q| |a| |]; injection EP as <- <-.
    + exfalso. destruct (filter keep_call (rev (s_log sr))); injection ES as _ _ X; discriminate.
    + exfalso. destruct (filter keep_call (rev (s_log sr))); injection ES as _ _ X; discriminate.
    + exfalso. destruct (filter keep_call (rev (s_log sr))); injection ES as _ _ X; discriminate.
    + injection ES as <- _ _.
      assert (P0 : Psi sr = Psi (set_log (w_s w) [])) by exact P1.
      destruct (q_requests _ _ _ _ _ ER P0) as (V & _ & QW & QR).
      pose proof (eq_t _ _ V) as Et. pose proof (eq_respq _ _ V) as Eq. sproj.
      rewrite <- Et in QW, QR. rewrite <- Eq in QW.
      split; [exact QW|]. intros X. apply (ReadOk_Eqv _ _ V). apply QR. exact X.
    + exfalso. injection ES as _ _ _ X. discriminate.
Qed.

Lemma settle_end c : forall r (w : WST) o w' o',
  ssettle c r w o = (w', o') -> so_fuel o' = false -> NY (w_s w) -> QEnd c w'.
Proof.
  induction r as [|r IH]; intros w o w' o' H HF Hny.
  { cbn in H. injection H as _ <-. cbn in HF. discriminate. }
  rewrite settle_S in H.
  destruct (stream_half c w) as [[[s1 e1] ev1] fuel1] eqn:ES.
  destruct (stream_pot _ _ _ _ _ _ ES) as (-> & L1 & E1).
  destruct (poll_handlers (w_rel w) s1 0 (length (s_handlers s1)) []) as [s2 hev] eqn:EH.
  cbv zeta in H. cbn match in H.
  match type of H with (if ?q then _ else _) = _ => destruct q eqn:EQ end.
  - injection H as <- _. exact (round_quiet _ _ _ _ _ _ _ ES EH EQ Hny).
  - apply (IH _ _ _ _ H HF). cbn [w_s].
    destruct (poll_handlers_pot _ _ _ _ _ _ _ EH) as (_ & Y2 & _). apply Y2; [lia|]. intros j Hj. lia.
Qed.
