(* Timer wheel proofs, part 4: the DelayQueue (insert, remove, poll_expired) inside the range:
   never early, complete, the multiset of timers is kept, least deadline first. *)
From Coq Require Import List Bool Arith NArith Lia Permutation.
Import ListNotations.
From TarpcV Require Import TimerWheel TimerWheelProofs0 TimerWheelProofs1 TimerWheelProofs2 TimerWheelProofs3.
Local Open Scope N_scope.

Definition qents (q : dqueue) : list wentry := wents (w_slots (dq_wheel q)).
Definition contents (q : dqueue) : list wentry := dq_expired q ++ qents q.
Notation elapsed q := (w_elapsed (dq_wheel q)).

Definition delay_ok (E : N) (ents : list wentry) (d : option N) : Prop :=
  match d with
  | Some d => E <= d /\ d < RNG /\ forall e, In e ents -> d <= we_when e
  | None => ents = []
  end.

Record DI (q : dqueue) : Prop := {
  di_w : WI 1 (dq_wheel q);
  di_exp : forall e, In e (dq_expired q) -> we_when e <= elapsed q;
  di_now : elapsed q <= dq_wheel_now q /\ dq_wheel_now q < RNG;
  di_delay : delay_ok (elapsed q) (qents q) (dq_delay q) }.

Lemma DI_init : DI dq_init.
Proof.
  constructor; cbn.
  - constructor; cbn; [reflexivity|apply wf_nil|intros ? ? ? []].
  - intros ? [].
  - split; [lia|reflexivity].
  - reflexivity.
Qed.

(* ---------------------------------------------------------------- sizes *)
Lemma wheel_size_len w : wheel_size w = length (wents (w_slots w)).
Proof.
  unfold wheel_size, wents. generalize (w_slots w). intro l.
  assert (G : forall a, fold_left (fun n x => (n + length (ws_stack x))%nat) l a = (a + length (flat_map ws_stack l))%nat).
  { induction l as [|x r IH]; intro a; cbn [fold_left flat_map length]; [lia|]. rewrite IH, app_length. lia. }
  apply (G 0%nat).
Qed.
Lemma lsum_le l : (forall x, In x l -> (ws_level x <= 5)%nat) -> (lsum l <= 5 * length (wents l))%nat.
Proof.
  induction l as [|x r IH]; intro H; cbn [lsum fold_right wents flat_map length]; [lia|].
  fold (lsum r). fold (wents r). rewrite app_length.
  specialize (IH (fun y Y => H y (or_intror Y))). specialize (H x (or_introl eq_refl)). nia.
Qed.
Lemma WI_levels m w x : WI m w -> In x (w_slots w) -> (ws_level x <= 5)%nat.
Proof.
  intros [_ W OK] I. destruct (ws_stack x) as [|e st] eqn:S; [exfalso; apply (wf_ne _ W x I S)|].
  apply (OK (ws_level x) (ws_slot x) e). rewrite (stack_of_wf _ x (wf_keys _ W) I), S. left; reflexivity.
Qed.
Lemma WI_lsum m w : WI m w -> (lsum (w_slots w) <= 5 * wheel_size w)%nat.
Proof. intro I. rewrite wheel_size_len. apply lsum_le. intros x H. eapply WI_levels; eassumption. Qed.

(* ---------------------------------------------------------------- next_deadline *)
Lemma next_deadline_ok w : WI 1 w -> delay_ok (w_elapsed w) (wents (w_slots w)) (next_deadline w).
Proof.
  intro I. unfold next_deadline. pose proof (next_expiration_spec 1 w I) as NX.
  destruct (next_expiration w) as [[[lv sl] dl]|]; cbn [delay_ok].
  - destruct NX as [BEL LV OCC DL MIN GE]. destruct I as [RG W OK].
    assert (ALL : forall e, In e (wents (w_slots w)) -> dl <= we_when e).
    { intros e H. destruct (wents_stack _ _ W H) as (lv' & sl' & H').
      pose proof (sstart_le lv' (we_when e)).
      destruct (Nat.eq_dec lv' lv) as [->|N1]; [destruct (N.eq_dec sl' sl) as [->|N2]|].
      - rewrite <- (DL e H'). exact H0.
      - pose proof (MIN lv sl' e H' ltac:(congruence)). lia.
      - pose proof (MIN lv' sl' e H' ltac:(congruence)). lia. }
    split; [exact GE|]. split; [|exact ALL].
    destruct (stack_of lv sl (w_slots w)) as [|e st] eqn:S; [congruence|].
    assert (Ie : In e (stack_of lv sl (w_slots w))) by (rewrite S; left; reflexivity).
    pose proof (ALL e (stack_wents _ _ _ _ Ie)). pose proof (eo_rng _ _ _ _ _ (OK _ _ _ Ie)). lia.
  - destruct (wents (w_slots w)) as [|e st] eqn:S; [reflexivity|]. exfalso.
    destruct (wents_stack _ e (wi_wf _ _ I)) as (lv & sl & H); [rewrite S; left; reflexivity|].
    rewrite NX in H. destruct H.
Qed.

Lemma WI_entry_ge w e : WI 1 w -> In e (wents (w_slots w)) -> w_elapsed w <= we_when e /\ we_when e < RNG.
Proof.
  intros I H. destruct (wents_stack _ _ (wi_wf _ _ I) H) as (lv & sl & H').
  destruct (wi_ok _ _ I _ _ _ H') as [_ R _ _ LE _ _]. pose proof (sstart_le lv (we_when e)). lia.
Qed.

(* ---------------------------------------------------------------- insert *)
Lemma dq_insert_spec id when_abs q :
  DI q -> N.max when_abs (elapsed q) < RNG ->
  DI (dq_insert id when_abs q) /\
  Permutation (contents (dq_insert id when_abs q))
              ({| we_id := id; we_when := N.max when_abs (elapsed q) |} :: contents q) /\
  elapsed (dq_insert id when_abs q) = elapsed q /\ dq_wheel_now (dq_insert id when_abs q) = dq_wheel_now q.
Proof.
  intros [IW IE IN ID] RW. unfold dq_insert.
  set (E := elapsed q) in *. set (wh := N.max when_abs E) in *.
  set (e := {| we_id := id; we_when := wh |}).
  set (ss := match dq_delay q with Some d => wh <? N.max d E | None => true end).
  destruct (wh <=? E) eqn:C.
  - apply N.leb_le in C. assert (WE : wh = E) by (unfold wh in *; lia).
    cbv zeta. split; [|split; [reflexivity|split; reflexivity]].
    constructor; cbn [dq_wheel dq_expired dq_wheel_now dq_delay].
    + exact IW.
    + intros x [<-|H]; [cbn; fold E; lia|apply IE, H].
    + exact IN.
    + fold ss. destruct ss; [|exact ID]. cbn [delay_ok]. fold E. split; [lia|]. split; [exact RW|].
      intros x H. destruct (WI_entry_ge _ _ IW H). fold E in H0. lia.
  - apply N.leb_gt in C. cbv zeta.
    set (w' := {| w_elapsed := E; w_slots := add_entry (level_for E wh) e (w_slots (dq_wheel q)) |}).
    assert (IW' : WI 1 w') by (apply (WI_insert (dq_wheel q) e IW); cbn [we_when e]; assumption).
    assert (PW : Permutation (wents (w_slots w')) (e :: qents q)) by apply wents_push.
    split; [|split; [|split; reflexivity]].
    + constructor; cbn [dq_wheel dq_expired dq_wheel_now dq_delay].
      * exact IW'.
      * exact IE.
      * exact IN.
      * fold ss. unfold qents. cbn [dq_wheel]. change (w_elapsed w') with E.
        assert (OLD : forall x, In x (wents (w_slots w')) -> x = e \/ In x (qents q)).
        { intros x H. apply (Permutation_in _ PW) in H. destruct H; [left; congruence|right; assumption]. }
        unfold ss. destruct (dq_delay q) as [d|] eqn:ED; cbn [delay_ok] in ID |- *.
        -- destruct ID as (D1 & D2 & D3). destruct (wh <? N.max d E) eqn:CS; cbn [delay_ok].
           ++ apply N.ltb_lt in CS. split; [lia|]. split; [exact RW|]. intros x H.
              destruct (OLD x H) as [->|H']; [cbn; lia|]. specialize (D3 x H'). lia.
           ++ apply N.ltb_ge in CS. split; [exact D1|]. split; [exact D2|]. intros x H.
              destruct (OLD x H) as [->|H']; [cbn; lia|]. apply D3, H'.
        -- split; [lia|]. split; [exact RW|]. intros x H. destruct (OLD x H) as [->|H']; [cbn; lia|].
           rewrite ID in H'. destruct H'.
    + unfold contents, qents. cbn [dq_wheel dq_expired]. eapply perm_trans; [apply Permutation_app_head, PW|].
      symmetry. apply Permutation_middle.
Qed.

(* ---------------------------------------------------------------- remove *)
Lemma filter_keep_id id (a b : list wentry) :
  NoDup (map we_id (a ++ b)) -> existsb (fun e => N.eqb (we_id e) id) a = true -> filter (keep id) b = b.
Proof.
  intros ND EX. apply existsb_exists in EX. destruct EX as (x & Ix & Ex). apply N.eqb_eq in Ex.
  rewrite map_app in ND. induction b as [|y r IH]; cbn [filter]; [reflexivity|].
  assert (we_id y <> id).
  { intro Z. apply in_split in Ix. destruct Ix as (a1 & a2 & ->).
    rewrite map_app in ND. cbn [map] in ND. rewrite <- app_assoc in ND. cbn [app] in ND.
    apply NoDup_remove_2 in ND. apply ND. rewrite Ex, <- Z. apply in_or_app. right. apply in_or_app. right. left. reflexivity. }
  unfold keep at 1. destruct (N.eqb_spec (we_id y) id); [contradiction|]. cbn [negb]. f_equal. apply IH.
  cbn [map] in ND. apply NoDup_remove_1 in ND. exact ND.
Qed.

Lemma dq_remove_spec id q :
  DI q ->
  DI (dq_remove id q) /\
  (NoDup (map we_id (contents q)) -> contents (dq_remove id q) = filter (keep id) (contents q)) /\
  (forall e, In e (contents (dq_remove id q)) -> In e (contents q)) /\
  elapsed (dq_remove id q) = elapsed q /\ dq_wheel_now (dq_remove id q) = dq_wheel_now q.
Proof.
  intros [IW IE IN ID]. unfold dq_remove.
  set (inx := existsb (fun e => N.eqb (we_id e) id) (dq_expired q)).
  set (w' := if inx then dq_wheel q
             else {| w_elapsed := elapsed q; w_slots := remove_entry id (w_slots (dq_wheel q)) |}).
  assert (IW' : WI 1 w') by (unfold w'; destruct inx; [exact IW|apply WI_remove, IW]).
  assert (EW : w_elapsed w' = elapsed q) by (unfold w'; destruct inx; reflexivity).
  assert (SUB : forall e, In e (wents (w_slots w')) -> In e (qents q)).
  { unfold w'. destruct inx; [auto|]. cbn [w_slots]. intros e H. rewrite wents_remove in H. apply filter_In in H. apply H. }
  cbv zeta. fold inx. fold w'. split; [|split; [|split; [|split; [exact EW|reflexivity]]]].
  - constructor; cbn [dq_wheel dq_expired dq_wheel_now dq_delay].
    + exact IW'.
    + intros e H. apply filter_In in H. rewrite EW. apply IE, H.
    + rewrite EW. exact IN.
    + rewrite EW. unfold qents. cbn [dq_wheel].
      destruct (opt_N_eqb (next_deadline (dq_wheel q)) (next_deadline w')).
      * destruct (dq_delay q) as [d|]; cbn [delay_ok] in ID |- *.
        -- destruct ID as (D1 & D2 & D3). split; [exact D1|]. split; [exact D2|]. intros e H. apply D3, SUB, H.
        -- case_eq (wents (w_slots w')); [reflexivity|intros e st S].
           assert (In e (qents q)) by (apply SUB; rewrite S; left; reflexivity). rewrite ID in H. destruct H.
      * rewrite <- EW. apply next_deadline_ok, IW'.
  - intro ND. unfold contents, qents. cbn [dq_wheel dq_expired]. rewrite filter_app. fold (keep id). f_equal.
    unfold w'. destruct inx eqn:EX.
    + symmetry. eapply filter_keep_id; [exact ND|exact EX].
    + cbn [w_slots]. apply wents_remove.
  - intros e H. unfold contents, qents in *. cbn [dq_wheel dq_expired] in H. apply in_app_or in H. apply in_or_app.
    destruct H as [H|H]; [left; apply filter_In in H; apply H|right; apply SUB, H].
Qed.

(* ---------------------------------------------------------------- poll_expired *)
Definition stale (q : dqueue) : nat :=
  match dq_delay q, next_expiration (dq_wheel q) with
  | Some d, Some (_, _, dl) => if dl <=? d then 0%nat else 1%nat
  | _, _ => 0%nat
  end.

Definition poll_post (clock : N) (q : dqueue) (r : dqres) (q' : dqueue) : Prop :=
  DI q' /\ elapsed q <= elapsed q' /\ elapsed q' <= clock /\ dq_wheel_now q' <= clock /\
  match r with
  | DQSome id => exists e, we_id e = id /\ Permutation (contents q) (e :: contents q') /\ we_when e <= clock /\
                           (dq_expired q = [] -> forall e', In e' (contents q') -> we_when e <= we_when e')
  | DQPending => Permutation (contents q) (contents q') /\ forall e', In e' (contents q') -> clock < we_when e'
  | DQNone => contents q = [] /\ contents q' = []
  end.

Lemma dq_poll_loop_spec clock fuel : forall q,
  DI q -> dq_expired q = [] -> elapsed q <= clock -> dq_wheel_now q <= clock ->
  (lsum (w_slots (dq_wheel q)) + stale q < fuel)%nat ->
  forall r q', dq_poll_loop fuel clock q = (r, q') -> poll_post clock q r q'.
Proof.
  induction fuel as [|f IH]; intros q I EX EC NC FU r q' HP; [lia|].
  cbn [dq_poll_loop] in HP. destruct I as [IW IE IN ID].
  assert (CQ : contents q = qents q) by (unfold contents; rewrite EX; reflexivity).
  set (ready := match dq_delay q with Some d => d <=? clock | None => true end) in HP.
  destruct ready eqn:RD; cbn [negb] in HP.
  2: { (* the Sleep has not fired *)
    injection HP as <- <-. unfold ready in RD. destruct (dq_delay q) as [d|] eqn:ED; [|discriminate].
    apply N.leb_gt in RD. cbn [delay_ok] in ID. destruct ID as (D1 & D2 & D3).
    split; [constructor; try assumption; rewrite ED; cbn; auto|]. split; [lia|]. split; [exact EC|]. split; [exact NC|].
    split; [reflexivity|]. intros e' H. rewrite CQ in H. specialize (D3 e' H). lia. }
  set (wn := match dq_delay q with Some d => d | None => dq_wheel_now q end) in *.
  assert (WN : elapsed q <= wn /\ wn < RNG /\ wn <= clock).
  { unfold wn, ready in *. destruct (dq_delay q) as [d|]; cbn [delay_ok] in ID.
    - apply N.leb_le in RD. destruct ID as (D1 & D2 & _). lia.
    - destruct IN. lia. }
  destruct WN as (W1 & W2 & W3).
  destruct (wheel_poll (6 * S (wheel_size (dq_wheel q))) wn (dq_wheel q)) as [idx w'] eqn:EP.
  assert (FW : (lsum (w_slots (dq_wheel q)) < 6 * S (wheel_size (dq_wheel q)))%nat)
    by (pose proof (WI_lsum _ _ IW); lia).
  destruct (wheel_poll_spec _ _ _ _ IW W1 W2 FW _ _ EP) as (P1 & P2 & P3 & P4).
  set (q1 := {| dq_wheel := w'; dq_expired := dq_expired q; dq_wheel_now := wn; dq_delay := next_deadline w' |}) in *.
  assert (I1 : DI q1).
  { constructor; cbn [dq_wheel dq_expired dq_wheel_now dq_delay q1].
    - exact P1.
    - rewrite EX. intros ? [].
    - split; [exact P3|exact W2].
    - apply next_deadline_ok, P1. }
  assert (C1 : contents q1 = wents (w_slots w')) by (unfold contents, qents, q1; cbn; rewrite EX; reflexivity).
  destruct idx as [e|].
  - injection HP as <- <-. destruct P4 as (B1 & B2 & B3).
    split; [exact I1|]. split; [exact P2|]. split; [cbn [q1 dq_wheel]; lia|]. split; [exact W3|].
    exists e. split; [reflexivity|]. split; [rewrite CQ, C1; exact B1|]. split; [lia|].
    intros _ e' H. rewrite C1 in H. apply B3, H.
  - destruct P4 as (B1 & B2 & B3 & B4 & B5).
    destruct (dq_delay q1) as [d1|] eqn:ED1.
    + assert (ST1 : stale q1 = 0%nat).
      { unfold stale. rewrite ED1. cbn [q1 dq_wheel dq_delay] in *. unfold next_deadline in ED1.
        destruct (next_expiration w') as [[[lv sl] dl]|]; [|reflexivity]. injection ED1 as ->.
        rewrite N.leb_refl. reflexivity. }
      assert (EMP : qents q = [] -> False).
      { intro Z. unfold qents in Z. rewrite Z in B1. apply Permutation_nil in B1.
        cbn [q1 dq_delay] in ED1. unfold next_deadline in ED1. pose proof (next_expiration_spec 1 w' P1) as NX.
        destruct (next_expiration w') as [[[lv sl] dl]|]; [|discriminate].
        destruct (stack_of lv sl (w_slots w')) as [|x st] eqn:S; [exact (ne_occ _ _ _ _ NX S)|].
        assert (In x (wents (w_slots w'))) by (eapply stack_wents; rewrite S; left; reflexivity).
        rewrite B1 in H. destruct H. }
      assert (F1 : (lsum (w_slots (dq_wheel q1)) + stale q1 < f)%nat).
      { rewrite ST1. cbn [q1 dq_wheel]. unfold stale in FU. unfold wn in B5.
        destruct (dq_delay q) as [d|] eqn:ED.
        - pose proof (next_expiration_spec 1 _ IW) as NX0.
          destruct (next_expiration (dq_wheel q)) as [[[lv sl] dl]|] eqn:ENX.
          + destruct (dl <=? d) eqn:CS; [|lia]. apply N.leb_le in CS. specialize (B5 lv sl dl eq_refl CS). lia.
          + exfalso. apply EMP. unfold qents. case_eq (wents (w_slots (dq_wheel q))); [reflexivity|intros x st S].
            destruct (wents_stack _ x (wi_wf _ _ IW)) as (lv & sl & H); [rewrite S; left; reflexivity|].
            rewrite NX0 in H. destruct H.
        - exfalso. apply EMP. exact ID. }
      assert (E1 : elapsed q1 <= clock) by (cbn [q1 dq_wheel]; lia).
      destruct (IH q1 I1 EX E1 W3 F1 r q' HP) as (R1 & R2 & R3 & R4 & R5).
      split; [exact R1|]. split; [cbn [q1 dq_wheel] in R2; lia|]. split; [exact R3|]. split; [exact R4|].
      assert (PC : Permutation (contents q) (contents q1)) by (rewrite CQ, C1; exact B1).
      destruct r.
      * destruct R5 as (e & A1 & A2 & A3 & A4). exists e. split; [exact A1|]. split; [eapply perm_trans; eassumption|].
        split; [exact A3|]. intros _. apply A4. exact EX.
      * destruct R5 as (A1 & A2). split; [|exact A2]. rewrite A1 in PC. apply Permutation_sym, Permutation_nil in PC. exact PC.
      * destruct R5 as (A1 & A2). split; [eapply perm_trans; eassumption|exact A2].
    + injection HP as <- <-.
      split; [exact I1|]. split; [exact P2|]. split; [cbn [q1 dq_wheel]; lia|]. split; [exact W3|].
      pose proof (next_deadline_ok w' P1) as ND. cbn [q1 dq_delay] in ED1. rewrite ED1 in ND. cbn [delay_ok] in ND.
      split; [|rewrite C1; exact ND]. rewrite CQ. unfold qents. rewrite ND in B1. apply Permutation_sym, Permutation_nil in B1. exact B1.
Qed.

Theorem dq_poll_spec clock q :
  DI q -> elapsed q <= clock -> dq_wheel_now q <= clock ->
  forall r q', dq_poll clock q = (r, q') -> poll_post clock q r q'.
Proof.
  intros I EC NC r q' HP. unfold dq_poll in HP. destruct (dq_expired q) as [|e rest] eqn:EX.
  - eapply dq_poll_loop_spec; try eassumption.
    pose proof (WI_lsum _ _ (di_w _ I)). assert (stale q <= 1)%nat; [|lia].
    unfold stale. destruct (dq_delay q); [|lia]. destruct (next_expiration _) as [[[? ?] dl]|]; [|lia]. destruct (dl <=? n); lia.
  - injection HP as <- <-. destruct I as [IW IE IN ID].
    split; [constructor; cbn [dq_wheel dq_expired dq_wheel_now dq_delay]; try assumption|].
    { intros x H. apply IE. rewrite EX. right; exact H. }
    cbn [dq_wheel dq_wheel_now]. split; [lia|]. split; [exact EC|]. split; [exact NC|].
    exists e. split; [reflexivity|]. split; [unfold contents; cbn [dq_expired dq_wheel]; rewrite EX; reflexivity|].
    split; [|intro Z; rewrite EX in Z; discriminate Z]. assert (we_when e <= elapsed q) by (apply IE; rewrite EX; left; reflexivity). lia.
Qed.
Print Assumptions dq_poll_spec.
