From Coq Require Import List NArith Bool.
Import ListNotations.
From TarpcV Require Import Base SockFront.

Lemma sk_down_model : forall ds,
  sk_down ds (map (fun m => KCRecv (snd (fst m)) (snd m)) ds ++ [KCEnd]) = true.
Proof.
  induction ds as [|m ds IH]; cbn [map app sk_down]; [reflexivity|].
  rewrite !N.eqb_refl; exact IH.
Qed.

Lemma sk_up_model : forall us ds,
  sk_up us ds (map (fun m => KSRecv (snd (fst m)) (snd m)) us
               ++ map (fun m => KCRecv (snd (fst m)) (snd m)) ds ++ [KCEnd]) = true.
Proof.
  induction us as [|m us IH]; intros ds; cbn [map app sk_up].
  - apply sk_down_model.
  - rewrite !N.eqb_refl; apply IH.
Qed.

Theorem sk_model_ok : forall ms, sk_ok ms (sk_model ms) = true.
Proof. intros ms; unfold sk_ok, sk_model; apply sk_up_model. Qed.

Lemma sk_down_only : forall ds tr, sk_down ds tr = true ->
  tr = map (fun m => KCRecv (snd (fst m)) (snd m)) ds ++ [KCEnd].
Proof.
  induction ds as [|m ds IH]; intros tr H; destruct tr as [|o tr]; cbn [sk_down] in H; try discriminate.
  - destruct o; try discriminate. destruct tr; [reflexivity | discriminate].
  - destruct o; try discriminate.
    apply andb_true_iff in H; destruct H as [H H2]. apply andb_true_iff in H; destruct H as [E1 E2].
    apply N.eqb_eq in E1; apply N.eqb_eq in E2; subst. cbn [map app]. f_equal. apply IH; exact H2.
Qed.

(* the monitor accepts nothing but the intact, ordered, complete delivery *)
Theorem sk_ok_only : forall ms tr, sk_ok ms tr = true -> tr = sk_model ms.
Proof.
  intros ms tr; unfold sk_ok, sk_model. generalize (downs ms) as ds. generalize dependent tr.
  induction (ups ms) as [|m us IH]; intros tr ds H; cbn [sk_up map app] in *.
  - apply sk_down_only; exact H.
  - destruct tr as [|o tr]; try discriminate. destruct o; try discriminate.
    apply andb_true_iff in H; destruct H as [H H2]. apply andb_true_iff in H; destruct H as [E1 E2].
    apply N.eqb_eq in E1; apply N.eqb_eq in E2; subst. f_equal. apply IH; exact H2.
Qed.
