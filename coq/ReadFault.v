(* C09, part `ioerr`: the reading half of the shipped serde transport
   (tarpc/src/serde_transport.rs l.33-50: `poll_next` = the next item of the `tokio_serde::Framed`
   over `tokio_util::codec::Framed<S, LengthDelimitedCodec>`, every error mapped through
   `map_err(Into::into)`) when the BYTE STREAM fails.

   tokio-util's FramedImpl (framed_impl.rs, the read loop) decodes every complete frame that is
   buffered before it reads again; a failing `poll_read` is returned as `Some(Err(e))` with `e`
   untouched and latches `has_errored`, so the next poll yields `None`.  Bytes of an incomplete
   frame that arrived before the failure are never turned into an item.  The model is that
   sequence; the monitor says what the property needs: every message whose bytes arrived in full is
   delivered, in order, and then the failure is REPORTED as an error item - the
   stream does not end cleanly before it (tarpc's client and server take a clean end for an orderly
   shutdown: no ChannelError::Read, outstanding calls are not told). *)
From Coq Require Import List NArith Bool.
Import ListNotations.
From TarpcV Require Import Base.

(* IErr outer inner: an error item of io::ErrorKind `outer` whose source is an io::Error of kind `inner`
   (98: the source is not an io::Error, 99: a kind outside the table of harness/src/ioerr.rs) *)
Inductive iobs := IRecv (id : N) | IErr (outer inner : N) | IEnd | IGarbled.

Definition iobs_eqb (a b : iobs) : bool :=
  match a, b with
  | IRecv x, IRecv y => N.eqb x y
  | IErr x x', IErr y y' => N.eqb x y && N.eqb x' y'
  | IEnd, IEnd | IGarbled, IGarbled => true
  | _, _ => false
  end.

(* ids: the messages whose frames arrived in full, in order; kind: how the byte stream failed *)
(* serde_transport.rs l.45-49: every error of the framed stream is wrapped, io::Error::new(Other, e):
   the item's own kind is Other (index 5 of the table), its source is the stream's error *)
Definition k_other : N := 5.
Definition rf_model (ids : list N) (kind : N) : list iobs :=
  map IRecv ids ++ [IErr k_other kind; IEnd].

Fixpoint rf_ok (ids : list N) (kind : N) (tr : list iobs) : bool :=
  match ids, tr with
  | i :: ids', IRecv j :: tr' => N.eqb i j && rf_ok ids' kind tr'
  | [], IErr _ _ :: _ => true              (* reported as an error item right after the last message *)
  | _, _ => false                          (* a clean end, a made-up or garbled item, a lost message *)
  end.
