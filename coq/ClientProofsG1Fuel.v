(* Client proofs, group G1: on the scripted transport, with the fuel `sfuel`, no dispatch poll runs
   out of fuel (stmt_cfuel).  Every iteration of run_loop that continues has consumed an inbound
   item, a queued request, a queued cancellation or a timer. *)
From Coq Require Import List Bool Arith NArith Lia ZifyBool ZifyNat ZifyN.
Import ListNotations.
From TarpcV Require Import Base Transport Client ClientS ClientMon ClientSpec ClientLemmas
  ClientProofsG1Frames.

Arguments N.modulo : simpl never.
Arguments N.add : simpl never.
Arguments N.min : simpl never.
Arguments N.sub : simpl never.

Section AListLen.
  Context {A : Type}.
  Lemma length_aset_le (k : N) (v : A) m : (length (aset k v m) <= S (length m))%nat.
  Proof. unfold aset. cbn [length]. pose proof (length_aremove_le k m). lia. Qed.
  Lemma length_aremove_lt (k : N) (m : list (N * A)) :
    In k (map fst m) -> (length (aremove k m) < length m)%nat.
  Proof.
    induction m as [|[k2 v] r IH]; cbn [map fst In aremove length]; [tauto|].
    intros [H|H].
    - subst. rewrite N.eqb_refl. pose proof (length_aremove_le k r). lia.
    - destruct (N.eqb k k2); [pose proof (length_aremove_le k r); lia|].
      cbn [length]. specialize (IH H). lia.
  Qed.
End AListLen.

Lemma min_timer_in l : forall best p, min_timer l best = Some p -> best = Some p \/ In p l.
Proof.
  induction l as [|[id w] r IH]; intros best p; cbn [min_timer]; [auto|].
  destruct best as [[bid bw]|].
  - destruct (_ || _); intro H; apply IH in H; destruct H as [H|H]; auto.
    + injection H as <-. right; left; reflexivity.
    + right; right; exact H.
    + right; right; exact H.
  - intro H. apply IH in H. destruct H as [H|H]; [injection H as <-; right; left; reflexivity|].
    right; right; exact H.
Qed.

Section Fuel.
  Notation ST := (stransport resp).
  Notation cstate := (@cstate ST).
  Implicit Types s : cstate.

  Definition phi s : nat :=
    (length (st_inbox (tr s)) + 2 * length (queue s) + length (cancels s) + length (timers s))%nat.

  Lemma phi_lt_sfuel s : (phi s < sfuel s)%nat.
  Proof. unfold phi, sfuel. lia. Qed.

  (* ---------------------------------------------------------------- transport wrappers *)
  Lemma inbox_do_ready s r s' : do_ready stp s = (r, s') -> st_inbox (tr s') = st_inbox (tr s).
  Proof.
    unfold do_ready. cbn [stp scripted t_ready]. unfold s_ready.
    destruct (st_fail_ready (tr s)); [intros [= <- <-]; reflexivity|].
    destruct (_ && _); intros [= <- <-]; reflexivity.
  Qed.
  Lemma inbox_do_send s m r s' : do_send stp s m = (r, s') -> st_inbox (tr s') = st_inbox (tr s).
  Proof.
    unfold do_send. cbn [stp scripted t_send]. unfold s_send.
    destruct (st_fail_send (tr s)); intros [= <- <-]; reflexivity.
  Qed.
  Lemma inbox_do_flush s r s' : do_flush stp s = (r, s') -> st_inbox (tr s') = st_inbox (tr s).
  Proof.
    unfold do_flush. cbn [stp scripted t_flush]. unfold s_flush.
    destruct (st_fail_flush (tr s)); [intros [= <- <-]; reflexivity|].
    destruct (st_flushok (tr s)); intros [= <- <-]; reflexivity.
  Qed.
  Lemma inbox_do_close s r s' : do_close stp s = (r, s') -> st_inbox (tr s') = st_inbox (tr s).
  Proof.
    unfold do_close. cbn [stp scripted t_close]. unfold s_close.
    destruct (st_fail_close (tr s)); [intros [= <- <-]; reflexivity|].
    destruct (st_closeok (tr s)); intros [= <- <-]; reflexivity.
  Qed.
  Lemma inbox_do_next s r s' : do_next stp s = (r, s') ->
    (length (st_inbox (tr s')) + (match r with RItem _ => 1 | _ => 0 end)
     <= length (st_inbox (tr s)))%nat.
  Proof.
    unfold do_next. destruct (fused s); [intros [= <- <-]; lia|].
    cbn [stp scripted t_next]. unfold s_next.
    destruct (st_fail_next (tr s)); [intros [= <- <-]; cbn; lia|].
    destruct (st_inbox (tr s)) eqn:E.
    - destruct (st_eof (tr s)); intros [= <- <-]; cbn; rewrite E; cbn; lia.
    - intros [= <- <-]. cbn. lia.
  Qed.

  Lemma phi_X s s' : XFrame s s' -> st_inbox (tr s') = st_inbox (tr s) -> phi s' = phi s.
  Proof.
    intros F E. unfold phi. rewrite E, (xf_queue _ _ F), (xf_cancels _ _ F), (xf_timers _ _ F).
    reflexivity.
  Qed.
  Lemma phi_do_ready s r s' : do_ready stp s = (r, s') -> phi s' = phi s.
  Proof. intro H. apply phi_X; [eapply XFrame_do_ready, H|eapply inbox_do_ready, H]. Qed.
  Lemma phi_do_send s m r s' : do_send stp s m = (r, s') -> phi s' = phi s.
  Proof. intro H. apply phi_X; [eapply XFrame_do_send, H|eapply inbox_do_send, H]. Qed.
  Lemma phi_do_flush s r s' : do_flush stp s = (r, s') -> phi s' = phi s.
  Proof. intro H. apply phi_X; [eapply XFrame_do_flush, H|eapply inbox_do_flush, H]. Qed.
  Lemma phi_do_close s r s' : do_close stp s = (r, s') -> phi s' = phi s.
  Proof. intro H. apply phi_X; [eapply XFrame_do_close, H|eapply inbox_do_close, H]. Qed.

  Lemma phi_ensure_writeable s r s' : ensure_writeable stp s = (r, s') -> phi s' = phi s.
  Proof.
    intro H. apply ensure_writeable_inv in H.
    destruct H as [r s1 H1 _|s1 s2 H1 H2|s1 s2 H1 H2|s1 s2 r s3 H1 H2 H3];
      repeat match goal with
             | H : do_ready _ _ = _ |- _ => apply phi_do_ready in H
             | H : do_flush _ _ = _ |- _ => apply phi_do_flush in H
             end; congruence.
  Qed.

  (* ---------------------------------------------------------------- the tables *)
  Lemma phi_T s s' : TFrame s s' -> (length (timers s') <= length (timers s) + 0)%nat ->
    (phi s' <= phi s)%nat.
  Proof.
    intros F L. unfold phi.
    rewrite (if_tr _ _ (tf_i _ _ F)), (tf_queue _ _ F), (tf_cancels _ _ F). lia.
  Qed.

  Lemma timers_slot_send s id o : timers (slot_send s id o) = timers s.
  Proof. apply (QFrame_slot_send s id o). Qed.
  Lemma timers_complete_request s id o :
    (length (timers (snd (complete_request s id o))) <= length (timers s))%nat.
  Proof.
    unfold complete_request. destruct (alookup id (inflight s)); cbn [snd]; [|lia].
    rewrite timers_slot_send. cbn [timers upd_if]. apply length_aremove_le.
  Qed.
  Lemma phi_complete_request s id o : (phi (snd (complete_request s id o)) <= phi s)%nat.
  Proof.
    apply phi_T; [apply TFrame_complete_request|]. pose proof (timers_complete_request s id o). lia.
  Qed.
  Lemma timers_cancel_request s id :
    (length (timers (snd (cancel_request s id))) <= length (timers s))%nat.
  Proof.
    unfold cancel_request. destruct (alookup id (inflight s)); cbn [snd]; [|lia].
    cbn [timers upd_if]. apply length_aremove_le.
  Qed.
  Lemma phi_insert_request s q : (phi (insert_request s q) <= S (phi s))%nat.
  Proof.
    unfold phi, insert_request. cbn [tr queue cancels timers upd_if].
    pose proof (length_aset_le (q_id q) (timer_instant s (q_deadline q)) (timers s)). lia.
  Qed.

  Lemma phi_poll_expired s e s' : poll_expired s = (e, s') ->
    (phi s' + (match e with Some _ => 1 | None => 0 end) <= phi s)%nat.
  Proof.
    pose proof (TFrame_poll_expired s) as F. intro H. rewrite H in F. cbn [snd] in F.
    assert (L : (length (timers s') + (match e with Some _ => 1 | None => 0 end)
                 <= length (timers s))%nat).
    { revert H. unfold poll_expired. destruct (min_timer (timers s) None) as [[id w]|] eqn:M;
        [|intros [= <- <-]; lia].
      destruct (N.leb w (now s)); [|intros [= <- <-]; lia].
      apply min_timer_in in M. destruct M as [M|M]; [discriminate|].
      assert (I : In id (map fst (timers s))) by (apply (in_map fst) in M; exact M).
      pose proof (length_aremove_lt id (timers s) I) as L.
      destruct (alookup id _); intros [= <- <-]; [rewrite timers_slot_send|];
        cbn [timers upd_if]; lia. }
    unfold phi. rewrite (if_tr _ _ (tf_i _ _ F)), (tf_queue _ _ F), (tf_cancels _ _ F). lia.
  Qed.

  (* ---------------------------------------------------------------- the two writers *)
  Lemma phi_next_request_loop f s r s' : next_request_loop f s = (r, s') ->
    (phi s' + (if is_psome r then 2 else 0) <= phi s)%nat.
  Proof.
    intro H. pose proof (QFrame_next_request_loop f s) as F. rewrite H in F. cbn [snd] in F.
    apply queue_next_request_loop in H. unfold phi.
    rewrite (if_tr _ _ (qf_i _ _ F)), (qf_cancels _ _ F), (qf_timers _ _ F).
    destruct (is_psome r); lia.
  Qed.

  Lemma phi_poll_write_request s r s' : poll_write_request stp s = (r, s') ->
    (phi s' + (if is_psome r then 1 else 0) <= phi s)%nat.
  Proof.
    intro H. apply poll_write_request_inv in H.
    destruct H as [_|r s1 _ H1 Hr|r s1 s2 _ H1 H2 Hr|s1 q s2 w s3 _ H1 H2 H3].
    - cbn. lia.
    - apply phi_ensure_writeable in H1. destruct r; cbn in *; try discriminate; lia.
    - apply phi_ensure_writeable in H1. apply phi_next_request_loop in H2. rewrite Hr in H2.
      destruct r; cbn in *; try discriminate; lia.
    - apply phi_ensure_writeable in H1. apply phi_next_request_loop in H2. cbn [is_psome] in H2.
      apply phi_do_send in H3. pose proof (phi_insert_request s2 q) as H4.
      cbn [is_psome]. destruct w; [lia|].
      pose proof (phi_complete_request s3 (q_id q) OSendErr). lia.
  Qed.

  Lemma timers_next_cancel_loop f s r s' : next_cancel_loop f s = (r, s') ->
    (length (timers s') <= length (timers s))%nat.
  Proof.
    revert s; induction f as [|f IH]; intro s; cbn [next_cancel_loop]; [intros [= <- <-]; lia|].
    pose proof (CFrame_c_poll_recv s) as F1. pose proof (IFrame_c_poll_recv s) as F0.
    assert (E1 : timers (snd (c_poll_recv s)) = timers s).
    { unfold c_poll_recv. destruct (cancels s); [destruct (Nat.eqb _ _)|]; reflexivity. }
    destruct (c_poll_recv s) as [x s1]. cbn [snd] in E1.
    destruct x as [id| |]; try (intros [= <- <-]; rewrite E1; lia).
    pose proof (timers_cancel_request s1 id) as L. rewrite E1 in L.
    destruct (cancel_request s1 id) as [[e|] s2]; cbn [snd] in L.
    - intros [= <- <-]. lia.
    - intro H. apply IH in H. lia.
  Qed.
  Lemma phi_next_cancel_loop f s r s' : next_cancel_loop f s = (r, s') ->
    (phi s' + (if is_psome r then 1 else 0) <= phi s)%nat.
  Proof.
    intro H. pose proof (CFrame_next_cancel_loop f s) as F. rewrite H in F. cbn [snd] in F.
    pose proof (timers_next_cancel_loop _ _ _ _ H) as L.
    apply cancels_next_cancel_loop in H. unfold phi.
    rewrite (if_tr _ _ (cf_i _ _ F)), (cf_queue _ _ F). lia.
  Qed.

  Lemma phi_poll_write_cancel s r s' : poll_write_cancel stp s = (r, s') ->
    (phi s' + (if is_psome r then 1 else 0) <= phi s)%nat.
  Proof.
    intro H. apply poll_write_cancel_inv in H.
    destruct H as [r s1 H1 Hr|r s1 s2 H1 H2 Hr|s1 id e s2 w s3 H1 H2 H3].
    - apply phi_ensure_writeable in H1. destruct r; cbn in *; try discriminate; lia.
    - apply phi_ensure_writeable in H1. apply phi_next_cancel_loop in H2. rewrite Hr in H2.
      destruct r; cbn in *; try discriminate; lia.
    - apply phi_ensure_writeable in H1. apply phi_next_cancel_loop in H2. cbn [is_psome] in H2.
      apply phi_do_send in H3. destruct w; cbn [is_psome]; lia.
  Qed.

  Lemma phi_pump_write s r s' : pump_write stp s = (r, s') ->
    (phi s' + (if is_psome r then 1 else 0) <= phi s)%nat.
  Proof.
    intro H. apply pump_write_inv in H.
    destruct H as [a s1 H1|u s1 H1|r1 s1 a s2 H1 I1 H2|r1 s1 u s2 H1 I1 H2
                  |r1 s1 r2 s2 id s3 H1 I1 H2 I2 H3|s1 s2 s3 x s4 H1 H2 H3 H4
                  |r1 s1 r2 s2 s3 x s4 H1 I1 H2 I2 I12 H3 H4];
      repeat match goal with
             | H : poll_write_request _ _ = _ |- _ => apply phi_poll_write_request in H
             | H : poll_write_cancel _ _ = _ |- _ => apply phi_poll_write_cancel in H
             | H : poll_expired _ = _ |- _ => apply phi_poll_expired in H
             | H : do_close _ _ = _ |- _ => apply phi_do_close in H
             | H : do_flush _ _ = _ |- _ => apply phi_do_flush in H
             end; cbn [is_psome] in *.
    - lia.
    - lia.
    - destruct (is_psome r1); lia.
    - destruct (is_psome r1); lia.
    - destruct (is_psome r1), (is_psome r2); lia.
    - destruct x; cbn; lia.
    - destruct (is_psome r1), (is_psome r2), x; cbn; lia.
  Qed.

  Lemma phi_pump_read s r s' : pump_read stp s = (r, s') ->
    (phi s' + (if is_psome r then 1 else 0) <= phi s)%nat.
  Proof.
    intro H. apply pump_read_inv in H. destruct H as (x & s1 & H1 & -> & ->).
    pose proof (XFrame_do_next _ _ _ _ H1) as F. apply inbox_do_next in H1.
    assert (L : (phi s1 + (match x with RItem _ => 1 | _ => 0 end) <= phi s)%nat).
    { unfold phi. rewrite (xf_queue _ _ F), (xf_cancels _ _ F), (xf_timers _ _ F). lia. }
    destruct x as [y| | |]; cbn [read_res is_psome]; try lia.
    pose proof (phi_complete_request s1 (r_id y)
                  (match r_body y with BOk v => OReply v | BErr k => OSrvErr k end)) as C.
    unfold complete. lia.
  Qed.

  Lemma run_loop_fuel f : forall s r s',
    (phi s < f)%nat -> run_loop stp f s = (r, s') -> r <> RunFuel.
  Proof.
    induction f as [|f IH]; intros s r s' L H; [lia|].
    apply run_loop_inv in H.
    destruct H as [a s1 H1|rd s1 a s2 H1 N1 H2|s1 wr s2 H1 H2 N2|rd s1 s2 H1 D1 H2 L2
                  |s1 wr s2 H1 H2 D2|rd s1 wr s2 r s3 H1 H2 D H3]; try discriminate.
    apply phi_pump_read in H1. apply phi_pump_write in H2.
    eapply IH; [|exact H3].
    destruct D as [[-> _]|[-> ->]]; cbn [is_psome] in *; [destruct (is_psome wr)|]; lia.
  Qed.

  Lemma poll_dispatch_fuel f s r s' :
    (phi s < f)%nat -> poll_dispatch stp f s = (r, s') -> r <> DFuel.
  Proof.
    intro L. unfold poll_dispatch. destruct (terminal s).
    - destruct (shut_down s a) as [[] s1]; intros [= <- <-]; discriminate.
    - destruct (run_loop stp f s) as [rr s1] eqn:E. pose proof (run_loop_fuel _ _ _ _ L E) as N.
      destruct rr; try congruence.
      destruct (shut_down _ a) as [[] s2]; intros [= <- <-]; discriminate.
  Qed.

  (* ---------------------------------------------------------------- the monitor side *)
  Lemma chk_calls_vfu maxif l : forall m, vfu (fst (chk_calls maxif m l)) = true.
  Proof.
    induction l as [|x r IH]; intro m; cbn [chk_calls]; [reflexivity|].
    specialize (IH (rec_call m x)). destruct (chk_calls maxif (rec_call m x) r) as [v' m'].
    cbn [fst] in *. cbn [vand vfu]. rewrite IH.
    destruct x as [r0|[] r0|r0|r0|[]]; reflexivity.
  Qed.

  Lemma step_fuel maxif s o s' os (m : mst) :
    step stp sfuel s o = (s', os) -> vfu (fst (chk_obs maxif o m os)) = true.
  Proof.
    intro H. destruct o; cbn [step] in H;
      try (injection H as _ <-; reflexivity).
    - destruct (poll_call s i) as [r s1]. injection H as _ <-. destruct r; reflexivity.
    - destruct (finished s); [injection H as _ <-; reflexivity|].
      destruct (dropped s); [injection H as _ <-; reflexivity|].
      set (s0 := upd_tr s (tr s) (fused s) []) in *.
      destruct (poll_dispatch stp (sfuel s0) s0) as [r s1] eqn:Ep.
      pose proof (poll_dispatch_fuel _ _ _ _ (phi_lt_sfuel s0) Ep) as N.
      injection H as _ <-. cbn [app gauges]. unfold chk_obs.
      pose proof (chk_calls_vfu maxif (plog s1) (rec_op (T := ST) m PollDispatch)) as C.
      destruct (chk_calls maxif (rec_op (T := ST) m PollDispatch) (plog s1)) as [v m2].
      cbn [fst] in C. destruct (c_poll _ _ _) as [okc c2]. unfold gauges. cbn [fst vand vfu]. rewrite C.
      destruct r; try reflexivity. congruence.
  Qed.

  Lemma run_fuel maxif ops : forall s m,
    vfu (chk_run maxif m ops (fst (run_from stp sfuel s ops))) = true.
  Proof.
    induction ops as [|o r IH]; intros s m; cbn [run_from]; [reflexivity|].
    destruct (step stp sfuel s o) as [s1 l] eqn:Es.
    pose proof (step_fuel maxif _ _ _ _ m Es) as V.
    specialize (IH s1 (snd (chk_obs maxif o m l))).
    destruct (run_from stp sfuel s1 r) as [ls s2]. cbn [fst chk_run] in *.
    destruct (chk_obs maxif o m l) as [v m']. cbn [fst snd] in *.
    cbn [vand vfu]. rewrite V, IH. reflexivity.
  Qed.
End Fuel.

Theorem cfuel_holds : stmt_cfuel.
Proof. unfold stmt_cfuel, cfuel_ok, monitors, crun. intros cfg ops. apply run_fuel. Qed.
Print Assumptions cfuel_holds.
