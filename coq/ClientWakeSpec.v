(* C02 statements over the wake-driven model (ClientWake.v).  Pinned here; proofs in
   ClientWakeProofs.v (dead, quiescent) and ClientWakeMon.v (monitor); the settle-terminates
   statement is defined in ClientWakeProofs.v and proved in ClientWakeSettles.v.  No proofs in
   this file. *)
From Coq Require Import List Bool Arith NArith.
Import ListNotations.
From TarpcV Require Import Base Transport Client ClientS ClientWake.
Local Open Scope N_scope.

Fixpoint wfinal_from (s : cstate (T := stransport resp)) (ops : list wop) : cstate :=
  match ops with
  | [] => s
  | o :: r => wfinal_from (fst (wstep s o)) r
  end.
Definition wfinal (c : ccfg) (ops : list wop) := wfinal_from (cinit c) ops.

(* the transport would accept a write right now: ready, flushing completes, no fault armed,
   and it has room *)
Definition writable (t : stransport resp) : bool :=
  st_ready t && st_flushok t
  && negb (st_fail_ready t || st_fail_send t || st_fail_flush t || st_fail_close t || st_fail_next t)
  && (Nat.eqb (st_cap t) 0 || (st_buffered t <? st_cap t)%nat).

(* the last op was a settle that reached a quiet round (did not run out of rounds or fuel) *)
Definition settled (c : ccfg) (ops : list wop) : Prop :=
  match last (wrun c (ops ++ [WSettle])) WFuel with WFuel => False | _ => True end.

(* Quiescence: after the system has been driven until nothing can act any more, on a transport
   that accepts writes, with nothing left to read and the dispatch still running, a call that
   is still unresolved is waiting for a reply or a deadline - its request is in flight with a
   timer in the future, or it is queued behind a full in-flight table whose entries all have
   timers in the future.  So the only events that can still be needed are exactly those that
   wake the dispatch: a reply, a timer, or the transport.  (buffer sizes, limits >= 1) *)
(* fewer than 2^64 operations: request ids do not wrap (boundary B2) *)
Definition wno_wrap (ops : list wop) : Prop := (N.of_nat (length ops) < 18446744073709551616)%N.

Definition stmt_c02_quiescent : Prop := forall c ops,
  wno_wrap ops ->
  (1 <= cf_qcap c)%nat -> (1 <= cf_maxif c)%nat ->
  settled c ops ->
  let s := wfinal c (ops ++ [WSettle]) in
  writable (tr s) = true -> st_inbox (tr s) = [] -> st_eof (tr s) = false ->
  finished s = None -> dropped s = false ->
  forall i k, nth_error (calls s) i = Some k -> is_live (c_phase k) = true ->
    inflight s <> []
    /\ (forall id w, In (id, w) (timers s) -> now s < w)
    /\ (In (c_id k) (map fst (inflight s))
        \/ length (inflight s) = max_if s).

(* once the dispatch has failed, or has been dropped, nothing is left pending *)
Definition stmt_c02_dead : Prop := forall c ops,
  wno_wrap ops ->
  settled c ops ->
  let s := wfinal c (ops ++ [WSettle]) in
  (exists a, finished s = Some (DErr a)) \/ dropped s = true ->
  forall i k, nth_error (calls s) i = Some k -> is_live (c_phase k) = false.

(* the C02 monitor (ClientWake.c02_ok: settle terminates; nobody is left unresolved once the
   dispatch failed or was dropped; an unresolved call on a writable, untampered transport has
   something in flight; every delivered response has been read) accepts every wake-driven run of
   the model *)
Definition stmt_c02_monitor : Prop := forall c ops,
  wno_wrap ops -> (1 <= cf_qcap c)%nat ->
  c02_ok c ops (wrun c ops) = true.
