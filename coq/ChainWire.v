(* Chain proofs: C18 on the wire (stmt_chain_wire), for every depth and every op list.
   Invariant along a run: the monitor has not rejected anything, every request context held in
   the chain is a head call's (ChainCtx), every queued request of every node carries the span id
   named after its request id, and every request in flight on node i is recorded in the
   monitor's wire list under node i with its trace number and span id.  One dispatch poll:
   ChainWireCli.wn_step_dispatch; everything else writes nothing. *)
From Coq Require Import List Bool Arith NArith Lia.
Import ListNotations.
From TarpcV Require Import Base Transport TimerWheel Chain ChainSpec ChainBase ChainCtx.
From TarpcV Require Client Server ChainCli ChainSrv ChainGood ChainWireCli.

Notation wtag := (nat * N * N * N)%type.
Notation wn := ChainWireCli.wn.
Notation wacc := ChainWireCli.wacc.
Notation wok := ChainWireCli.wok.

(* ------------------------------------------------------------------------------------------ *)
(* the monitor *)
Definition nowire (e : cobs) : bool := match e with KWire _ _ => false | _ => true end.

Lemma mon_obs_nowire m e :
  nowire e = true -> mo_wire (mon_obs m e) = mo_wire m /\ mo_c18w (mon_obs m e) = mo_c18w m.
Proof.
  destruct e; cbn [nowire mon_obs]; intro H; try discriminate; try (split; reflexivity).
  - destruct r; split; reflexivity.
  - destruct r; split; reflexivity.
  - destruct r; split; reflexivity.
Qed.
Lemma fold_nowire l : forall m,
  forallb nowire l = true ->
  mo_wire (fold_left mon_obs l m) = mo_wire m /\ mo_c18w (fold_left mon_obs l m) = mo_c18w m.
Proof.
  induction l as [|e r IH]; intros m H; cbn [fold_left]; [split; reflexivity|].
  cbn [forallb] in H. apply andb_true_iff in H. destruct H as [H1 H2].
  destruct (IH (mon_obs m e) H2) as [A B]. destruct (mon_obs_nowire m e H1) as [C D].
  split; congruence.
Qed.

Lemma existsb_hkey l dl tr b :
  In (dl, tr, b) (map hkey l) ->
  existsb (fun h => N.eqb (hc_body h) b && N.eqb (hc_tr h) tr && N.eqb (hc_dl h) dl) l = true.
Proof.
  intro H. apply in_map_iff in H. destruct H as (h & E & Hh). apply existsb_exists. exists h.
  split; [exact Hh|]. unfold hkey in E. injection E as <- <- <-. rewrite !N.eqb_refl. reflexivity.
Qed.
Lemma existsb_wtag (i : nat) (id tr sid : N) (l : list wtag) :
  In (i, id, tr, sid) l ->
  existsb (fun p => let '(i', id', tr', sid') := p in
                    Nat.eqb i i' && N.eqb id id' && N.eqb tr tr' && N.eqb sid sid') l = true.
Proof.
  intro H. apply existsb_exists. exists (i, id, tr, sid). split; [exact H|].
  rewrite Nat.eqb_refl, !N.eqb_refl. reflexivity.
Qed.

Lemma mon_wire_wire i m w : mo_wire (mon_wire i m w) = ChainWireCli.wadd i (mo_wire m) w.
Proof. destruct w; reflexivity. Qed.

Lemma fold_mon_wire Hs i l : forall m,
  map hkey (mo_calls m) = Hs -> mo_c18w m = true -> wok Hs i (mo_wire m) l ->
  mo_c18w (fold_left (mon_wire i) l m) = true /\
  mo_wire (fold_left (mon_wire i) l m) = wacc i (mo_wire m) l.
Proof.
  induction l as [|w r IH]; intros m EH C W; cbn [fold_left]; [split; [exact C|reflexivity]|].
  cbn [ChainWireCli.wok] in W. destruct W as [W1 W2].
  unfold ChainWireCli.wacc. cbn [fold_left]. rewrite <- mon_wire_wire. apply IH.
  - rewrite mon_wire_calls. exact EH.
  - destruct w as [id dl tr sid body|id tr sid]; cbn [mon_wire mo_c18w ChainWireCli.wchk] in *.
    + destruct W1 as [-> W1]. rewrite C, N.eqb_refl. cbn [andb]. apply existsb_hkey. rewrite EH. exact W1.
    + rewrite C. cbn [andb]. apply existsb_wtag, W1.
  - rewrite mon_wire_wire. exact W2.
Qed.

(* ------------------------------------------------------------------------------------------ *)
(* the chain side of the invariant *)
Definition wch (acc : list wtag) (ch : chain) : Prop :=
  forall i nd, nth_error ch i = Some nd -> wn i acc (n_cli nd).

Lemma wch_incl acc acc' ch : incl acc acc' -> wch acc ch -> wch acc' ch.
Proof. intros I W i nd E. eapply ChainWireCli.wn_incl; [exact I|apply W, E]. Qed.

Lemma wch_set_node acc i nd ch : wch acc ch -> wn i acc (n_cli nd) -> wch acc (set_node i nd ch).
Proof.
  intros W Wn j x E. destruct (Nat.eq_dec i j) as [->|Ne].
  - pose proof (nth_error_lt _ _ _ E) as L. rewrite length_set_node in L.
    rewrite (nth_set_node_same j nd ch L) in E. injection E as <-. exact Wn.
  - rewrite (nth_set_node_other i j nd ch Ne) in E. apply W, E.
Qed.

Lemma wn_cstep i acc nd o nd' l :
  cstep nd o = (nd', l) -> o <> Client.PollDispatch -> wn i acc (n_cli nd) -> wn i acc (n_cli nd').
Proof.
  unfold cstep. set (c0 := Client.upd_tr _ _ _ _).
  destruct (Client.step ctp cfuel c0 o) as [c1 l1] eqn:ES. intros [= <- <-] N W. cbn [n_cli].
  eapply ChainWireCli.wn_step; [exact ES|exact N|exact W].
Qed.

Lemma sstep_cli nd o nd' l : sstep nd o = (nd', l) -> n_cli nd' = n_cli nd.
Proof. unfold sstep. destruct (Server.step _ _ _ _ _ _). intros [= <- _]. reflexivity. Qed.

Lemma nowire_tr_sobs i l : forallb nowire (flat_map (tr_sobs i) l) = true.
Proof.
  apply forallb_forall. intros e H. apply in_flat_map in H. destruct H as (o & _ & H).
  destruct o; cbn in H; try contradiction; destruct H as [<-|[]]; reflexivity.
Qed.

(* ------------------------------------------------------------------------------------------ *)
(* the joint invariant, for fixed head contexts Hs and clock T *)
Record WJ (Hs : list (N * N * N)) (T : N) (m : mon) (ch : chain) : Prop := {
  wj_hs : map hkey (mo_calls m) = Hs;
  wj_ok : mo_c18w m = true;
  wj_ctx : cok_chain Hs T ch;
  wj_w : wch (mo_wire m) ch }.

(* a component that writes nothing *)
Lemma wj_nowire Hs T m ch ch' l :
  WJ Hs T m ch -> forallb nowire l = true -> cok_chain Hs T ch' -> wch (mo_wire m) ch' ->
  WJ Hs T (fold_left mon_obs l m) ch'.
Proof.
  intros [A B C D] N K W. destruct (fold_nowire l m N) as [E1 E2]. constructor.
  - rewrite fold_mon_obs_hkeys. exact A.
  - rewrite E2. exact B.
  - exact K.
  - rewrite E1. exact W.
Qed.

Lemma wj_poll_head Hs T m j ch ch' l :
  WJ Hs T m ch -> poll_head j ch = (ch', l) -> WJ Hs T (fold_left mon_obs l m) ch'.
Proof.
  intros J E. destruct (ctx_poll_head Hs T _ _ _ _ E (wj_ctx _ _ _ _ J)) as [K _].
  unfold poll_head in E. destruct (nth_error ch 0) as [nd|] eqn:E0.
  - destruct (cstep nd (Client.PollCall j)) as [nd1 l1] eqn:ES. pinj E.
    apply (wj_nowire Hs T m ch); [exact J| |exact K|].
    + apply forallb_forall. intros e H. apply in_flat_map in H. destruct H as (o & _ & H).
      destruct o; cbn in H; try contradiction. destruct H as [<-|[]]. reflexivity.
    + apply wch_set_node; [apply J|]. eapply wn_cstep; [exact ES|discriminate|apply (wj_w _ _ _ _ J), E0].
  - pinj E. apply (wj_nowire Hs T m ch); [exact J|reflexivity|exact K|apply J].
Qed.

Lemma wj_poll_requests Hs T m i ch ch' l :
  WJ Hs T m ch -> poll_requests i ch = (ch', l) -> WJ Hs T (fold_left mon_obs l m) ch'.
Proof.
  intros J E. destruct (ctx_poll_requests Hs T _ _ _ _ E (wj_ctx _ _ _ _ J)) as [K _].
  unfold poll_requests in E. destruct (nth_error ch i) as [nd|] eqn:E0.
  - destruct (n_over nd || _).
    + pinj E. apply (wj_nowire Hs T m ch); [exact J|reflexivity|exact K|apply J].
    + destruct (sstep nd Server.OPoll) as [nd1 l1] eqn:ES. pinj E.
      apply (wj_nowire Hs T m ch); [exact J|apply nowire_tr_sobs|exact K|].
      apply wch_set_node; [apply J|]. cbn [n_cli]. rewrite (sstep_cli _ _ _ _ ES).
      apply (wj_w _ _ _ _ J), E0.
  - pinj E. apply (wj_nowire Hs T m ch); [exact J|reflexivity|exact K|apply J].
Qed.

Lemma ww_inner_poll i acc k nd nx nd1 nx1 st :
  inner_poll k nd nx = (nd1, nx1, st) -> wn i acc (n_cli nx) ->
  n_cli nd1 = n_cli nd /\ wn i acc (n_cli nx1).
Proof.
  unfold inner_poll. destruct (nth_error (n_hs nd) k) as [h|]; [|intros [= <- <- <-]; auto].
  intros E W. destruct (hi_call h) as [j|].
  - destruct (cstep nx (Client.PollCall j)) as [nx2 l] eqn:ES. injection E as <- <- _.
    split; [reflexivity|]. eapply wn_cstep; [exact ES|discriminate|exact W].
  - match type of E with context [cstep ?n _] => set (nxc := n) in * end.
    destruct (cstep nxc _) as [nx2 l] eqn:ES. injection E as <- <- _. split; [reflexivity|].
    eapply wn_cstep; [exact ES|discriminate|]. exact W.
Qed.

Lemma ww_abort acc i k ch nd nd1 l1 :
  wch acc ch -> nth_error ch i = Some nd ->
  sstep nd (Server.OHandlerPoll k Server.SRun) = (nd1, l1) ->
  wch acc (match option_map hi_call (nth_error (n_hs nd) k), nth_error (set_node i nd1 ch) (S i) with
           | Some (Some j), Some nx =>
             set_node (S i) (fst (cstep nx (Client.DropCall j))) (set_node i nd1 ch)
           | _, _ => set_node i nd1 ch
           end).
Proof.
  intros W E0 ES. pose proof (W _ _ E0) as Wd. set (ch1 := set_node i nd1 ch).
  assert (W1 : wch acc ch1)
    by (apply wch_set_node; [exact W|rewrite (sstep_cli _ _ _ _ ES); exact Wd]).
  destruct (option_map hi_call _) as [[j|]|]; try exact W1.
  destruct (nth_error ch1 (S i)) as [nx|] eqn:EX; [|exact W1].
  apply wch_set_node; [exact W1|].
  destruct (cstep nx (Client.DropCall j)) as [nx1 lx] eqn:EC. cbn [fst].
  eapply wn_cstep; [exact EC|discriminate|apply (W1 _ _ EX)].
Qed.

Lemma ww_run acc i k st ch nd (first : list cobs) ch' l :
  wch acc ch -> nth_error ch i = Some nd -> forallb nowire first = true ->
  (match nth_error ch (S i) with
   | Some nx =>
     let '(nd1, nx1, st1) := inner_poll k nd nx in
     let '(nd2, l0) := sstep nd1 (Server.OHandlerPoll k st1) in
     (set_node (S i) nx1 (set_node i nd2 ch), first ++ flat_map (tr_sobs i) l0)
   | None =>
     let '(nd1, l0) := sstep nd (Server.OHandlerPoll k st) in
     (set_node i nd1 ch, first ++ flat_map (tr_sobs i) l0)
   end) = (ch', l) -> wch acc ch' /\ forallb nowire l = true.
Proof.
  intros W E0 NF E1. pose proof (W _ _ E0) as Wd. destruct (nth_error ch (S i)) as [nx|] eqn:EX.
  - destruct (inner_poll k nd nx) as [[nd1 nx1] st1] eqn:EI.
    destruct (sstep nd1 (Server.OHandlerPoll k st1)) as [nd2 l0] eqn:ES. pinj E1.
    destruct (ww_inner_poll (S i) acc _ _ _ _ _ _ EI (W _ _ EX)) as [C1 C2].
    split; [|rewrite forallb_app, NF; apply nowire_tr_sobs].
    apply wch_set_node; [apply wch_set_node; [exact W|]|exact C2].
    rewrite (sstep_cli _ _ _ _ ES), C1. exact Wd.
  - destruct (sstep nd (Server.OHandlerPoll k st)) as [nd1 l0] eqn:ES. pinj E1.
    split; [|rewrite forallb_app, NF; apply nowire_tr_sobs].
    apply wch_set_node; [exact W|]. rewrite (sstep_cli _ _ _ _ ES). exact Wd.
Qed.

Lemma ww_poll_handler acc i k st ch ch' l :
  poll_handler i k st ch = (ch', l) -> wch acc ch -> wch acc ch' /\ forallb nowire l = true.
Proof.
  unfold poll_handler. destruct (nth_error ch i) as [nd|] eqn:E0; [|intros [= <- <-] W; auto].
  destruct (nth_error (Server.s_handlers (n_srv nd)) k) as [hr|]; [|intros [= <- <-] W; auto].
  intros E W. pose proof (W _ _ E0) as Wd.
  destruct (Server.h_st hr).
  - destruct (is_aborted _ _).
    + destruct (sstep nd _) as [nd1 l1] eqn:ES. pinj E. split; [|apply nowire_tr_sobs].
      eapply ww_abort; eassumption.
    + apply (ww_run acc i k st ch nd [KHStart i k]); [exact W|exact E0|reflexivity|exact E].
  - destruct (is_aborted _ _).
    + destruct (sstep nd _) as [nd1 l1] eqn:ES. pinj E. split; [|apply nowire_tr_sobs].
      eapply ww_abort; eassumption.
    + apply (ww_run acc i k st ch nd []); [exact W|exact E0|reflexivity|exact E].
  - destruct (sstep nd _) as [nd1 l1] eqn:ES. pinj E. split; [|apply nowire_tr_sobs].
    apply wch_set_node; [exact W|]. rewrite (sstep_cli _ _ _ _ ES). exact Wd.
  - destruct (sstep nd _) as [nd1 l1] eqn:ES. pinj E. split; [|apply nowire_tr_sobs].
    apply wch_set_node; [exact W|]. rewrite (sstep_cli _ _ _ _ ES). exact Wd.
  - pinj E. auto.
  - pinj E. auto.
Qed.

Lemma wj_poll_handler Hs T m i k st ch ch' l :
  WJ Hs T m ch -> poll_handler i k st ch = (ch', l) -> WJ Hs T (fold_left mon_obs l m) ch'.
Proof.
  intros J E. destruct (ctx_poll_handler Hs T _ _ _ _ _ _ E (wj_ctx _ _ _ _ J)) as [K _].
  destruct (ww_poll_handler _ _ _ _ _ _ _ E (wj_w _ _ _ _ J)) as [W N].
  apply (wj_nowire Hs T m ch); assumption.
Qed.

(* the dispatch poll *)
Lemma wj_poll_dispatch Hs T m i ch ch' l :
  WJ Hs T m ch -> Chain.poll_dispatch i ch = (ch', l) -> WJ Hs T (fold_left mon_obs l m) ch'.
Proof.
  intros J E. destruct (ctx_poll_dispatch Hs T _ _ _ _ E (wj_ctx _ _ _ _ J)) as [K _].
  unfold Chain.poll_dispatch in E. destruct (nth_error ch i) as [nd|] eqn:E0.
  2: { pinj E. apply (wj_nowire Hs T m ch); [exact J|reflexivity|exact K|apply J]. }
  destruct (cstep nd Client.PollDispatch) as [nd1 l1] eqn:ES. pinj E.
  pose proof (Forall_nth _ _ _ _ (wj_ctx _ _ _ _ J) E0) as [A B C D F].
  unfold cstep in ES. set (c0 := Client.upd_tr _ _ _ _) in ES.
  destruct (Client.step ctp cfuel c0 Client.PollDispatch) as [c1 os] eqn:EC. pinj ES.
  assert (K0 : ChainCli.cok Hs c0) by (constructor; assumption).
  assert (W0 : wn i (mo_wire m) c0) by (apply (wj_w _ _ _ _ J _ _ E0)).
  destruct (ChainWireCli.wn_step_dispatch cfuel Hs i (mo_wire m) _ _ _ EC K0 W0)
    as [[-> W1]|(lg & r & a & b & -> & WK & W1)].
  - apply (wj_nowire Hs T m ch); [exact J|reflexivity|exact K|].
    apply wch_set_node; [apply J|exact W1].
  - cbn [flat_map tr_cobs app].
    match goal with |- WJ _ _ _ ?c =>
      change (WJ Hs T (fold_left mon_obs [KDisp i r; KCGauge i a b]
                         (fold_left (mon_wire i) (wire_of lg) m)) c) end.
    destruct (fold_mon_wire Hs i (wire_of lg) m (wj_hs _ _ _ _ J) (wj_ok _ _ _ _ J) WK) as [C1 C2].
    set (m1 := fold_left (mon_wire i) (wire_of lg) m) in *.
    assert (J1 : WJ Hs T m1 ch).
    { constructor.
      - unfold m1. rewrite (fold_mon_wire_inv (fun x => map hkey (mo_calls x)) i); [apply J|].
        intros x w. rewrite mon_wire_calls. reflexivity.
      - exact C1.
      - apply J.
      - rewrite C2. eapply wch_incl; [|apply J]. intros x Hx. apply ChainWireCli.wacc_incl, Hx. }
    apply (wj_nowire Hs T m1 ch (set_node i _ ch) [KDisp i r; KCGauge i a b]); [exact J1|reflexivity|exact K|].
    apply wch_set_node; [apply J1|]. rewrite C2. exact W1.
Qed.

(* ------------------------------------------------------------------------------------------ *)
(* SettleAll *)
Lemma wj_poll_heads Hs T n : forall j ch acc ch' l m,
  WJ Hs T (fold_left mon_obs acc m) ch -> poll_heads j n ch acc = (ch', l) ->
  WJ Hs T (fold_left mon_obs l m) ch'.
Proof.
  induction n as [|n IH]; intros j ch acc ch' l m J E; cbn [poll_heads] in E; [pinj E; exact J|].
  match type of E with (if ?b then _ else _) = _ => destruct b end.
  - destruct (poll_head j ch) as [ch1 l1] eqn:EP.
    eapply IH; [|exact E]. rewrite fold_left_app. eapply wj_poll_head; eassumption.
  - eapply IH; eassumption.
Qed.
Lemma wj_poll_handlers Hs T i n : forall k ch acc ch' l m,
  WJ Hs T (fold_left mon_obs acc m) ch -> poll_handlers i k n ch acc = (ch', l) ->
  WJ Hs T (fold_left mon_obs l m) ch'.
Proof.
  induction n as [|n IH]; intros k ch acc ch' l m J E; cbn [poll_handlers] in E; [pinj E; exact J|].
  destruct (poll_handler i k Server.SRun ch) as [ch1 l1] eqn:EP.
  eapply IH; [|exact E]. rewrite fold_left_app. eapply wj_poll_handler; eassumption.
Qed.
Lemma wj_settle_node Hs T m i ch ch' l :
  WJ Hs T m ch -> settle_node i ch = (ch', l) -> WJ Hs T (fold_left mon_obs l m) ch'.
Proof.
  intros J E. unfold settle_node in E.
  destruct (Chain.poll_dispatch i ch) as [ch1 l1] eqn:E1.
  destruct (poll_requests i ch1) as [ch2 l2] eqn:E2.
  destruct (poll_handlers i 0 _ ch2 []) as [ch3 l3] eqn:E3. pinj E.
  rewrite !fold_left_app.
  eapply (wj_poll_handlers Hs T i _ 0 ch2 [] ch3 l3); [|exact E3]. cbn [fold_left].
  eapply wj_poll_requests; [|exact E2]. eapply wj_poll_dispatch; eassumption.
Qed.
Lemma wj_settle_nodes Hs T n : forall i ch acc ch' l m,
  WJ Hs T (fold_left mon_obs acc m) ch -> settle_nodes i n ch acc = (ch', l) ->
  WJ Hs T (fold_left mon_obs l m) ch'.
Proof.
  induction n as [|n IH]; intros i ch acc ch' l m J E; cbn [settle_nodes] in E; [pinj E; exact J|].
  destruct (settle_node i ch) as [ch1 l1] eqn:EP.
  eapply IH; [|exact E]. rewrite fold_left_app. eapply wj_settle_node; eassumption.
Qed.
Lemma wj_round Hs T m ch ch' ev :
  WJ Hs T m ch -> round ch = (ch', ev) -> WJ Hs T (fold_left mon_obs ev m) ch'.
Proof.
  intros J E. unfold round in E.
  destruct (poll_heads 0 _ ch []) as [ch1 l1] eqn:E1.
  destruct (settle_nodes 0 _ ch1 []) as [ch2 l2] eqn:E2. pinj E.
  rewrite ChainGood.fold_filter_event, fold_left_app.
  eapply (wj_settle_nodes Hs T _ 0 ch1 [] ch2 l2); [|exact E2]. cbn [fold_left].
  eapply (wj_poll_heads Hs T _ 0 ch [] ch1 l1); [exact J|exact E1].
Qed.
Lemma wj_settle Hs T n : forall ch acc ch' evs q m,
  WJ Hs T (fold_left mon_obs acc m) ch -> settle n ch acc = (ch', evs, q) ->
  WJ Hs T (fold_left mon_obs evs m) ch'.
Proof.
  induction n as [|n IH]; intros ch acc ch' evs q m J E; cbn [settle] in E.
  - pinj E. match goal with H : (_, _) = (_, _) |- _ => pinj H end. exact J.
  - destruct (round ch) as [ch1 ev] eqn:ER.
    pose proof (wj_round Hs T _ _ _ _ J ER) as J1.
    match type of E with (if ?b then _ else _) = _ => destruct b eqn:EB end.
    + pinj E. match goal with H : (_, _) = (_, _) |- _ => pinj H end.
      apply andb_true_iff in EB. destruct EB as [_ EB]. destruct ev; [|discriminate]. exact J1.
    + eapply IH; [|exact E]. rewrite fold_left_app. exact J1.
Qed.

Lemma nowire_gauges ch : forall i, forallb nowire (all_gauges i ch) = true.
Proof.
  induction ch as [|nd r IH]; intro i; cbn [all_gauges]; [reflexivity|].
  rewrite !forallb_app, IH. unfold cgauge, sgauge.
  destruct (Server.s_dropped _); [reflexivity|]. destruct (Server.s_bad _); reflexivity.
Qed.

Lemma wj_settle_all Hs T m ch ch' l :
  WJ Hs T m ch -> settle_all ch = (ch', l) -> WJ Hs T (fold_left mon_obs l m) ch'.
Proof.
  intros J E. unfold settle_all in E. destruct (settle _ ch []) as [[ch1 ev] q] eqn:ES. pinj E.
  pose proof (wj_settle Hs T _ ch [] ch1 ev q m J ES) as J1.
  rewrite fold_left_app.
  apply (wj_nowire Hs T _ ch1); [exact J1| |apply J1|apply J1].
  rewrite forallb_app, nowire_gauges. destruct q; reflexivity.
Qed.

(* ------------------------------------------------------------------------------------------ *)
(* one op *)
Record WI (m : mon) (ch : chain) : Prop := {
  wi_ok : mo_c18w m = true;
  wi_ctx : cok_chain (map hkey (mo_calls m)) (mo_now m) ch;
  wi_w : wch (mo_wire m) ch }.

Lemma WI_WJ m ch : WI m ch -> WJ (map hkey (mo_calls m)) (mo_now m) m ch.
Proof. intros [A B C]. constructor; [reflexivity|assumption..]. Qed.
Lemma WJ_WI Hs T m ch : WJ Hs T m ch -> mo_now m = T -> WI m ch.
Proof. intros [A B C D] <-. constructor; [exact B|rewrite A; exact C|exact D]. Qed.

Lemma mon_op_wire m o : mo_wire (mon_op m o) = mo_wire m /\ mo_c18w (mon_op m o) = mo_c18w m.
Proof. destruct o; split; reflexivity. Qed.

Lemma wi_step m ch o ch' l :
  step ch o = (ch', l) -> WI m ch -> WI (mon_step m o l) ch'.
Proof.
  intros E I.
  (* the context part, for every op *)
  assert (CT : forall m1, map hkey (mo_calls m1) = map hkey (mo_calls (fold_left mon_obs l (mon_op m o))) ->
                mo_now m1 = mo_now (fold_left mon_obs l (mon_op m o)) ->
                cok_chain (map hkey (mo_calls m1)) (mo_now m1) ch').
  { intros m1 -> ->. destruct (ctx_step _ _ _ _ _ _ E (wi_ctx _ _ I)) as [K _].
    rewrite fold_mon_obs_hkeys, fold_mon_obs_now, mon_op_hkeys, mon_op_now. exact K. }
  (* component ops: mon_op is the identity *)
  assert (CO : mon_op m o = m ->
               (forall Hs T, WJ Hs T m ch -> WJ Hs T (fold_left mon_obs l m) ch') ->
               WI (fold_left mon_obs l (mon_op m o)) ch').
  { intros -> H. eapply WJ_WI; [apply H, WI_WJ, I|]. apply fold_mon_obs_now. }
  (* ops without observations *)
  assert (NO : l = [] -> wch (mo_wire m) ch' -> WI (mon_op m o) ch').
  { intros -> W. destruct (mon_op_wire m o) as [E1 E2]. constructor.
    - rewrite E2. apply I.
    - apply CT; reflexivity.
    - rewrite E1. exact W. }
  unfold mon_step. destruct o; cbn [step] in E.
  - (* HCall *)
    destruct (nth_error ch 0) as [nd|] eqn:E0; pinj E; apply NO; try reflexivity; [|apply I].
    apply wch_set_node; [apply I|]. destruct (cstep nd _) as [nd1 l1] eqn:ES. cbn [fst].
    eapply wn_cstep; [exact ES|discriminate|apply (wi_w _ _ I), E0].
  - apply CO; [reflexivity|]. intros Hs T J. eapply wj_poll_head; eassumption.
  - (* HDrop *)
    destruct (nth_error ch 0) as [nd|] eqn:E0; pinj E; apply NO; try reflexivity; [|apply I].
    apply wch_set_node; [apply I|]. destruct (cstep nd _) as [nd1 l1] eqn:ES. cbn [fst].
    eapply wn_cstep; [exact ES|discriminate|apply (wi_w _ _ I), E0].
  - apply CO; [reflexivity|]. intros Hs T J. eapply wj_poll_dispatch; eassumption.
  - apply CO; [reflexivity|]. intros Hs T J. eapply wj_poll_requests; eassumption.
  - apply CO; [reflexivity|]. intros Hs T J. eapply wj_poll_handler; eassumption.
  - (* DropDispatch *)
    destruct (nth_error ch i) as [nd|] eqn:E0; [|pinj E; apply NO; [reflexivity|apply I]].
    destruct (Client.dropped _); [pinj E; apply NO; [reflexivity|apply I]|].
    destruct (cstep nd Client.DropDispatch) as [nd1 l1] eqn:ES. pinj E. apply NO; [reflexivity|].
    apply wch_set_node; [apply I|]. cbn [n_cli].
    eapply wn_cstep; [exact ES|discriminate|apply (wi_w _ _ I), E0].
  - (* DropServer *)
    destruct (nth_error ch i) as [nd|] eqn:E0; [|pinj E; apply NO; [reflexivity|apply I]].
    destruct (Server.s_dropped _); [pinj E; apply NO; [reflexivity|apply I]|].
    destruct (sstep nd Server.ODropChannel) as [nd1 l1] eqn:ES. pinj E. apply NO; [reflexivity|].
    apply wch_set_node; [apply I|]. cbn [n_cli]. rewrite (sstep_cli _ _ _ _ ES).
    apply (wi_w _ _ I), E0.
  - (* Advance *)
    pinj E. apply NO; [reflexivity|]. intros j x Hx. rewrite nth_error_map in Hx.
    destruct (nth_error ch j) as [nd|] eqn:E0; [|discriminate]. injection Hx as <-.
    unfold advance_node. destruct (cstep nd (Client.Advance dt)) as [nd1 l1] eqn:E1.
    destruct (sstep nd1 (Server.OAdvance dt)) as [nd2 l2] eqn:E2.
    rewrite (sstep_cli _ _ _ _ E2). eapply wn_cstep; [exact E1|discriminate|apply (wi_w _ _ I), E0].
  - (* SettleAll *)
    assert (W : WI (fold_left mon_obs l (mon_op m SettleAll)) ch').
    { apply CO; [reflexivity|]. intros Hs T J. eapply wj_settle_all; eassumption. }
    destruct W as [A B C]. constructor; assumption.
Qed.

Lemma wi_run : forall ops m ch,
  WI m ch -> exists m', mon_run m ops (fst (run_from ch ops)) = Some m' /\ mo_c18w m' = true.
Proof.
  induction ops as [|o r IH]; intros m ch I; cbn [run_from].
  - exists m. split; [reflexivity|apply I].
  - destruct (step ch o) as [ch1 l] eqn:ES. destruct (run_from ch1 r) as [ls ch2] eqn:ER.
    cbn [fst mon_run]. specialize (IH _ _ (wi_step _ _ _ _ _ ES I)). rewrite ER in IH. exact IH.
Qed.

Lemma wi_init d : WI mon0 (init d).
Proof.
  constructor; [reflexivity|apply (ci_ok _ _ (ctx_init d))|].
  intros i nd E. apply nth_error_In in E. unfold init in E. apply repeat_spec in E. subst nd.
  split; [intros q []|intros id e []].
Qed.

(* the hypothesis chain_no_wrap of the pinned statement is not needed *)
Theorem chain_wire_all : forall d ops, c18w_ok d ops (fst (run d ops)) = true.
Proof.
  intros d ops. unfold c18w_ok, run.
  destruct (wi_run ops mon0 (init d) (wi_init d)) as (m' & -> & A). exact A.
Qed.

Theorem chain_wire : stmt_chain_wire.
Proof. intros d ops _. apply chain_wire_all. Qed.
Print Assumptions chain_wire.
