(* Model of the time arithmetic tarpc performs (no proofs in this file).

   std::time (Linux): Instant and SystemTime are a Timespec { tv_sec : i64, tv_nsec < 10^9 };
   Duration is { secs : u64, nanos < 10^9 }.  Every operation tarpc uses is a function into
   `result`, whose `Panic` outcome names the panicking site.  Third-party behaviour (std::time,
   tokio_util DelayQueue, humantime) is modelled, never verified.

   tarpc's own code, one Gallina function per Rust function, as it is in /repo now:
     context.rs   absolute_to_relative_time::{serialize, deserialize}, ten_seconds_from_now
     util.rs      TimeUntil::time_until, MAX_TIMEOUT, format_deadline
     {client,server}/in_flight_requests.rs   the timer is armed with time_until().min(MAX_TIMEOUT)
   and, for the `_refuted` lemmas, the pre-fix variants (`*_prefix`). *)
From Coq Require Import List ZArith Bool.
Import ListNotations.
Local Open Scope Z_scope.

Definition NS : Z := 1000000000.
Definition u64_max : Z := 18446744073709551615.
Definition i64_max : Z := 9223372036854775807.
Definition i64_min : Z := -9223372036854775808.

Record duration := { d_secs : Z; d_nanos : Z }.
Record timespec := { t_secs : Z; t_nanos : Z }.
Definition dur_wf (d : duration) : Prop := 0 <= d_secs d <= u64_max /\ 0 <= d_nanos d < NS.
Definition ts_wf (t : timespec) : Prop := i64_min <= t_secs t <= i64_max /\ 0 <= t_nanos t < NS.
(* the same values on one line, in nanoseconds *)
Definition dur_ns (d : duration) : Z := d_secs d * NS + d_nanos d.
Definition ts_ns (t : timespec) : Z := t_secs t * NS + t_nanos t.

Inductive site :=
| SInstantAdd        (* "overflow when adding duration to instant" *)
| SSystemTimeAdd     (* "overflow when adding duration to instant" (SystemTime) *)
| SDelayQueueRange   (* DelayQueue::insert: "invalid deadline; err=Invalid" *)
| SRfc3339Year       (* humantime Display returns fmt::Error past year 9999 *)
| SBeforeEpoch.      (* humantime: "all times should be after the epoch" *)
Inductive result (A : Type) := Ok (a : A) | Panic (s : site).
Arguments Ok {A} a.
Arguments Panic {A} s.
Definition rbind {A B} (r : result A) (f : A -> result B) : result B :=
  match r with Ok a => f a | Panic s => Panic s end.
Definition is_ok {A} (r : result A) : bool := match r with Ok _ => true | Panic _ => false end.

(* Duration::from_secs *)
Definition from_secs (s : Z) : duration := {| d_secs := s; d_nanos := 0 |}.
(* Ord for Duration and Timespec: lexicographic on (secs, nanos) *)
Definition dur_leb (a b : duration) : bool :=
  (d_secs a <? d_secs b) || ((d_secs a =? d_secs b) && (d_nanos a <=? d_nanos b)).
Definition dur_min (a b : duration) : duration := if dur_leb a b then a else b.
Definition ts_leb (a b : timespec) : bool :=
  (t_secs a <? t_secs b) || ((t_secs a =? t_secs b) && (t_nanos a <=? t_nanos b)).
Definition ts_ltb (a b : timespec) : bool := negb (ts_leb b a).
Definition ts_min (a b : timespec) : timespec := if ts_leb a b then a else b.

(* Timespec::checked_add_duration *)
Definition ts_checked_add (t : timespec) (d : duration) : option timespec :=
  let secs := t_secs t + d_secs d in                      (* checked_add_unsigned *)
  if i64_max <? secs then None
  else
    let nsec := d_nanos d + t_nanos t in
    if NS <=? nsec then
      if i64_max <? secs + 1 then None
      else Some {| t_secs := secs + 1; t_nanos := nsec - NS |}
    else Some {| t_secs := secs; t_nanos := nsec |}.

(* Instant + Duration, SystemTime + Duration: the panicking operators *)
Definition instant_add (t : timespec) (d : duration) : result timespec :=
  match ts_checked_add t d with Some x => Ok x | None => Panic SInstantAdd end.
Definition systime_add (t : timespec) (d : duration) : result timespec :=
  match ts_checked_add t d with Some x => Ok x | None => Panic SSystemTimeAdd end.

(* Timespec::sub_timespec for self >= other *)
Definition ts_sub_ge (a b : timespec) : duration :=
  if t_nanos b <=? t_nanos a
  then {| d_secs := t_secs a - t_secs b; d_nanos := t_nanos a - t_nanos b |}
  else {| d_secs := t_secs a - 1 - t_secs b; d_nanos := t_nanos a + NS - t_nanos b |}.
(* Instant::duration_since = checked_duration_since(earlier).unwrap_or_default(): saturating *)
Definition duration_since (a earlier : timespec) : duration :=
  if ts_leb earlier a then ts_sub_ge a earlier else {| d_secs := 0; d_nanos := 0 |}.

(* ---- tarpc ---- *)
(* util.rs: MAX_TIMEOUT = Duration::from_secs(60 * 60 * 24 * 365) *)
Definition max_timeout_secs : Z := 31536000.
Definition max_timeout : duration := from_secs max_timeout_secs.
(* context.rs: ten_seconds_from_now *)
Definition default_deadline_secs : Z := 10.
(* util.rs: format_deadline's cap, 9999-12-31T23:59:59Z *)
Definition rfc3339_cap_secs : Z := 253402300799.

(* util.rs TimeUntil::time_until: self.duration_since(Instant::now()) *)
Definition time_until (now D : timespec) : duration := duration_since D now.

(* context.rs absolute_to_relative_time::serialize *)
Definition ser_deadline (now D : timespec) : duration := duration_since D now.
(* context.rs absolute_to_relative_time::deserialize (after Duration::deserialize):
   now.checked_add(deadline).unwrap_or_else(|| now + MAX_TIMEOUT) *)
Definition de_deadline (now : timespec) (d : duration) : result timespec :=
  match ts_checked_add now d with
  | Some x => Ok x
  | None => instant_add now max_timeout
  end.
(* before commit 89e9774: Instant::now() + deadline *)
Definition de_deadline_prefix (now : timespec) (d : duration) : result timespec := instant_add now d.
(* context.rs ten_seconds_from_now: Instant::now() + Duration::from_secs(10) *)
Definition ten_seconds_from_now (now : timespec) : result timespec :=
  instant_add now (from_secs default_deadline_secs).

(* what a decoder makes of the deadline member of a request context: the remaining Duration if
   the peer sent one, the #[serde(default)] otherwise *)
Definition de_context_deadline (now : timespec) (w : option duration) : result timespec :=
  match w with Some d => de_deadline now d | None => ten_seconds_from_now now end.

(* ---- tokio_util::time::DelayQueue ---- *)
Definition dq_max : Z := 68719476735.                       (* wheel MAX_DURATION = 2^36 - 1 ms *)
(* tokio_util::time::ms(d, Round::Up), saturating at u64::MAX *)
Definition ms_up (d : duration) : Z :=
  Z.min u64_max (Z.min u64_max (d_secs d * 1000) + (d_nanos d + 999999) / 1000000).
Inductive armed := Expired | Armed (when_ms : Z).
(* DelayQueue::insert(value, timeout) on a queue created at `start` whose wheel has advanced to
   `elapsed` ms: insert_at(Instant::now() + timeout); normalize_deadline; wheel.insert *)
Definition dq_insert (start : timespec) (elapsed : Z) (now_tokio : timespec) (timeout : duration)
  : result armed :=
  rbind (instant_add now_tokio timeout) (fun w =>
  let when := if ts_ltb w start then 0 else ms_up (duration_since w start) in
  let when := Z.max when elapsed in
  if when <=? elapsed then Ok Expired
  else if dq_max <? when - elapsed then Panic SDelayQueueRange
  else Ok (Armed when)).

(* {client,server}/in_flight_requests.rs: deadline.time_until().min(MAX_TIMEOUT), then insert.
   now_std is std's Instant::now() read by time_until, now_tokio is tokio's clock read by insert. *)
Definition arm_timer (start : timespec) (elapsed : Z) (now_std now_tokio D : timespec) : result armed :=
  dq_insert start elapsed now_tokio (dur_min (time_until now_std D) max_timeout).
(* before commit 44cf918: no clamp *)
Definition arm_timer_prefix (start : timespec) (elapsed : Z) (now_std now_tokio D : timespec) : result armed :=
  dq_insert start elapsed now_tokio (time_until now_std D).

(* ---- the rpc.deadline span field ---- *)
Definition unix_epoch : timespec := {| t_secs := 0; t_nanos := 0 |}.
(* util.rs format_deadline: evaluated whenever the span is created, subscriber or not *)
Definition format_deadline (wall now_std D : timespec) : result timespec :=
  rbind (systime_add unix_epoch (from_secs rfc3339_cap_secs)) (fun max =>
  Ok (match ts_checked_add wall (time_until now_std D) with
      | None => max
      | Some x => ts_min x max
      end)).
(* Display for humantime::Rfc3339Timestamp: evaluated when a subscriber records the field; a
   fmt::Error from Display makes the recording subscriber panic *)
Definition render_rfc3339 (t : timespec) : result unit :=
  if ts_ltb t unix_epoch then Panic SBeforeEpoch
  else if rfc3339_cap_secs + 1 <=? d_secs (duration_since t unix_epoch) then Panic SRfc3339Year
  else Ok tt.
(* listening = some subscriber records the field *)
Definition deadline_field (listening : bool) (wall now_std D : timespec) : result unit :=
  rbind (format_deadline wall now_std D) (fun t => if listening then render_rfc3339 t else Ok tt).
(* before commit 167c049: humantime::format_rfc3339(SystemTime::now() + deadline.time_until()) *)
Definition deadline_field_prefix (listening : bool) (wall now_std D : timespec) : result unit :=
  rbind (systime_add wall (time_until now_std D)) (fun t =>
  if listening then render_rfc3339 t else Ok tt).

(* ---- an endpoint's whole reaction to one deadline ---- *)
(* server: decode the context, create the span (start_request), arm the timer *)
Definition server_receive (listening : bool) (start : timespec) (elapsed : Z)
           (wall now : timespec) (w : option duration) : result (timespec * armed) :=
  rbind (de_context_deadline now w) (fun D =>
  rbind (deadline_field listening wall now D) (fun _ =>
  rbind (arm_timer start elapsed now now D) (fun a => Ok (D, a)))).
(* client: Channel::call creates the span; the dispatch arms the timer (insert_request) and the
   transport serialises the remaining time *)
Definition client_send (listening : bool) (start : timespec) (elapsed : Z)
           (wall now D : timespec) : result (armed * duration) :=
  rbind (deadline_field listening wall now D) (fun _ =>
  rbind (arm_timer start elapsed now now D) (fun a => Ok (a, ser_deadline now D))).

(* the pre-fix endpoint (all three repairs undone), for the refutation lemmas *)
Definition server_receive_prefix (listening : bool) (start : timespec) (elapsed : Z)
           (wall now : timespec) (w : option duration) : result (timespec * armed) :=
  rbind (match w with Some d => de_deadline_prefix now d | None => ten_seconds_from_now now end) (fun D =>
  rbind (deadline_field_prefix listening wall now D) (fun _ =>
  rbind (arm_timer_prefix start elapsed now now D) (fun a => Ok (D, a)))).

(* ---- multi-hop propagation (C07) ---- *)
(* one hop: the sender serialises at clock ts, the receiver deserialises at clock tr *)
Definition hop (ts tr D : timespec) : result timespec := de_deadline tr (ser_deadline ts D).
(* a chain of hops, each given by its (send clock, receive clock) *)
Fixpoint chain (D : timespec) (hops : list (timespec * timespec)) : result timespec :=
  match hops with
  | [] => Ok D
  | (ts, tr) :: r => rbind (hop ts tr D) (fun D' => chain D' r)
  end.
Fixpoint transit_ns (hops : list (timespec * timespec)) : Z :=
  match hops with [] => 0 | (ts, tr) :: r => (ts_ns tr - ts_ns ts) + transit_ns r end.
(* every hop is sent before the deadline it carries has passed *)
Fixpoint sent_in_time (D : timespec) (hops : list (timespec * timespec)) : Prop :=
  match hops with
  | [] => True
  | (ts, tr) :: r =>
    ts_ns ts <= ts_ns D /\
    match hop ts tr D with Ok D' => sent_in_time D' r | Panic _ => False end
  end.
Fixpoint latest_send (D : timespec) (hops : list (timespec * timespec)) : Z :=
  match hops with [] => ts_ns D | (ts, _) :: r => Z.max (ts_ns ts) (latest_send D r) end.
