(* Chain proofs, SettleAll terminates (stmt_chain_rounds), part 0: the weights of the potential.
   A request on node i pays for everything it can still cause downstream: `A` is the weight of a
   fresh call on the NEXT node's client (0 on the last node). *)
From Coq Require Import List Bool Arith NArith Lia.
Import ListNotations.
From TarpcV Require Import Base Transport TimerWheel Chain ChainBase.
From TarpcV Require Client Server.

(* lia on the arithmetic hypotheses only *)
Ltac keep_arith H :=
  lazymatch type of H with
  | @eq nat _ _ => idtac | @eq N _ _ => idtac
  | le _ _ => idtac | lt _ _ => idtac | ge _ _ => idtac | gt _ _ => idtac
  | N.le _ _ => idtac | N.lt _ _ => idtac
  | _ => fail
  end.
Ltac alia :=
  repeat match goal with
         | H : ?P |- _ =>
           lazymatch type of P with
           | Prop => tryif keep_arith H then fail else clear H
           end
         end; lia.

Definition msgw (A : nat) (m : Server.cmsg) : nat :=
  match m with Server.MReq _ _ _ _ => A + 8 | Server.MCancel _ _ => 1 end.
Fixpoint sumw (A : nat) (l : list Server.cmsg) : nat :=
  match l with [] => 0 | m :: r => msgw A m + sumw A r end.
Definition LP (A : nat) (l : link) : nat := sumw A (l_c2s l) + length (l_s2c l).

(* what the digest reads of a link *)
Definition ldig (l : link) : nat * nat * bool * bool :=
  (length (l_c2s l), length (l_s2c l), l_cgone l, l_sgone l).

Lemma sumw_app A l1 l2 : sumw A (l1 ++ l2) = sumw A l1 + sumw A l2.
Proof. induction l1 as [|x r IH]; cbn; [reflexivity|]. rewrite IH. lia. Qed.
Lemma sumw_le A l : sumw A l <= (A + 8) * length l.
Proof. induction l as [|x r IH]; cbn [sumw length]; [lia|]. destruct x; cbn [msgw]; lia. Qed.
Lemma msgw_pos A m : 1 <= msgw A m.
Proof. destruct m; cbn; lia. Qed.
