(* C18, part `threads`: calls made from different OS threads (harness/src/spans.rs).  Freshness of a
   span id is a property of a random draw and has no deterministic model; this part is judged by
   the monitor alone.  calls: the i-th call's (caller trace id, caller span id); trace: what the
   server end of the transport read, (body = index of the call, trace id, span id). *)
From Coq Require Import List NArith Bool Arith.
Import ListNotations.
From TarpcV Require Import Base.

Fixpoint distinct (l : list N) : bool :=
  match l with
  | [] => true
  | x :: r => negb (existsb (N.eqb x) r) && distinct r
  end.

Definition entry_ok (calls : list (N * N)) (e : N * N * N) : bool :=
  let '(b, t, sp) := e in
  match nth_error calls (N.to_nat b) with
  | Some (ct, cs) => N.eqb t ct            (* the trace id follows the request *)
                     && negb (N.eqb sp cs) (* the hop has a span of its own *)
  | None => false
  end.

Definition c18t_ok (calls : list (N * N)) (tr : list (N * N * N)) : bool :=
  forallb (entry_ok calls) tr
  && distinct (map (fun e => snd e) tr)               (* no two requests share a span id *)
  && distinct (map (fun e => fst (fst e)) tr)         (* every call's request at most once *)
  && Nat.eqb (length tr) (length calls).              (* and every one of them *)
