(* Chain proofs, fuel of the dispatch poll: on the chain's link end `ctp`, with the fuel
   `Chain.cfuel`, no poll of a RequestDispatch runs out of fuel, in any state.  This is the
   measure argument of ClientProofsG1Fuel with the inbound side of the link (l_s2c) in place of
   the scripted inbox; only the five transport wrappers differ. *)
From Coq Require Import List Bool Arith NArith Lia ZifyBool ZifyNat ZifyN.
Import ListNotations.
From TarpcV Require Import Base Transport Client ClientS ClientMon ClientSpec ClientLemmas
  ClientProofsG1Frames ClientProofsG1Fuel.
From TarpcV Require Chain.

Arguments N.modulo : simpl never.
Arguments N.add : simpl never.
Arguments N.min : simpl never.
Arguments N.sub : simpl never.

Section CFuel.
  Notation ctp := Chain.ctp.
  Notation cstate := (@cstate Chain.link).
  Implicit Types s : cstate.

  Definition phi s : nat :=
    (length (Chain.l_s2c (tr s)) + 2 * length (queue s) + length (cancels s) + length (timers s))%nat.

  Lemma phi_lt_cfuel s : (phi s < Chain.cfuel s)%nat.
  Proof. unfold phi, Chain.cfuel. lia. Qed.

  (* ---------------------------------------------------------------- transport wrappers *)
  Lemma inbox_do_ready s r s' : do_ready ctp s = (r, s') -> Chain.l_s2c (tr s') = Chain.l_s2c (tr s).
  Proof. unfold do_ready. cbn [ctp Chain.ctp t_ready]. intros [= <- <-]. reflexivity. Qed.
  Lemma inbox_do_send s m r s' : do_send ctp s m = (r, s') -> Chain.l_s2c (tr s') = Chain.l_s2c (tr s).
  Proof.
    unfold do_send. cbn [ctp Chain.ctp t_send].
    destruct (Chain.l_sgone (tr s)); intros [= <- <-]; reflexivity.
  Qed.
  Lemma inbox_do_flush s r s' : do_flush ctp s = (r, s') -> Chain.l_s2c (tr s') = Chain.l_s2c (tr s).
  Proof. unfold do_flush. cbn [ctp Chain.ctp t_flush]. intros [= <- <-]. reflexivity. Qed.
  Lemma inbox_do_close s r s' : do_close ctp s = (r, s') -> Chain.l_s2c (tr s') = Chain.l_s2c (tr s).
  Proof. unfold do_close. cbn [ctp Chain.ctp t_close]. intros [= <- <-]. reflexivity. Qed.
  Lemma inbox_do_next s r s' : do_next ctp s = (r, s') ->
    (length (Chain.l_s2c (tr s')) + (match r with RItem _ => 1 | _ => 0 end)
     <= length (Chain.l_s2c (tr s)))%nat.
  Proof.
    unfold do_next. destruct (fused s); [intros [= <- <-]; lia|].
    cbn [ctp Chain.ctp t_next].
    destruct (Chain.l_s2c (tr s)) eqn:E.
    - destruct (Chain.l_sgone (tr s)); intros [= <- <-]; cbn; rewrite E; cbn; lia.
    - intros [= <- <-]. cbn. lia.
  Qed.

  Lemma phi_X s s' : XFrame s s' -> Chain.l_s2c (tr s') = Chain.l_s2c (tr s) -> phi s' = phi s.
  Proof.
    intros F E. unfold phi. rewrite E, (xf_queue _ _ F), (xf_cancels _ _ F), (xf_timers _ _ F).
    reflexivity.
  Qed.
  Lemma phi_do_ready s r s' : do_ready ctp s = (r, s') -> phi s' = phi s.
  Proof. intro H. apply phi_X; [eapply XFrame_do_ready, H|eapply inbox_do_ready, H]. Qed.
  Lemma phi_do_send s m r s' : do_send ctp s m = (r, s') -> phi s' = phi s.
  Proof. intro H. apply phi_X; [eapply XFrame_do_send, H|eapply inbox_do_send, H]. Qed.
  Lemma phi_do_flush s r s' : do_flush ctp s = (r, s') -> phi s' = phi s.
  Proof. intro H. apply phi_X; [eapply XFrame_do_flush, H|eapply inbox_do_flush, H]. Qed.
  Lemma phi_do_close s r s' : do_close ctp s = (r, s') -> phi s' = phi s.
  Proof. intro H. apply phi_X; [eapply XFrame_do_close, H|eapply inbox_do_close, H]. Qed.

  Lemma phi_ensure_writeable s r s' : ensure_writeable ctp s = (r, s') -> phi s' = phi s.
  Proof.
    intro H. apply ensure_writeable_inv in H.
    destruct H as [r s1 H1 _|s1 s2 H1 H2|s1 s2 H1 H2|s1 s2 r s3 H1 H2 H3];
      repeat match goal with
             | H : do_ready _ _ = _ |- _ => apply phi_do_ready in H
             | H : do_flush _ _ = _ |- _ => apply phi_do_flush in H
             end; congruence.
  Qed.

  (* ---------------------------------------------------------------- the tables *)
  Lemma phi_T s s' : TFrame s s' -> (length (timers s') <= length (timers s) + 0)%nat ->
    (phi s' <= phi s)%nat.
  Proof.
    intros F L. unfold phi.
    rewrite (if_tr _ _ (tf_i _ _ F)), (tf_queue _ _ F), (tf_cancels _ _ F). lia.
  Qed.

  Lemma timers_slot_send s id o : timers (slot_send s id o) = timers s.
  Proof. apply (QFrame_slot_send s id o). Qed.
  Lemma timers_complete_request s id o :
    (length (timers (snd (complete_request s id o))) <= length (timers s))%nat.
  Proof.
    unfold complete_request. destruct (alookup id (inflight s)); cbn [snd]; [|lia].
    rewrite timers_slot_send. cbn [timers upd_if]. apply length_aremove_le.
  Qed.
  Lemma phi_complete_request s id o : (phi (snd (complete_request s id o)) <= phi s)%nat.
  Proof.
    apply phi_T; [apply TFrame_complete_request|]. pose proof (timers_complete_request s id o). lia.
  Qed.
  Lemma timers_cancel_request s id :
    (length (timers (snd (cancel_request s id))) <= length (timers s))%nat.
  Proof.
    unfold cancel_request. destruct (alookup id (inflight s)); cbn [snd]; [|lia].
    cbn [timers upd_if]. apply length_aremove_le.
  Qed.
  Lemma phi_insert_request s q : (phi (insert_request s q) <= S (phi s))%nat.
  Proof.
    unfold phi, insert_request. cbn [tr queue cancels timers upd_if].
    pose proof (length_aset_le (q_id q) (timer_instant s (q_deadline q)) (timers s)). lia.
  Qed.

  Lemma phi_poll_expired s e s' : poll_expired s = (e, s') ->
    (phi s' + (match e with Some _ => 1 | None => 0 end) <= phi s)%nat.
  Proof.
    pose proof (TFrame_poll_expired s) as F. intro H. rewrite H in F. cbn [snd] in F.
    assert (L : (length (timers s') + (match e with Some _ => 1 | None => 0 end)
                 <= length (timers s))%nat).
    { revert H. unfold poll_expired. destruct (min_timer (timers s) None) as [[id w]|] eqn:M;
        [|intros [= <- <-]; lia].
      destruct (N.leb w (now s)); [|intros [= <- <-]; lia].
      apply min_timer_in in M. destruct M as [M|M]; [discriminate|].
      assert (I : In id (map fst (timers s))) by (apply (in_map fst) in M; exact M).
      pose proof (length_aremove_lt id (timers s) I) as L.
      destruct (alookup id _); intros [= <- <-]; [rewrite timers_slot_send|];
        cbn [timers upd_if]; lia. }
    unfold phi. rewrite (if_tr _ _ (tf_i _ _ F)), (tf_queue _ _ F), (tf_cancels _ _ F). lia.
  Qed.

  (* ---------------------------------------------------------------- the two writers *)
  Lemma phi_next_request_loop f s r s' : next_request_loop f s = (r, s') ->
    (phi s' + (if is_psome r then 2 else 0) <= phi s)%nat.
  Proof.
    intro H. pose proof (QFrame_next_request_loop f s) as F. rewrite H in F. cbn [snd] in F.
    apply queue_next_request_loop in H. unfold phi.
    rewrite (if_tr _ _ (qf_i _ _ F)), (qf_cancels _ _ F), (qf_timers _ _ F).
    destruct (is_psome r); lia.
  Qed.

  Lemma phi_poll_write_request s r s' : poll_write_request ctp s = (r, s') ->
    (phi s' + (if is_psome r then 1 else 0) <= phi s)%nat.
  Proof.
    intro H. apply poll_write_request_inv in H.
    destruct H as [_|r s1 _ H1 Hr|r s1 s2 _ H1 H2 Hr|s1 q s2 w s3 _ H1 H2 H3].
    - cbn. lia.
    - apply phi_ensure_writeable in H1. destruct r; cbn in *; try discriminate; lia.
    - apply phi_ensure_writeable in H1. apply phi_next_request_loop in H2. rewrite Hr in H2.
      destruct r; cbn in *; try discriminate; lia.
    - apply phi_ensure_writeable in H1. apply phi_next_request_loop in H2. cbn [is_psome] in H2.
      apply phi_do_send in H3. pose proof (phi_insert_request s2 q) as H4.
      cbn [is_psome]. destruct w; [lia|].
      pose proof (phi_complete_request s3 (q_id q) OSendErr). lia.
  Qed.

  Lemma timers_next_cancel_loop f s r s' : next_cancel_loop f s = (r, s') ->
    (length (timers s') <= length (timers s))%nat.
  Proof.
    revert s; induction f as [|f IH]; intro s; cbn [next_cancel_loop]; [intros [= <- <-]; lia|].
    pose proof (CFrame_c_poll_recv s) as F1. pose proof (IFrame_c_poll_recv s) as F0.
    assert (E1 : timers (snd (c_poll_recv s)) = timers s).
    { unfold c_poll_recv. destruct (cancels s); [destruct (Nat.eqb _ _)|]; reflexivity. }
    destruct (c_poll_recv s) as [x s1]. cbn [snd] in E1.
    destruct x as [id| |]; try (intros [= <- <-]; rewrite E1; lia).
    pose proof (timers_cancel_request s1 id) as L. rewrite E1 in L.
    destruct (cancel_request s1 id) as [[e|] s2]; cbn [snd] in L.
    - intros [= <- <-]. lia.
    - intro H. apply IH in H. lia.
  Qed.
  Lemma phi_next_cancel_loop f s r s' : next_cancel_loop f s = (r, s') ->
    (phi s' + (if is_psome r then 1 else 0) <= phi s)%nat.
  Proof.
    intro H. pose proof (CFrame_next_cancel_loop f s) as F. rewrite H in F. cbn [snd] in F.
    pose proof (timers_next_cancel_loop _ _ _ _ H) as L.
    apply cancels_next_cancel_loop in H. unfold phi.
    rewrite (if_tr _ _ (cf_i _ _ F)), (cf_queue _ _ F). lia.
  Qed.

  Lemma phi_poll_write_cancel s r s' : poll_write_cancel ctp s = (r, s') ->
    (phi s' + (if is_psome r then 1 else 0) <= phi s)%nat.
  Proof.
    intro H. apply poll_write_cancel_inv in H.
    destruct H as [r s1 H1 Hr|r s1 s2 H1 H2 Hr|s1 id e s2 w s3 H1 H2 H3].
    - apply phi_ensure_writeable in H1. destruct r; cbn in *; try discriminate; lia.
    - apply phi_ensure_writeable in H1. apply phi_next_cancel_loop in H2. rewrite Hr in H2.
      destruct r; cbn in *; try discriminate; lia.
    - apply phi_ensure_writeable in H1. apply phi_next_cancel_loop in H2. cbn [is_psome] in H2.
      apply phi_do_send in H3. destruct w; cbn [is_psome]; lia.
  Qed.

  Lemma phi_pump_write s r s' : pump_write ctp s = (r, s') ->
    (phi s' + (if is_psome r then 1 else 0) <= phi s)%nat.
  Proof.
    intro H. apply pump_write_inv in H.
    destruct H as [a s1 H1|u s1 H1|r1 s1 a s2 H1 I1 H2|r1 s1 u s2 H1 I1 H2
                  |r1 s1 r2 s2 id s3 H1 I1 H2 I2 H3|s1 s2 s3 x s4 H1 H2 H3 H4
                  |r1 s1 r2 s2 s3 x s4 H1 I1 H2 I2 I12 H3 H4];
      repeat match goal with
             | H : poll_write_request _ _ = _ |- _ => apply phi_poll_write_request in H
             | H : poll_write_cancel _ _ = _ |- _ => apply phi_poll_write_cancel in H
             | H : poll_expired _ = _ |- _ => apply phi_poll_expired in H
             | H : do_close _ _ = _ |- _ => apply phi_do_close in H
             | H : do_flush _ _ = _ |- _ => apply phi_do_flush in H
             end; cbn [is_psome] in *.
    - lia.
    - lia.
    - destruct (is_psome r1); lia.
    - destruct (is_psome r1); lia.
    - destruct (is_psome r1), (is_psome r2); lia.
    - destruct x; cbn; lia.
    - destruct (is_psome r1), (is_psome r2), x; cbn; lia.
  Qed.

  Lemma phi_pump_read s r s' : pump_read ctp s = (r, s') ->
    (phi s' + (if is_psome r then 1 else 0) <= phi s)%nat.
  Proof.
    intro H. apply pump_read_inv in H. destruct H as (x & s1 & H1 & -> & ->).
    pose proof (XFrame_do_next _ _ _ _ H1) as F. apply inbox_do_next in H1.
    assert (L : (phi s1 + (match x with RItem _ => 1 | _ => 0 end) <= phi s)%nat).
    { unfold phi. rewrite (xf_queue _ _ F), (xf_cancels _ _ F), (xf_timers _ _ F). lia. }
    destruct x as [y| | |]; cbn [read_res is_psome]; try lia.
    pose proof (phi_complete_request s1 (r_id y)
                  (match r_body y with BOk v => OReply v | BErr k => OSrvErr k end)) as C.
    unfold complete. lia.
  Qed.

  Lemma run_loop_fuel f : forall s r s',
    (phi s < f)%nat -> run_loop ctp f s = (r, s') -> r <> RunFuel.
  Proof.
    induction f as [|f IH]; intros s r s' L H; [lia|].
    apply run_loop_inv in H.
    destruct H as [a s1 H1|rd s1 a s2 H1 N1 H2|s1 wr s2 H1 H2 N2|rd s1 s2 H1 D1 H2 L2
                  |s1 wr s2 H1 H2 D2|rd s1 wr s2 r s3 H1 H2 D H3]; try discriminate.
    apply phi_pump_read in H1. apply phi_pump_write in H2.
    eapply IH; [|exact H3].
    destruct D as [[-> _]|[-> ->]]; cbn [is_psome] in *; [destruct (is_psome wr)|]; lia.
  Qed.

  Lemma poll_dispatch_fuel f s r s' :
    (phi s < f)%nat -> poll_dispatch ctp f s = (r, s') -> r <> DFuel.
  Proof.
    intro L. unfold poll_dispatch. destruct (terminal s).
    - destruct (shut_down s a) as [[] s1]; intros [= <- <-]; discriminate.
    - destruct (run_loop ctp f s) as [rr s1] eqn:E. pose proof (run_loop_fuel _ _ _ _ L E) as N.
      destruct rr; try congruence.
      destruct (shut_down _ a) as [[] s2]; intros [= <- <-]; discriminate.
  Qed.
End CFuel.
