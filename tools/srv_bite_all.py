#!/usr/bin/env python3
"""Re-runs every seeded server defect under /verif/seeded/srv-*/ against a private checkout
(tools/srv_bite.sh: git worktree /tmp/seed/srv + VERIF_REPO; /repo is never touched) and refreshes
the measured fields of meta.json (violation lines, summary line, shrunk script of the first replay).

  tools/srv_bite_all.py [name ...]"""
import glob
import json
import os
import re
import subprocess
import sys

ROOT = os.path.dirname(os.path.dirname(os.path.abspath(__file__)))


def main():
    names = sys.argv[1:] or sorted(os.path.basename(d)[4:] for d in glob.glob(os.path.join(ROOT, "seeded", "srv-*")))
    bad = 0
    for name in names:
        d = os.path.join(ROOT, "seeded", "srv-" + name)
        meta = json.load(open(os.path.join(d, "meta.json")))
        wt, rest = meta["commands"][2].split("VERIF_REPO=")[1].split(" ", 1)
        cmd = rest.split()
        subprocess.run(["sh", os.path.join(ROOT, "tools", "srv_bite.sh"), name] + cmd, cwd=ROOT,
                       stdout=subprocess.DEVNULL, env=dict(os.environ, SRV_BITE_W=wt))
        out = open(os.path.join(d, "output.txt")).read()
        viol = [l for l in out.split("\n") if l.startswith("VIOLATION")]
        summ = [l for l in out.split("\n") if re.search(r"quick: ", l)]
        meta["violation_lines"] = len(viol)
        meta["violation_line"] = viol[0] if viol else None
        meta["summary_line"] = summ[-1] if summ else None
        meta["detected"] = bool(viol)
        if viol:
            m = re.search(r"replay=(\S+)", viol[0])
            rp = os.path.join(ROOT, m.group(1))
            if os.path.exists(rp):
                r = json.load(open(rp))
                meta["shrunk_script_of_first_violation"] = r.get("script")
                meta["first_violation_kind"] = r.get("kind")
        json.dump(meta, open(os.path.join(d, "meta.json"), "w"), indent=1)
        print(f"{name}: detected={meta['detected']} {meta['violation_line']} | {meta['summary_line']}")
        bad += 0 if viol else 1
    return 1 if bad else 0


if __name__ == "__main__":
    sys.exit(main())
