#!/bin/bash
# tools/seedcheck.sh <name> <worktree> <n> <check-id> [<check-id>...]
# Confirms a seeded change (produced by an independent sub-agent in <worktree>/seeded_out):
#  1. existing suite passes with the change, 2. demo fails with it and passes without,
#  3. runs the named checks against the changed worktree (VERIF_REPO) and records the outcome
# under /verif/seeded/<name>/ (patch.diff, demo.rs, meta.json, check outputs).
set -u
name=$1; wt=$2; n=$3; shift 3
out=/verif/seeded/$name; mkdir -p $out
cp $wt/seeded_out/change_$n.diff $out/patch.diff
cp $wt/seeded_out/demo_$n.rs $out/demo.rs
cp $wt/seeded_out/notes_$n.md $out/notes.md 2>/dev/null
export CARGO_TARGET_DIR=$wt/target CARGO_NET_OFFLINE=true
cd $wt && git checkout -q -- tarpc/src plugins/src && rm -f tarpc/tests/seeded_demo_*.rs
cp $out/demo.rs tarpc/tests/seeded_demo_$n.rs
# demo on the unmodified source
( cd $wt && timeout 1500 cargo test --offline -p tarpc --all-features --test seeded_demo_$n 2>&1 | grep -E "^test result|error(\[|:)" | head -5 ) > $out/demo_clean.txt
git apply $out/patch.diff || { echo "patch does not apply" > $out/FAILED; exit 1; }
( cd $wt && timeout 1500 cargo test --offline -p tarpc --all-features --test seeded_demo_$n 2>&1 | grep -E "^test result|error(\[|:)" | head -5 ) > $out/demo_seeded.txt
rm -f tarpc/tests/seeded_demo_$n.rs
( cd $wt && timeout 2400 cargo test --offline -p tarpc --all-features --lib --tests --no-fail-fast 2>&1 | grep -E "^test result|^test .*FAILED|^error" | head -30; timeout 1200 cargo test --offline -p tarpc-plugins 2>&1 | grep -E "^test result|FAILED" | head ) > $out/suite_seeded.txt
unset CARGO_TARGET_DIR
cd /verif
for c in "$@"; do
  export VERIF_OUT=/verif/out/seedruns/$name
  mkdir -p $VERIF_OUT
  find $VERIF_OUT/$c -name 'replay-*.json' -delete 2>/dev/null
  rm -f $out/replay-*_$c.json
  VERIF_REPO=$wt timeout 3000 ./check $c quick > $out/check_$c.txt 2>&1
  echo "exit=$?" >> $out/check_$c.txt
  # keep the replays the VIOLATION lines name (first three)
  for f in $(grep -o 'replay=[^ ]*' $out/check_$c.txt | head -3 | cut -d= -f2); do [ -f "$f" ] && cp $f $out/$(basename $f .json)_$c.json; done
done
cd $wt && git checkout -q -- tarpc/src plugins/src
python3 - "$name" "$wt" "$n" "$@" <<'PY'
import sys, json, os, re
name, wt, n, *checks = sys.argv[1:]
out = f"/verif/seeded/{name}"
def rd(f):
    p=os.path.join(out,f); return open(p).read() if os.path.exists(p) else ""
res = {}
for c in checks:
    t = rd(f"check_{c}.txt")
    res[c] = {"violation_lines": [l for l in t.split("\n") if l.startswith("VIOLATION")][:3],
              "exit": re.findall(r"exit=(\d+)", t)[-1:] , "summary": [l for l in t.split("\n") if " quick:" in l][-1:]}
meta = {"name": name, "source": f"independent sub-agent, worktree {wt}, change {n}",
        "demo_on_clean_tree": rd("demo_clean.txt").strip().split("\n"),
        "demo_with_change": rd("demo_seeded.txt").strip().split("\n"),
        "existing_suite_with_change": rd("suite_seeded.txt").strip().split("\n"),
        "checks_run": {c: f"VERIF_REPO={wt} ./check {c} quick" for c in checks},
        "check_results": res,
        "needs_to_manifest": "see notes.md"}
json.dump(meta, open(os.path.join(out,"meta.json"),"w"), indent=1)
print(json.dumps({c: (res[c]['exit'], res[c]['violation_lines'][:1]) for c in checks}))
PY
