#!/bin/bash
# Runs every claimed check (quick) against /repo and prints one line per check.
cd /verif
for p in $(python3 -c "import json; print(' '.join(c['property_id'] for c in json.load(open('MANIFEST.json'))['checks']))"); do
  s=$(date +%s); out=$(./check $p ${1:-quick} 2>&1); rc=$?; e=$(date +%s)
  echo "$p rc=$rc $((e-s))s :: $(echo "$out" | grep -E "VIOLATION|KNOWN-FINDING|INFRA| quick:| thorough:" | tr '\n' '|' | cut -c1-300)"
done
