#!/bin/bash
# recheck.sh <name> <wt> <check> : re-run one check against a recorded seed after a strengthening
name=$1; wt=$2; c=$3; out=/verif/seeded/$name
cd $wt && git checkout -q -- . && git apply $out/patch.diff || exit 1
cd /verif; export VERIF_OUT=/verif/out/seedruns/$name; mkdir -p $VERIF_OUT
[ -f $out/check_${c}_before_strengthening.txt ] || cp -f $out/check_$c.txt $out/check_${c}_before_strengthening.txt
find $VERIF_OUT/$c -name 'replay-*.json' -delete 2>/dev/null
VERIF_REPO=$wt timeout 3000 ./check $c quick > $out/check_$c.txt 2>&1; echo "exit=$?" >> $out/check_$c.txt
for f in $(grep -o 'replay=[^ ]*' $out/check_$c.txt | head -3 | cut -d= -f2); do [ -f "$f" ] && cp $f $out/$(basename $f .json)_$c.json; done
cd $wt && git checkout -q -- .
python3 - "$name" "$c" <<'PY'
import json,re,sys
name,c=sys.argv[1:]
d=f'/verif/seeded/{name}/'
m=json.load(open(d+'meta.json'))
t=open(d+f'check_{c}.txt').read()
m.setdefault('check_results_before_strengthening',{})[c]=m['check_results'].get(c)
m['check_results'][c]={'violation_lines':[l for l in t.split('\n') if l.startswith('VIOLATION')][:3],'exit':re.findall(r'exit=(\d+)',t)[-1:], 'summary':[l for l in t.split('\n') if ' quick:' in l][-1:]}
json.dump(m,open(d+'meta.json','w'),indent=1)
print(name,c,m['check_results'][c]['exit'],m['check_results'][c]['violation_lines'][:1])
PY
