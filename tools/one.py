#!/usr/bin/env python3
"""Developer tool: run one script through a harness driver and a Checks module; print verdict.
usage: tools/one.py <harness-prop> <Checks module> <coq mods> '<script>' [--min BIT]  (ddmin while code&BIT)"""
import sys, subprocess, os
sys.path.insert(0,'/verif')
from lib import vcheck as V, props
hp, chk, mods, script = sys.argv[1:5]
spec={"pid":"DEV1_"+hp,"cases_header":props.HDR.format(mods=mods+" Checks."+chk),
      "case_term":lambda c: f"({c['cfg']}, {c['ops']}, {c['obs']})"}
os.makedirs('/verif/out/dev',exist_ok=True)
def code(s):
    g='/verif/out/dev/one.txt'; t='/verif/out/dev/one.tsv'
    open(g,'w').write(s+'\n')
    subprocess.run([V.HARNESS_BIN,hp,'run','--in',g,'--out',t],check=True)
    cases=V.read_cases(t)
    return V.eval_cases(spec["pid"],spec,cases)[0], cases[0]
if '--min' in sys.argv:
    bit=int(sys.argv[sys.argv.index('--min')+1])
    cfg,toks=script.split('|',1); toks=toks.split()
    toks=V.ddmin(toks, lambda t: bool(code(cfg+'|'+' '.join(t))[0] & bit), budget=150)
    script=cfg+'|'+' '.join(toks)
c,case=code(script)
print('SCRIPT',script); print('CODE',c); print('IMPL',case['obs'])
if c&1: print('MODEL',V.model_output(spec["pid"],spec,case))
