#!/usr/bin/env python3
"""Developer tool: correspondence of a harness driver with its model on generated scripts.
usage: tools/corr.py <harness-prop> <Checks module> <coq mods> <seed> <count> [gen args...]"""
import sys, subprocess, collections
sys.path.insert(0,'/verif')
from lib import vcheck as V, props
hp, chk, mods, seed, count = sys.argv[1:6]
extra = sys.argv[6:]
spec={"pid":"DEV_"+hp,"cases_header":props.HDR.format(mods=mods+" Checks."+chk),
      "case_term":lambda c: f"({c['cfg']}, {c['ops']}, {c['obs']})"}
H=V.HARNESS_BIN
import os
os.makedirs('/verif/out/dev',exist_ok=True)
g=f'/verif/out/dev/{hp}.txt'; t=f'/verif/out/dev/{hp}.tsv'
subprocess.run([H,hp,'gen','--seed',seed,'--count',count,'--out',g]+extra,check=True)
subprocess.run([H,hp,'run','--in',g,'--out',t]+os.environ.get('RUN_ARGS','').split(),check=True)
cases=V.read_cases(t)
codes=V.eval_cases(spec["pid"],spec,cases)
lines=[l for l in open(g).read().split('\n') if l.strip()]
bad=[i for i,c in enumerate(codes) if c]
hist=collections.Counter(t for c in cases for t in c['tags'])
print(len(cases),'cases',len(bad),'nonzero verdicts', collections.Counter(codes))
print(dict(hist))
for i in bad[:int(os.environ.get('SHOW','2'))]:
    print('SCRIPT',lines[i]); print('IMPL ',cases[i]['obs']); print('MODEL',V.model_output(spec["pid"],spec,cases[i]))
