#!/bin/bash
# wake-driven single script
python3 /verif/tools/one.py cliw CliWake "Transport Client ClientS ClientWake" "$@"
