#!/bin/sh
# usage: tools/srv_bite.sh <seeded-name> <check command...>
# Applies /verif/seeded/srv-<name>/patch.diff to a private checkout of /repo (git worktree at
# /tmp/seed/srv, created with `git -C /repo worktree add --detach /tmp/seed/srv HEAD`), runs the
# check against it (VERIF_REPO), and restores the checkout.  /repo itself is never touched.
name=$1; shift
d=/verif/seeded/srv-$name
W=${SRV_BITE_W:-/tmp/seed/srv}
[ -d $W/tarpc ] || git -C /repo worktree add --detach $W HEAD || exit 3
git -C $W checkout -q -- . && git -C $W checkout -q --detach $(git -C /repo rev-parse HEAD)
(cd $W && patch -p1 -s < $d/patch.diff) || { git -C $W checkout -- .; exit 3; }
cd /verif && VERIF_REPO=$W "$@" > $d/output.txt 2>&1
rc=$?
git -C $W checkout -- .
echo "check exit code $rc"
grep -E "VIOLATION|KNOWN-FINDING|INFRA|quick:|half quick" $d/output.txt | cut -c1-300
