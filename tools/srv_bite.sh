#!/bin/sh
# usage: tools/srv_bite.sh <seeded-name> <command...>
# Applies /verif/seeded/srv-<name>/patch.diff to /repo's working tree, runs the command (a check),
# and restores the touched files immediately afterwards.  Never commits in /repo.
name=$1; shift
d=/verif/seeded/srv-$name
cd /repo || exit 3
files="tarpc/src/server.rs tarpc/src/server/in_flight_requests.rs tarpc/src/server/limits/requests_per_channel.rs"
if ! git diff --quiet -- $files; then echo "server files already modified in /repo: refusing" >&2; exit 3; fi
patch -p1 -s < $d/patch.diff || { git checkout -- $files; exit 3; }
trap 'cd /repo && git checkout -- $files' EXIT INT TERM
cd /verif && "$@" > $d/output.txt 2>&1
rc=$?
cd /repo && git checkout -- $files
trap - EXIT INT TERM
git -C /repo diff --quiet -- $files && echo "restored; check exit code $rc"
grep -E "VIOLATION|KNOWN-FINDING|INFRA|quick:|half quick" $d/output.txt | cut -c1-400
