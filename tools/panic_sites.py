#!/usr/bin/env python3
"""Panic-site inventory (part of the translator, DESIGN.md section 2): lists every place in the
non-test code of the anchored files where the code can panic by construction
(unwrap/expect/panic!/unreachable!/assert!/todo!, `[...]` indexing, unchecked +/- on
Instant/SystemTime), and compares the list with the pinned map tools/panic_sites.json
(site -> why it cannot fire, or which modelled `Panic` outcome it is).

usage: panic_sites.py [--repo /repo] [--update]     exit 0 = inventory equals the pinned map
"""
import json
import os
import re
import sys

FILES = [
    "tarpc/src/client.rs", "tarpc/src/client/in_flight_requests.rs", "tarpc/src/cancellations.rs",
    "tarpc/src/server.rs", "tarpc/src/server/in_flight_requests.rs",
    "tarpc/src/server/limits/requests_per_channel.rs", "tarpc/src/server/limits/channels_per_key.rs",
    "tarpc/src/server/incoming.rs", "tarpc/src/context.rs", "tarpc/src/util.rs",
    "tarpc/src/util/serde.rs", "tarpc/src/trace.rs", "tarpc/src/serde_transport.rs",
    "tarpc/src/transport/channel.rs", "tarpc/src/lib.rs",
    "tarpc/src/client/stub.rs", "tarpc/src/client/stub/retry.rs", "tarpc/src/client/stub/load_balance.rs",
    "tarpc/src/server/request_hook/before.rs", "tarpc/src/server/request_hook/after.rs",
    "tarpc/src/server/request_hook/before_and_after.rs",
]

PAT = [
    ("unwrap", re.compile(r"\.unwrap\(\)")),
    ("expect", re.compile(r"\.expect\(")),
    ("panic", re.compile(r"\bpanic!\s*\(")),
    ("unreachable", re.compile(r"\bunreachable!\s*\(")),
    ("assert", re.compile(r"\b(debug_)?assert(_eq|_ne)?!\s*\(")),
    ("todo", re.compile(r"\b(todo|unimplemented)!\s*\(")),
    ("index", re.compile(r"[A-Za-z0-9_\)\]]\[[^\]\n]+\]")),
    ("timer-insert", re.compile(r"deadlines\.insert\(")),
    ("rem-div", re.compile(r"[%/]\s*self\.[a-z_]+(\.len\(\))?")),
    ("time-arith", re.compile(r"(Instant::now\(\)|SystemTime::now\(\)|\bnow\b)\s*[+-]\s|[+-]\s*(Duration::|crate::util::MAX_TIMEOUT)")),
]


def strip_comments_and_strings(src):
    out, i, n = [], 0, len(src)
    while i < n:
        if src.startswith("//", i):
            j = src.find("\n", i)
            i = n if j < 0 else j
        elif src.startswith("/*", i):
            j = src.find("*/", i + 2)
            seg = src[i:(n if j < 0 else j + 2)]
            out.append("\n" * seg.count("\n"))
            i = n if j < 0 else j + 2
        elif src[i] == '"':
            j = i + 1
            while j < n and src[j] != '"':
                j += 2 if src[j] == "\\" else 1
            out.append('""' + "\n" * src[i:j].count("\n"))
            i = j + 1
        else:
            out.append(src[i])
            i += 1
    return "".join(out)


def drop_test_code(src):
    """Removes `#[cfg(test)]` items (modules, fns, structs, impls) and `#[test]`/`#[tokio::test]` fns."""
    lines = src.split("\n")
    out, i = [], 0
    while i < len(lines):
        l = lines[i]
        if re.match(r"\s*#\[(cfg\(test\)|test|tokio::test[^\]]*)\]", l):
            # skip attributes, then the item up to its matching brace or semicolon
            j = i
            while j < len(lines) and re.match(r"\s*#\[", lines[j]):
                j += 1
            depth, started = 0, False
            while j < len(lines):
                depth += lines[j].count("{") - lines[j].count("}")
                if "{" in lines[j]:
                    started = True
                if (started and depth <= 0) or (not started and lines[j].rstrip().endswith(";")):
                    break
                j += 1
            out.extend([""] * (j - i + 1))
            i = j + 1
        else:
            out.append(l)
            i += 1
    return "\n".join(out)


def inventory(repo):
    sites = []
    for rel in FILES:
        path = os.path.join(repo, rel)
        if not os.path.exists(path):
            continue
        src = drop_test_code(strip_comments_and_strings(open(path).read()))
        fn = "<top>"
        for ln, line in enumerate(src.split("\n"), 1):
            m = re.search(r"\bfn\s+([A-Za-z0-9_]+)", line)
            if m:
                fn = m.group(1)
            if re.match(r"\s*#\[", line) or re.match(r"\s*(use|pub use)\b", line):
                continue
            for kind, pat in PAT:
                for mm in pat.finditer(line):
                    if kind == "index":
                        tok = mm.group(0)
                        # generics, attributes, array types and slices of literals are not indexing
                        if re.search(r"\[\s*(u8|u32|u64|i32|\w+;\s*\w+)\s*\]", tok) or "#[" in line:
                            continue
                    sites.append({"file": rel, "fn": fn, "kind": kind,
                                  "text": " ".join(line.split())})
                    break
    # one entry per (file, fn, kind, text), with a multiplicity
    agg = {}
    for s in sites:
        k = (s["file"], s["fn"], s["kind"], s["text"])
        agg[k] = agg.get(k, 0) + 1
    return [{"file": k[0], "fn": k[1], "kind": k[2], "text": k[3], "count": v}
            for k, v in sorted(agg.items())]


def key(s):
    return (s["file"], s["fn"], s["kind"], s["text"], s["count"])


def main():
    args = sys.argv[1:]
    repo = args[args.index("--repo") + 1] if "--repo" in args else os.environ.get("VERIF_REPO", "/repo")
    pinned_path = os.path.join(os.path.dirname(os.path.abspath(__file__)), "panic_sites.json")
    inv = inventory(repo)
    if "--update" in args:
        old = {}
        if os.path.exists(pinned_path):
            for s in json.load(open(pinned_path)):
                old[(s["file"], s["fn"], s["kind"], s["text"])] = s.get("why", "TODO")
        for s in inv:
            s["why"] = old.get((s["file"], s["fn"], s["kind"], s["text"]), "TODO")
        json.dump(inv, open(pinned_path, "w"), indent=1)
        print(f"{len(inv)} sites written; {sum(1 for s in inv if s['why'] == 'TODO')} without a justification")
        return 0
    pinned = json.load(open(pinned_path))
    pk = {key(s) for s in pinned}
    ik = {key(s) for s in inv}
    new = [s for s in inv if key(s) not in pk]
    gone = [s for s in pinned if key(s) not in ik]
    for s in new:
        print(f"NEW panic site: {s['file']} fn {s['fn']} [{s['kind']}] x{s['count']}: {s['text']}")
    for s in gone:
        print(f"pinned panic site no longer present: {s['file']} fn {s['fn']} [{s['kind']}]: {s['text']}")
    print(f"{len(inv)} sites in the sources, {len(pinned)} pinned, {len(new)} new, {len(gone)} gone")
    return 1 if new else 0


if __name__ == "__main__":
    sys.exit(main())
