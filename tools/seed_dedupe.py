#!/usr/bin/env python3
"""tools/seed_dedupe.py <change.diff>...: for each diff, the most similar recorded seeded/*/patch.diff
(Jaccard similarity of the changed code lines, comments and whitespace ignored)."""
import glob, os, re, sys

def lines(path):
    out = set()
    for l in open(path, errors="replace"):
        if l.startswith(("+++", "---")) or not l.startswith(("+", "-")):
            continue
        t = re.sub(r"//.*", "", l[1:]).strip()
        t = re.sub(r"\s+", " ", t)
        if t and t not in ("{", "}", "};", ")", ");"):
            out.add(l[0] + t)
    return out

known = {d: lines(os.path.join(d, "patch.diff")) for d in glob.glob("/verif/seeded/*") if os.path.exists(os.path.join(d, "patch.diff"))}
for f in sys.argv[1:]:
    a = lines(f)
    best = max(((len(a & b) / max(1, len(a | b)), os.path.basename(d)) for d, b in known.items()), default=(0, "-"))
    print(f"{f}: {best[0]:.2f} {best[1]}  ({len(a)} changed lines)")
