#!/bin/bash
# usage: confirm.sh <listfile>; each line: name wt n checks...
while read -r name wt n checks; do
  [ -z "$name" ] && continue
  echo "== $name $(date +%T)"
  /verif/tools/seedcheck.sh $name $wt $n $checks 2>&1 | tail -1
done < "$1"
