#!/usr/bin/env python3
"""Regenerates MANIFEST.json from lib/props.py (claimed checks) and properties.jsonl."""
import json, os, sys
ROOT = os.path.dirname(os.path.dirname(os.path.abspath(__file__)))
sys.path.insert(0, ROOT)
from lib import props

allp = [json.loads(l)["id"] for l in open(os.path.join(ROOT, "properties.jsonl"))]
hooks_commits = [l.strip() for l in open(os.path.join(ROOT, "tools", "hook_commits.txt")) if l.strip()] \
    if os.path.exists(os.path.join(ROOT, "tools", "hook_commits.txt")) else []
checks = []
for pid in allp:
    if pid not in props.SPECS:
        continue
    s = props.SPECS[pid]
    checks.append({
        "property_id": pid,
        "quick_cmd": f"./check {pid} quick",
        "thorough_cmd": f"./check {pid} thorough",
        "evidence_file": f"evidence/{pid}.json",
        "replay_cmd_template": f"./check {pid} --replay '{{path}}'",
        "engine": "coq-model+correspondence",
        "level_claimed": {"category": "proof", "text": s["level_text"], "design_ref": s.get("design_ref", "DESIGN.md section 6")},
        "level_note": s["level_note"],
        "technique": s.get("technique", "machine-checked proof in Coq 8.16 over an executable model; model tied to the code by a differential correspondence check evaluated inside Coq"),
    })
na = [{"property_id": pid, "reason": props.NOT_CLAIMED.get(pid, "check not built yet: the model/theorems for this property are still in progress (see DESIGN.md section 10); not claimed until its theorems are Qed and its correspondence driver runs")}
      for pid in allp if pid not in props.SPECS]
m = {
    "version": 1,
    "setup_cmd": "./setup.sh",
    "hooks": {
        "guard": "--cfg tarpc_verif",
        "enable": "RUSTFLAGS=\"--cfg tarpc_verif\" (set by ./check and ./setup.sh when building /verif/harness against /repo/tarpc)",
        "baseline_off_cmd": "cd /repo && cargo test --workspace --no-fail-fast --offline",
        "source_commits": hooks_commits,
        "add_only": True,
    },
    "engines": [{"name": "coq-model+correspondence", "path": "coq/ harness/ lib/ check",
                 "serves_properties": [c["property_id"] for c in checks],
                 "kind_free_text": "Coq 8.16 development (models, theorems, monitors) + Rust harness driving the real crate + Python driver; verdicts computed inside Coq by vm_compute"}],
    "checks": checks,
    "notes": "Every check prints 'VIOLATION property=<id> replay=<path>' and exits 1 on a violation; exit 3 is an infrastructure failure and never a verdict. KNOWN_FINDINGS.txt lists known findings and repaired defects.",
    "not_applicable": na,
}
json.dump(m, open(os.path.join(ROOT, "MANIFEST.json"), "w"), indent=1)
print(f"{len(checks)} checks, {len(na)} not claimed")
