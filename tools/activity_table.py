#!/usr/bin/env python3
"""Translator side condition (C09): re-derives from the sources which ChannelError variant each
function maps a transport failure to, and compares it with the table the models use
(Client.v: do_ready->AReady, do_flush->AFlush, do_close->AClose, pump_read->ARead,
poll_write_cancel->AWrite; Server.v likewise).  usage: activity_table.py [--repo R]"""
import os, re, sys

EXPECT = {
    "tarpc/src/client.rs": {"poll_ready": "Ready", "poll_flush": "Flush", "poll_close": "Close",
                            "pump_read": "Read", "poll_write_cancel": "Write"},
    "tarpc/src/server.rs": {"poll_next": "Read", "poll_ready": "Ready", "start_send": "Write",
                            "poll_flush": "Flush", "poll_close": "Close"},
}

def table(path):
    src = open(path).read()
    # cut the test module
    i = src.find("#[cfg(test)]\nmod tests")
    if i >= 0:
        src = src[:i]
    out = {}
    fn = None
    for line in src.split("\n"):
        m = re.search(r"\bfn\s+([A-Za-z0-9_]+)", line)
        if m and m.group(1) != "combine":   # helper nested inside BaseChannel::poll_next
            fn = m.group(1)
        for v in re.findall(r"ChannelError::(Read|Ready|Write|Flush|Close)\(Arc::new\(e\)\)", line):
            out.setdefault(fn, set()).add(v)
    return out

def main():
    args = sys.argv[1:]
    repo = args[args.index("--repo") + 1] if "--repo" in args else os.environ.get("VERIF_REPO", "/repo")
    bad = []
    for rel, exp in EXPECT.items():
        got = table(os.path.join(repo, rel))
        for fn, v in exp.items():
            if got.get(fn) != {v}:
                bad.append(f"{rel}: fn {fn} maps transport failures to {sorted(got.get(fn, []))}, the models assume [{v}]")
        for fn, vs in got.items():
            if fn not in exp:
                bad.append(f"{rel}: fn {fn} maps transport failures to {sorted(vs)}: not in the models' table")
    for b in bad:
        print(b)
    print("activity table:", "differs" if bad else "as modelled")
    return 1 if bad else 0

if __name__ == "__main__":
    sys.exit(main())
