#!/usr/bin/env python3
"""Runs the SERVER HALF of C09 / C10 / C11 / C14 on its own (the lead's specs merge these halves
with the client halves): same flow as ./check, without the Properties step.

  tools/srvhalf.py C14 [quick|thorough] [--replay '<script>']

Exit 0 / 1 (VIOLATION lines) / 3 (infrastructure)."""
import os
import sys
import time

ROOT = os.path.dirname(os.path.dirname(os.path.abspath(__file__)))
sys.path.insert(0, ROOT)
from lib import flow, props, vcheck as V  # noqa: E402

HALVES = {
    "C09": props.C09_SERVER_PART,
    "C10": props.C10_SERVER_PART,
    "C11": props.C11_SERVER_PART,
    "C14": props.C14_SERVER_PART,
    "C18": props.C18_SERVER_PART,
    "C02": props.C02_SERVER_PART,
    "EXEC": props.EXEC_PART,
}


def spec_of(pid):
    """The part exactly as the owning spec will use it, under the private pid <pid>s (own out/ and corpus dirs)."""
    part = dict(HALVES[pid])
    chk = part["cases_header"].split("Checks.")[-1].split(".")[0]
    part.update({"pid": pid + "s", "coq_targets": [f"Checks/{chk}.vo"]})
    return part


def main():
    args = sys.argv[1:]
    if not args or args[0] not in HALVES:
        print(__doc__, file=sys.stderr)
        return 2
    pid = args[0]
    tier = args[1] if len(args) > 1 and args[1] in ("quick", "thorough") else "quick"
    seed = int(os.environ.get("VERIF_SEED", "1"))
    spec = spec_of(pid)
    props.SPECS[spec["pid"]] = spec
    t0 = time.time()
    try:
        ok, out = V.make_targets(spec["coq_targets"])
        if not ok:
            raise V.Infra(out[-3000:])
        V.cargo_build()
        R = flow.PropertyRun(spec, tier, seed)
        if "--replay" in args:
            script = args[args.index("--replay") + 1]
            cases, codes = R.run_scripts([script], "replay")
            V.log(f"implementation: {cases[0]['obs']}")
            V.log(f"model:          {V.model_output(spec['pid'], spec, cases[0])}")
            V.log(f"verdict code:   {codes[0]}")
            if codes[0] & 2:
                V.log(f"VIOLATION property={pid} (server half) replay=<given script>")
                return 1
            return 0
        lines = []
        cdir = os.path.join(ROOT, "corpus", pid + "s")
        if os.path.isdir(cdir):
            for f in sorted(os.listdir(cdir)):
                lines += [l.strip() for l in open(os.path.join(cdir, f)) if l.strip() and not l.startswith("#")]
        lines += R.gen_lines(seed, spec[tier]["count"])
        if tier == "thorough":
            lines += [l for l in V.harness([spec["harness"], "sweep"] + spec["gen_args"], timeout=1500).split("\n") if l.strip()]
        cases, codes = R.run_scripts(lines, "main")
        mism = [i for i, c in enumerate(codes) if c & 1]
        monf = [i for i, c in enumerate(codes) if c & 2]
        monf.sort(key=lambda i: 1 if (codes[i] & 4) else 0)
        rc = 0
        seen = set()
        for n, i in enumerate(monf[:3]):
            small = R.shrink(lines[i])
            if small in seen:
                continue
            seen.add(small)
            scases, scodes = R.run_scripts([small], "small")
            if scodes[0] & 4:
                V.log(f"KNOWN-FINDING: property={pid} (server half) explained by the known class [script {small}]")
                continue
            replay = V.write_replay(spec["pid"], f"replay-{n}.json", {
                "property": pid, "half": "server", "kind": "monitor-rejects-implementation-trace",
                "script": small, "original_script": lines[i],
                "implementation_observations": scases[0]["obs"],
                "model_observations": V.model_output(spec["pid"], spec, scases[0]),
                "replay_cmd": f"tools/srvhalf.py {pid} --replay '{small}'"})
            V.log(f"VIOLATION property={pid} replay={replay}")
            rc = 1
        if mism and not monf:
            i = mism[0]
            replay = V.write_replay(spec["pid"], "replay-tie.json", {
                "property": pid, "half": "server", "kind": "no-failing-input-found", "script": lines[i],
                "implementation_observations": cases[i]["obs"],
                "model_observations": V.model_output(spec["pid"], spec, cases[i]),
                "mismatching_scripts": len(mism)})
            V.log(f"VIOLATION property={pid} replay={replay} no-failing-input-found")
            rc = 1
        V.log(f"{pid} server half {tier}: {len(cases)} scripts, {len(mism)} model/impl disagreements, "
              f"{len(monf)} monitor rejections, {time.time() - t0:.1f}s")
        return rc
    except V.Infra as e:
        print(f"INFRASTRUCTURE FAILURE (not a verdict about {pid}): {e}", file=sys.stderr)
        return 3


if __name__ == "__main__":
    sys.exit(main())
