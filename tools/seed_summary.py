#!/usr/bin/env python3
"""Writes seeded/SUMMARY.md from seeded/*/meta.json."""
import json, os, glob
rows=[]
for d in sorted(glob.glob('/verif/seeded/*/')):
    name=os.path.basename(d.rstrip('/'))
    mp=os.path.join(d,'meta.json')
    if not os.path.exists(mp):
        continue
    try:
        m=json.load(open(mp))
    except Exception as e:
        rows.append((name,'?','meta.json unreadable','')); continue
    if 'check_results' in m:
        res=[]
        for c,r in m['check_results'].items():
            v=r.get('violation_lines') or []
            ex=(r.get('exit') or ['?'])[0]
            if v:
                kind='tie (no-failing-input-found)' if 'no-failing-input-found' in v[0] else 'VIOLATION with replay'
            else:
                kind='not caught' if ex=='0' else f'exit {ex}'
            res.append(f"{c}: {kind}")
        demo_ok = any('FAILED' in x or 'failed' in x for x in m.get('demo_with_change',[])) and any('ok.' in x for x in m.get('demo_on_clean_tree',[]))
        rows.append((name, m.get('source','')[:40], '; '.join(res), 'demo fails with / passes without: '+('confirmed' if demo_ok else 'see meta')))
    else:
        prop=m.get('property') or m.get('properties') or ''
        # the builder's meta.json files use several key names for the same thing
        vl=(m.get('violation_line') or m.get('observed_violation_line') or m.get('violation_lines')
            or m.get('all_violation_lines') or m.get('observed') or m.get('violation') or '')
        if isinstance(vl,list): vl=vl[0] if vl else ''
        if not isinstance(vl,str) or 'VIOLATION' not in vl:
            # last resort: any string value (one level deep) that carries a VIOLATION line
            cand=[x for v in m.values() for x in (v if isinstance(v,list) else [v])
                  if isinstance(x,str) and x.startswith('VIOLATION')]
            vl=cand[0] if cand else (vl if isinstance(vl,str) else '')
        rows.append((name,'builder experiment',f"{prop}: {str(vl)[:90]}",''))
with open('/verif/seeded/SUMMARY.md','w') as f:
    f.write('# Seeded changes and what the checks report\n\n| change | source | result | demonstration |\n|---|---|---|---|\n')
    for r in rows:
        f.write('| '+' | '.join(str(x).replace('|','/') for x in r)+' |\n')
print(len(rows),'rows')
