#!/usr/bin/env python3
"""Queue inventory (part of the translator, like panic_sites.py): lists every place in the non-test
code of the anchored files where a queue, channel, semaphore or timer queue is constructed, and
every lossy / non-blocking queue operation (try_send, try_recv, try_reserve, try_acquire), with its
capacity expression, and compares the list with the pinned map tools/queue_inventory.json
(site -> how the Coq models represent it: bounded by which configuration field, or unbounded).
A queue whose kind or capacity expression changes (e.g. an unbounded queue becoming bounded, or a
send becoming a try_send whose failure is ignored) breaks the tie between model and code even when
no sampled script is long enough to fill it.

usage: queue_inventory.py [--repo /repo] [--update]     exit 0 = inventory equals the pinned map
"""
import json
import os
import re
import sys

sys.path.insert(0, os.path.dirname(os.path.abspath(__file__)))
from panic_sites import strip_comments_and_strings, drop_test_code, FILES  # noqa: E402

PAT = [
    ("mpsc-bounded", re.compile(r"mpsc::channel\s*(::<[^>]*>)?\s*\(")),
    ("mpsc-unbounded", re.compile(r"mpsc::unbounded_channel\s*(::<[^>]*>)?\s*\(")),
    ("oneshot", re.compile(r"oneshot::channel\s*(::<[^>]*>)?\s*\(")),
    ("semaphore", re.compile(r"Semaphore::new\s*\(")),
    ("delay-queue", re.compile(r"DelayQueue::(new|with_capacity)\s*\(")),
    ("with-capacity", re.compile(r"::with_capacity(_and_hasher)?\s*\(")),
    ("lossy-op", re.compile(r"\.(try_send|try_recv|try_reserve|try_acquire|try_next|try_poll_next)\s*\(")),
    ("poll-sender", re.compile(r"PollSender::new\s*\(")),
]


def inventory(repo):
    sites = []
    for rel in FILES:
        path = os.path.join(repo, rel)
        if not os.path.exists(path):
            continue
        src = drop_test_code(strip_comments_and_strings(open(path).read()))
        fn = "<top>"
        for line in src.split("\n"):
            m = re.search(r"\bfn\s+([A-Za-z0-9_]+)", line)
            if m:
                fn = m.group(1)
            if re.match(r"\s*(use|pub use)\b", line):
                continue
            for kind, pat in PAT:
                if pat.search(line):
                    sites.append((rel, fn, kind, " ".join(line.split())))
                    break
    agg = {}
    for s in sites:
        agg[s] = agg.get(s, 0) + 1
    return [{"file": k[0], "fn": k[1], "kind": k[2], "text": k[3], "count": v} for k, v in sorted(agg.items())]


def key(s):
    return (s["file"], s["fn"], s["kind"], s["text"], s["count"])


def main():
    args = sys.argv[1:]
    repo = args[args.index("--repo") + 1] if "--repo" in args else os.environ.get("VERIF_REPO", "/repo")
    pinned_path = os.path.join(os.path.dirname(os.path.abspath(__file__)), "queue_inventory.json")
    inv = inventory(repo)
    if "--update" in args:
        old = {}
        if os.path.exists(pinned_path):
            for s in json.load(open(pinned_path)):
                old[(s["file"], s["fn"], s["kind"], s["text"])] = s.get("model", "TODO")
        for s in inv:
            s["model"] = old.get((s["file"], s["fn"], s["kind"], s["text"]), "TODO")
        json.dump(inv, open(pinned_path, "w"), indent=1)
        print(f"{len(inv)} sites written; {sum(1 for s in inv if s['model'] == 'TODO')} without a model note")
        return 0
    pinned = json.load(open(pinned_path))
    pk = {key(s) for s in pinned}
    ik = {key(s) for s in inv}
    new = [s for s in inv if key(s) not in pk]
    gone = [s for s in pinned if key(s) not in ik]
    for s in new:
        print(f"NEW or changed queue site: {s['file']} fn {s['fn']} [{s['kind']}] x{s['count']}: {s['text']}")
    for s in gone:
        print(f"pinned queue site no longer present: {s['file']} fn {s['fn']} [{s['kind']}]: {s['text']}")
    print(f"{len(inv)} sites in the sources, {len(pinned)} pinned, {len(new)} new, {len(gone)} gone")
    return 1 if (new or gone) else 0


if __name__ == "__main__":
    sys.exit(main())
