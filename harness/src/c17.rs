//! C17: translation validation of `#[tarpc::service]`.
//!
//! A script is one service definition: `s=<ident>;v=<p|c|n>;o=<options>|tok tok ...` with tokens
//! `m:<ident>` (new method), `a:<ident>:<ty>` (argument of the current method), `r:<ty>` (return
//! type), `c:<0|1>` (a `#[cfg]` that is false/true), `t:<n>` (another attribute). Tokens that have
//! no method to attach to are ignored, so scripts stay valid when tokens are deleted.
//!
//! `run` observes the REAL macro on each definition in three ways and prints them as one Coq
//! term (`Macro.obs`):
//!   A. stable `cargo check` of the bare definitions: accepted or rejected, the macro's own errors;
//!   B. nightly `-Zunpretty=expanded`, read with `syn` and abstracted to `Macro.generated`;
//!   C. a runner crate built on stable: every enabled method is called with pairwise-distinct
//!      arguments against a recording implementor (plus one wrong-variant probe).
//! Results are cached per (hash of the plugins + tarpc sources of the checkout under test, script).
//! The checkout under test is /repo, or the one named by VERIF_REPO.
use crate::exec::{coq_list, Case};
use crate::rng::Rng;
use std::collections::{BTreeMap, BTreeSet};
use std::fmt::Write as _;
use std::path::{Path, PathBuf};
use std::process::Command;

const VERSION: &str = "c17-v4";

/// The checkout under test: /repo, or the one named by VERIF_REPO (same rule as lib/vcheck.py).
fn repo() -> String {
    let r = std::env::var("VERIF_REPO").unwrap_or_else(|_| "/repo".to_string());
    std::fs::canonicalize(&r).map(|p| p.to_string_lossy().to_string()).unwrap_or(r)
}

/// The verification tree this binary belongs to: the harness is built into `<tree>/.cache/..`,
/// so a copy of the tree (a developer's private copy) keeps its own scratch crates and caches.
fn verif_root() -> String {
    if let Ok(exe) = std::env::current_exe() {
        let mut p = exe.as_path();
        while let Some(parent) = p.parent() {
            if p.file_name().map(|n| n == ".cache").unwrap_or(false) {
                return parent.to_string_lossy().to_string();
            }
            p = parent;
        }
    }
    "/verif".to_string()
}

/// scratch crates, target dirs and cached results; one tree per checkout under test
fn root() -> String {
    let r = repo();
    let v = verif_root();
    if r == "/repo" {
        format!("{v}/.cache/c17")
    } else {
        let tag: String = r.chars().map(|c| if c.is_ascii_alphanumeric() { c } else { '_' }).collect();
        format!("{v}/.cache/alt-{}/c17", tag.trim_matches('_'))
    }
}

// ------------------------------------------------------------------------------ definitions

#[derive(Clone, Debug, PartialEq, Eq, PartialOrd, Ord)]
pub struct Ident {
    pub raw: bool,
    pub txt: String,
}

impl Ident {
    pub fn parse(s: &str) -> Ident {
        match s.strip_prefix("r#") {
            Some(t) => Ident { raw: true, txt: t.to_string() },
            None => Ident { raw: false, txt: s.to_string() },
        }
    }
    pub fn src(&self) -> String {
        if self.raw {
            format!("r#{}", self.txt)
        } else {
            self.txt.clone()
        }
    }
    fn coq(&self) -> String {
        format!("(Id {} {})", self.raw, coq_str(&self.txt))
    }
}

#[derive(Clone, Debug)]
pub struct Arg {
    pub name: Ident,
    pub ty: u32,
}

#[derive(Clone, Debug)]
pub enum Attr {
    Cfg(bool),
    Other(u32),
}

#[derive(Clone, Debug)]
pub struct Method {
    pub name: Ident,
    pub args: Vec<Arg>,
    pub ret: Option<u32>,
    pub attrs: Vec<Attr>,
}

impl Method {
    fn cfgs(&self) -> Vec<bool> {
        self.attrs.iter().filter_map(|a| if let Attr::Cfg(b) = a { Some(*b) } else { None }).collect()
    }
    fn enabled(&self) -> bool {
        self.cfgs().iter().all(|b| *b)
    }
    fn ret_ty(&self) -> u32 {
        self.ret.unwrap_or(0)
    }
}

#[derive(Clone, Debug)]
pub enum Opt {
    Derive(Vec<u32>),
    Serde(bool),
    Other,
}

#[derive(Clone, Debug)]
pub struct Def {
    pub svc: Ident,
    pub vis: char,
    pub opts: Vec<Opt>,
    pub methods: Vec<Method>,
}

/// type ids shared with Macro.v (0 = unit, 100 = the request context)
const TYPES: &[(u32, &str)] = &[
    (0, "()"),
    (1, "u8"),
    (2, "u32"),
    (3, "u64"),
    (4, "i64"),
    (5, "String"),
    (6, "(u8, u8)"),
    (7, "Vec<u8>"),
    (8, "Option<u8>"),
    (100, "::tarpc::context::Context"),
];
/// derive ids shared with Macro.v
const DERIVES: &[(u32, &str)] = &[
    (0, "Serialize"),
    (1, "Deserialize"),
    (2, "Clone"),
    (3, "Hash"),
    (4, "PartialEq"),
    (5, "Eq"),
];
const ATTRS: &[&str] = &[
    "#[doc = \"an rpc\"]",
    "#[allow(non_snake_case)]",
    "#[allow(unused)]",
    "#[cfg_attr(any(), deprecated)]",
    "#[deprecated]",
    "#[must_use]",
];

fn ty_src(id: u32) -> &'static str {
    TYPES.iter().find(|(i, _)| *i == id).map(|(_, s)| *s).unwrap_or("u8")
}

fn squeeze(s: &str) -> String {
    s.chars().filter(|c| !c.is_whitespace()).collect()
}

fn ty_id(tokens: &str) -> u32 {
    let t = squeeze(tokens);
    TYPES.iter().find(|(_, s)| squeeze(s) == t).map(|(i, _)| *i).unwrap_or(999)
}

pub fn parse(line: &str) -> Option<Def> {
    let (cfg, rest) = line.trim().split_once('|')?;
    let mut d = Def { svc: Ident::parse("Svc"), vis: 'p', opts: vec![], methods: vec![] };
    for kv in cfg.split(';') {
        let Some((k, v)) = kv.split_once('=') else { continue };
        match k.trim() {
            "s" => d.svc = Ident::parse(v.trim()),
            "v" => d.vis = v.trim().chars().next().unwrap_or('p'),
            "o" => {
                for o in v.trim().split('+') {
                    if o == "ds1" {
                        d.opts.push(Opt::Serde(true));
                    } else if o == "ds0" {
                        d.opts.push(Opt::Serde(false));
                    } else if o == "x" {
                        d.opts.push(Opt::Other);
                    } else if let Some(ids) = o.strip_prefix("d.") {
                        d.opts.push(Opt::Derive(ids.split('.').filter_map(|i| i.parse().ok()).collect()));
                    }
                }
            }
            _ => {}
        }
    }
    for t in rest.split_whitespace() {
        let parts: Vec<&str> = t.split(':').collect();
        match (parts[0], parts.len()) {
            ("m", 2) if !parts[1].is_empty() => {
                d.methods.push(Method { name: Ident::parse(parts[1]), args: vec![], ret: None, attrs: vec![] })
            }
            ("a", 3) if !parts[1].is_empty() => {
                if let (Some(m), Ok(ty)) = (d.methods.last_mut(), parts[2].parse()) {
                    m.args.push(Arg { name: Ident::parse(parts[1]), ty });
                }
            }
            ("r", 2) => {
                if let (Some(m), Ok(ty)) = (d.methods.last_mut(), parts[1].parse()) {
                    m.ret = Some(ty);
                }
            }
            ("c", 2) => {
                if let Some(m) = d.methods.last_mut() {
                    m.attrs.push(Attr::Cfg(parts[1] == "1"));
                }
            }
            ("t", 2) => {
                if let (Some(m), Ok(n)) = (d.methods.last_mut(), parts[1].parse::<u32>()) {
                    // rustc refuses some attributes when repeated (deprecated, must_use): once each
                    let n = n % ATTRS.len() as u32;
                    if !m.attrs.iter().any(|a| matches!(a, Attr::Other(k) if *k == n)) {
                        m.attrs.push(Attr::Other(n));
                    }
                }
            }
            _ => {}
        }
    }
    Some(d)
}

pub fn show(d: &Def) -> String {
    let opts: Vec<String> = d
        .opts
        .iter()
        .map(|o| match o {
            Opt::Serde(true) => "ds1".to_string(),
            Opt::Serde(false) => "ds0".to_string(),
            Opt::Other => "x".to_string(),
            Opt::Derive(ids) => format!("d.{}", ids.iter().map(|i| i.to_string()).collect::<Vec<_>>().join(".")),
        })
        .collect();
    let mut toks = vec![];
    for m in &d.methods {
        toks.push(format!("m:{}", m.name.src()));
        for a in &m.attrs {
            toks.push(match a {
                Attr::Cfg(b) => format!("c:{}", *b as u8),
                Attr::Other(n) => format!("t:{n}"),
            });
        }
        for a in &m.args {
            toks.push(format!("a:{}:{}", a.name.src(), a.ty));
        }
        if let Some(r) = m.ret {
            toks.push(format!("r:{r}"));
        }
    }
    format!(
        "s={};v={};o={}|{}",
        d.svc.src(),
        d.vis,
        if opts.is_empty() { "-".to_string() } else { opts.join("+") },
        toks.join(" ")
    )
}

/// The definition as Rust source (what a user would write).
pub fn def_source(d: &Def) -> String {
    let mut s = String::new();
    let opts: Vec<String> = d
        .opts
        .iter()
        .map(|o| match o {
            Opt::Serde(b) => format!("derive_serde = {b}"),
            Opt::Other => "frobnicate = 1".to_string(),
            Opt::Derive(ids) => format!(
                "derive = [{}]",
                ids.iter()
                    .map(|i| DERIVES.iter().find(|(k, _)| k == i).map(|(_, n)| *n).unwrap_or("Clone"))
                    .collect::<Vec<_>>()
                    .join(", ")
            ),
        })
        .collect();
    if opts.is_empty() {
        s.push_str("#[tarpc::service]\n");
    } else {
        let _ = writeln!(s, "#[tarpc::service({})]", opts.join(", "));
    }
    let vis = match d.vis {
        'p' => "pub ",
        'c' => "pub(crate) ",
        _ => "",
    };
    let _ = writeln!(s, "{vis}trait {} {{", d.svc.src());
    for m in &d.methods {
        for a in &m.attrs {
            match a {
                Attr::Cfg(true) => s.push_str("    #[cfg(all())]\n"),
                Attr::Cfg(false) => s.push_str("    #[cfg(any())]\n"),
                Attr::Other(n) => {
                    let _ = writeln!(s, "    {}", ATTRS[*n as usize % ATTRS.len()]);
                }
            }
        }
        let args: Vec<String> = m.args.iter().map(|a| format!("{}: {}", a.name.src(), ty_src(a.ty))).collect();
        let ret = m.ret.map(|r| format!(" -> {}", ty_src(r))).unwrap_or_default();
        let _ = writeln!(s, "    async fn {}({}){};", m.name.src(), args.join(", "), ret);
    }
    s.push_str("}\n");
    s
}

// ------------------------------------------------------------------------------ Coq terms

fn coq_str(s: &str) -> String {
    // `lit "text"` (Macro.lit turns a Coq string into character codes); identifiers and request
    // names never contain a quote or a backslash
    if s.is_empty() {
        return "[]".to_string();
    }
    if s.chars().all(|c| c.is_ascii_alphanumeric() || "_#.".contains(c)) {
        return format!("(lit \"{s}\")");
    }
    format!("[{}]", s.chars().map(|c| (c as u32).to_string()).collect::<Vec<_>>().join(";"))
}

fn coq_bools(b: &[bool]) -> String {
    coq_list(&b.iter().map(|x| x.to_string()).collect::<Vec<_>>())
}

fn coq_nums(v: &[u64]) -> String {
    coq_list(&v.iter().map(|x| x.to_string()).collect::<Vec<_>>())
}

fn coq_arg(name: &Ident, ty: u32) -> String {
    format!("(Arg {} {})", name.coq(), ty)
}

pub fn def_coq(d: &Def) -> String {
    let opts: Vec<String> = d
        .opts
        .iter()
        .map(|o| match o {
            Opt::Serde(b) => format!("ODeriveSerde {b}"),
            Opt::Other => "OOther".to_string(),
            Opt::Derive(ids) => format!("ODerive {}", coq_nums(&ids.iter().map(|i| *i as u64).collect::<Vec<_>>())),
        })
        .collect();
    let ms: Vec<String> = d
        .methods
        .iter()
        .map(|m| {
            format!(
                "(Method {} {} {} {})",
                m.name.coq(),
                coq_list(&m.args.iter().map(|a| coq_arg(&a.name, a.ty)).collect::<Vec<_>>()),
                match m.ret {
                    Some(r) => format!("(Some {r})"),
                    None => "None".to_string(),
                },
                coq_bools(&m.cfgs())
            )
        })
        .collect();
    format!("(Service {} {} {})", d.svc.coq(), coq_list(&opts), coq_list(&ms))
}

/// The scripted calls: every enabled method once, with values distinct across the definition.
pub struct Call {
    pub k: usize,
    pub deadline: u64,
    pub trace: u64,
    pub args: Vec<u64>,
}

pub fn calls_of(d: &Def) -> Vec<Call> {
    let mut v = vec![];
    for (k, m) in d.methods.iter().enumerate() {
        if m.enabled() && first_with_name(d, &m.name.txt) == k {
            v.push(Call {
                k,
                deadline: 1000 + k as u64,
                trace: 7000 + k as u64,
                args: (0..m.args.len()).map(|j| 16 * k as u64 + j as u64 + 1).collect(),
            });
        }
    }
    v
}

fn first_with_name(d: &Def, txt: &str) -> usize {
    d.methods.iter().position(|m| m.name.txt == txt).unwrap_or(0)
}

fn calls_coq(d: &Def, calls: &[Call]) -> String {
    coq_list(
        &calls
            .iter()
            .map(|c| format!("({}, ({}, {}), {})", d.methods[c.k].name.coq(), c.deadline, c.trace, coq_nums(&c.args)))
            .collect::<Vec<_>>(),
    )
}

// ------------------------------------------------------------------------------ generator

const BASES: &[&str] = &[
    "get", "put", "list_all", "a", "b1", "do_it", "x_y_z", "fetch", "size", "ping", "compute", "sum2", "foo_bar",
    "foo_baz", "ab_c", "a_bc", "new_", "serve_x", "from", "clone", "call", "name", "into", "context", "ctx",
];
const RAW_KW: &[&str] =
    &["fn", "await", "type", "match", "loop", "struct", "async", "yield", "try", "move", "box", "impl", "enum", "get"];
const ARG_NAMES: &[&str] = &[
    "a", "b", "c", "x", "y", "n", "key", "val", "x_1", "aB", "_x", "__", "r#type", "r#fn", "r#in", "r#ref", "req",
    "request", "resp", "msg", "service", "stub", "config", "transport", "new_client", "context", "context_", "ctx_",
    "_ctx", "r#final", "Self_", "self_", "response", "serve", "args", "new", "client", "dispatch", "S", "T", "Stub",
];
/// identifiers the expansion itself binds or mentions (read off the expansion: the parameters and
/// locals of Serve::serve, of the client fns, of fn new/from, the field of the server struct,
/// the generic parameters); arguments with these names are the interesting collisions
const EXPANSION_NAMES: &[&str] = &[
    "ctx", "context", "req", "request", "resp", "response", "msg", "service", "serve", "stub", "config", "transport",
    "new_client", "client", "dispatch", "args", "new", "S", "T", "Stub",
];
/// the request context as an ARGUMENT type: makes a collision with `ctx`/`context` type-check
const TY_CONTEXT: u32 = 100;
const SVC_NAMES: &[&str] =
    &["Foo", "Calc", "r#trait", "r#struct", "svc_1", "Serve", "Client", "Request", "KV", "r#Type", "Hello_World"];
const DATA_TYPES: &[u32] = &[1, 2, 3, 4, 5, 6, 7, 8];

pub fn snake_to_camel(s: &str) -> String {
    // the harness's own copy, used only to choose names and to name the response variant of the
    // wrong-variant probe; a disagreement with the macro shows up as a compile error
    let mut out = String::new();
    let mut us = true;
    for c in s.chars() {
        if c == '_' {
            us = true;
        } else if us {
            out.extend(c.to_uppercase());
            us = false;
        } else {
            out.extend(c.to_lowercase());
        }
    }
    out
}

fn decorate(rng: &mut Rng, base: &str) -> String {
    match rng.weighted(&[6, 2, 2, 2, 2, 2, 1]) {
        0 => base.to_string(),
        1 => format!("_{base}"),
        2 => format!("{base}_"),
        3 => base.replacen('_', "__", 1),
        4 => {
            // mixed case: upper-case one letter
            let mut cs: Vec<char> = base.chars().collect();
            let i = rng.below(cs.len() as u64) as usize;
            cs[i] = cs[i].to_ascii_uppercase();
            cs.into_iter().collect()
        }
        5 => base.to_ascii_uppercase(),
        _ => format!("__{base}__"),
    }
}

fn gen_method_name(rng: &mut Rng) -> Ident {
    if rng.chance(1, 4) {
        Ident { raw: true, txt: rng.pick(RAW_KW).to_string() }
    } else {
        let b = *rng.pick(BASES);
        Ident { raw: false, txt: decorate(rng, b) }
    }
}

fn valid_plain_ident(s: &str) -> bool {
    const KW: &[&str] = &[
        "as", "break", "const", "continue", "crate", "else", "enum", "extern", "false", "fn", "for", "if", "impl", "in",
        "let", "loop", "match", "mod", "move", "mut", "pub", "ref", "return", "self", "Self", "static", "struct", "super",
        "trait", "true", "type", "unsafe", "use", "where", "while", "async", "await", "dyn", "abstract", "become", "box",
        "do", "final", "macro", "override", "priv", "typeof", "unsized", "virtual", "yield", "try", "gen", "_",
    ];
    !s.is_empty() && !KW.contains(&s) && !s.chars().next().unwrap().is_ascii_digit()
}

/// `x` <-> `r#x` when both spellings are legal
fn flip_raw(i: &mut Ident) {
    if valid_plain_ident(&i.txt) && !["self", "Self", "super", "crate"].contains(&i.txt.as_str()) {
        i.raw = !i.raw;
    }
}

fn gen_args(rng: &mut Rng, n: usize, same_ty: Option<u32>) -> Vec<Arg> {
    let mut used = BTreeSet::new();
    let mut v = vec![];
    while v.len() < n {
        let id = Ident::parse(*rng.pick(ARG_NAMES));
        if !used.insert(id.txt.clone()) {
            continue;
        }
        let ty = match same_ty {
            Some(t) => t,
            None if EXPANSION_NAMES.contains(&id.txt.as_str()) && rng.chance(1, 3) => TY_CONTEXT,
            None if rng.chance(1, 12) => TY_CONTEXT,
            None => *rng.pick(DATA_TYPES),
        };
        v.push(Arg { name: id, ty });
    }
    v
}

fn gen_attrs(rng: &mut Rng) -> Vec<Attr> {
    let mut v = vec![];
    let n = rng.weighted(&[5, 3, 2]);
    for _ in 0..n {
        v.push(match rng.weighted(&[3, 2, 5]) {
            0 => Attr::Cfg(true),
            1 => Attr::Cfg(false),
            _ => Attr::Other(rng.below(ATTRS.len() as u64) as u32),
        });
    }
    v
}

fn gen_opts(rng: &mut Rng) -> Vec<Opt> {
    match rng.weighted(&[8, 2, 2, 2, 2, 2, 1, 1]) {
        0 => vec![],
        1 => vec![Opt::Serde(true)],
        2 => vec![Opt::Serde(false)],
        3 => vec![Opt::Derive(vec![2])],
        4 => vec![Opt::Derive(vec![2, 3])],
        5 => vec![Opt::Derive(vec![2, 4, 5])],
        6 => vec![Opt::Derive(vec![])],
        _ => vec![Opt::Derive(vec![4])],
    }
}

/// A definition that is meant to be accepted: distinct variant names, distinct argument names.
fn gen_accepted(rng: &mut Rng) -> Def {
    let nm = rng.weighted(&[0, 2, 4, 5, 4, 3, 2]);
    let clones = rng.chance(3, 5);
    let clone_ty = if rng.chance(1, 8) { TY_CONTEXT } else { *rng.pick(DATA_TYPES) };
    let clone_n = rng.range(1, 4) as usize;
    let mut camels = BTreeSet::new();
    let mut names = BTreeSet::new();
    let mut methods = vec![];
    let mut guard = 0;
    while methods.len() < nm && guard < 200 {
        guard += 1;
        let name = gen_method_name(rng);
        if !name.raw && !valid_plain_ident(&name.txt) {
            continue;
        }
        if !name.raw && (name.txt == "new" || name.txt == "serve") {
            continue;
        }
        let camel = snake_to_camel(&name.txt);
        if camel.is_empty() || camel == "Self" || camel.chars().next().unwrap().is_ascii_digit() {
            continue;
        }
        if name.txt == "new" || name.txt == "serve" || !camels.insert(camel) || !names.insert(name.txt.clone()) {
            continue;
        }
        let (args, ret) = if clones {
            (gen_args(rng, clone_n, Some(clone_ty)), Some(clone_ty))
        } else {
            let n = rng.weighted(&[2, 3, 3, 2, 1, 1]);
            let same = if rng.chance(1, 2) { Some(*rng.pick(DATA_TYPES)) } else { None };
            let ret = match rng.weighted(&[2, 1, 5]) {
                0 => None,
                1 => Some(0),
                _ => Some(*rng.pick(DATA_TYPES)),
            };
            (gen_args(rng, n, same), ret)
        };
        methods.push(Method { name, args, ret, attrs: gen_attrs(rng) });
    }
    // an argument called `ctx` is a collision; keep accepted definitions free of it
    for m in &mut methods {
        for a in &mut m.args {
            if a.name.txt == "ctx" {
                a.name.txt = "ctx_".into();
            }
        }
        let mut seen = BTreeSet::new();
        m.args.retain(|a| seen.insert(a.name.txt.clone()));
    }
    // keep at least one method enabled (an enum left without variants is refused by rustc)
    if !methods.iter().any(|m| m.enabled()) {
        if let Some(m) = methods.first_mut() {
            m.attrs.retain(|a| !matches!(a, Attr::Cfg(false)));
        }
    }
    Def {
        svc: Ident::parse(*rng.pick(SVC_NAMES)),
        vis: *rng.pick(&['p', 'c', 'n']),
        opts: gen_opts(rng),
        methods,
    }
}

fn simple_method(name: &str, args: &[(&str, u32)], ret: Option<u32>) -> Method {
    Method {
        name: Ident::parse(name),
        args: args.iter().map(|(n, t)| Arg { name: Ident::parse(n), ty: *t }).collect(),
        ret,
        attrs: vec![],
    }
}

/// Definitions that must be rejected (by the macro or by rustc), and look-alikes that must not.
fn gen_special(rng: &mut Rng) -> Def {
    let mut d = gen_accepted(rng);
    if d.methods.is_empty() {
        d.methods.push(simple_method("a", &[("x", 1)], Some(1)));
    }
    let i = rng.below(d.methods.len() as u64) as usize;
    // kinds 24..: arguments that collide with identifiers of the expansion at a type that makes
    // the collision type-check; 24 (the only real capture: `ctx: Context`) is drawn most often
    let kind = match rng.weighted(&[24, 5, 2, 2, 2]) {
        0 => rng.below(24),
        k => 23 + k as u64,
    };
    match kind {
        0 => {
            // same camel-case name, same signature: the dangerous sibling
            let mut m = d.methods[i].clone();
            m.name = Ident { raw: false, txt: format!("{}_", d.methods[i].name.txt) };
            if !valid_plain_ident(&m.name.txt) {
                m.name.txt = format!("_{}", m.name.txt);
            }
            d.methods.push(m);
        }
        1 => {
            // same camel-case name, one of the two cfg'd out
            let mut m = d.methods[i].clone();
            m.name = Ident { raw: false, txt: format!("_{}", d.methods[i].name.txt) };
            m.attrs.push(Attr::Cfg(false));
            d.methods.insert(i, m);
        }
        2 => {
            let m = &mut d.methods[i];
            if m.args.is_empty() {
                m.args.push(Arg { name: Ident::parse("x"), ty: 1 });
            }
            let mut a = m.args[0].clone();
            flip_raw(&mut a.name);
            m.args.push(a);
            m.attrs.retain(|a| !matches!(a, Attr::Cfg(false)));
        }
        3 => {
            let m = &mut d.methods[i];
            m.args.push(Arg { name: Ident::parse("ctx"), ty: 1 });
            m.attrs.retain(|a| !matches!(a, Attr::Cfg(false)));
        }
        4 => d.methods[i].args.push(Arg { name: Ident::parse("self"), ty: 1 }),
        5 => d.methods[i].name = Ident::parse("new"),
        6 => d.methods[i].name = Ident::parse("serve"),
        7 => {
            d.methods[i].name = Ident::parse("r#new");
            d.methods[i].attrs.retain(|a| !matches!(a, Attr::Cfg(false)));
        }
        8 => {
            d.methods[i].name = Ident::parse("r#serve");
            d.methods[i].attrs.retain(|a| !matches!(a, Attr::Cfg(false)));
        }
        9 => d.methods[i].name = Ident::parse(*rng.pick(&["self_", "_self", "SELF", "sElf_"])),
        10 => d.methods[i].name = Ident::parse(*rng.pick(&["__", "_1", "_9x", "___"])),
        11 => d.opts = vec![Opt::Serde(true), Opt::Derive(vec![2])],
        12 => d.opts = vec![Opt::Derive(vec![2]), Opt::Derive(vec![3])],
        13 => d.opts = vec![Opt::Serde(true), Opt::Serde(false)],
        14 => d.opts = vec![Opt::Other],
        15 => d.methods.clear(),
        16 => {
            for m in &mut d.methods {
                m.attrs.push(Attr::Cfg(false));
            }
        }
        17 => {
            // look-alike: `context` is not a collision
            d.methods[i].args.retain(|a| a.name.txt != "context");
            d.methods[i].args.push(Arg { name: Ident::parse("context"), ty: 1 });
        }
        18 => {
            // look-alike: a cfg'd-out method may repeat an argument or be called r#new
            let mut m = simple_method("r#new", &[("x", 1), ("x", 1)], None);
            m.attrs.push(Attr::Cfg(false));
            d.methods.push(m);
        }
        19 => {
            // new and serve and new again: three errors
            d.methods.push(simple_method("new", &[], None));
            d.methods.push(simple_method("serve", &[], None));
            d.methods.push(simple_method("new", &[("x", 1)], Some(1)));
        }
        20 => {
            // look-alikes of the reserved names
            d.methods.retain(|m| !["New", "Serve"].contains(&snake_to_camel(&m.name.txt).as_str()));
            d.methods.push(simple_method("_new", &[("x", 1)], Some(1)));
            d.methods.push(simple_method("Serve", &[("x", 1)], Some(1)));
        }
        21 => {
            // two collisions at once: same variant and a reserved name
            let mut m = d.methods[i].clone();
            m.name = Ident { raw: false, txt: format!("{}__", d.methods[i].name.txt) };
            d.methods.push(m);
            d.methods.push(simple_method("serve", &[], None));
        }
        22 => {
            // same method identifier twice (raw and not)
            let mut m = d.methods[i].clone();
            flip_raw(&mut m.name);
            d.methods.push(m);
        }
        23 => {
            d.methods[i].args.insert(0, Arg { name: Ident::parse("self"), ty: 1 });
            d.methods[i].args.push(Arg { name: Ident::parse("self"), ty: 2 });
        }
        24 => {
            // a relay forwarding a context as payload under the name the server arm uses for the
            // request's context: must be rejected; if it ever compiles, the run shows who got what
            let m = &mut d.methods[i];
            m.args.retain(|a| a.name.txt != "ctx");
            let at = rng.below(m.args.len() as u64 + 1) as usize;
            m.args.insert(at, Arg { name: Ident::parse("ctx"), ty: TY_CONTEXT });
            m.attrs.retain(|a| !matches!(a, Attr::Cfg(false)));
        }
        25 => {
            // every other identifier of the expansion, at the type Context: accepted, and correct
            let m = &mut d.methods[i];
            m.args.clear();
            let mut names: Vec<&str> = EXPANSION_NAMES.iter().copied().filter(|n| *n != "ctx").collect();
            while m.args.len() < 5 && !names.is_empty() {
                let n = names.remove(rng.below(names.len() as u64) as usize);
                m.args.push(Arg { name: Ident::parse(n), ty: TY_CONTEXT });
            }
        }
        26 => {
            // `ctx: Context` on a method that is cfg'd out: nothing is generated for it but the
            // response variant; accepted
            let mut m = simple_method("relay_off", &[("ctx", TY_CONTEXT), ("context", TY_CONTEXT)], Some(TY_CONTEXT));
            m.attrs.push(Attr::Cfg(false));
            d.methods.retain(|o| snake_to_camel(&o.name.txt) != "RelayOff");
            d.methods.push(m);
        }
        _ => {
            // `ctx` and `context` together, both contexts, next to same-typed siblings
            d.methods[i].args = vec![
                Arg { name: Ident::parse("context"), ty: TY_CONTEXT },
                Arg { name: Ident::parse("ctx"), ty: TY_CONTEXT },
            ];
            d.methods[i].attrs.retain(|a| !matches!(a, Attr::Cfg(false)));
            let ret = d.methods[i].ret;
            if !d.methods.iter().any(|o| snake_to_camel(&o.name.txt) == "Twin") {
                d.methods.push(simple_method("twin", &[("context", TY_CONTEXT), ("ctx_", TY_CONTEXT)], ret));
            }
        }
    }
    d
}

/// tarpc's Context is Clone + Debug + serde, but neither Hash nor PartialEq: keep the derive
/// options of a definition that carries one within that (the derives are not what is tested)
fn fit_derives(d: &mut Def) {
    let has_ctx = d.methods.iter().any(|m| m.ret == Some(TY_CONTEXT) || m.args.iter().any(|a| a.ty == TY_CONTEXT));
    if has_ctx {
        for o in &mut d.opts {
            if let Opt::Derive(ids) = o {
                ids.retain(|i| *i == 2);
            }
        }
    }
}

pub fn gen(rng: &mut Rng) -> Def {
    let mut d = if rng.chance(1, 7) { gen_special(rng) } else { gen_accepted(rng) };
    fit_derives(&mut d);
    // through the script syntax, so that what is generated is exactly what a script denotes
    parse(&show(&d)).unwrap_or(d)
}

/// bounded-exhaustive family for the thorough tier: every pair of method names from a small
/// alphabet (with equal signatures), every argument-name pair from another
pub fn sweep(mut emit: impl FnMut(Def)) {
    let names = ["a_b", "a__b", "_a_b", "A_B", "aB", "ab", "r#a_b", "r#fn", "new_", "r#new", "serve", "context"];
    for x in names {
        for y in names {
            let d = Def {
                svc: Ident::parse("Sw"),
                vis: 'p',
                opts: vec![],
                methods: vec![
                    simple_method(x, &[("p", 1), ("q", 1)], Some(1)),
                    simple_method(y, &[("p", 1), ("q", 1)], Some(1)),
                ],
            };
            emit(d);
        }
    }
    let args = ["a", "r#a", "ctx", "context", "req", "request", "self", "__", "r#fn"];
    for x in args {
        for y in args {
            let d = Def {
                svc: Ident::parse("r#struct"),
                vis: 'n',
                opts: vec![Opt::Derive(vec![2])],
                methods: vec![simple_method("m", &[(x, 2), (y, 2)], Some(2)), simple_method("n", &[(y, 2), (x, 2)], Some(2))],
            };
            emit(d);
        }
    }
    // every identifier of the expansion as an argument of type Context, first and second
    for x in EXPANSION_NAMES {
        for y in ["a", "ctx", "context", "request"] {
            if x == &y {
                continue;
            }
            let d = Def {
                svc: Ident::parse("Relay"),
                vis: 'p',
                opts: vec![Opt::Derive(vec![2])],
                methods: vec![
                    simple_method("forward", &[(x, TY_CONTEXT), (y, TY_CONTEXT)], Some(TY_CONTEXT)),
                    simple_method("back", &[(y, TY_CONTEXT), (x, TY_CONTEXT)], Some(TY_CONTEXT)),
                ],
            };
            emit(d);
        }
    }
}

// ------------------------------------------------------------------------------ reading an expansion

mod reader {
    use super::{coq_arg, coq_list, coq_nums, coq_str, squeeze, ty_id, Ident, DERIVES};
    use quote::ToTokens;
    use syn::{Expr, FnArg, ImplItem, Item, Pat, ReturnType, Stmt, TraitItem, Type};

    type R<T> = Result<T, String>;

    fn id(i: &syn::Ident) -> Ident {
        Ident::parse(&i.to_string())
    }
    fn ids_coq(v: &[Ident]) -> String {
        coq_list(&v.iter().map(|i| i.coq()).collect::<Vec<_>>())
    }
    fn path_idents(p: &syn::Path) -> Vec<syn::Ident> {
        p.segments.iter().map(|s| s.ident.clone()).collect()
    }
    fn two(p: &syn::Path) -> R<(Ident, String)> {
        let v = path_idents(p);
        if v.len() != 2 || p.leading_colon.is_some() {
            return Err(format!("path is not Enum::Variant: {}", p.to_token_stream()));
        }
        Ok((id(&v[0]), v[1].to_string()))
    }
    fn single(e: &Expr) -> R<Ident> {
        match e {
            Expr::Path(p) if p.path.segments.len() == 1 && p.qself.is_none() => Ok(id(&p.path.segments[0].ident)),
            _ => Err(format!("expected an identifier, got {}", e.to_token_stream())),
        }
    }
    fn typed(a: &FnArg) -> R<(Ident, u32)> {
        match a {
            FnArg::Typed(t) => match &*t.pat {
                Pat::Ident(p) if p.by_ref.is_none() && p.mutability.is_none() && p.subpat.is_none() => {
                    Ok((id(&p.ident), ty_id(&t.ty.to_token_stream().to_string())))
                }
                _ => Err("parameter is not a plain identifier".into()),
            },
            FnArg::Receiver(_) => Err("unexpected receiver".into()),
        }
    }
    fn params_after_receiver(sig: &syn::Signature) -> R<Vec<(Ident, u32)>> {
        let mut it = sig.inputs.iter();
        match it.next() {
            Some(FnArg::Receiver(_)) => {}
            _ => return Err(format!("fn {} has no receiver", sig.ident)),
        }
        it.map(typed).collect()
    }
    fn args_coq(v: &[(Ident, u32)]) -> String {
        coq_list(&v.iter().map(|(n, t)| coq_arg(n, *t)).collect::<Vec<_>>())
    }
    fn only_expr(b: &syn::Block) -> R<&Expr> {
        match b.stmts.as_slice() {
            [Stmt::Expr(e, _)] => Ok(e),
            _ => Err("block is not a single expression".into()),
        }
    }
    fn unblock(e: &Expr) -> R<&Expr> {
        match e {
            Expr::Block(b) if b.label.is_none() => only_expr(&b.block),
            e => Ok(e),
        }
    }
    fn call_named<'a>(e: &'a Expr, last: &str) -> R<&'a syn::ExprCall> {
        match e {
            Expr::Call(c) => match &*c.func {
                Expr::Path(p) if p.path.segments.last().map(|s| s.ident == last).unwrap_or(false) => Ok(c),
                _ => Err(format!("expected a call of ..::{last}")),
            },
            _ => Err(format!("expected a call of ..::{last}, got {}", e.to_token_stream())),
        }
    }

    pub struct Abs {
        pub term: String,
    }

    /// One `mod dK { .. }` of the expanded crate -> the Coq term of `Macro.generated`.
    pub fn abstract_items(items: &[Item]) -> R<Abs> {
        let mut traits = vec![];
        let mut structs = vec![];
        let mut enums = vec![];
        let mut impls = vec![];
        collect(items, &mut traits, &mut structs, &mut enums, &mut impls);
        if traits.len() != 2 || enums.len() != 2 || structs.len() != 2 {
            return Err(format!("{} traits, {} enums, {} structs", traits.len(), enums.len(), structs.len()));
        }
        // the service trait
        let tr = traits[0];
        let sized = tr.supertraits.iter().map(|b| squeeze(&b.to_token_stream().to_string())).collect::<Vec<_>>();
        if sized != ["::core::marker::Sized"] {
            return Err("service trait is not `: ::core::marker::Sized`".into());
        }
        let g_trait = id(&tr.ident);
        let mut trait_fns = vec![];
        let mut extra = vec![];
        for it in &tr.items {
            if let TraitItem::Fn(f) = it {
                if f.sig.asyncness.is_some() && f.default.is_none() {
                    let ps = params_after_receiver(&f.sig)?;
                    let ret = match &f.sig.output {
                        ReturnType::Default => 0,
                        ReturnType::Type(_, t) => ty_id(&t.to_token_stream().to_string()),
                    };
                    trait_fns.push(format!("(TraitFn [] {} {} {})", id(&f.sig.ident).coq(), args_coq(&ps), ret));
                } else {
                    extra.push(id(&f.sig.ident));
                }
            } else {
                return Err("unexpected item in the service trait".into());
            }
        }
        let g_stub = id(&traits[1].ident);
        // structs: the server (named field `service`) and the client (tuple)
        let server = structs.iter().find(|s| matches!(s.fields, syn::Fields::Named(_))).ok_or("no server struct")?;
        let client = structs.iter().find(|s| matches!(s.fields, syn::Fields::Unnamed(_))).ok_or("no client struct")?;
        match &server.fields {
            syn::Fields::Named(n) if n.named.len() == 1 && n.named[0].ident.as_ref().unwrap() == "service" => {}
            _ => return Err("server struct is not { service }".into()),
        }
        let g_server = id(&server.ident);
        let g_client = id(&client.ident);
        // enums
        let (req, resp) = (enums[0], enums[1]);
        let g_req = id(&req.ident);
        let g_resp = id(&resp.ident);
        let mut variants = vec![];
        for v in &req.variants {
            let syn::Fields::Named(n) = &v.fields else { return Err("request variant without named fields".into()) };
            let fs: Vec<(Ident, u32)> = n
                .named
                .iter()
                .map(|f| (id(f.ident.as_ref().unwrap()), ty_id(&f.ty.to_token_stream().to_string())))
                .collect();
            variants.push(format!("(Variant [] {} {})", coq_str(&v.ident.to_string()), args_coq(&fs)));
        }
        let mut rvariants = vec![];
        for v in &resp.variants {
            let syn::Fields::Unnamed(u) = &v.fields else { return Err("response variant is not a tuple".into()) };
            if u.unnamed.len() != 1 {
                return Err("response variant does not have one field".into());
            }
            rvariants.push(format!(
                "(RVariant {} {})",
                coq_str(&v.ident.to_string()),
                ty_id(&u.unnamed[0].ty.to_token_stream().to_string())
            ));
        }
        // impls
        let mut serve_impl = None;
        let mut name_impl = None;
        let mut client_new = vec![];
        let mut client_impl = None;
        let mut req_derives = vec![];
        let mut resp_derives = vec![];
        for im in &impls {
            let self_ty = match &*im.self_ty {
                Type::Path(p) => p.path.segments.last().map(|s| id(&s.ident)),
                _ => None,
            };
            match (&im.trait_, self_ty) {
                (Some((_, p, _)), Some(st)) => {
                    let tname = p.segments.last().unwrap().ident.to_string();
                    if tname == "Serve" && st == g_server {
                        serve_impl = Some(*im);
                    } else if tname == "RequestName" && st == g_req {
                        name_impl = Some(*im);
                    } else if st == g_req || st == g_resp {
                        if ["Debug", "StructuralPartialEq", "StructuralEq"].contains(&tname.as_str()) {
                            continue;
                        }
                        let code = DERIVES.iter().find(|(_, n)| *n == tname).map(|(i, _)| *i as u64).unwrap_or(99);
                        if st == g_req {
                            req_derives.push(code);
                        } else {
                            resp_derives.push(code);
                        }
                    }
                }
                (None, Some(st)) if st == g_client => {
                    if im.generics.params.is_empty() {
                        for it in &im.items {
                            if let ImplItem::Fn(f) = it {
                                client_new.push(id(&f.sig.ident));
                            }
                        }
                    } else if client_impl.is_some() {
                        return Err("two generic inherent impls of the client".into());
                    } else {
                        client_impl = Some(*im);
                    }
                }
                _ => {}
            }
        }
        // Serve::serve
        let serve_impl = serve_impl.ok_or("no Serve impl")?;
        let serve_fn = serve_impl
            .items
            .iter()
            .find_map(|it| match it {
                ImplItem::Fn(f) if f.sig.ident == "serve" => Some(f),
                _ => None,
            })
            .ok_or("no fn serve")?;
        let serve_params: Vec<Ident> = params_after_receiver(&serve_fn.sig)?.into_iter().map(|(n, _)| n).collect();
        let Expr::Match(mt) = only_expr(&serve_fn.block)? else { return Err("serve body is not a match".into()) };
        let scrut = single(&mt.expr)?;
        let mut arms = vec![];
        for a in &mt.arms {
            if a.guard.is_some() {
                return Err("guarded arm".into());
            }
            let Pat::Struct(ps) = &a.pat else { return Err("server arm pattern is not Enum::Variant { .. }".into()) };
            if ps.rest.is_some() || ps.qself.is_some() {
                return Err("server arm pattern has `..`".into());
            }
            let (en, vn) = two(&ps.path)?;
            let mut pats = vec![];
            for f in &ps.fields {
                let syn::Member::Named(m) = &f.member else { return Err("positional field pattern".into()) };
                match &*f.pat {
                    Pat::Ident(p)
                        if p.ident == *m && p.by_ref.is_none() && p.mutability.is_none() && p.subpat.is_none() =>
                    {
                        pats.push(id(m))
                    }
                    _ => return Err("field pattern is not shorthand".into()),
                }
            }
            let ok = call_named(unblock(&a.body)?, "Ok")?;
            if ok.args.len() != 1 {
                return Err("Ok(..) arity".into());
            }
            let Expr::Call(wrap) = &ok.args[0] else { return Err("Ok(..) does not wrap a variant".into()) };
            let Expr::Path(wp) = &*wrap.func else { return Err("response wrapper is not a path".into()) };
            let (ren, rvn) = two(&wp.path)?;
            if wrap.args.len() != 1 {
                return Err("response variant arity".into());
            }
            let Expr::Await(aw) = &wrap.args[0] else { return Err("handler call is not awaited".into()) };
            let Expr::Call(hc) = &*aw.base else { return Err("awaited expression is not a call".into()) };
            let Expr::Path(hp) = &*hc.func else { return Err("handler is not a path".into()) };
            let hv = path_idents(&hp.path);
            if hv.len() != 2 || hp.path.leading_colon.is_some() || hp.qself.is_some() {
                return Err("handler path is not Trait::method".into());
            }
            let mut args = vec![];
            for e in &hc.args {
                args.push(match e {
                    Expr::Field(f)
                        if matches!(&*f.base, Expr::Path(p) if p.path.is_ident("self"))
                            && matches!(&f.member, syn::Member::Named(m) if m == "service") =>
                    {
                        "ESelfService".to_string()
                    }
                    e => format!("(EVar {})", single(e)?.coq()),
                });
            }
            arms.push(format!(
                "(Arm [] {} {} {} {} {} {} {} {})",
                en.coq(),
                coq_str(&vn),
                ids_coq(&pats),
                ren.coq(),
                coq_str(&rvn),
                id(&hv[0]).coq(),
                id(&hv[1]).coq(),
                coq_list(&args)
            ));
        }
        // RequestName::name
        let name_impl = name_impl.ok_or("no RequestName impl")?;
        let name_fn = name_impl
            .items
            .iter()
            .find_map(|it| match it {
                ImplItem::Fn(f) if f.sig.ident == "name" => Some(f),
                _ => None,
            })
            .ok_or("no fn name")?;
        let Expr::Match(nm) = only_expr(&name_fn.block)? else { return Err("name body is not a match".into()) };
        if !matches!(&*nm.expr, Expr::Path(p) if p.path.is_ident("self")) {
            return Err("name() does not match on self".into());
        }
        let mut names = vec![];
        for a in &nm.arms {
            let Pat::Struct(ps) = &a.pat else { return Err("name arm pattern".into()) };
            if ps.rest.is_none() || !ps.fields.is_empty() || a.guard.is_some() {
                return Err("name arm pattern is not Enum::Variant { .. }".into());
            }
            let (en, vn) = two(&ps.path)?;
            let Expr::Lit(syn::ExprLit { lit: syn::Lit::Str(s), .. }) = unblock(&a.body)? else {
                return Err("name arm body is not a string literal".into());
            };
            names.push(format!("(NameArm [] {} {} {})", en.coq(), coq_str(&vn), coq_str(&s.value())));
        }
        // client fns
        let mut fallback = None;
        let mut client_fns = vec![];
        if let Some(ci) = client_impl {
            for it in &ci.items {
                let ImplItem::Fn(f) = it else { return Err("unexpected item in the client impl".into()) };
                let (term, fb) = client_fn(f)?;
                if *fallback.get_or_insert(fb) != fb {
                    return Err("client fns with different fallback arms".into());
                }
                client_fns.push(term);
            }
        }
        let term = format!(
            "(Generated {} {} {} {} {} {} {} {} {} {} {} {} {} {} {} {} {} {})",
            g_trait.coq(),
            coq_list(&trait_fns),
            ids_coq(&extra),
            g_stub.coq(),
            g_server.coq(),
            ids_coq(&serve_params),
            scrut.coq(),
            coq_list(&arms),
            g_req.coq(),
            coq_list(&variants),
            coq_nums(&req_derives),
            coq_list(&names),
            g_resp.coq(),
            coq_list(&rvariants),
            coq_nums(&resp_derives),
            g_client.coq(),
            ids_coq(&client_new),
            coq_list(&client_fns)
        );
        Ok(Abs { term })
    }

    fn collect<'a>(
        items: &'a [Item],
        traits: &mut Vec<&'a syn::ItemTrait>,
        structs: &mut Vec<&'a syn::ItemStruct>,
        enums: &mut Vec<&'a syn::ItemEnum>,
        impls: &mut Vec<&'a syn::ItemImpl>,
    ) {
        for it in items {
            match it {
                Item::Trait(t) => traits.push(t),
                Item::Struct(s) => structs.push(s),
                Item::Enum(e) => enums.push(e),
                Item::Impl(i) => impls.push(i),
                // derive output wrapped in `const _: () = { .. };` (serde): only its impls count
                Item::Const(c) => {
                    if let Expr::Block(b) = &*c.expr {
                        for st in &b.block.stmts {
                            if let Stmt::Item(Item::Impl(i)) = st {
                                impls.push(i);
                            }
                        }
                    }
                }
                _ => {}
            }
        }
    }

    fn output_of_future(rt: &ReturnType) -> R<u32> {
        let ReturnType::Type(_, t) = rt else { return Err("client fn without return type".into()) };
        let Type::ImplTrait(it) = &**t else { return Err("client fn does not return impl Future".into()) };
        for b in &it.bounds {
            let syn::TypeParamBound::Trait(tb) = b else { continue };
            let Some(seg) = tb.path.segments.last() else { continue };
            if seg.ident != "Future" {
                continue;
            }
            let syn::PathArguments::AngleBracketed(ab) = &seg.arguments else { continue };
            for a in &ab.args {
                let syn::GenericArgument::AssocType(at) = a else { continue };
                if at.ident != "Output" {
                    continue;
                }
                let Type::Path(rp) = &at.ty else { return Err("Output is not Result<..>".into()) };
                let rs = rp.path.segments.last().unwrap();
                let syn::PathArguments::AngleBracketed(ra) = &rs.arguments else { return Err("Result without args".into()) };
                if rs.ident != "Result" || ra.args.len() != 2 {
                    return Err("Output is not Result<T, E>".into());
                }
                if !squeeze(&ra.args[1].to_token_stream().to_string()).ends_with("RpcError") {
                    return Err("error type is not RpcError".into());
                }
                return Ok(ty_id(&ra.args[0].to_token_stream().to_string()));
            }
        }
        Err("no Future<Output = ..> bound".into())
    }

    fn client_fn(f: &syn::ImplItemFn) -> R<(String, &'static str)> {
        let params = params_after_receiver(&f.sig)?;
        let ret = output_of_future(&f.sig.output)?;
        let [Stmt::Local(l1), Stmt::Local(l2), Stmt::Expr(Expr::Async(asy), None)] = f.block.stmts.as_slice() else {
            return Err(format!("client fn {} body is not let; let; async", f.sig.ident));
        };
        // let request = Enum::Variant { f: x, .. };
        let Pat::Ident(p1) = &l1.pat else { return Err("first let is not an identifier".into()) };
        let init1 = &l1.init.as_ref().ok_or("first let has no value")?.expr;
        let Expr::Struct(es) = &**init1 else { return Err("first let is not a struct literal".into()) };
        if es.rest.is_some() || es.dot2_token.is_some() {
            return Err("struct literal with ..".into());
        }
        let (en, vn) = two(&es.path)?;
        let mut fields = vec![];
        for fv in &es.fields {
            let syn::Member::Named(m) = &fv.member else { return Err("positional field".into()) };
            fields.push(format!("({}, {})", id(m).coq(), single(&fv.expr)?.coq()));
        }
        // let resp = self.0.call(a, b);
        let Pat::Ident(p2) = &l2.pat else { return Err("second let is not an identifier".into()) };
        let init2 = &l2.init.as_ref().ok_or("second let has no value")?.expr;
        let Expr::MethodCall(mc) = &**init2 else { return Err("second let is not a method call".into()) };
        let recv_ok = matches!(&*mc.receiver, Expr::Field(fe)
            if matches!(&*fe.base, Expr::Path(p) if p.path.is_ident("self"))
                && matches!(&fe.member, syn::Member::Unnamed(i) if i.index == 0));
        if !recv_ok || mc.method != "call" {
            return Err("second let is not self.0.call(..)".into());
        }
        let call: Vec<Ident> = mc.args.iter().map(single).collect::<R<_>>()?;
        // async move { match resp.await? { REnum::V(msg) => Ok(msg), _ => fallback } }
        let Expr::Match(mt) = only_expr(&asy.block)? else { return Err("async block is not a match".into()) };
        let Expr::Try(tr) = &*mt.expr else { return Err("match scrutinee is not ..?".into()) };
        let Expr::Await(aw) = &*tr.expr else { return Err("match scrutinee is not .await?".into()) };
        if single(&aw.base)? != id(&p2.ident) {
            return Err("awaited value is not the stub call".into());
        }
        let [a1, a2] = mt.arms.as_slice() else { return Err("client match does not have two arms".into()) };
        let Pat::TupleStruct(ts) = &a1.pat else { return Err("first client arm is not REnum::V(x)".into()) };
        let (ren, rvn) = two(&ts.path)?;
        let [Pat::Ident(binder)] = ts.elems.iter().collect::<Vec<_>>()[..] else {
            return Err("first client arm does not bind one name".into());
        };
        let ok = call_named(unblock(&a1.body)?, "Ok")?;
        if ok.args.len() != 1 || single(&ok.args[0])? != id(&binder.ident) || a1.guard.is_some() {
            return Err("first client arm does not return Ok(payload)".into());
        }
        if !matches!(a2.pat, Pat::Wild(_)) || a2.guard.is_some() {
            return Err("second client arm is not `_`".into());
        }
        let fb = match unblock(&a2.body)? {
            Expr::Macro(m) if m.mac.path.segments.last().map(|s| s.ident == "unreachable" || s.ident == "panic").unwrap_or(false) => {
                "FallbackPanic"
            }
            Expr::Call(c) => {
                let f = squeeze(&c.func.to_token_stream().to_string());
                if f.contains("panic") {
                    "FallbackPanic"
                } else if f.ends_with("Err") {
                    "FallbackErr"
                } else {
                    return Err(format!("unrecognised fallback arm: {f}"));
                }
            }
            other => return Err(format!("unrecognised fallback arm: {}", other.to_token_stream())),
        };
        let term = format!(
            "(ClientFn [] {} {} {} {} {} {} {} {} {} {} {})",
            id(&f.sig.ident).coq(),
            args_coq(&params),
            ret,
            id(&p1.ident).coq(),
            en.coq(),
            coq_str(&vn),
            coq_list(&fields),
            ids_coq(&call),
            ren.coq(),
            coq_str(&rvn),
            fb
        );
        Ok((term, fb))
    }
}

// ------------------------------------------------------------------------------ scratch crates

fn die(msg: &str) -> ! {
    eprintln!("c17: {msg}");
    std::process::exit(3)
}

fn fnv(seed: u64, data: &[u8]) -> u64 {
    let mut h = 0xcbf2_9ce4_8422_2325u64 ^ seed;
    for b in data {
        h ^= *b as u64;
        h = h.wrapping_mul(0x0000_0100_0000_01b3);
    }
    h
}

/// hash of every source file the observations depend on
fn tree_hash() -> String {
    let mut files = vec![];
    let repo = repo();
    for dir in ["plugins/src", "tarpc/src"] {
        walk(Path::new(&format!("{repo}/{dir}")), &mut files);
    }
    files.push(PathBuf::from(format!("{repo}/plugins/Cargo.toml")));
    files.push(PathBuf::from(format!("{repo}/tarpc/Cargo.toml")));
    files.sort();
    let mut acc = Vec::new();
    for f in files {
        acc.extend_from_slice(f.to_string_lossy().as_bytes());
        acc.push(0);
        acc.extend_from_slice(&std::fs::read(&f).unwrap_or_default());
        acc.push(0);
    }
    format!("{:016x}{:016x}", fnv(1, &acc), fnv(2, &acc))
}

fn walk(dir: &Path, out: &mut Vec<PathBuf>) {
    if let Ok(rd) = std::fs::read_dir(dir) {
        for e in rd.flatten() {
            let p = e.path();
            if p.is_dir() {
                walk(&p, out);
            } else if p.extension().map(|x| x == "rs").unwrap_or(false) {
                out.push(p);
            }
        }
    }
}

fn cache_path(tree: &str, script: &str) -> PathBuf {
    let key = format!("{VERSION}\n{tree}\n{script}");
    PathBuf::from(format!("{}/results/{:016x}{:016x}.tsv", root(), fnv(3, key.as_bytes()), fnv(4, key.as_bytes())))
}

const CRATE_ATTRS: &str = "#![allow(non_camel_case_types, non_snake_case, non_upper_case_globals, dead_code, unused, deprecated, unreachable_patterns, async_fn_in_trait)]\n";

fn write_if_changed(path: &Path, content: &str) {
    if std::fs::read_to_string(path).map(|c| c == content).unwrap_or(false) {
        return;
    }
    if let Some(p) = path.parent() {
        std::fs::create_dir_all(p).ok();
    }
    std::fs::write(path, content).unwrap_or_else(|e| die(&format!("cannot write {}: {e}", path.display())));
}

fn manifest(name: &str, bin: bool, extra: &str) -> String {
    let repo = repo();
    format!(
        "[package]\nname = \"{name}\"\nversion = \"0.0.0\"\nedition = \"2021\"\npublish = false\n\n{}\n[workspace]\n\n[dependencies]\ntarpc = {{ path = \"{repo}/tarpc\", features = [\"serde1\"] }}\n{extra}\n[profile.dev]\ndebug = 0\nopt-level = 0\nincremental = false\n\n[lints.rust]\nunexpected_cfgs = {{ level = \"allow\" }}\n",
        if bin { "" } else { "[lib]\npath = \"src/lib.rs\"\n" }
    )
}

fn prepare_crate(dir: &Path, name: &str, bin: bool, extra: &str) {
    std::fs::create_dir_all(dir.join("src")).unwrap_or_else(|e| die(&format!("mkdir {}: {e}", dir.display())));
    write_if_changed(&dir.join("Cargo.toml"), &manifest(name, bin, extra));
    let lock = dir.join("Cargo.lock");
    if !lock.exists() {
        std::fs::copy(format!("{}/harness/Cargo.lock", verif_root()), &lock).ok();
    }
    // stale module files of an earlier batch
    if let Ok(rd) = std::fs::read_dir(dir.join("src")) {
        for e in rd.flatten() {
            let n = e.file_name().to_string_lossy().to_string();
            if n.starts_with('d') && n.ends_with(".rs") {
                std::fs::remove_file(e.path()).ok();
            }
        }
    }
}

fn cargo(toolchain: Option<&str>, args: &[&str], dir: &Path, target: &str) -> (bool, String, String) {
    let mut c = Command::new("cargo");
    if let Some(t) = toolchain {
        c.arg(format!("+{t}"));
    }
    c.args(args)
        .current_dir(dir)
        .env("CARGO_TARGET_DIR", format!("{}/{target}", root()))
        .env("CARGO_NET_OFFLINE", "true")
        .env_remove("RUSTFLAGS")
        .env_remove("CARGO_ENCODED_RUSTFLAGS");
    let out = c.output().unwrap_or_else(|e| die(&format!("cannot run cargo: {e}")));
    (
        out.status.success(),
        String::from_utf8_lossy(&out.stdout).to_string(),
        String::from_utf8_lossy(&out.stderr).to_string(),
    )
}

#[derive(Default, Clone, Debug)]
struct Verdict {
    rejected: bool,
    codes: Vec<String>,
    messages: Vec<String>,
}

/// the macro's own error messages -> the error classes of Macro.v
fn error_class(msg: &str) -> Option<u64> {
    if msg.contains("does not support this meta item") {
        Some(1)
    } else if msg.contains("at the same time") {
        Some(2)
    } else if msg.contains("`derive_serde` appears more than once") {
        Some(3)
    } else if msg.contains("`derive` appears more than once") {
        Some(4)
    } else if msg.contains("first enable the `serde1` feature") {
        Some(5)
    } else if msg.contains("conflicts with generated fn") && msg.contains("Client::new") {
        Some(6)
    } else if msg.contains("conflicts with generated fn") && msg.contains("::serve") {
        Some(7)
    } else if msg.contains("method args cannot start with self") {
        Some(8)
    } else if msg.contains("custom attribute panicked") {
        Some(9)
    } else {
        None
    }
}

/// Phase A: which definitions does stable rustc accept? Failing modules are removed and the
/// rest is checked again, because errors of later compiler phases are hidden by earlier ones.
fn phase_check(defs: &[(usize, &Def)]) -> BTreeMap<usize, Verdict> {
    let dir = PathBuf::from(format!("{}/defs", root()));
    prepare_crate(&dir, "c17-defs", false, "");
    for (k, d) in defs {
        write_if_changed(&dir.join(format!("src/d{k}.rs")), &def_source(d));
    }
    let mut verdicts: BTreeMap<usize, Verdict> = defs.iter().map(|(k, _)| (*k, Verdict::default())).collect();
    let mut live: Vec<usize> = defs.iter().map(|(k, _)| *k).collect();
    for _round in 0..12 {
        let mut lib = String::from(CRATE_ATTRS);
        for k in &live {
            let _ = writeln!(lib, "pub mod d{k};");
        }
        write_if_changed(&dir.join("src/lib.rs"), &lib);
        let (ok, stdout, stderr) =
            cargo(None, &["check", "--offline", "--quiet", "--lib", "--message-format=json"], &dir, "target-stable");
        if ok {
            return verdicts;
        }
        let mut failed = BTreeSet::new();
        for line in stdout.lines() {
            let Ok(v) = serde_json::from_str::<serde_json::Value>(line) else { continue };
            if v["reason"] != "compiler-message" || v["message"]["level"] != "error" {
                continue;
            }
            let msg = v["message"]["message"].as_str().unwrap_or("").to_string();
            let code = v["message"]["code"]["code"].as_str().unwrap_or("").to_string();
            let mut hit = None;
            if let Some(spans) = v["message"]["spans"].as_array() {
                for sp in spans {
                    let mut cur = sp;
                    // follow macro expansions back to the file that holds the definition
                    for _ in 0..8 {
                        if let Some(k) = module_of(cur["file_name"].as_str().unwrap_or("")) {
                            hit = Some(k);
                            break;
                        }
                        if cur["expansion"].is_null() {
                            break;
                        }
                        cur = &cur["expansion"]["span"];
                    }
                    if hit.is_some() {
                        break;
                    }
                }
            }
            if let Some(k) = hit {
                if let Some(vd) = verdicts.get_mut(&k) {
                    vd.rejected = true;
                    vd.codes.push(code);
                    vd.messages.push(msg);
                    failed.insert(k);
                }
            }
        }
        if failed.is_empty() {
            die(&format!("cargo check of the definitions failed without naming a definition:\n{stderr}\n{stdout}"));
        }
        live.retain(|k| !failed.contains(k));
    }
    die("cargo check of the definitions did not settle in 12 rounds")
}

fn module_of(file: &str) -> Option<usize> {
    let name = Path::new(file).file_name()?.to_str()?;
    name.strip_prefix('d')?.strip_suffix(".rs")?.parse().ok()
}

const LATE_CODES: &[&str] = &["E0415", "E0416", "E0124", "E0592", "E0004", "E0201"];

/// Phase B: expansions. Definitions whose only errors belong to late compiler phases still expand.
fn phase_expand(defs: &[(usize, &Def)], verdicts: &BTreeMap<usize, Verdict>) -> BTreeMap<usize, Result<reader::Abs, String>> {
    let dir = PathBuf::from(format!("{}/expand", root()));
    prepare_crate(&dir, "c17-expand", false, "");
    let mut lib = String::from(CRATE_ATTRS);
    let mut any = false;
    for (k, d) in defs {
        let v = &verdicts[k];
        if v.rejected && !v.codes.iter().all(|c| LATE_CODES.contains(&c.as_str())) {
            continue;
        }
        write_if_changed(&dir.join(format!("src/d{k}.rs")), &def_source(d));
        let _ = writeln!(lib, "pub mod d{k};");
        any = true;
    }
    let mut out = BTreeMap::new();
    if !any {
        return out;
    }
    write_if_changed(&dir.join("src/lib.rs"), &lib);
    let (_ok, stdout, stderr) = cargo(
        Some("nightly"),
        &["rustc", "--offline", "--quiet", "--lib", "--profile", "check", "--", "-Zunpretty=expanded"],
        &dir,
        "target-nightly",
    );
    let (stdout, stderr) = if stdout.trim().is_empty() && defs.iter().any(|(k, _)| verdicts[k].rejected) {
        // a rejected definition stopped rustc before it printed anything: expand the accepted ones only
        let mut lib = String::from(CRATE_ATTRS);
        for (k, _) in defs.iter().filter(|(k, _)| !verdicts[k].rejected) {
            let _ = writeln!(lib, "pub mod d{k};");
        }
        write_if_changed(&dir.join("src/lib.rs"), &lib);
        let (_ok, o, e) = cargo(
            Some("nightly"),
            &["rustc", "--offline", "--quiet", "--lib", "--profile", "check", "--", "-Zunpretty=expanded"],
            &dir,
            "target-nightly",
        );
        (o, e)
    } else {
        (stdout, stderr)
    };
    if stdout.trim().is_empty() {
        if defs.iter().all(|(k, _)| verdicts[k].rejected) {
            return out;
        }
        die(&format!("nightly produced no expansion:\n{stderr}"));
    }
    let file = syn::parse_file(&stdout).unwrap_or_else(|e| die(&format!("syn cannot parse the expansion: {e}")));
    for it in &file.items {
        if let syn::Item::Mod(m) = it {
            let Some(k) = m.ident.to_string().strip_prefix('d').and_then(|s| s.parse::<usize>().ok()) else { continue };
            if let Some((_, items)) = &m.content {
                out.insert(k, reader::abstract_items(items));
            }
        }
    }
    out
}

// ---- Phase C: the runner

const SUPPORT: &str = r#"
pub use std::cell::RefCell;
pub use std::rc::Rc;
use std::time::{Duration, Instant};
use tarpc::client::stub::Stub;
use tarpc::client::RpcError;
use tarpc::context::Context;
use tarpc::RequestName;

pub trait ToN { fn to_n(&self) -> u64; }
pub trait FromN { fn from_n(n: u64) -> Self; }
impl ToN for () { fn to_n(&self) -> u64 { 0 } }
impl FromN for () { fn from_n(_: u64) -> Self {} }
macro_rules! num { ($($t:ty),*) => { $(
    impl ToN for $t { fn to_n(&self) -> u64 { *self as u64 } }
    impl FromN for $t { fn from_n(n: u64) -> Self { n as $t } }
)* } }
num!(u8, u32, u64, i64);
impl ToN for String { fn to_n(&self) -> u64 { self.parse().unwrap_or(u64::MAX) } }
impl FromN for String { fn from_n(n: u64) -> Self { n.to_string() } }
impl ToN for (u8, u8) { fn to_n(&self) -> u64 { if self.1 == !self.0 { self.0 as u64 } else { u64::MAX } } }
impl FromN for (u8, u8) { fn from_n(n: u64) -> Self { (n as u8, !(n as u8)) } }
impl ToN for Vec<u8> { fn to_n(&self) -> u64 { if self.len() == 2 && self[1] == 9 { self[0] as u64 } else { u64::MAX } } }
impl FromN for Vec<u8> { fn from_n(n: u64) -> Self { vec![n as u8, 9] } }
impl ToN for Option<u8> { fn to_n(&self) -> u64 { self.map(|x| x as u64).unwrap_or(u64::MAX) } }
impl FromN for Option<u8> { fn from_n(n: u64) -> Self { Some(n as u8) } }

impl ToN for Context {
    fn to_n(&self) -> u64 {
        let d = self.deadline.saturating_duration_since(BASE.with(|b| *b)).as_secs();
        let t = u128::from(self.trace_context.trace_id) as u64;
        if d == t { t } else { u64::MAX }
    }
}
impl FromN for Context { fn from_n(n: u64) -> Self { mk_ctx(n, n) } }

thread_local! { static BASE: Instant = Instant::now(); }
pub fn mk_ctx(d: u64, t: u64) -> Context {
    let mut c = tarpc::context::current();
    c.deadline = BASE.with(|b| *b) + Duration::from_secs(d);
    c.trace_context.trace_id = tarpc::trace::TraceId::from(t as u128);
    c
}

#[derive(Clone, Default)]
pub struct Log(pub Rc<RefCell<Vec<String>>>);
impl Log {
    pub fn push(&self, method: &str, c: &Context, args: Vec<u64>) {
        let d = c.deadline.saturating_duration_since(BASE.with(|b| *b)).as_secs();
        let t = u128::from(c.trace_context.trace_id) as u64;
        let a: Vec<String> = args.iter().map(|x| x.to_string()).collect();
        self.0.borrow_mut().push(format!("{method}:{d}:{t}:{}", a.join(",")));
    }
    pub fn take(&self) -> String { self.0.borrow_mut().drain(..).collect::<Vec<_>>().join(";") }
}

/// records RequestName::name() of every request handed to the stub
pub struct NameStub<S> { pub inner: S, pub names: Log }
impl<S: Stub> Stub for NameStub<S> {
    type Req = S::Req;
    type Resp = S::Resp;
    async fn call(&self, ctx: Context, req: S::Req) -> Result<S::Resp, RpcError> {
        self.names.0.borrow_mut().push(req.name().to_string());
        self.inner.call(ctx, req).await
    }
}

/// answers every request with a fixed response
pub struct FixedStub<Req, Resp, F> { pub f: F, pub p: std::marker::PhantomData<fn(Req) -> Resp> }
impl<Req: RequestName, Resp, F: Fn() -> Resp> Stub for FixedStub<Req, Resp, F> {
    type Req = Req;
    type Resp = Resp;
    async fn call(&self, _: Context, _: Req) -> Result<Resp, RpcError> { Ok((self.f)()) }
}

pub fn guard<T>(f: impl FnOnce() -> T) -> Result<T, ()> {
    std::panic::catch_unwind(std::panic::AssertUnwindSafe(f)).map_err(|_| ())
}
pub fn block_on<F: std::future::Future>(f: F) -> F::Output { futures::executor::block_on(f) }
"#;

fn runner_module(k: usize, d: &Def) -> String {
    let mut s = String::new();
    s.push_str("use crate::support::*;\nuse tarpc::client::stub::Stub as _;\n");
    s.push_str(&def_source(d));
    let svc = d.svc.src();
    let client = format!("{}Client", d.svc.txt);
    let resp = format!("{}Response", d.svc.txt);
    let req = format!("{}Request", d.svc.txt);
    s.push_str("#[derive(Clone)]\npub struct Rec(pub Log);\n");
    let _ = writeln!(s, "impl {svc} for Rec {{");
    for (i, m) in d.methods.iter().enumerate() {
        if !m.enabled() {
            continue;
        }
        let ps: Vec<String> = m.args.iter().enumerate().map(|(j, a)| format!("p{j}: {}", ty_src(a.ty))).collect();
        let vs: Vec<String> = (0..m.args.len()).map(|j| format!("p{j}.to_n()")).collect();
        let _ = writeln!(
            s,
            "    async fn {}(self, c: ::tarpc::context::Context, {}) -> {} {{ self.0.push(\"{}\", &c, vec![{}]); FromN::from_n({}) }}",
            m.name.src(),
            ps.join(", "),
            ty_src(m.ret_ty()),
            m.name.txt,
            vs.join(", "),
            200 + first_with_name(d, &m.name.txt).min(i)
        );
    }
    s.push_str("}\n");
    s.push_str("pub fn run(out: &mut Vec<String>) {\n    let log = Log::default();\n    let names = Log::default();\n");
    let _ = writeln!(
        s,
        "    let client = <{client}<_> as ::core::convert::From<_>>::from(NameStub {{ inner: Rec(log.clone()).serve(), names: names.clone() }});"
    );
    let calls = calls_of(d);
    for (j, c) in calls.iter().enumerate() {
        let m = &d.methods[c.k];
        let args: Vec<String> = c.args.iter().map(|v| format!(", FromN::from_n({v})")).collect();
        let _ = writeln!(
            s,
            "    {{ let r = guard(|| block_on({client}::{}(&client, mk_ctx({}, {}){})).ok().map(|v| v.to_n()));\n      let r = match r {{ Ok(Some(v)) => v.to_string(), _ => \"-\".to_string() }};\n      out.push(format!(\"R\\t{k}\\t{j}\\t{{}}\\t{{}}\\t{{}}\", log.take(), names.take().replace(';', \"|\"), r)); }}",
            m.name.src(),
            c.deadline,
            c.trace,
            args.join("")
        );
    }
    // the wrong-variant probe: the first enabled method, answered with another method's variant
    if d.methods.len() >= 2 {
        if let Some(c) = calls.first() {
            let m = &d.methods[c.k];
            let other = d.methods.iter().enumerate().find(|(i, o)| *i != c.k && snake_to_camel(&o.name.txt) != snake_to_camel(&m.name.txt));
            if let Some((_, o)) = other {
                let args: Vec<String> = c.args.iter().map(|v| format!(", FromN::from_n({v})")).collect();
                let _ = writeln!(
                    s,
                    "    {{ let wc = <{client}<_> as ::core::convert::From<_>>::from(FixedStub::<{req}, {resp}, _> {{ f: || {resp}::{}(FromN::from_n(77)), p: ::core::marker::PhantomData }});\n      let code = match guard(|| block_on({client}::{}(&wc, mk_ctx(1, 1){}))) {{ Ok(Ok(_)) => 0, Err(()) => 1, Ok(Err(_)) => 2 }};\n      out.push(format!(\"W\\t{k}\\t{}\\t{{code}}\")); }}",
                    snake_to_camel(&o.name.txt),
                    m.name.src(),
                    args.join(""),
                    m.name.txt
                );
            }
        }
    }
    s.push_str("}\n");
    s
}

#[derive(Default, Clone)]
struct RunObs {
    runs: BTreeMap<usize, (String, String, String)>,
    wrong: Vec<(String, u64)>,
}

fn phase_run(defs: &[(usize, &Def)]) -> BTreeMap<usize, RunObs> {
    let mut res: BTreeMap<usize, RunObs> = BTreeMap::new();
    if defs.is_empty() {
        return res;
    }
    let ws = PathBuf::from(format!("{}/runner", root()));
    std::fs::create_dir_all(&ws).ok();
    // several member crates so that cargo compiles them in parallel
    let per = 24usize;
    let chunks: Vec<&[(usize, &Def)]> = defs.chunks(per).collect();
    let mut members = vec![];
    for (ci, chunk) in chunks.iter().enumerate() {
        let name = format!("c17-run{ci}");
        let dir = ws.join(&name);
        std::fs::create_dir_all(dir.join("src")).ok();
        if let Ok(rd) = std::fs::read_dir(dir.join("src")) {
            for e in rd.flatten() {
                let n = e.file_name().to_string_lossy().to_string();
                if n.starts_with('d') && n.ends_with(".rs") {
                    std::fs::remove_file(e.path()).ok();
                }
            }
        }
        let repo = repo();
        write_if_changed(
            &dir.join("Cargo.toml"),
            &format!(
                "[package]\nname = \"{name}\"\nversion = \"0.0.0\"\nedition = \"2021\"\npublish = false\n\n[dependencies]\ntarpc = {{ path = \"{repo}/tarpc\", features = [\"serde1\"] }}\nfutures = \"0.3\"\n\n[lints.rust]\nunexpected_cfgs = {{ level = \"allow\" }}\n"
            ),
        );
        let mut main = String::from(CRATE_ATTRS);
        main.push_str("mod support;\n");
        for (k, d) in chunk.iter() {
            write_if_changed(&dir.join(format!("src/d{k}.rs")), &runner_module(*k, d));
            let _ = writeln!(main, "mod d{k};");
        }
        main.push_str("fn main() {\n    std::panic::set_hook(Box::new(|_| {}));\n    let mut out = Vec::new();\n");
        for (k, _) in chunk.iter() {
            let _ = writeln!(main, "    d{k}::run(&mut out);");
        }
        main.push_str("    for l in out { println!(\"{l}\"); }\n}\n");
        write_if_changed(&dir.join("src/main.rs"), &main);
        write_if_changed(&dir.join("src/support.rs"), SUPPORT);
        members.push(name);
    }
    // members of earlier, larger batches
    if let Ok(rd) = std::fs::read_dir(&ws) {
        for e in rd.flatten() {
            let n = e.file_name().to_string_lossy().to_string();
            if n.starts_with("c17-run") && !members.contains(&n) {
                std::fs::remove_dir_all(e.path()).ok();
            }
        }
    }
    write_if_changed(
        &ws.join("Cargo.toml"),
        &format!(
            "[workspace]\nresolver = \"2\"\nmembers = [{}]\n\n[profile.dev]\ndebug = 0\nopt-level = 0\nincremental = false\n",
            members.iter().map(|m| format!("\"{m}\"")).collect::<Vec<_>>().join(", ")
        ),
    );
    if !ws.join("Cargo.lock").exists() {
        std::fs::copy(format!("{}/harness/Cargo.lock", verif_root()), ws.join("Cargo.lock")).ok();
    }
    let (ok, stdout, stderr) = cargo(None, &["build", "--offline", "--quiet"], &ws, "target-stable");
    if !ok {
        die(&format!("the runner crates do not build (definitions that passed cargo check):\n{stderr}\n{stdout}"));
    }
    for m in &members {
        let out = Command::new(format!("{}/target-stable/debug/{m}", root()))
            .output()
            .unwrap_or_else(|e| die(&format!("cannot run {m}: {e}")));
        if !out.status.success() {
            die(&format!("{m} failed: {}", String::from_utf8_lossy(&out.stderr)));
        }
        for line in String::from_utf8_lossy(&out.stdout).lines() {
            let f: Vec<&str> = line.split('\t').collect();
            match f.as_slice() {
                ["R", k, j, log, names, ret] => {
                    let (Ok(k), Ok(j)) = (k.parse::<usize>(), j.parse::<usize>()) else { continue };
                    res.entry(k).or_default().runs.insert(j, (log.to_string(), names.to_string(), ret.to_string()));
                }
                ["W", k, m, code] => {
                    let (Ok(k), Ok(code)) = (k.parse::<usize>(), code.parse::<u64>()) else { continue };
                    res.entry(k).or_default().wrong.push((m.to_string(), code));
                }
                _ => {}
            }
        }
    }
    res
}

fn run_obs_coq(log: &str, names: &str, ret: &str) -> String {
    let entries: Vec<String> = log
        .split(';')
        .filter(|e| !e.is_empty())
        .map(|e| {
            let p: Vec<&str> = e.split(':').collect();
            let args: Vec<u64> = p.get(3).unwrap_or(&"").split(',').filter_map(|x| x.parse().ok()).collect();
            format!(
                "({}, ({}, {}), {})",
                coq_str(p.first().unwrap_or(&"")),
                p.get(1).unwrap_or(&"0"),
                p.get(2).unwrap_or(&"0"),
                coq_nums(&args)
            )
        })
        .collect();
    let ns: Vec<String> = names.split('|').filter(|n| !n.is_empty()).map(coq_str).collect();
    let r = match ret.parse::<u64>() {
        Ok(v) => format!("(Some {v})"),
        Err(_) => "None".to_string(),
    };
    format!("(Some ({}, {}, {}))", coq_list(&entries), coq_list(&ns), r)
}

fn tags_of(d: &Def, v: &Verdict, compiled: bool) -> Vec<String> {
    let mut t = BTreeSet::new();
    let on: Vec<&Method> = d.methods.iter().filter(|m| m.enabled()).collect();
    let sig = |m: &Method| (m.args.iter().map(|a| a.ty).collect::<Vec<_>>(), m.ret_ty());
    if compiled {
        t.insert("compiled");
        for (i, a) in on.iter().enumerate() {
            if on.iter().skip(i + 1).any(|b| sig(a) == sig(b)) {
                t.insert("same-typed-siblings");
            }
            let tys: Vec<u32> = a.args.iter().map(|x| x.ty).collect();
            if tys.iter().enumerate().any(|(i, x)| tys[i + 1..].contains(x)) {
                t.insert("same-typed-args");
            }
        }
    } else if v.messages.iter().any(|m| error_class(m).is_some()) {
        t.insert("rejected-by-macro");
    } else {
        t.insert("rejected-by-rustc");
    }
    if d.svc.raw || d.methods.iter().any(|m| m.name.raw || m.args.iter().any(|a| a.name.raw)) {
        t.insert("raw-ident");
    }
    if d.methods.iter().any(|m| {
        let n = &m.name.txt;
        n.starts_with('_') || n.ends_with('_') || n.contains("__")
    }) {
        t.insert("underscores");
    }
    if d.methods.iter().any(|m| m.name.txt.chars().any(|c| c.is_ascii_uppercase())) {
        t.insert("mixed-case");
    }
    if d.methods.iter().any(|m| m.cfgs().contains(&false)) {
        t.insert("cfg-false");
    }
    if d.methods.iter().any(|m| m.cfgs().contains(&true)) {
        t.insert("cfg-true");
    }
    if d.methods.iter().any(|m| m.attrs.iter().any(|a| matches!(a, Attr::Other(_)))) {
        t.insert("other-attrs");
    }
    if d.methods.iter().any(|m| m.ret.is_none()) {
        t.insert("default-return");
    }
    if d.methods.iter().any(|m| m.args.is_empty()) {
        t.insert("no-args");
    }
    if d.methods.iter().any(|m| m.args.iter().any(|a| a.name.txt == "context")) {
        t.insert("arg-named-context");
    }
    if d.methods.iter().any(|m| m.args.iter().any(|a| EXPANSION_NAMES.contains(&a.name.txt.as_str()))) {
        t.insert("arg-named-like-expansion-ident");
    }
    if d.methods.iter().any(|m| m.args.iter().any(|a| a.ty == TY_CONTEXT)) {
        t.insert("context-typed-arg");
    }
    if d.methods.iter().any(|m| m.enabled() && m.args.iter().any(|a| a.ty == TY_CONTEXT && a.name.txt == "ctx")) {
        t.insert("ctx-context-arg");
    }
    match d.opts.as_slice() {
        [] => t.insert("derive-default"),
        [Opt::Serde(_)] => t.insert("derive-serde-flag"),
        [Opt::Derive(_)] => t.insert("derive-explicit"),
        _ => t.insert("derive-conflict"),
    };
    t.insert(match d.methods.len() {
        0 => "methods-0",
        1 => "methods-1",
        2 | 3 => "methods-2-3",
        _ => "methods-4+",
    });
    t.into_iter().map(|s| s.to_string()).collect()
}

/// Runs the real macro on every script; one case per script, in order.
pub fn run_scripts(lines: &[String]) -> Vec<Case> {
    let tree = tree_hash();
    std::fs::create_dir_all(format!("{}/results", root())).ok();
    let defs: Vec<Def> = lines.iter().map(|l| parse(l).unwrap_or_else(|| die(&format!("bad script: {l}")))).collect();
    let canon: Vec<String> = defs.iter().map(show).collect();
    let mut cached: BTreeMap<String, String> = BTreeMap::new();
    let mut todo: Vec<usize> = vec![];
    let mut seen = BTreeSet::new();
    for (i, c) in canon.iter().enumerate() {
        if cached.contains_key(c) || !seen.insert(c.clone()) {
            continue;
        }
        match std::fs::read_to_string(cache_path(&tree, c)) {
            Ok(s) if s.split('\t').count() == 5 => {
                cached.insert(c.clone(), s.trim_end().to_string());
            }
            _ => todo.push(i),
        }
    }
    if !todo.is_empty() {
        let batch: Vec<(usize, &Def)> = todo.iter().map(|i| (*i, &defs[*i])).collect();
        for chunk in batch.chunks(400) {
            for (i, line) in observe(chunk) {
                write_if_changed(&cache_path(&tree, &canon[i]), &line);
                cached.insert(canon[i].clone(), line);
            }
        }
    }
    canon
        .iter()
        .map(|c| {
            let f: Vec<&str> = cached[c].split('\t').collect();
            Case {
                cfg: f[0].to_string(),
                ops: f[1].to_string(),
                obs: f[2].to_string(),
                tags: f[3].split(',').filter(|t| !t.is_empty()).map(|t| t.to_string()).collect(),
                nops: f[4].parse().unwrap_or(0),
            }
        })
        .collect()
}

fn observe(defs: &[(usize, &Def)]) -> Vec<(usize, String)> {
    let verdicts = phase_check(defs);
    let accepted: Vec<(usize, &Def)> = defs.iter().filter(|(k, _)| !verdicts[k].rejected).cloned().collect();
    let (expansions, runs) = std::thread::scope(|s| {
        let e = s.spawn(|| phase_expand(defs, &verdicts));
        let r = s.spawn(|| phase_run(&accepted));
        (e.join().unwrap_or_else(|_| die("expansion thread died")), r.join().unwrap_or_else(|_| die("runner thread died")))
    });
    let mut out = vec![];
    for (k, d) in defs {
        let v = &verdicts[k];
        let compiled = !v.rejected;
        let calls = if compiled { calls_of(d) } else { vec![] };
        let expanded = match expansions.get(k) {
            Some(Ok(a)) => format!("(Some {})", a.term),
            Some(Err(why)) => {
                // reported as a disagreement with the model (which says "compiled"), not as a verdict
                eprintln!("c17: expansion of `{}` has an unexpected shape: {why}", show(d));
                "None".to_string()
            }
            None => "None".to_string(),
        };
        let errs: Vec<u64> = v.messages.iter().filter_map(|m| error_class(m)).collect();
        let ro = runs.get(k).cloned().unwrap_or_default();
        let run_terms: Vec<String> = (0..calls.len())
            .map(|j| match ro.runs.get(&j) {
                Some((l, n, r)) => run_obs_coq(l, n, r),
                None => "None".to_string(),
            })
            .collect();
        let wrong: Vec<String> = ro.wrong.iter().map(|(m, c)| format!("({}, {c})", coq_str(m))).collect();
        let obs = format!(
            "(Obs {expanded} {compiled} {} {} {})",
            coq_nums(&errs),
            coq_list(&run_terms),
            coq_list(&wrong)
        );
        let line = format!(
            "{}\t{}\t{}\t{}\t{}",
            def_coq(d),
            calls_coq(d, &calls),
            obs,
            tags_of(d, v, compiled).join(","),
            d.methods.len() + d.methods.iter().map(|m| m.args.len()).sum::<usize>()
        );
        out.push((*k, line));
    }
    out
}
