//! C07: deadlines propagate across hops without stretching.
//!
//! Scripts:  `codec=<json|bincode|chan>,hops=<1..3>,sub=<none|otel>,via=<ctx|cur>|tok …`
//!   C<ns>   the root caller issues a call with deadline now + ns (queued in client 1)
//!   A<ms>   virtual time advances
//!   S<k>    client k's dispatch is polled: queued calls are serialised now and are then in transit on link k
//!   J<k>    (json) a hand-written request WITHOUT a deadline is put in transit on link k
//!   R<k>    (first time only) what is in transit on link k reaches server k: decoded now, the handler
//!           records ctx.deadline and makes a nested call with that context on client k+1
//! Real code: client::new + BaseChannel::requests + InFlightRequest::execute for every hop, over
//! tarpc::serde_transport (JSON / bincode) or transport::channel::unbounded; the links are byte
//! queues the script moves. via=cur: the handler uses context::current() (needs the OpenTelemetry
//! layer, sub=otel) instead of the context it was given.
use crate::c16::LivePipe;
use crate::exec::{coq_list, Case};
use crate::rng::Rng;
use crate::vclock;
use futures::{Future, Stream, StreamExt};
use std::cell::RefCell;
use std::panic::{catch_unwind, AssertUnwindSafe};
use std::pin::Pin;
use std::rc::Rc;
use std::task::{Context, Poll};
use std::time::{Duration, Instant};
use tarpc::server::{BaseChannel, Channel as _, InFlightRequest};
use tarpc::{client, context, ClientMessage, Response};
use tokio_util::codec::{Framed, LengthDelimitedCodec};

#[derive(Clone, Debug, PartialEq)]
pub enum Cd {
    Json,
    Bincode,
    Chan,
}
#[derive(Clone, Debug, PartialEq)]
pub enum Tok {
    Call(u64),
    Advance(u64),
    Send(usize),
    Inject(usize),
    Recv(usize),
}
#[derive(Clone, Debug)]
pub struct Script {
    pub codec: Cd,
    pub hops: usize,
    pub otel: bool,
    pub cur: bool,
    pub toks: Vec<Tok>,
}

pub fn parse(line: &str) -> Option<Script> {
    let (cfg, rest) = line.trim().split_once('|')?;
    let mut s = Script { codec: Cd::Json, hops: 1, otel: false, cur: false, toks: vec![] };
    for kv in cfg.split(',') {
        let (k, v) = kv.split_once('=')?;
        match k {
            "codec" => s.codec = match v { "json" => Cd::Json, "bincode" => Cd::Bincode, "chan" => Cd::Chan, _ => return None },
            "hops" => s.hops = v.parse::<usize>().ok()?.clamp(1, 3),
            "sub" => s.otel = v == "otel",
            "via" => s.cur = v == "cur",
            _ => return None,
        }
    }
    for t in rest.split_whitespace() {
        let (h, a) = t.split_at(1);
        s.toks.push(match h {
            "C" => Tok::Call(a.parse().ok()?),
            "A" => Tok::Advance(a.parse().ok()?),
            "S" => Tok::Send(a.parse().ok()?),
            "J" => Tok::Inject(a.parse().ok()?),
            "R" => Tok::Recv(a.parse().ok()?),
            _ => return None,
        });
    }
    Some(s)
}

pub fn show(s: &Script) -> String {
    let toks: Vec<String> = s
        .toks
        .iter()
        .map(|t| match t {
            Tok::Call(n) => format!("C{n}"),
            Tok::Advance(n) => format!("A{n}"),
            Tok::Send(k) => format!("S{k}"),
            Tok::Inject(k) => format!("J{k}"),
            Tok::Recv(k) => format!("R{k}"),
        })
        .collect();
    format!(
        "codec={},hops={},sub={},via={}|{}",
        match s.codec { Cd::Json => "json", Cd::Bincode => "bincode", Cd::Chan => "chan" },
        s.hops,
        if s.otel { "otel" } else { "none" },
        if s.cur { "cur" } else { "ctx" },
        toks.join(" ")
    )
}

type Reqs = Pin<Box<dyn Stream<Item = Option<InFlightRequest<String, String>>>>>;
type Fut = Pin<Box<dyn Future<Output = ()>>>;

struct Link {
    client: client::Channel<String, String>,
    dispatch: Fut,
    requests: Reqs,
    /// serde links: (client side pipe, server side pipe); None for the in-memory transport
    pipes: Option<(LivePipe, LivePipe)>,
    in_transit: Vec<Vec<u8>>,
    delivered: bool,
}

macro_rules! serde_link {
    ($codec:ident) => {{
        type CM = ClientMessage<String>;
        type RS = Response<String>;
        let pc = LivePipe::new();
        let ps = LivePipe::new();
        let ct: tarpc::serde_transport::Transport<LivePipe, RS, CM, tokio_serde::formats::$codec<RS, CM>> =
            tarpc::serde_transport::new(
                Framed::new(pc.clone(), LengthDelimitedCodec::new()),
                tokio_serde::formats::$codec::<RS, CM>::default(),
            );
        let st: tarpc::serde_transport::Transport<LivePipe, CM, RS, tokio_serde::formats::$codec<CM, RS>> =
            tarpc::serde_transport::new(
                Framed::new(ps.clone(), LengthDelimitedCodec::new()),
                tokio_serde::formats::$codec::<CM, RS>::default(),
            );
        let client::NewClient { client, dispatch } = client::new::<String, String, _>(client::Config::default(), ct);
        let requests: Reqs = Box::pin(BaseChannel::with_defaults(st).requests().map(|r| r.ok()));
        Link {
            client,
            dispatch: Box::pin(async move {
                let _ = dispatch.await;
            }),
            requests,
            pipes: Some((pc, ps)),
            in_transit: vec![],
            delivered: false,
        }
    }};
}

fn chan_link() -> Link {
    let (ct, st) = tarpc::transport::channel::unbounded::<Response<String>, ClientMessage<String>>();
    let client::NewClient { client, dispatch } = client::new::<String, String, _>(client::Config::default(), ct);
    let requests: Reqs = Box::pin(BaseChannel::with_defaults(st).requests().map(|r| r.ok()));
    Link {
        client,
        dispatch: Box::pin(async move {
            let _ = dispatch.await;
        }),
        requests,
        pipes: None,
        in_transit: vec![],
        delivered: false,
    }
}

/// (secs, nanos) of the deadline member of a request frame, decoded without tarpc
fn wire_deadline(codec: &Cd, f: &[u8]) -> Option<(u64, u64)> {
    match codec {
        Cd::Json => {
            let v = serde_json::from_slice::<serde_json::Value>(f).ok()?;
            let d = v.get("Request")?.get("context")?.get("deadline")?;
            Some((d.get("secs")?.as_u64()?, d.get("nanos")?.as_u64()?))
        }
        Cd::Bincode => {
            use bincode::Options;
            #[derive(serde::Deserialize)]
            struct Ctx {
                deadline: Duration,
                #[allow(dead_code)]
                trace_context: tarpc::trace::Context,
            }
            #[derive(serde::Deserialize)]
            struct Rq {
                context: Ctx,
                #[allow(dead_code)]
                id: u64,
                #[allow(dead_code)]
                message: String,
            }
            #[derive(serde::Deserialize)]
            enum Msg {
                Request(Rq),
                #[allow(dead_code)]
                Cancel { trace_context: tarpc::trace::Context, request_id: u64 },
            }
            match bincode::DefaultOptions::new().deserialize::<Msg>(f) {
                Ok(Msg::Request(r)) => Some((r.context.deadline.as_secs(), r.context.deadline.subsec_nanos() as u64)),
                _ => None,
            }
        }
        Cd::Chan => None,
    }
}

/// a hand-written request with NO deadline member; ids are distinct from the clients' (which count from 0)
fn no_deadline_json(n: u64) -> Vec<u8> {
    format!(
        r#"{{"Request":{{"context":{{"trace_context":{{"trace_id":[9,0,0,0,0,0,0,0,0,0,0,0,0,0,0,0],"span_id":4,"sampling_decision":"Sampled"}}}},"id":{},"message":"injected"}}}}"#,
        4_000_000_000u64 + n
    )
    .into_bytes()
}

fn run_impl(s: &Script) -> (Vec<Vec<String>>, Vec<String>) {
    vclock::reset();
    let rt = vclock::runtime();
    let _g = rt.enter();
    let origin = Instant::now();
    let waker = futures::task::noop_waker();
    let mut cx = Context::from_waker(&waker);
    let mut links: Vec<Link> = (0..s.hops)
        .map(|_| match s.codec {
            Cd::Json => serde_link!(Json),
            Cd::Bincode => serde_link!(Bincode),
            Cd::Chan => chan_link(),
        })
        .collect();
    let seen: Rc<RefCell<Vec<(usize, i128)>>> = Rc::new(RefCell::new(vec![]));
    let mut handlers: Vec<Fut> = vec![];
    let mut root_calls: Vec<Fut> = vec![];
    let mut injected = 0u64;
    let mut obs: Vec<Vec<String>> = vec![];
    let mut tags: Vec<String> = vec![];
    let use_cur = s.cur && s.otel;
    for t in &s.toks {
        let mut o: Vec<String> = vec![];
        let r = catch_unwind(AssertUnwindSafe(|| {
            let mut o: Vec<String> = vec![];
            match t {
                Tok::Call(ns) => {
                    if let Some(deadline) = Instant::now().checked_add(Duration::from_nanos(*ns)) {
                        let ctx = crate::wire::ctx_with(deadline, tarpc::trace::Context::default());
                        let c = links[0].client.clone();
                        let mut fut: Fut = Box::pin(async move {
                            let _ = c.call(ctx, "root".to_string()).await;
                        });
                        let _ = fut.as_mut().poll(&mut cx);
                        root_calls.push(fut);
                    }
                }
                Tok::Advance(ms) => {
                    if Instant::now().checked_add(Duration::from_millis(*ms)).is_some() && *ms < (1u64 << 50) {
                        vclock::advance(&rt, Duration::from_millis(*ms));
                    }
                }
                Tok::Send(k) => {
                    if *k >= 1 && *k <= links.len() {
                        let l = &mut links[*k - 1];
                        let _ = l.dispatch.as_mut().poll(&mut cx);
                        if let Some((pc, _)) = &l.pipes {
                            for f in pc.take_frames() {
                                if let Some((sc, nn)) = wire_deadline(&s.codec, &f) {
                                    o.push(format!("OSent {k} {sc} {nn}"));
                                }
                                l.in_transit.push(f);
                            }
                        }
                    }
                }
                Tok::Inject(k) => {
                    if s.codec == Cd::Json && *k >= 1 && *k <= links.len() && !links[*k - 1].delivered {
                        injected += 1;
                        links[*k - 1].in_transit.push(no_deadline_json(injected));
                    }
                }
                Tok::Recv(k) => {
                    if *k >= 1 && *k <= links.len() && !links[*k - 1].delivered {
                        links[*k - 1].delivered = true;
                        let frames: Vec<Vec<u8>> = links[*k - 1].in_transit.drain(..).collect();
                        if let Some((_, ps)) = &links[*k - 1].pipes {
                            for f in &frames {
                                ps.push_frame(f);
                            }
                        }
                        let next_client = links.get(*k).map(|l| l.client.clone());
                        loop {
                            match links[*k - 1].requests.as_mut().poll_next(&mut cx) {
                                Poll::Ready(Some(Some(req))) => {
                                    let seen2 = seen.clone();
                                    let nc = next_client.clone();
                                    let hop = *k;
                                    let fut = req.execute(tarpc::server::serve(move |ctx: context::Context, m: String| async move {
                                        let ctx = if use_cur { context::current() } else { ctx };
                                        let d = ctx.deadline;
                                        let rel: i128 = if d >= origin {
                                            d.duration_since(origin).as_nanos() as i128
                                        } else {
                                            -(origin.duration_since(d).as_nanos() as i128)
                                        };
                                        seen2.borrow_mut().push((hop, rel));
                                        if let Some(c) = nc {
                                            let _ = c.call(ctx, m).await;
                                        }
                                        futures::future::pending::<()>().await;
                                        Ok::<String, tarpc::ServerError>(String::new())
                                    }));
                                    let mut fut: Fut = Box::pin(fut);
                                    let _ = fut.as_mut().poll(&mut cx);
                                    handlers.push(fut);
                                }
                                Poll::Ready(Some(None)) | Poll::Ready(None) | Poll::Pending => break,
                            }
                        }
                        for (h, rel) in seen.borrow_mut().drain(..) {
                            o.push(format!("OHandler {h} ({rel})"));
                        }
                    }
                }
            }
            o
        }));
        match r {
            Ok(x) => o = x,
            Err(_) => {
                o.push("OErr".into());
                tags.push("panic".into());
            }
        }
        obs.push(o);
    }
    let _ = catch_unwind(AssertUnwindSafe(|| {
        drop(handlers);
        drop(root_calls);
        drop(links);
    }));
    (obs, tags)
}

pub fn to_case(s: &Script) -> Case {
    let run = || run_impl(s);
    let (obs, mut tags) = if s.otel {
        use opentelemetry::trace::TracerProvider as _;
        use tracing_subscriber::layer::SubscriberExt;
        let provider = opentelemetry_sdk::trace::TracerProvider::builder().build();
        let tracer = provider.tracer("tarpc-verif");
        let sub = tracing_subscriber::registry().with(tracing_opentelemetry::layer().with_tracer(tracer));
        let r = tracing::subscriber::with_default(sub, run);
        tracing::callsite::rebuild_interest_cache();
        r
    } else {
        run()
    };
    let ops: Vec<String> = s
        .toks
        .iter()
        .map(|t| match t {
            Tok::Call(n) => format!("Call {n}"),
            Tok::Advance(n) => format!("Advance {n}"),
            Tok::Send(k) => format!("Send {k}"),
            Tok::Inject(k) => format!("Inject {k}"),
            Tok::Recv(k) => format!("Recv {k}"),
        })
        .collect();
    // scenario tags
    let mut now_ms: u128 = 0;
    let mut root_deadline: Option<u128> = None;
    let mut delivered = 0usize;
    for t in &s.toks {
        match t {
            Tok::Advance(ms) => {
                now_ms += *ms as u128;
                if *ms > 0 {
                    tags.push("transit-delay".into());
                }
            }
            Tok::Call(ns) => {
                root_deadline = Some(now_ms * 1_000_000 + *ns as u128);
                if *ns == 0 {
                    tags.push("zero-remaining".into());
                } else if *ns < 1_000_000 {
                    tags.push("sub-millisecond".into());
                } else if *ns >= 31_536_000_000_000_000 {
                    tags.push("years".into());
                }
            }
            Tok::Send(_) => {
                if let Some(d) = root_deadline {
                    if now_ms * 1_000_000 > d {
                        tags.push("sent-after-expiry".into());
                    }
                }
            }
            Tok::Inject(_) if s.codec == Cd::Json => tags.push("deadline-omitted".into()),
            Tok::Recv(_) => delivered += 1,
            _ => {}
        }
    }
    if obs.iter().flatten().filter(|o| o.starts_with("OHandler")).count() >= 2 && delivered >= 2 {
        tags.push("multi-hop".into());
    }
    if obs.iter().flatten().any(|o| o.starts_with("OHandler 3")) {
        tags.push("three-hops".into());
    }
    tags.push(match s.codec { Cd::Json => "json".into(), Cd::Bincode => "bincode".into(), Cd::Chan => "chan".into() });
    if s.otel {
        tags.push(if s.cur { "otel-context-current".into() } else { "otel".into() });
    }
    tags.sort();
    tags.dedup();
    let cfg = format!(
        "{{| lcodec_of := {}; hops := {} |}}",
        match s.codec { Cd::Json => "LJson", Cd::Bincode => "LBincode", Cd::Chan => "LChan" },
        s.hops
    );
    let obs_items: Vec<String> = obs.iter().map(|l| coq_list(l)).collect();
    Case { cfg, ops: coq_list(&ops), obs: coq_list(&obs_items), tags, nops: s.toks.len() }
}

const REMS: [u64; 14] = [
    0, 1, 999, 1_000_000, 999_999_999, 1_000_000_000, 1_000_000_001, 10_000_000_000, 3_600_000_000_000,
    86_400_000_000_000, 31_536_000_000_000_000, 94_608_000_000_000_000, 3_153_600_000_000_000_000, 9_000_000_000_000_000_000,
];
const DELAYS: [u64; 10] = [0, 1, 2, 7, 100, 999, 1000, 10_000, 3_600_000, 86_400_000];

pub fn gen(rng: &mut Rng) -> Script {
    let codec = match rng.below(5) { 0 | 1 => Cd::Json, 2 | 3 => Cd::Bincode, _ => Cd::Chan };
    let hops = rng.range(1, 3) as usize;
    let otel = rng.chance(1, 3);
    let cur = otel && rng.chance(1, 2);
    let mut toks = vec![];
    let adv = |rng: &mut Rng, toks: &mut Vec<Tok>| {
        if rng.chance(3, 4) {
            toks.push(Tok::Advance(*rng.pick(&DELAYS)));
        }
    };
    let rem = *rng.pick(&REMS);
    adv(rng, &mut toks);
    toks.push(Tok::Call(rem));
    // a third of the scripts let the deadline pass before some hop is sent
    let late_hop = if rng.chance(1, 3) { Some(rng.range(1, hops as u64) as usize) } else { None };
    for k in 1..=hops {
        if late_hop == Some(k) && rem < 86_400_000_000_000 {
            toks.push(Tok::Advance(rem / 1_000_000 + *rng.pick(&[1u64, 2, 1000])));
        } else {
            adv(rng, &mut toks);
        }
        if codec == Cd::Json && rng.chance(1, 4) {
            toks.push(Tok::Inject(k));
        }
        toks.push(Tok::Send(k));
        adv(rng, &mut toks);
        if codec == Cd::Json && rng.chance(1, 5) {
            toks.push(Tok::Inject(k));
        }
        toks.push(Tok::Recv(k));
    }
    Script { codec, hops, otel, cur, toks }
}

pub fn sweep(mut f: impl FnMut(Script)) {
    // every remaining time x every pair of transit delays x every codec, 2 hops; and the
    // "sent one tick before / at / after the deadline" triple for ms-valued deadlines
    for codec in [Cd::Json, Cd::Bincode, Cd::Chan] {
        for &rem in &REMS {
            for &d1 in &DELAYS[..7] {
                for &d2 in &[0u64, 1, 1000] {
                    f(Script { codec: codec.clone(), hops: 2, otel: false, cur: false,
                               toks: vec![Tok::Call(rem), Tok::Advance(d1), Tok::Send(1), Tok::Advance(d2), Tok::Recv(1),
                                          Tok::Advance(d1), Tok::Send(2), Tok::Advance(d2), Tok::Recv(2)] });
                }
            }
        }
        for ms in [1u64, 5, 1000] {
            for off in [0u64, 1, 2] {
                f(Script { codec: codec.clone(), hops: 3, otel: false, cur: false,
                           toks: vec![Tok::Call(ms * 1_000_000), Tok::Send(1), Tok::Recv(1), Tok::Advance(ms - 1 + off), Tok::Send(2),
                                      Tok::Advance(3), Tok::Recv(2), Tok::Send(3), Tok::Recv(3)] });
            }
        }
    }
}
