//! C14, part `seq` (monitor only): the real client dispatch over a transport whose answers are
//! scripted PER CALL (the k-th poll_ready / start_send / poll_flush / poll_next answers what the
//! script says, whatever happened in between), so that answer sequences inside ONE dispatch poll
//! that the remote-controlled transport of the `client` part cannot produce are reached - e.g.
//! poll_ready: Pending, then (after the flush) Err.  The per-poll call log is judged by the
//! contract monitor `Transport.contract_ok`, which `C14_client_contract` proves the model satisfies
//! over EVERY transport.
//!
//! Script: `rd=<answers>,fl=<answers>,sn=<answers>,nx=<answers>|C C X0 D D ...` with answers a string
//! over o (Ok) / p (Pending) / e (Err) - for nx: p (Pending) / e (Err) / f (end of stream) -, one
//! letter per call of that method, then Ok (nx: Pending) for ever; ops: C new call (first polled
//! at once), X<i> drop call i, D poll the dispatch.
use crate::exec::{coq_list, Case};
use crate::rng::Rng;
use futures::{Sink, Stream};
use std::cell::RefCell;
use std::collections::VecDeque;
use std::future::Future;
use std::io;
use std::pin::Pin;
use std::rc::Rc;
use std::task::{Context, Poll};
use std::time::{Duration, Instant};
use tarpc::client::{self, RpcError};
use tarpc::{context, ClientMessage, Response};

#[derive(Clone)]
pub enum Op {
    Call,
    Drop(usize),
    PollD,
}

pub struct Script {
    pub rd: String,
    pub fl: String,
    pub sn: String,
    pub nx: String,
    pub ops: Vec<Op>,
}

pub fn parse(line: &str) -> Option<Script> {
    let (cfg, rest) = line.trim().split_once('|')?;
    let mut s = Script { rd: String::new(), fl: String::new(), sn: String::new(), nx: String::new(), ops: vec![] };
    for kv in cfg.split(',') {
        let (k, v) = kv.trim().split_once('=')?;
        let v = v.to_string();
        match k {
            "rd" => s.rd = v,
            "fl" => s.fl = v,
            "sn" => s.sn = v,
            "nx" => s.nx = v,
            _ => return None,
        }
    }
    for t in rest.split_whitespace() {
        s.ops.push(match t.split_at(1) {
            ("C", "") => Op::Call,
            ("D", "") => Op::PollD,
            ("X", a) => Op::Drop(a.parse().ok()?),
            _ => return None,
        });
    }
    Some(s)
}

pub fn show(s: &Script) -> String {
    let ops: Vec<String> = s
        .ops
        .iter()
        .map(|o| match o {
            Op::Call => "C".into(),
            Op::PollD => "D".into(),
            Op::Drop(i) => format!("X{i}"),
        })
        .collect();
    format!("rd={},fl={},sn={},nx={}|{}", s.rd, s.fl, s.sn, s.nx, ops.join(" "))
}

struct Inner {
    rd: VecDeque<char>,
    fl: VecDeque<char>,
    sn: VecDeque<char>,
    nx: VecDeque<char>,
    log: Vec<String>,
    calls: usize,
}

#[derive(Clone)]
struct SeqT(Rc<RefCell<Inner>>);

fn e() -> io::Error {
    io::Error::new(io::ErrorKind::Other, "scripted")
}

fn tres(i: &mut Inner, q: char, name: &str, cx: &mut Context<'_>) -> Poll<io::Result<()>> {
    i.calls += 1;
    match q {
        'p' => {
            i.log.push(format!("{name} TPending"));
            cx.waker().wake_by_ref();
            Poll::Pending
        }
        'e' => {
            i.log.push(format!("{name} TErr"));
            Poll::Ready(Err(e()))
        }
        _ => {
            i.log.push(format!("{name} TOk"));
            Poll::Ready(Ok(()))
        }
    }
}

impl Sink<ClientMessage<u64>> for SeqT {
    type Error = io::Error;
    fn poll_ready(self: Pin<&mut Self>, cx: &mut Context<'_>) -> Poll<io::Result<()>> {
        let mut i = self.0.borrow_mut();
        let q = i.rd.pop_front().unwrap_or('o');
        tres(&mut i, q, "CReady", cx)
    }
    fn start_send(self: Pin<&mut Self>, m: ClientMessage<u64>) -> io::Result<()> {
        let mut i = self.0.borrow_mut();
        i.calls += 1;
        let cancel = matches!(m, ClientMessage::Cancel { .. });
        let q = i.sn.pop_front().unwrap_or('o');
        if q == 'e' {
            i.log.push(format!("CSend {cancel} SErr"));
            Err(e())
        } else {
            i.log.push(format!("CSend {cancel} SOk"));
            Ok(())
        }
    }
    fn poll_flush(self: Pin<&mut Self>, cx: &mut Context<'_>) -> Poll<io::Result<()>> {
        let mut i = self.0.borrow_mut();
        let q = i.fl.pop_front().unwrap_or('o');
        tres(&mut i, q, "CFlush", cx)
    }
    fn poll_close(self: Pin<&mut Self>, cx: &mut Context<'_>) -> Poll<io::Result<()>> {
        let mut i = self.0.borrow_mut();
        tres(&mut i, 'o', "CClose", cx)
    }
}

impl Stream for SeqT {
    type Item = io::Result<Response<u64>>;
    fn poll_next(self: Pin<&mut Self>, cx: &mut Context<'_>) -> Poll<Option<Self::Item>> {
        let mut i = self.0.borrow_mut();
        i.calls += 1;
        match i.nx.pop_front().unwrap_or('p') {
            'e' => {
                i.log.push("CNext RErr".into());
                Poll::Ready(Some(Err(e())))
            }
            'f' => {
                i.log.push("CNext REof".into());
                Poll::Ready(None)
            }
            _ => {
                i.log.push("CNext RPending".into());
                let _ = cx;
                Poll::Pending
            }
        }
    }
}

type CallFut = Pin<Box<dyn Future<Output = Result<u64, RpcError>>>>;

pub fn run_impl(s: &Script) -> (Vec<String>, Vec<String>) {
    let rt = tokio::runtime::Builder::new_current_thread().enable_time().build().expect("runtime");
    let _g = rt.enter();
    let inner = Rc::new(RefCell::new(Inner {
        rd: s.rd.chars().collect(),
        fl: s.fl.chars().collect(),
        sn: s.sn.chars().collect(),
        nx: s.nx.chars().collect(),
        log: vec![],
        calls: 0,
    }));
    let nc = client::new::<u64, u64, _>(client::Config::default(), SeqT(inner.clone()));
    let chan = nc.client;
    let mut dispatch = Some(Box::pin(nc.dispatch));
    let waker = futures::task::noop_waker();
    let mut cx = Context::from_waker(&waker);
    let mut calls: Vec<Option<CallFut>> = vec![];
    let mut polls: Vec<String> = vec![];
    let mut tags: std::collections::BTreeSet<String> = Default::default();
    for op in &s.ops {
        match op {
            Op::Call => {
                let ch = chan.clone();
                let mut ctx = context::current();
                ctx.deadline = Instant::now() + Duration::from_secs(3600);
                let body = calls.len() as u64;
                let mut f: CallFut = Box::pin(async move { ch.call(ctx, body).await });
                if f.as_mut().poll(&mut cx).is_pending() {
                    calls.push(Some(f));
                } else {
                    calls.push(None);
                }
            }
            Op::Drop(i) => {
                if let Some(c) = calls.get_mut(*i) {
                    *c = None;
                }
            }
            Op::PollD => {
                if let Some(d) = dispatch.as_mut() {
                    inner.borrow_mut().log.clear();
                    let r = std::panic::catch_unwind(std::panic::AssertUnwindSafe(|| d.as_mut().poll(&mut cx)));
                    let log = std::mem::take(&mut inner.borrow_mut().log);
                    let (pending, done) = match r {
                        Ok(Poll::Pending) => (true, false),
                        Ok(Poll::Ready(_)) => (false, true),
                        Err(_) => {
                            tags.insert("panic".into());
                            (false, true)
                        }
                    };
                    for c in &log {
                        if c.ends_with("TErr") || c.ends_with("SErr") || c.ends_with("RErr") {
                            tags.insert("fault-hit".into());
                        }
                    }
                    if log.iter().any(|c| c == "CReady TPending") && log.iter().any(|c| c == "CReady TErr") {
                        tags.insert("ready:pending-then-err-in-one-poll".into());
                    }
                    polls.push(format!("({}, {})", coq_list(&log), pending));
                    if done {
                        dispatch = None;
                        tags.insert("dispatch-ended".into());
                    }
                }
            }
        }
    }
    drop(calls);
    (polls, tags.into_iter().collect())
}

pub fn to_case(s: &Script) -> Case {
    let (polls, tags) = run_impl(s);
    Case { cfg: "tt".into(), ops: "tt".into(), obs: coq_list(&polls), tags, nops: s.ops.len() }
}

fn answers(rng: &mut Rng, letters: &[char], max: u64) -> String {
    let n = rng.below(max + 1);
    (0..n).map(|_| *rng.pick(letters)).collect()
}

pub fn gen(rng: &mut Rng) -> Script {
    let mut ops = vec![];
    let n = rng.range(3, 14);
    let mut ncalls = 0usize;
    for _ in 0..n {
        match rng.weighted(&[35, 20, 45]) {
            0 => {
                ops.push(Op::Call);
                ncalls += 1;
            }
            1 if ncalls > 0 => ops.push(Op::Drop(rng.below(ncalls as u64) as usize)),
            _ => ops.push(Op::PollD),
        }
    }
    ops.push(Op::PollD);
    Script {
        rd: answers(rng, &['o', 'o', 'p', 'p', 'e'], 6),
        fl: answers(rng, &['o', 'o', 'o', 'p', 'e'], 5),
        sn: answers(rng, &['o', 'o', 'o', 'e'], 4),
        nx: answers(rng, &['p', 'p', 'p', 'e', 'f'], 4),
        ops,
    }
}

/// every answer string of length <= 3 for poll_ready x length <= 2 for poll_flush, over two op lists
pub fn sweep(mut f: impl FnMut(Script)) {
    let mut strs = vec![String::new()];
    for len in 1..=3 {
        let mut idx = vec![0usize; len];
        'outer: loop {
            strs.push(idx.iter().map(|&i| ['o', 'p', 'e'][i]).collect());
            let mut p = 0;
            loop {
                if p == len {
                    break 'outer;
                }
                idx[p] += 1;
                if idx[p] < 3 {
                    break;
                }
                idx[p] = 0;
                p += 1;
            }
        }
    }
    let opl = [
        vec![Op::Call, Op::PollD, Op::PollD, Op::PollD],
        vec![Op::Call, Op::PollD, Op::Drop(0), Op::PollD, Op::PollD, Op::Call, Op::PollD, Op::PollD],
    ];
    for rd in &strs {
        for fl in strs.iter().filter(|s| s.len() <= 2) {
            for ops in &opl {
                f(Script { rd: rd.clone(), fl: fl.clone(), sn: String::new(), nx: String::new(), ops: ops.clone() });
            }
        }
    }
}
