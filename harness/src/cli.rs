//! Client driver: runs the real `client::new` / `Channel::call` / `RequestDispatch` on scripted
//! operation sequences over the scripted transport, under virtual time, and prints one
//! observation list per op as Coq terms (see coq/Client.v, coq/ClientS.v).
use crate::exec::{coq_list, Case, TaskWaker};
use crate::rng::Rng;
use crate::stransport::{coq_calls, BudgetExceeded, Method, STransport};
use crate::vclock;
use std::cell::RefCell;
use std::collections::{BTreeMap, BTreeSet};
use std::future::Future;
use std::io;
use std::panic::{catch_unwind, AssertUnwindSafe};
use std::pin::Pin;
use std::rc::Rc;
use std::task::{Context, Poll};
use std::time::{Duration, Instant};
use tarpc::client::{self, RpcError};
use tarpc::{context, trace, ChannelError, ClientMessage, Response, ServerError};

// ------------------------------------------------------------------------------------ script

#[derive(Clone, Debug, PartialEq)]
pub enum Op {
    Clone(usize),
    DropH(usize),
    Call { h: usize, d: u64, tid: u64, sampled: bool, body: u64 },
    PollCall(usize),
    DropCall(usize),
    GClose(usize),
    GCancel(usize),
    PollD,
    DropD,
    Adv(u64),
    Deliver(u64, u64),
    DeliverErr(u64, u64),
    Eof,
    SetReady(bool),
    SetFlush(bool),
    SetClose(bool),
    Fail(Method),
    Drain(usize),
    /// wake-driven mode: poll every task whose waker fired until none is woken
    Settle,
}

#[derive(Clone, Debug)]
pub struct Cfg {
    pub qcap: usize,
    pub maxif: usize,
    pub cap: usize,
    pub coupled: bool,
}

pub struct Script {
    pub cfg: Cfg,
    pub ops: Vec<Op>,
}

pub fn parse(line: &str) -> Option<Script> {
    let (cfg, rest) = line.trim().split_once('|')?;
    let mut c = Cfg { qcap: 2, maxif: 2, cap: 0, coupled: true };
    for kv in cfg.split(',') {
        let (k, v) = kv.trim().split_once('=')?;
        let v: usize = v.parse().ok()?;
        match k {
            "q" => c.qcap = v.max(1),
            "m" => c.maxif = v,
            "c" => c.cap = v,
            "k" => c.coupled = v != 0,
            _ => return None,
        }
    }
    let mut ops = vec![];
    for t in rest.split_whitespace() {
        ops.push(parse_tok(t)?);
    }
    Some(Script { cfg: c, ops })
}

fn parse_tok(t: &str) -> Option<Op> {
    let (h, a) = t.split_at(1);
    let nums = |s: &str| -> Option<Vec<u64>> { s.split(':').map(|x| x.parse().ok()).collect() };
    Some(match h {
        "H" => Op::Clone(a.parse().ok()?),
        "h" => Op::DropH(a.parse().ok()?),
        "C" => {
            let v = nums(a)?;
            if v.len() != 5 {
                return None;
            }
            Op::Call { h: v[0] as usize, d: v[1], tid: v[2], sampled: v[3] != 0, body: v[4] }
        }
        "P" => Op::PollCall(a.parse().ok()?),
        "X" => Op::DropCall(a.parse().ok()?),
        "K" => Op::GClose(a.parse().ok()?),
        "L" => Op::GCancel(a.parse().ok()?),
        "D" => Op::PollD,
        "Z" => Op::DropD,
        "A" => Op::Adv(a.parse().ok()?),
        "R" => {
            let v = nums(a)?;
            Op::Deliver(v[0], *v.get(1)?)
        }
        "E" => {
            let v = nums(a)?;
            Op::DeliverErr(v[0], *v.get(1)?)
        }
        "F" => Op::Eof,
        "r" => Op::SetReady(a == "1"),
        "f" => Op::SetFlush(a == "1"),
        "c" => Op::SetClose(a == "1"),
        "!" => Op::Fail(match a {
            "r" => Method::Ready,
            "s" => Method::Send,
            "f" => Method::Flush,
            "c" => Method::Close,
            "n" => Method::Next,
            _ => return None,
        }),
        "d" => Op::Drain(a.parse().ok()?),
        "S" => Op::Settle,
        _ => return None,
    })
}

pub fn show_op(o: &Op) -> String {
    match o {
        Op::Clone(h) => format!("H{h}"),
        Op::DropH(h) => format!("h{h}"),
        Op::Call { h, d, tid, sampled, body } => format!("C{h}:{d}:{tid}:{}:{body}", *sampled as u8),
        Op::PollCall(i) => format!("P{i}"),
        Op::DropCall(i) => format!("X{i}"),
        Op::GClose(i) => format!("K{i}"),
        Op::GCancel(i) => format!("L{i}"),
        Op::PollD => "D".into(),
        Op::DropD => "Z".into(),
        Op::Adv(d) => format!("A{d}"),
        Op::Deliver(i, v) => format!("R{i}:{v}"),
        Op::DeliverErr(i, k) => format!("E{i}:{k}"),
        Op::Eof => "F".into(),
        Op::SetReady(b) => format!("r{}", *b as u8),
        Op::SetFlush(b) => format!("f{}", *b as u8),
        Op::SetClose(b) => format!("c{}", *b as u8),
        Op::Fail(m) => format!(
            "!{}",
            match m {
                Method::Ready => "r",
                Method::Send => "s",
                Method::Flush => "f",
                Method::Close => "c",
                Method::Next => "n",
            }
        ),
        Op::Drain(k) => format!("d{k}"),
        Op::Settle => "S".into(),
    }
}

pub fn show(s: &Script) -> String {
    let toks: Vec<String> = s.ops.iter().map(show_op).collect();
    format!(
        "q={},m={},c={},k={}|{}",
        s.cfg.qcap, s.cfg.maxif, s.cfg.cap, s.cfg.coupled as u8,
        toks.join(" ")
    )
}

fn coq_op(o: &Op) -> String {
    let b = |x: bool| if x { "true" } else { "false" };
    match o {
        Op::Clone(h) => format!("SClone {h}"),
        Op::DropH(h) => format!("SDropH {h}"),
        Op::Call { h, d, tid, sampled, body } => format!("SCall {h} {d} {tid} {} {body}", b(*sampled)),
        Op::PollCall(i) => format!("SPollCall {i}"),
        Op::DropCall(i) => format!("SDropCall {i}"),
        Op::GClose(i) => format!("SGClose {i}"),
        Op::GCancel(i) => format!("SGCancel {i}"),
        Op::PollD => "SPollD".into(),
        Op::DropD => "SDropD".into(),
        Op::Adv(d) => format!("SAdv {d}"),
        Op::Deliver(i, v) => format!("STr (TDeliver (mkresp {i} (BOk {v})))"),
        Op::DeliverErr(i, k) => format!("STr (TDeliver (mkresp {i} (BErr {k})))"),
        Op::Eof => "STr TEof".into(),
        Op::SetReady(x) => format!("STr (TSetReady {})", b(*x)),
        Op::SetFlush(x) => format!("STr (TSetFlush {})", b(*x)),
        Op::SetClose(x) => format!("STr (TSetClose {})", b(*x)),
        Op::Fail(m) => format!(
            "STr (TFail {})",
            match m {
                Method::Ready => "MReady",
                Method::Send => "MSend",
                Method::Flush => "MFlush",
                Method::Close => "MClose",
                Method::Next => "MNext",
            }
        ),
        Op::Drain(k) => format!("STr (TDrain {k})"),
        Op::Settle => "SETTLE".into(),
    }
}

// ------------------------------------------------------------------------------------ running

/// what the scripted transport saw being written (span ids raw; canonicalised when printed)
#[derive(Clone, Debug)]
pub enum Sent {
    Req { id: u64, deadline_ms: u64, tid: u128, sid: u64, sampled: bool, body: u64 },
    Cancel { id: u64, tid: u128, sid: u64, sampled: bool },
}

#[derive(Clone, Debug)]
pub struct Recv {
    id: u64,
    body: Result<u64, u64>,
}

const KINDS: [io::ErrorKind; 18] = [
    io::ErrorKind::NotFound,
    io::ErrorKind::PermissionDenied,
    io::ErrorKind::ConnectionRefused,
    io::ErrorKind::ConnectionReset,
    io::ErrorKind::ConnectionAborted,
    io::ErrorKind::NotConnected,
    io::ErrorKind::AddrInUse,
    io::ErrorKind::AddrNotAvailable,
    io::ErrorKind::BrokenPipe,
    io::ErrorKind::AlreadyExists,
    io::ErrorKind::WouldBlock,
    io::ErrorKind::InvalidInput,
    io::ErrorKind::InvalidData,
    io::ErrorKind::TimedOut,
    io::ErrorKind::WriteZero,
    io::ErrorKind::Interrupted,
    io::ErrorKind::Other,
    io::ErrorKind::UnexpectedEof,
];

/// the span id an odd-bodied caller supplies
fn caller_span(body: u64) -> u64 {
    0x5eed_0000_0000_0000 + body
}

fn kind_code(k: io::ErrorKind) -> u64 {
    KINDS.iter().position(|x| *x == k).unwrap_or(16) as u64
}

type Tr = STransport<ClientMessage<u64>, Response<u64>, Sent, Recv>;
type Dispatch = client::RequestDispatch<u64, u64, Tr>;
type CallFut = Pin<Box<dyn Future<Output = Result<u64, RpcError>>>>;

struct CallSlot {
    fut: Option<CallFut>,
    waker: TaskWaker,
    polled: bool,
}

struct World {
    base: Instant,
    tr: Tr,
    handles: Vec<Option<client::Channel<u64, u64>>>,
    calls: Vec<CallSlot>,
    dispatch: Option<Pin<Box<Dispatch>>>,
    dwaker: TaskWaker,
    finished: bool,
    /// request id -> raw span id seen on the wire (for canonical naming)
    sid_of: BTreeMap<u64, u64>,
    tags: BTreeSet<String>,
    obs: Vec<Vec<String>>,
    /// the ops as they took effect (what the model is run on), parallel to `obs`
    eff: Vec<String>,
    any_closing: bool,
    /// requests written and not known to have ended: id -> absolute deadline (ms)
    pending: BTreeMap<u64, u64>,
    /// the order in which the DelayQueue hands out simultaneously due timers became observable
    ambiguous: bool,
}

/// `cliw run --order alt`: the second fair schedule of the wake-driven driver (C02, part wake-alt)
pub static ALT_ORDER: std::sync::atomic::AtomicBool = std::sync::atomic::AtomicBool::new(false);

fn outcome(r: &Result<u64, RpcError>) -> String {
    match r {
        Ok(v) => format!("OReply {v}"),
        Err(RpcError::Shutdown) => "OShutdown".into(),
        Err(RpcError::Send(_)) => "OSendErr".into(),
        Err(RpcError::DeadlineExceeded) => "ODeadline".into(),
        Err(RpcError::Server(e)) => format!("OSrvErr {}", kind_code(e.kind)),
        Err(RpcError::Channel(e)) => format!(
            "OConnErr {}",
            match e {
                ChannelError::Read(_) => "ARead",
                ChannelError::Ready(_) => "AReady",
                ChannelError::Write(_) => "AWrite",
                ChannelError::Flush(_) => "AFlush",
                ChannelError::Close(_) => "AClose",
            }
        ),
    }
}

fn tag_outcome(r: &Result<u64, RpcError>) -> &'static str {
    match r {
        Ok(_) => "done:reply",
        Err(RpcError::Shutdown) => "done:shutdown",
        Err(RpcError::Send(_)) => "done:senderr",
        Err(RpcError::DeadlineExceeded) => "done:deadline",
        Err(RpcError::Server(_)) => "done:srverr",
        Err(RpcError::Channel(_)) => "done:connerr",
    }
}

impl World {
    /// tokio-util's DelayQueue hands out simultaneously due timers in an order that depends on
    /// its wheel internals (slot stacks, cascades); the model uses a canonical order. The order is
    /// observable only if, inside one dispatch poll, an expiry happens while at least two
    /// requests are due and a response for one of them is read in a LATER iteration of the same
    /// poll (reads precede expiries within an iteration, cancels and requests precede expiries), or if
    /// the poll ENDS the dispatch after such an expiry (the calls left unexpired are then observable).
    /// Such a script is compared only up to that poll (over-approximation: a few more are cut).
    fn detect_timer_ambiguity(&mut self, log: &[crate::stransport::Call<Sent, Recv>], ended: bool) {
        use crate::stransport::{Call, NextRes};
        let now = vclock::now_ms().max(0) as u64;
        // iterations of the pump loop: (a message was written, ids due at its end, id read at its start)
        use crate::stransport::TRes;
        let errored = log.iter().any(|c| match c {
            Call::Ready(TRes::Err) | Call::Flush(TRes::Err) | Call::Close(TRes::Err) => true,
            Call::Send(_, ok) => !*ok,
            Call::Next(NextRes::Err) | Call::Next(NextRes::Eof) => true,
            _ => false,
        });
        let mut iters: Vec<(bool, Vec<u64>, Option<u64>)> = vec![(false, vec![], None)];
        let close_iter = |pending: &BTreeMap<u64, u64>, it: &mut (bool, Vec<u64>, Option<u64>)| {
            it.1 = pending.iter().filter(|(_, dl)| **dl <= now).map(|(i, _)| *i).collect();
        };
        for c in log {
            match c {
                Call::Next(n) => {
                    let mut last = iters.pop().unwrap();
                    close_iter(&self.pending, &mut last);
                    iters.push(last);
                    let read = if let NextRes::Item(r) = n { Some(r.id) } else { None };
                    if let Some(id) = read {
                        self.pending.remove(&id);
                    }
                    iters.push((false, vec![], read));
                }
                Call::Send(Sent::Req { id, deadline_ms, .. }, ok) => {
                    iters.last_mut().unwrap().0 = true;
                    if *ok {
                        self.pending.insert(*id, *deadline_ms);
                    }
                }
                Call::Send(Sent::Cancel { id, .. }, _) => {
                    iters.last_mut().unwrap().0 = true;
                    self.pending.remove(id);
                }
                _ => {}
            }
        }
        let mut last = iters.pop().unwrap();
        close_iter(&self.pending, &mut last);
        iters.push(last);
        for j in 0..iters.len() {
            if !iters[j].0 && iters[j].1.len() >= 2 {
                // the poll ended the dispatch (end of stream, panic), or ran into a failing transport call
                // (terminal error: what is still tracked then fails with that error instead of its deadline),
                // after an expiry with two or more due: the calls left unexpired show which timer came first
                if ended || errored {
                    self.ambiguous = true;
                }
                for later in &iters[j + 1..] {
                    if let Some(id) = later.2 {
                        if iters[j].1.contains(&id) {
                            self.ambiguous = true;
                        }
                    }
                }
            }
        }
        // whatever was due has expired by the end of the poll
        self.pending.retain(|_, dl| *dl > now);
    }

    fn show_sent(&mut self, m: &Sent) -> String {
        let b = |x: bool| if x { "true" } else { "false" };
        match m {
            Sent::Req { id, deadline_ms, tid, sid, sampled, body } => {
                // the span id drawn for this request is named after the request id - unless it
                // is not a fresh draw: the caller's own span id, or one already used on the wire
                let reused_caller = *sid == caller_span(*body) || *sid == 0;
                let reused_wire = self.sid_of.iter().any(|(i, s)| *i != *id && *s == *sid);
                self.sid_of.entry(*id).or_insert(*sid);
                let name = if reused_caller {
                    888_888
                } else if reused_wire {
                    777_777
                } else {
                    *id
                };
                format!("MReq {id} {deadline_ms} (mktc {tid} {name} {}) {body}", b(*sampled))
            }
            Sent::Cancel { id, tid, sid, sampled } => {
                let name = self
                    .sid_of
                    .iter()
                    .find(|(_, s)| **s == *sid)
                    .map(|(i, _)| *i)
                    .unwrap_or(999_999);
                format!("MCancel {id} (mktc {tid} {name} {})", b(*sampled))
            }
        }
    }

    fn poll_dispatch(&mut self) -> Vec<String> {
        let mut o = vec![];
        if self.finished || self.dispatch.is_none() {
            return o;
        }
        self.tr.reset_budget();
        self.tr.take_log();
        self.dwaker.take();
        let waker = self.dwaker.waker.clone();
        let mut cx = Context::from_waker(&waker);
        let d = self.dispatch.as_mut().unwrap();
        let r = catch_unwind(AssertUnwindSafe(|| d.as_mut().poll(&mut cx)));
        let mut log = self.tr.take_log();
        if let Err(p) = &r {
            if p.downcast_ref::<BudgetExceeded>().is_some() {
                // a poll that spins makes 10 000 calls: the first few say all there is to say
                log.truncate(40);
            }
        }
        let ended = !matches!(r, Ok(Poll::Pending));
        self.detect_timer_ambiguity(&log, ended);
        for c in &log {
            match c {
                crate::stransport::Call::Ready(crate::stransport::TRes::Pending) => {
                    self.tags.insert("sink-not-ready".into());
                }
                crate::stransport::Call::Send(Sent::Cancel { .. }, _) => {
                    self.tags.insert("wire-cancel".into());
                }
                crate::stransport::Call::Send(_, false) => {
                    self.tags.insert("send-failed".into());
                }
                _ => {}
            }
        }
        let shown: Vec<crate::stransport::Call<String, String>> = log
            .iter()
            .map(|c| match c {
                crate::stransport::Call::Ready(x) => crate::stransport::Call::Ready(*x),
                crate::stransport::Call::Send(m, ok) => crate::stransport::Call::Send(self.show_sent(m), *ok),
                crate::stransport::Call::Flush(x) => crate::stransport::Call::Flush(*x),
                crate::stransport::Call::Close(x) => crate::stransport::Call::Close(*x),
                crate::stransport::Call::Next(n) => crate::stransport::Call::Next(match n {
                    crate::stransport::NextRes::Item(r) => crate::stransport::NextRes::Item(format!(
                        "mkresp {} ({})",
                        r.id,
                        match r.body {
                            Ok(v) => format!("BOk {v}"),
                            Err(k) => format!("BErr {k}"),
                        }
                    )),
                    crate::stransport::NextRes::Err => crate::stransport::NextRes::Err,
                    crate::stransport::NextRes::Eof => crate::stransport::NextRes::Eof,
                    crate::stransport::NextRes::Pending => crate::stransport::NextRes::Pending,
                }),
            })
            .collect();
        o.push(format!("OCalls {}", coq_calls(&shown, |s| s.clone(), |r| r.clone())));
        match r {
            Err(p) => {
                if p.downcast_ref::<BudgetExceeded>().is_some() {
                    o.push("OSpin".into());
                    self.tags.insert("SPIN".into());
                } else {
                    o.push("OPanic".into());
                    self.tags.insert("PANIC".into());
                }
                // a dispatch that panicked is poisoned: never poll it again
                self.finished = true;
            }
            Ok(Poll::Pending) => o.push("ODisp DPending".into()),
            Ok(Poll::Ready(Ok(()))) => {
                o.push("ODisp (DReady DOk)".into());
                self.finished = true;
                self.tags.insert("dispatch:ok".into());
            }
            Ok(Poll::Ready(Err(e))) => {
                let a = match e {
                    ChannelError::Read(_) => "ARead",
                    ChannelError::Ready(_) => "AReady",
                    ChannelError::Write(_) => "AWrite",
                    ChannelError::Flush(_) => "AFlush",
                    ChannelError::Close(_) => "AClose",
                };
                o.push(format!("ODisp (DReady (DErr {a}))"));
                self.finished = true;
                self.tags.insert(format!("dispatch:err:{a}"));
            }
        }
        if let Some(d) = &self.dispatch {
            let (a, b) = d.verif_gauges();
            o.push(format!("OGauge {a} {b}"));
            if a >= 1 {
                self.tags.insert("in-flight>=1".into());
            }
        }
        o
    }

    fn poll_call(&mut self, i: usize) -> Vec<String> {
        let mut o = vec![];
        let Some(slot) = self.calls.get_mut(i) else { return o };
        let Some(fut) = slot.fut.as_mut() else { return o };
        slot.waker.take();
        slot.polled = true;
        let waker = slot.waker.waker.clone();
        let mut cx = Context::from_waker(&waker);
        let r = catch_unwind(AssertUnwindSafe(|| fut.as_mut().poll(&mut cx)));
        match r {
            Err(_) => {
                o.push("OPanic".into());
                self.tags.insert("PANIC".into());
                slot.fut = None;
            }
            Ok(Poll::Pending) => o.push("OCall CPending".into()),
            Ok(Poll::Ready(res)) => {
                o.push(format!("OCall (CDone ({}))", outcome(&res)));
                self.tags.insert(tag_outcome(&res).into());
                // the caller drops a finished future
                slot.fut = None;
            }
        }
        o
    }
}

impl World {
    /// Polls every task whose REAL waker fired, dispatch first, then calls in index order,
    /// until no task is woken. Returns one `WS ...` observation.
    fn settle(&mut self) -> String {
        let mut sent: Vec<String> = vec![];
        let mut read: Vec<String> = vec![];
        let mut done: Vec<String> = vec![];
        let mut disp = "None".to_string();
        let mut rounds = 0;
        loop {
            rounds += 1;
            if rounds > 2000 {
                self.tags.insert("SETTLE-DIVERGES".into());
                return "WFuel".into();
            }
            let mut any = false;
            let alt = ALT_ORDER.load(std::sync::atomic::Ordering::Relaxed);
            // phase 0 = the dispatch, phase 1 = the calls; the alternative schedule runs the calls first
            // (in descending index order) and the dispatch last
            for phase in if alt { [1, 0] } else { [0, 1] } {
            if phase == 0 && self.dispatch.is_some() && !self.finished && self.dwaker.woken() {
                any = true;
                let o = self.poll_dispatch();
                for x in &o {
                    if let Some(rest) = x.strip_prefix("OCalls [") {
                        // split the call list back into entries
                        let body = &rest[..rest.len() - 1];
                        for e in split_top(body) {
                            if let Some(m) = e.strip_prefix("CSend (") {
                                let (msg, r) = m.rsplit_once(") ").unwrap();
                                sent.push(format!("({msg}, {r})"));
                            } else if let Some(m) = e.strip_prefix("CNext (RItem (") {
                                read.push(m[..m.len() - 2].to_string());
                            }
                        }
                    } else if let Some(r) = x.strip_prefix("ODisp (DReady ") {
                        disp = format!("Some ({})", &r[..r.len() - 1]);
                    } else if x == "OPanic" || x == "OSpin" {
                        return "WFuel".into();
                    }
                }
            }
            let n = self.calls.len();
            for j in 0..(if phase == 1 { n } else { 0 }) {
                let i = if alt { n - 1 - j } else { j };
                let woken = self.calls[i].fut.is_some() && self.calls[i].waker.woken();
                if woken {
                    any = true;
                    for x in self.poll_call(i) {
                        if let Some(r) = x.strip_prefix("OCall (CDone (") {
                            done.push(format!("({i}, {})", &r[..r.len() - 2]));
                        } else if x == "OPanic" {
                            return "WFuel".into();
                        }
                    }
                }
            }
            }
            if !any {
                break;
            }
        }
        let (a, b) = match &self.dispatch {
            Some(d) => d.verif_gauges(),
            None => (0, 0),
        };
        format!("WS {} {} {} ({disp}) {a} {b}", coq_list(&sent), coq_list(&read), coq_list(&done))
    }
}

/// splits "a; b (c; d); e" at top-level semicolons
fn split_top(s: &str) -> Vec<String> {
    let mut out = vec![];
    let mut depth = 0i32;
    let mut cur = String::new();
    for ch in s.chars() {
        match ch {
            '(' | '[' => {
                depth += 1;
                cur.push(ch);
            }
            ')' | ']' => {
                depth -= 1;
                cur.push(ch);
            }
            ';' if depth == 0 => {
                out.push(cur.trim().to_string());
                cur = String::new();
            }
            _ => cur.push(ch),
        }
    }
    if !cur.trim().is_empty() {
        out.push(cur.trim().to_string());
    }
    out
}

type Shared = Rc<RefCell<World>>;

/// Executes ops[from..until). Guard drops with a matching later `L i` run the ops in between
/// from inside the guard's drop (hook H3); returns the index after the last op executed.
fn exec_range(w: &Shared, rt: &tokio::runtime::Runtime, ops: &Rc<Vec<Op>>, from: usize, until: usize) {
    let mut k = from;
    while k < until {
        if w.borrow().ambiguous {
            return;
        }
        let op = ops[k].clone();
        let mut o: Vec<String> = vec![];
        #[allow(unused_assignments)]
        let mut next = k + 1;
        match op {
            Op::Clone(h) => {
                let mut wb = w.borrow_mut();
                if let Some(Some(c)) = wb.handles.get(h) {
                    let c2 = c.clone();
                    wb.handles.push(Some(c2));
                    wb.tags.insert("handle-clone".into());
                }
            }
            Op::DropH(h) => {
                let taken = {
                    let mut wb = w.borrow_mut();
                    match wb.handles.get_mut(h) {
                        Some(x) => x.take(),
                        None => None,
                    }
                };
                if taken.is_some() {
                    let mut wb = w.borrow_mut();
                    if wb.handles.iter().all(|h| h.is_none()) {
                        wb.tags.insert("last-handle-dropped".into());
                    }
                }
                drop(taken);
            }
            Op::Call { h, d, tid, sampled, body } => {
                let mut wb = w.borrow_mut();
                if let Some(Some(c)) = wb.handles.get(h) {
                    let ch = c.clone();
                    let mut ctx = context::current();
                    ctx.deadline = Instant::now() + Duration::from_millis(d);
                    ctx.trace_context = trace::Context {
                        trace_id: trace::TraceId::from(tid as u128),
                        // callers with an odd body hand in a context that already has a span id
                        // (as a handler's context has): the client must still mint its own
                        span_id: trace::SpanId::from(if body % 2 == 1 { caller_span(body) } else { 0u64 }),
                        sampling_decision: if sampled {
                            trace::SamplingDecision::Sampled
                        } else {
                            trace::SamplingDecision::Unsampled
                        },
                    };
                    let fut: CallFut = Box::pin(async move { ch.call(ctx, body).await });
                    wb.calls.push(CallSlot { fut: Some(fut), waker: TaskWaker::new(), polled: false });
                } else {
                    // cannot be written in Rust (the handle is gone); the call still takes an index
                    wb.calls.push(CallSlot { fut: None, waker: TaskWaker::new(), polled: false });
                }
            }
            Op::PollCall(i) => {
                o = w.borrow_mut().poll_call(i);
            }
            Op::DropCall(i) => {
                let fut = {
                    let mut wb = w.borrow_mut();
                    let polled = wb.calls.get(i).map(|s| s.polled && s.fut.is_some()).unwrap_or(false);
                    if polled {
                        wb.tags.insert("abandon".into());
                    }
                    wb.calls.get_mut(i).and_then(|s| s.fut.take())
                };
                drop(fut);
            }
            Op::GClose(i) => {
                let nested = w.borrow().any_closing;
                let (fut, live_guard) = {
                    let mut wb = w.borrow_mut();
                    let live = wb.calls.get(i).map(|s| s.polled && s.fut.is_some()).unwrap_or(false);
                    (wb.calls.get_mut(i).and_then(|s| s.fut.take()), live)
                };
                if fut.is_some() && live_guard && !nested {
                    // find the matching L i; ops in between run at the guard's mid yield point
                    let m = (k + 1..until).find(|&j| ops[j] == Op::GCancel(i)).unwrap_or(until);
                    {
                        let mut wb = w.borrow_mut();
                        wb.obs.push(vec![]); // the K op itself observes nothing
                        wb.eff.push(format!("SGClose {i}"));
                        wb.any_closing = true;
                        wb.tags.insert("abandon".into());
                        wb.tags.insert("abandon-split".into());
                    }
                    let w2 = w.clone();
                    let ops2 = ops.clone();
                    let rt_ptr: *const tokio::runtime::Runtime = rt;
                    let ran = Rc::new(RefCell::new(false));
                    let ran2 = ran.clone();
                    tarpc::verif::set_yield_hook(Some(Box::new(move |name, _id| {
                        if name == "guard_drop_mid" && !*ran2.borrow() {
                            *ran2.borrow_mut() = true;
                            // SAFETY: the runtime outlives this synchronous drop
                            let rt = unsafe { &*rt_ptr };
                            exec_range(&w2, rt, &ops2, k + 1, m);
                        }
                    })));
                    drop(fut);
                    tarpc::verif::set_yield_hook(None);
                    if !*ran.borrow() {
                        // the future held no guard after all: the ops in between run now
                        exec_range(w, rt, ops, k + 1, m);
                    }
                    w.borrow_mut().any_closing = false;
                    // the L op (if present) observes nothing
                    if m < until {
                        w.borrow_mut().obs.push(vec![]);
                        w.borrow_mut().eff.push(format!("SGCancel {i}"));
                        next = m + 1;
                    } else {
                        next = until;
                    }
                    k = next;
                    continue;
                } else {
                    // no live guard, or nested in another guard's drop: an ordinary (atomic) drop
                    drop(fut);
                    let mut wb = w.borrow_mut();
                    wb.obs.push(vec![]);
                    wb.eff.push(format!("SDropCall {i}"));
                    drop(wb);
                    k = next;
                    continue;
                }
            }
            Op::GCancel(_) => {
                // a cancel half whose close half did not split: nothing happens
                let mut wb = w.borrow_mut();
                wb.obs.push(vec![]);
                wb.eff.push("SNop".into());
                drop(wb);
                k = next;
                continue;
            }
            Op::PollD => {
                o = w.borrow_mut().poll_dispatch();
            }
            Op::DropD => {
                let d = w.borrow_mut().dispatch.take();
                drop(d);
            }
            Op::Adv(d) => {
                vclock::advance(rt, Duration::from_millis(d));
            }
            Op::Deliver(id, v) => {
                let tr = w.borrow().tr.clone();
                tr.deliver(Response { request_id: id, message: Ok(v) });
            }
            Op::DeliverErr(id, kind) => {
                let tr = w.borrow().tr.clone();
                let k = KINDS[(kind as usize).min(17)];
                tr.deliver(Response { request_id: id, message: Err(ServerError::new(k, String::new())) });
            }
            Op::Eof => w.borrow().tr.eof(),
            Op::SetReady(b) => w.borrow().tr.set_ready(b),
            Op::SetFlush(b) => w.borrow().tr.set_flush(b),
            Op::SetClose(b) => w.borrow().tr.set_close(b),
            Op::Fail(m) => {
                w.borrow().tr.fail_next(m);
                w.borrow_mut().tags.insert("fault-armed".into());
            }
            Op::Drain(n) => w.borrow().tr.drain(n),
            Op::Settle => {
                o = vec![w.borrow_mut().settle()];
            }
        }
        if w.borrow().ambiguous {
            // compare only up to the poll in which the timer order became observable
            w.borrow_mut().tags.insert("truncated:timer-order-observable".into());
            return;
        }
        let mut wb = w.borrow_mut();
        // Arming a fault is the one transport event nobody can be waiting for (the model's
        // unsolicited poll would run into it): it wakes the dispatch, as a failing socket would.
        // Everything else relies on real wakers: the scripted transport wakes whoever its last
        // Pending answer registered (read / ready / flush / close), and tarpc's own wake
        // sources (queues, oneshots, timers, permits) are never forced.
        if matches!(op, Op::Fail(_)) {
            wb.dwaker.waker.wake_by_ref();
        }
        wb.obs.push(o);
        wb.eff.push(coq_op(&op));
        drop(wb);
        k = next;
    }
}

pub fn run_impl(s: &Script) -> (Vec<Vec<String>>, Vec<String>, Vec<String>) {
    vclock::reset();
    let rt = vclock::runtime();
    let guard = rt.enter();
    let base = Instant::now();
    let tr: Tr = STransport::new(
        s.cfg.cap,
        s.cfg.coupled,
        Box::new(move |m: &ClientMessage<u64>| match m {
            ClientMessage::Request(r) => Sent::Req {
                id: r.id,
                deadline_ms: r.context.deadline.saturating_duration_since(base).as_millis() as u64,
                tid: u128::from(r.context.trace_context.trace_id),
                sid: u64::from(r.context.trace_context.span_id),
                sampled: r.context.trace_context.sampling_decision == trace::SamplingDecision::Sampled,
                body: r.message,
            },
            ClientMessage::Cancel { trace_context, request_id } => Sent::Cancel {
                id: *request_id,
                tid: u128::from(trace_context.trace_id),
                sid: u64::from(trace_context.span_id),
                sampled: trace_context.sampling_decision == trace::SamplingDecision::Sampled,
            },
            _ => Sent::Cancel { id: u64::MAX, tid: 0, sid: 0, sampled: false },
        }),
        Box::new(|r: &Response<u64>| Recv {
            id: r.request_id,
            body: match &r.message {
                Ok(v) => Ok(*v),
                Err(e) => Err(kind_code(e.kind)),
            },
        }),
    );
    let mut cfg = client::Config::default();
    cfg.max_in_flight_requests = s.cfg.maxif;
    cfg.pending_request_buffer = s.cfg.qcap;
    let nc = client::new::<u64, u64, _>(cfg, tr.clone());
    let world = Rc::new(RefCell::new(World {
        base,
        tr,
        handles: vec![Some(nc.client)],
        calls: vec![],
        dispatch: Some(Box::pin(nc.dispatch)),
        dwaker: TaskWaker::new(),
        finished: false,
        sid_of: BTreeMap::new(),
        tags: BTreeSet::new(),
        obs: vec![],
        eff: vec![],
        any_closing: false,
        pending: BTreeMap::new(),
        ambiguous: false,
    }));
    let ops = Rc::new(s.ops.clone());
    exec_range(&world, &rt, &ops, 0, ops.len());
    // tear down silently, in a fixed order
    let (obs, tags, eff) = {
        let mut wb = world.borrow_mut();
        let _ = wb.base;
        (std::mem::take(&mut wb.obs), wb.tags.iter().cloned().collect::<Vec<_>>(), std::mem::take(&mut wb.eff))
    };
    {
        let calls: Vec<CallSlot> = std::mem::take(&mut world.borrow_mut().calls);
        drop(calls);
        let d = world.borrow_mut().dispatch.take();
        drop(d);
        let h = std::mem::take(&mut world.borrow_mut().handles);
        drop(h);
    }
    drop(guard);
    drop(rt);
    vclock::off();
    (obs, tags, eff)
}

pub fn to_case(s: &Script) -> Case {
    let (obs, tags, ops) = run_impl(s);
    assert_eq!(ops.len(), obs.len(), "one observation list per effective op");
    let obs: Vec<String> = obs.iter().map(|l| coq_list(l)).collect();
    Case {
        cfg: format!(
            "mkcfg {} {} {} {}",
            s.cfg.qcap,
            s.cfg.maxif,
            s.cfg.cap,
            if s.cfg.coupled { "true" } else { "false" }
        ),
        ops: coq_list(&ops),
        obs: coq_list(&obs),
        tags,
        nops: s.ops.len(),
    }
}

/// Wake-driven case: ops are `wop`s, observations `wobs`.
pub fn to_case_wake(s: &Script) -> Case {
    let (obs, tags, ops) = run_impl(s);
    let wops: Vec<String> = ops
        .iter()
        .map(|o| if o == "SETTLE" { "WSettle".to_string() } else { format!("WOp ({o})") })
        .collect();
    let wobs: Vec<String> = ops
        .iter()
        .zip(obs.iter())
        .map(|(o, l)| if o == "SETTLE" { l[0].clone() } else { format!("WO {}", coq_list(l)) })
        .collect();
    Case {
        cfg: format!(
            "mkcfg {} {} {} {}",
            s.cfg.qcap,
            s.cfg.maxif,
            s.cfg.cap,
            if s.cfg.coupled { "true" } else { "false" }
        ),
        ops: coq_list(&wops),
        obs: coq_list(&wobs),
        tags,
        nops: s.ops.len(),
    }
}

/// Wake-driven scripts: external events, each usually followed by a settle; explicit polls of
/// the dispatch or of calls never occur (a task is polled only because its waker fired).
pub fn gen_wake(rng: &mut Rng) -> Script {
    let base = gen(rng, *rng.clone().pick(&[Bias::General, Bias::Fault, Bias::Shutdown, Bias::Abandon, Bias::Contract, Bias::Deadline]));
    let mut ops = vec![];
    for o in base.ops {
        match o {
            Op::PollD | Op::PollCall(_) => {
                if rng.chance(1, 2) {
                    ops.push(Op::Settle);
                }
            }
            Op::GClose(i) => {
                // guard drops are atomic here
                ops.push(Op::DropCall(i));
                ops.push(Op::Settle);
            }
            Op::GCancel(_) => {}
            other => {
                ops.push(other);
                if rng.chance(3, 4) {
                    ops.push(Op::Settle);
                }
            }
        }
    }
    ops.push(Op::Settle);
    Script { cfg: base.cfg, ops }
}

// ------------------------------------------------------------------------------------ generation

/// Scenario bias per property.
#[derive(Clone, Copy, PartialEq)]
pub enum Bias {
    General,
    Abandon,  // C03
    Deadline, // C05
    Fault,    // C09
    Shutdown, // C10
    Reclaim,  // C11
    Contract, // C14
    Reply,    // C01, C18
}

pub fn bias_of(p: &str) -> Bias {
    match p {
        "c03" => Bias::Abandon,
        "c05" => Bias::Deadline,
        "c09" => Bias::Fault,
        "c10" => Bias::Shutdown,
        "c11" => Bias::Reclaim,
        "c14" => Bias::Contract,
        "c01" | "c18" => Bias::Reply,
        _ => Bias::General,
    }
}

pub fn gen(rng: &mut Rng, bias: Bias) -> Script {
    let cfg = Cfg {
        qcap: rng.range(1, 3) as usize,
        maxif: rng.range(1, 3) as usize,
        cap: if bias == Bias::Contract || rng.chance(1, 3) { rng.range(1, 3) as usize } else { 0 },
        coupled: rng.chance(1, 2),
    };
    let len = match bias {
        Bias::Reclaim => rng.range(40, 120) as usize,
        _ => rng.range(6, 45) as usize,
    };
    let mut ops: Vec<Op> = vec![];
    // shadow state: enough to make most ops meaningful
    let mut nhandles = 1usize;
    let mut live_handles: Vec<usize> = vec![0];
    let mut ncalls = 0usize;
    let mut open_calls: Vec<usize> = vec![]; // created, not known finished/dropped
    let mut polled_calls: Vec<usize> = vec![];
    let mut next_id_guess = 0u64; // ids are handed out at first poll, in poll order
    let mut ids_out: Vec<u64> = vec![];
    let mut deadlines: Vec<u64> = vec![]; // absolute ms of calls (for clock stepping)
    let mut now = 0u64;
    let mut dispatch_alive = true;
    while ops.len() < len {
        let w: [u64; 12] = match bias {
            Bias::Abandon => [14, 14, 18, 22, 8, 3, 2, 4, 1, 1, 3, 1],
            Bias::Deadline => [14, 14, 6, 22, 8, 16, 2, 3, 1, 1, 2, 1],
            Bias::Fault => [14, 14, 6, 20, 8, 3, 9, 5, 2, 1, 3, 1],
            Bias::Shutdown => [12, 14, 6, 20, 8, 3, 3, 3, 8, 3, 3, 3],
            Bias::Reclaim => [16, 16, 10, 22, 12, 6, 2, 3, 1, 0, 2, 0],
            Bias::Contract => [14, 12, 6, 24, 6, 3, 3, 16, 2, 1, 3, 1],
            Bias::General => [14, 14, 8, 22, 9, 5, 3, 5, 2, 1, 3, 1],
            Bias::Reply => [14, 18, 7, 24, 22, 2, 1, 2, 1, 0, 4, 0],
        };
        match rng.weighted(&w) {
            0 => {
                // new call
                if live_handles.is_empty() {
                    continue;
                }
                let h = *rng.pick(&live_handles);
                const DAY: u64 = 86_400_000;
                let big = match bias {
                    Bias::Deadline => rng.chance(1, 5),
                    Bias::General | Bias::Reclaim => rng.chance(1, 16),
                    _ => false,
                };
                let d = if big {
                    // far deadlines: around 2^32 ms (49.7 days), weeks, months, around the 365-day clamp
                    let (r1, r2, r3) = (rng.range(2, 5000), rng.range(0, 3), rng.range(0, 999));
                    *rng.pick(&[
                        (1u64 << 32) - 1,
                        1u64 << 32,
                        (1u64 << 32) + 1,
                        (1u64 << 32) + r1,
                        (1u64 << 31) + r2,
                        7 * DAY,
                        40 * DAY,
                        50 * DAY,
                        100 * DAY + r3,
                        364 * DAY,
                        365 * DAY - 1,
                        365 * DAY,
                        365 * DAY + 1,
                        3 * 365 * DAY,
                    ])
                } else {
                    match rng.below(6) {
                        0 => 0,
                        1 => rng.range(1, 5),
                        2 => rng.range(50, 300),
                        _ => rng.range(5, 60),
                    }
                };
                ops.push(Op::Call { h, d, tid: rng.range(1, 9) * 11, sampled: rng.chance(1, 2), body: rng.range(1, 99) });
                open_calls.push(ncalls);
                deadlines.push(now + d);
                ncalls += 1;
                if rng.chance(3, 4) {
                    ops.push(Op::PollCall(ncalls - 1));
                    polled_calls.push(ncalls - 1);
                    ids_out.push(next_id_guess);
                    next_id_guess += 1;
                }
            }
            1 => {
                // poll a call
                if open_calls.is_empty() {
                    continue;
                }
                let i = *rng.pick(&open_calls);
                if !polled_calls.contains(&i) {
                    polled_calls.push(i);
                    ids_out.push(next_id_guess);
                    next_id_guess += 1;
                }
                ops.push(Op::PollCall(i));
            }
            2 => {
                // abandon a call (atomic, or split around other ops)
                if open_calls.is_empty() {
                    continue;
                }
                let k = rng.below(open_calls.len() as u64) as usize;
                let i = open_calls.remove(k);
                if bias == Bias::Abandon && rng.chance(1, 2) || rng.chance(1, 6) {
                    ops.push(Op::GClose(i));
                    for _ in 0..rng.range(1, 3) {
                        match rng.below(4) {
                            0 | 1 => ops.push(Op::PollD),
                            2 => {
                                if let Some(id) = ids_out.last() {
                                    ops.push(Op::Deliver(*id, rng.range(1, 99)));
                                }
                            }
                            _ => ops.push(Op::Adv(rng.range(1, 20))),
                        }
                    }
                    ops.push(Op::GCancel(i));
                } else {
                    ops.push(Op::DropCall(i));
                }
            }
            3 => ops.push(Op::PollD),
            4 => {
                // a response: mostly for an id handed out, sometimes unknown / duplicate
                let id = if !ids_out.is_empty() && rng.chance(4, 5) {
                    *rng.pick(&ids_out)
                } else if !ids_out.is_empty() && rng.chance(1, 2) {
                    // an id no call owns that aliases an outstanding one under truncation
                    let base = *rng.pick(&ids_out);
                    match rng.below(4) {
                        0 => base + (1u64 << 32),
                        1 => base + (1u64 << 16),
                        2 => base + (1u64 << 8),
                        _ => u64::MAX - base,
                    }
                } else {
                    rng.range(0, next_id_guess + 3)
                };
                if rng.chance(1, 7) {
                    ops.push(Op::DeliverErr(id, rng.range(0, 17)));
                } else {
                    ops.push(Op::Deliver(id, rng.range(1, 99)));
                }
                if rng.chance(1, 8) {
                    ops.push(Op::Deliver(id, rng.range(1, 99))); // duplicate
                }
            }
            5 => {
                // clock: to just before / exactly at / just after some deadline, or a plain step
                let dt = if !deadlines.is_empty() && rng.chance(2, 3) {
                    // the latest call's deadline half of the time (far deadlines would otherwise rarely be reached)
                    let d = if rng.chance(1, 2) { *deadlines.last().unwrap() } else { *rng.pick(&deadlines) };
                    let target = if d > now + (1u64 << 31) && rng.chance(1, 2) {
                        // a far deadline: also the instants at which a timer armed modulo 2^32 / 2^31 ms, or for
                        // half / a 1000th of the time, would fire
                        let rem = d - now;
                        now + match rng.below(5) {
                            0 => (rem & 0xFFFF_FFFF) + rng.range(0, 2),
                            1 => (rem & 0x7FFF_FFFF) + rng.range(0, 2),
                            2 => rem / 2,
                            3 => rem / 1000 + 1,
                            _ => rem - rng.range(1, 1000),
                        }
                    } else {
                        match rng.below(3) {
                            0 => d.saturating_sub(1),
                            1 => d,
                            _ => d + 1,
                        }
                    };
                    target.saturating_sub(now)
                } else {
                    rng.range(1, 40)
                };
                // the DelayQueue's range: now + 365 days (the clamp) must stay below 2^36 ms
                if dt > 0 && now + dt < 400 * 86_400_000 {
                    now += dt;
                    ops.push(Op::Adv(dt));
                }
            }
            6 => {
                let m = *rng.pick(&[Method::Ready, Method::Send, Method::Flush, Method::Close, Method::Next]);
                ops.push(Op::Fail(m));
            }
            7 => {
                // readiness / flushing / draining
                match rng.below(7) {
                    0 => ops.push(Op::SetReady(false)),
                    1 => ops.push(Op::SetReady(true)),
                    2 => ops.push(Op::SetFlush(false)),
                    3 => ops.push(Op::SetFlush(true)),
                    4 => ops.push(Op::Drain(rng.range(1, 2) as usize)),
                    5 => {
                        // socket-like: not ready and flush pending together
                        ops.push(Op::SetReady(false));
                        ops.push(Op::SetFlush(false));
                    }
                    _ => {
                        ops.push(Op::SetReady(true));
                        ops.push(Op::SetFlush(true));
                    }
                }
            }
            8 => {
                // drop a handle (shutdown scenarios drop them all)
                if live_handles.is_empty() {
                    continue;
                }
                let k = rng.below(live_handles.len() as u64) as usize;
                let h = live_handles.remove(k);
                ops.push(Op::DropH(h));
            }
            9 => {
                if dispatch_alive && ops.len() > len / 2 {
                    ops.push(Op::DropD);
                    dispatch_alive = false;
                }
            }
            10 => {
                if !live_handles.is_empty() && nhandles < 3 {
                    let h = *rng.pick(&live_handles);
                    ops.push(Op::Clone(h));
                    live_handles.push(nhandles);
                    nhandles += 1;
                }
            }
            _ => {
                if ops.len() > len / 3 {
                    ops.push(if rng.chance(1, 2) { Op::Eof } else { Op::SetClose(rng.chance(1, 2)) });
                }
            }
        }
    }
    // closing phase: let things settle so that outcomes are observed
    if rng.chance(2, 3) {
        ops.push(Op::SetReady(true));
        ops.push(Op::SetFlush(true));
        ops.push(Op::PollD);
        for &i in open_calls.iter().take(4) {
            ops.push(Op::PollCall(i));
        }
    }
    if bias == Bias::Shutdown {
        for h in live_handles.drain(..) {
            ops.push(Op::DropH(h));
        }
        for &i in open_calls.iter() {
            if rng.chance(1, 2) {
                ops.push(Op::DropCall(i));
            } else {
                ops.push(Op::PollCall(i));
            }
        }
        ops.push(Op::PollD);
        ops.push(Op::PollD);
        ops.push(Op::DropD);
        for &i in open_calls.iter().take(4) {
            ops.push(Op::PollCall(i));
        }
    }
    Script { cfg, ops }
}

/// Volume family (thorough tier, and the search for a failing input after a broken tie): counts far
/// beyond what generated scripts reach, against queues that the model takes to be unbounded.
/// One call is transmitted; then `n` calls are created, polled once (an id is drawn, the request
/// waits for buffer space) and abandoned while the dispatch is never polled, so `n` stale ids pile up
/// in the cancellation queue; then the transmitted call is abandoned and the dispatch runs: its
/// Cancel must still reach the wire.
pub fn volume(f: impl FnMut(Script)) {
    volume_of(&[(1100usize, 1usize), (1030, 2)], f)
}

/// The same shape with tens instead of a thousand stale cancellations ahead of the genuine one (cheap enough
/// for the corpus that runs first on every run): a per-poll bound on the cancellations drained shows here.
pub fn midvolume(f: impl FnMut(Script)) {
    volume_of(&[(17usize, 1usize), (40, 2), (24, 64), (65, 64)], f)
}

fn volume_of(sizes: &[(usize, usize)], mut f: impl FnMut(Script)) {
    for &(n, q) in sizes {
        let mut ops = vec![Op::Call { h: 0, d: 100_000, tid: 11, sampled: false, body: 7 }, Op::PollCall(0), Op::PollD];
        for i in 1..=n {
            ops.push(Op::Call { h: 0, d: 100_000, tid: 22, sampled: false, body: (i % 90 + 1) as u64 });
            ops.push(Op::PollCall(i));
            ops.push(Op::DropCall(i));
        }
        ops.push(Op::DropCall(0));
        ops.push(Op::PollD);
        ops.push(Op::PollD);
        ops.push(Op::PollD);
        f(Script { cfg: Cfg { qcap: q, maxif: 2, cap: 0, coupled: false }, ops });
    }
}

/// Bounded-exhaustive family (thorough tier): two calls, then every sequence of `len` ops over
/// {poll call 0/1, poll dispatch, answer id 0 (twice with different values) / id 1, abandon
/// call 0, step the clock past both deadlines}.
pub fn sweep(len: usize, mut f: impl FnMut(Script)) {
    let alpha = [
        Op::PollCall(0),
        Op::PollCall(1),
        Op::PollD,
        Op::Deliver(0, 7),
        Op::Deliver(1, 8),
        Op::Deliver(0, 9),
        Op::DropCall(0),
        Op::Adv(60),
    ];
    for (q, m) in [(1usize, 1usize), (2, 2)] {
        let mut idx = vec![0usize; len];
        loop {
            let mut ops = vec![
                Op::Call { h: 0, d: 50, tid: 11, sampled: true, body: 1 },
                Op::Call { h: 0, d: 50, tid: 22, sampled: false, body: 2 },
            ];
            ops.extend(idx.iter().map(|&i| alpha[i].clone()));
            f(Script { cfg: Cfg { qcap: q, maxif: m, cap: 0, coupled: true }, ops });
            let mut p = 0;
            loop {
                if p == len {
                    break;
                }
                idx[p] += 1;
                if idx[p] < alpha.len() {
                    break;
                }
                idx[p] = 0;
                p += 1;
            }
            if p == len {
                break;
            }
        }
    }
}
