//! Server side (C04, C06, C08, C12 and the server halves of C09, C10, C11, C14): drives the real
//! `BaseChannel` over the scripted transport -> optional `max_concurrent_requests(L)` ->
//! `requests()`, with scripted handlers each wrapped by the real `InFlightRequest::execute`.
//! One script language for all of these properties; one observation list per op.
//!
//! Script: `L=<n|->,B=<buf>,C=<cap>,K=<c|i>|tok tok ...`
//!   P                 poll the Requests stream once
//!   R<id>.<dl>.<tr>.<body>   peer delivers Request{id, deadline = <dl> ms (absolute, virtual), trace, body}
//!   X<id>.<tr>        peer delivers Cancel{id, trace}
//!   E                 peer closes its write half (end of stream after the inbox)
//!   r0 r1 f0 f1 c0 c1 transport: ready / flush / close answer (0 = Pending, 1 = Ok)
//!   Fr Fs Ff Fc Fn    one-shot fault at the next poll_ready / start_send / poll_flush / poll_close / poll_next
//!   D<k>              transport: k buffered items drained
//!   H<k>  H<k>=<v>  H<k>!   poll the execute future of incarnation k; its handler makes one step:
//!                     still running / finishes with Ok(v) / finishes with a ServerError
//!   Q<k>              drop the execute future of incarnation k (started, unfinished)
//!   Y<k>              drop the yielded, never executed InFlightRequest k
//!   Z                 drop the Requests stream (and with it the channel)
//!   A<dt>             advance the clock by dt ms
//! Ops that refer to something absent are no-ops (scripts stay valid under token deletion).
use crate::exec::{coq_list, Case, TaskWaker};
use crate::rng::Rng;
use crate::stransport::{coq_calls, BudgetExceeded, Call, Method, NextRes, STransport};
use crate::vclock;
use futures::Stream;
use std::cell::RefCell;
use std::collections::{BTreeMap, BTreeSet};
use std::future::Future;
use std::panic::{catch_unwind, AssertUnwindSafe};
use std::pin::Pin;
use std::rc::Rc;
use std::task::{Context, Poll};
use std::time::{Duration, Instant};
use tarpc::server::limits::requests_per_channel::MaxRequests;
use tarpc::server::{serve, BaseChannel, Channel, Config, InFlightRequest, Requests};
use tarpc::{context, trace, ChannelError, ClientMessage, Request, Response, ServerError};

/// The limiter, built the two ways tarpc offers: `Channel::max_concurrent_requests(l)` directly, or
/// (odd response buffers) through the `Incoming` adapter `max_concurrent_requests_per_channel(l)`
/// (`MaxRequestsPerChannel`, requests_per_channel.rs), which must hand out the same decorator.
pub(crate) fn limited<C: Channel>(ch: C, l: usize, buf: usize) -> MaxRequests<C> {
    use futures::{FutureExt, StreamExt};
    use tarpc::server::incoming::Incoming;
    if buf % 2 == 1 {
        let mut s = Box::pin(futures::stream::iter(vec![ch]).max_concurrent_requests_per_channel(l));
        s.next().now_or_never().expect("ready").expect("one channel")
    } else {
        ch.max_concurrent_requests(l)
    }
}

pub const THROTTLE_TEXT: &str = "server throttled the request.";

#[derive(Clone, Copy, Debug, PartialEq)]
pub enum Step {
    Run,
    Finish(u64),
    Fail,
}

#[derive(Clone, Debug, PartialEq)]
pub enum Op {
    Poll,
    Req { id: u64, dl: u64, tr: u64, body: u64 },
    Cancel { id: u64, tr: u64 },
    Eof,
    SetReady(bool),
    SetFlush(bool),
    SetClose(bool),
    Fail(Method),
    Drain(usize),
    HPoll(usize, Step),
    DropH(usize),
    DropY(usize),
    DropChan,
    Advance(u64),
}

#[derive(Clone, Debug)]
pub struct Script {
    pub limit: Option<usize>,
    pub buf: usize,
    pub cap: usize,
    pub coupled: bool,
    pub ops: Vec<Op>,
}

fn method_letter(m: Method) -> char {
    match m {
        Method::Ready => 'r',
        Method::Send => 's',
        Method::Flush => 'f',
        Method::Close => 'c',
        Method::Next => 'n',
    }
}

pub fn parse(line: &str) -> Option<Script> {
    let (cfg, rest) = line.trim().split_once('|')?;
    let mut s = Script { limit: None, buf: 1, cap: 0, coupled: true, ops: vec![] };
    for kv in cfg.split(',') {
        let (k, v) = kv.trim().split_once('=')?;
        match k {
            "L" => s.limit = if v == "-" { None } else { Some(v.parse().ok()?) },
            "B" => s.buf = v.parse().ok()?,
            "C" => s.cap = v.parse().ok()?,
            "K" => s.coupled = v == "c",
            _ => return None,
        }
    }
    if s.buf == 0 {
        return None;
    }
    for t in rest.split_whitespace() {
        let (h, a) = t.split_at(1);
        let nums = |a: &str| -> Option<Vec<u64>> { a.split('.').map(|x| x.parse().ok()).collect() };
        s.ops.push(match h {
            "P" if a.is_empty() => Op::Poll,
            "R" => {
                let v = nums(a)?;
                if v.len() != 4 {
                    return None;
                }
                Op::Req { id: v[0], dl: v[1], tr: v[2], body: v[3] }
            }
            "X" => {
                let v = nums(a)?;
                if v.len() != 2 {
                    return None;
                }
                Op::Cancel { id: v[0], tr: v[1] }
            }
            "E" if a.is_empty() => Op::Eof,
            "r" => Op::SetReady(a == "1"),
            "f" => Op::SetFlush(a == "1"),
            "c" => Op::SetClose(a == "1"),
            "F" => Op::Fail(match a {
                "r" => Method::Ready,
                "s" => Method::Send,
                "f" => Method::Flush,
                "c" => Method::Close,
                "n" => Method::Next,
                _ => return None,
            }),
            "D" => Op::Drain(a.parse().ok()?),
            "H" => {
                if let Some(k) = a.strip_suffix('!') {
                    Op::HPoll(k.parse().ok()?, Step::Fail)
                } else if let Some((k, v)) = a.split_once('=') {
                    Op::HPoll(k.parse().ok()?, Step::Finish(v.parse().ok()?))
                } else {
                    Op::HPoll(a.parse().ok()?, Step::Run)
                }
            }
            "Q" => Op::DropH(a.parse().ok()?),
            "Y" => Op::DropY(a.parse().ok()?),
            "Z" if a.is_empty() => Op::DropChan,
            "A" => Op::Advance(a.parse().ok()?),
            _ => return None,
        });
    }
    Some(s)
}

pub fn show_op(o: &Op) -> String {
    match o {
        Op::Poll => "P".into(),
        Op::Req { id, dl, tr, body } => format!("R{id}.{dl}.{tr}.{body}"),
        Op::Cancel { id, tr } => format!("X{id}.{tr}"),
        Op::Eof => "E".into(),
        Op::SetReady(b) => format!("r{}", *b as u8),
        Op::SetFlush(b) => format!("f{}", *b as u8),
        Op::SetClose(b) => format!("c{}", *b as u8),
        Op::Fail(m) => format!("F{}", method_letter(*m)),
        Op::Drain(k) => format!("D{k}"),
        Op::HPoll(k, Step::Run) => format!("H{k}"),
        Op::HPoll(k, Step::Finish(v)) => format!("H{k}={v}"),
        Op::HPoll(k, Step::Fail) => format!("H{k}!"),
        Op::DropH(k) => format!("Q{k}"),
        Op::DropY(k) => format!("Y{k}"),
        Op::DropChan => "Z".into(),
        Op::Advance(d) => format!("A{d}"),
    }
}

pub fn show_srv(s: &Script) -> String {
    let toks: Vec<String> = s.ops.iter().map(show_op).collect();
    format!(
        "L={},B={},C={},K={}|{}",
        s.limit.map(|l| l.to_string()).unwrap_or_else(|| "-".into()),
        s.buf,
        s.cap,
        if s.coupled { "c" } else { "i" },
        toks.join(" ")
    )
}

// ------------------------------------------------------------------------------- Coq terms

pub(crate) fn coq_op(o: &Op) -> String {
    match o {
        Op::Poll => "OPoll".into(),
        Op::Req { id, dl, tr, body } => format!("OCtl (TDeliver (MReq {id} {dl} {tr} {body}))"),
        Op::Cancel { id, tr } => format!("OCtl (TDeliver (MCancel {id} {tr}))"),
        Op::Eof => "OCtl TEof".into(),
        Op::SetReady(b) => format!("OCtl (TSetReady {b})"),
        Op::SetFlush(b) => format!("OCtl (TSetFlush {b})"),
        Op::SetClose(b) => format!("OCtl (TSetClose {b})"),
        Op::Fail(m) => format!(
            "OCtl (TFail {})",
            match m {
                Method::Ready => "MReady",
                Method::Send => "MSend",
                Method::Flush => "MFlush",
                Method::Close => "MClose",
                Method::Next => "MNext",
            }
        ),
        Op::Drain(k) => format!("OCtl (TDrain {k})"),
        Op::HPoll(k, Step::Run) => format!("OHandlerPoll {k} SRun"),
        Op::HPoll(k, Step::Finish(v)) => format!("OHandlerPoll {k} (SFinish {v})"),
        Op::HPoll(k, Step::Fail) => format!("OHandlerPoll {k} SFail"),
        Op::DropH(k) => format!("ODropHandler {k}"),
        Op::DropY(k) => format!("ODropYielded {k}"),
        Op::DropChan => "ODropChannel".into(),
        Op::Advance(d) => format!("OAdvance {d}"),
    }
}

/// What was written to the sink, as the model sees it.
#[derive(Clone, Debug, PartialEq)]
pub enum Body {
    Ok(u64),
    HErr,
    Throttle,
    OtherErr,
}

#[derive(Clone, Debug)]
pub struct Sent {
    pub id: u64,
    pub body: Body,
}

#[derive(Clone, Debug)]
pub enum Recv {
    Req { id: u64, dl: u64, tr: u64, body: u64 },
    Cancel { id: u64, tr: u64 },
}

pub(crate) fn coq_sent(s: &Sent) -> String {
    let b = match &s.body {
        Body::Ok(v) => format!("BOk {v}"),
        Body::HErr => "BErr".into(),
        Body::Throttle => "BThrottle".into(),
        Body::OtherErr => "BOther".into(),
    };
    format!("mkresp {} ({})", s.id, b)
}

pub(crate) fn coq_recv(r: &Recv) -> String {
    match r {
        Recv::Req { id, dl, tr, body } => format!("MReq {id} {dl} {tr} {body}"),
        Recv::Cancel { id, tr } => format!("MCancel {id} {tr}"),
    }
}

// ------------------------------------------------------------------------------- handlers

pub struct HCtl {
    pub(crate) step: Step,
    pub(crate) polled: bool,
    pub(crate) completed: bool,
    pub(crate) result: Option<Result<u64, ()>>,
    pub(crate) dropped: bool,
}

pub(crate) struct ScriptedHandler {
    pub(crate) ctl: Rc<RefCell<HCtl>>,
}

impl Future for ScriptedHandler {
    type Output = Result<u64, ServerError>;
    fn poll(self: Pin<&mut Self>, _: &mut Context<'_>) -> Poll<Self::Output> {
        let mut c = self.ctl.borrow_mut();
        c.polled = true;
        match c.step {
            Step::Run => Poll::Pending,
            Step::Finish(v) => {
                c.completed = true;
                c.result = Some(Ok(v));
                Poll::Ready(Ok(v))
            }
            Step::Fail => {
                c.completed = true;
                c.result = Some(Err(()));
                Poll::Ready(Err(ServerError::new(std::io::ErrorKind::Other, "handler failed".into())))
            }
        }
    }
}

impl Drop for ScriptedHandler {
    fn drop(&mut self) {
        let mut c = self.ctl.borrow_mut();
        if !c.completed {
            c.dropped = true;
        }
    }
}

pub(crate) type Tr = STransport<Response<u64>, ClientMessage<u64>, Sent, Recv>;
pub(crate) type Base = BaseChannel<u64, u64, Tr>;

pub(crate) enum Chan {
    Plain(Pin<Box<Requests<Base>>>),
    Lim(Pin<Box<Requests<MaxRequests<Base>>>>),
}

pub(crate) type Item = Option<Result<InFlightRequest<u64, u64>, ChannelError<std::io::Error>>>;

impl Chan {
    pub(crate) fn poll_next(&mut self, cx: &mut Context<'_>) -> Poll<Item> {
        match self {
            Chan::Plain(r) => r.as_mut().poll_next(cx),
            Chan::Lim(r) => r.as_mut().poll_next(cx),
        }
    }
    pub(crate) fn gauges(&self) -> (usize, usize) {
        match self {
            Chan::Plain(r) => r.channel().verif_gauges(),
            Chan::Lim(r) => r.channel().get_ref().verif_gauges(),
        }
    }
}

enum Slot {
    Yielded(InFlightRequest<u64, u64>),
    Exec(Pin<Box<dyn Future<Output = ()>>>, Rc<RefCell<HCtl>>, TaskWaker),
    Done,
    Gone,
}

/// Phase of an incarnation as the harness sees it (for scenario tags only).
#[derive(Clone, Copy, PartialEq, Debug)]
enum Phase {
    NotStarted,
    Running,
    WaitBuf,
    Buffered,
    Written,
    Ended,
}

struct Shadow {
    id: u64,
    dl: u64,
    phase: Phase,
}

pub(crate) fn activity(e: &ChannelError<std::io::Error>) -> &'static str {
    match e {
        ChannelError::Read(_) => "ARead",
        ChannelError::Ready(_) => "AReady",
        ChannelError::Write(_) => "AWrite",
        ChannelError::Flush(_) => "AFlush",
        ChannelError::Close(_) => "AClose",
    }
}

pub fn make_request(base: Instant, id: u64, dl: u64, tr: u64, body: u64) -> Request<u64> {
    let mut ctx = context::current();
    ctx.deadline = base + Duration::from_millis(dl);
    ctx.trace_context = trace_ctx(tr);
    Request { context: ctx, id, message: body }
}

/// The script's single trace number carries both halves of the propagated trace context:
/// `tr = 2 * trace_id + (1 if Sampled else 0)`.  The span id on the wire is 0; the server draws
/// its own (`new_child`), so a span id is never part of an observation.
pub fn trace_ctx(tr: u64) -> trace::Context {
    trace::Context {
        trace_id: trace::TraceId::from((tr >> 1) as u128),
        span_id: trace::SpanId::from(0u64),
        sampling_decision: if tr & 1 == 1 {
            trace::SamplingDecision::Sampled
        } else {
            trace::SamplingDecision::Unsampled
        },
    }
}

/// Inverse of `trace_ctx` on what the code under test hands back (trace id and sampling decision).
pub fn trace_num(c: &trace::Context) -> u64 {
    let bit = match c.sampling_decision {
        trace::SamplingDecision::Sampled => 1,
        trace::SamplingDecision::Unsampled => 0,
    };
    ((u128::from(c.trace_id) as u64) << 1) | bit
}

pub fn ms_since(base: Instant, t: Instant) -> u64 {
    t.saturating_duration_since(base).as_millis() as u64
}

/// What the generator may look at between ops (the live state of the real code and the
/// harness's shadow of the incarnations).
pub struct View {
    pub now: u64,
    pub alive: bool,
    pub gauges: (usize, usize),
    /// per incarnation: (id, deadline, phase)
    pub incs: Vec<(u64, u64, PhaseV)>,
    pub sink_ready: bool,
    pub flush_ok: bool,
    pub buffered: usize,
    pub inbox: usize,
    pub eof: bool,
    pub completed_ids: Vec<u64>,
    pub cancel_read: Vec<u64>,
    pub last_poll: &'static str,
    pub nops: usize,
}

#[derive(Clone, Copy, PartialEq, Debug)]
pub enum PhaseV {
    NotStarted,
    Running,
    WaitBuf,
    Buffered,
    Written,
    Ended,
}

/// Runs the real server on the ops handed out by `next` (which sees the live state), returns
/// the ops, one observation list per op, and the scenario tags reached.
pub fn drive(
    cfg: &Script,
    mut next: impl FnMut(&View) -> Option<Op>,
) -> (Vec<Op>, Vec<Vec<String>>, Vec<String>) {
    let s = cfg;
    vclock::reset();
    let rt = vclock::runtime();
    let _g = rt.enter();
    let base = Instant::now();
    let show_sent = Box::new(|r: &Response<u64>| Sent {
        id: r.request_id,
        body: match &r.message {
            Ok(v) => Body::Ok(*v),
            Err(e) if e.kind == std::io::ErrorKind::WouldBlock && e.detail == THROTTLE_TEXT => Body::Throttle,
            Err(e) if e.kind == std::io::ErrorKind::Other && e.detail == "handler failed" => Body::HErr,
            Err(_) => Body::OtherErr,
        },
    });
    let show_recv = Box::new(move |m: &ClientMessage<u64>| match m {
        ClientMessage::Request(r) => Recv::Req {
            id: r.id,
            dl: ms_since(base, r.context.deadline),
            tr: trace_num(&r.context.trace_context),
            body: r.message,
        },
        ClientMessage::Cancel { trace_context, request_id } => {
            Recv::Cancel { id: *request_id, tr: trace_num(trace_context) }
        }
        _ => Recv::Cancel { id: u64::MAX, tr: 0 },
    });
    let tr: Tr = STransport::new(s.cap, s.coupled, show_sent, show_recv);
    let ctl = tr.clone();
    let basech = BaseChannel::new(Config { pending_response_buffer: s.buf }, tr);
    let mut chan: Option<Chan> = Some(match s.limit {
        None => Chan::Plain(Box::pin(basech.requests())),
        Some(l) => Chan::Lim(Box::pin(limited(basech, l, s.buf).requests())),
    });
    let waker = TaskWaker::new();
    let mut slots: Vec<Slot> = vec![];
    let mut shadow: Vec<Shadow> = vec![];
    let mut obs: Vec<Vec<String>> = vec![];
    let mut ops_done: Vec<Op> = vec![];
    let mut tags: BTreeSet<String> = BTreeSet::new();
    let mut now: u64 = 0;
    let mut completed_ids: BTreeSet<u64> = BTreeSet::new();
    let mut cancel_read: BTreeSet<u64> = BTreeSet::new();
    let mut last_poll: &'static str = "";
    tags.insert(format!("buf{}", s.buf.min(3)));
    tags.insert(if s.coupled { "coupled".into() } else { "independent".into() });
    tags.insert(match s.cap {
        0 => "cap-unbounded".to_string(),
        1 => "cap1".to_string(),
        _ => "cap2+".to_string(),
    });
    match s.limit {
        None => tags.insert("nolimit".into()),
        Some(0) => tags.insert("limit0".into()),
        Some(_) => tags.insert("limit".into()),
    };
    let mut sink_ready = true;
    loop {
        let view = {
            let i = ctl.0.borrow();
            View {
                now,
                alive: chan.is_some(),
                gauges: chan.as_ref().map(|c| c.gauges()).unwrap_or((0, 0)),
                incs: shadow
                    .iter()
                    .map(|sh| {
                        (
                            sh.id,
                            sh.dl,
                            match sh.phase {
                                Phase::NotStarted => PhaseV::NotStarted,
                                Phase::Running => PhaseV::Running,
                                Phase::WaitBuf => PhaseV::WaitBuf,
                                Phase::Buffered => PhaseV::Buffered,
                                Phase::Written => PhaseV::Written,
                                Phase::Ended => PhaseV::Ended,
                            },
                        )
                    })
                    .collect(),
                sink_ready: i.ready,
                flush_ok: i.flushok,
                buffered: i.buffered,
                inbox: i.inbox.len(),
                eof: i.eof,
                completed_ids: completed_ids.iter().cloned().collect(),
                cancel_read: cancel_read.iter().cloned().collect(),
                last_poll,
                nops: ops_done.len(),
            }
        };
        let Some(op) = next(&view) else { break };
        let op = &op;
        let mut o: Vec<String> = vec![];
        match op {
            Op::Poll => {
                if let Some(ch) = chan.as_mut() {
                    ctl.reset_budget();
                    ctl.take_log();
                    let before = ch.gauges();
                    let mut cx = Context::from_waker(&waker.waker);
                    let r = catch_unwind(AssertUnwindSafe(|| ch.poll_next(&mut cx)));
                    let mut log = ctl.take_log();
                    if matches!(&r, Err(p) if p.downcast_ref::<BudgetExceeded>().is_some()) {
                        // the poll was aborted after 10 000 transport calls: keep what shows the spin
                        log.truncate(64);
                    }
                    // tags from the call log
                    let mut saw_cancel = false;
                    let mut saw_ready_pending = false;
                    let mut reads_after_free = false;
                    let mut nsends = 0;
                    for c in &log {
                        match c {
                            Call::Ready(crate::stransport::TRes::Pending) => {
                                saw_ready_pending = true;
                                tags.insert("ready-pending".into());
                            }
                            Call::Flush(crate::stransport::TRes::Pending) => {
                                tags.insert("flush-pending".into());
                            }
                            Call::Flush(crate::stransport::TRes::Ok) if saw_ready_pending => {
                                tags.insert("notready-but-flush-ok".into());
                            }
                            Call::Ready(crate::stransport::TRes::Err) => {
                                tags.insert("fault-ready".into());
                            }
                            Call::Flush(crate::stransport::TRes::Err) => {
                                tags.insert("fault-flush".into());
                            }
                            Call::Next(NextRes::Err) => {
                                tags.insert("fault-next".into());
                            }
                            Call::Send(m, ok) => {
                                nsends += 1;
                                if !*ok {
                                    tags.insert("fault-send".into());
                                }
                                if m.body == Body::Throttle {
                                    tags.insert("throttle".into());
                                    completed_ids.insert(m.id);
                                    if saw_cancel {
                                        reads_after_free = true;
                                    }
                                } else {
                                    tags.insert("resp-write".into());
                                    completed_ids.insert(m.id);
                                    if m.body == Body::HErr {
                                        tags.insert("resp-write-handler-error".into());
                                    }
                                    for sh in shadow.iter_mut() {
                                        if sh.id == m.id && sh.phase == Phase::Buffered {
                                            sh.phase = Phase::Written;
                                        }
                                    }
                                }
                            }
                            Call::Next(NextRes::Eof) => {
                                tags.insert(if before.0 > 0 { "eof-with-inflight".into() } else { "eof-idle".into() });
                            }
                            Call::Next(NextRes::Item(Recv::Cancel { id, .. })) => {
                                saw_cancel = true;
                                let ph = shadow.iter().rev().find(|sh| sh.id == *id).map(|sh| sh.phase);
                                tags.insert(
                                    match ph {
                                        None => "cancel@unknown",
                                        Some(Phase::NotStarted) => "cancel@notstarted",
                                        Some(Phase::Running) => "cancel@running",
                                        Some(Phase::WaitBuf) => "cancel@waitbuf",
                                        Some(Phase::Buffered) => "cancel@buffered",
                                        Some(Phase::Written) => "cancel@written",
                                        Some(Phase::Ended) => "cancel@ended",
                                    }
                                    .into(),
                                );
                                if !sink_ready {
                                    tags.insert("cancel-while-sink-notready".into());
                                }
                                if before.0 >= 2 {
                                    tags.insert("cancel-with-concurrent-requests".into());
                                }
                                // a cancelled incarnation whose response is still queued is over
                                for sh in shadow.iter_mut() {
                                    if sh.id == *id && sh.phase == Phase::Buffered {
                                        sh.phase = Phase::Ended;
                                    }
                                }
                                cancel_read.insert(*id);
                            }
                            Call::Next(NextRes::Item(Recv::Req { id, .. })) => {
                                if shadow.iter().any(|sh| {
                                    sh.id == *id && !matches!(sh.phase, Phase::Written | Phase::Ended)
                                }) {
                                    tags.insert("req-dup-inflight".into());
                                } else if completed_ids.contains(id) {
                                    tags.insert("id-reused-after-completion".into());
                                }
                            }
                            _ => {}
                        }
                    }
                    if nsends >= 2 {
                        tags.insert("multi-write-poll".into());
                    }
                    if reads_after_free {
                        tags.insert("cancel-then-throttle-same-poll".into());
                    }
                    o.push(format!("OCalls {}", coq_calls(&log, coq_sent, coq_recv)));
                    match r {
                        Ok(Poll::Ready(Some(Ok(ifr)))) => {
                            let k = slots.len();
                            let rq = ifr.get();
                            let (id, dl) = (rq.id, ms_since(base, rq.context.deadline));
                            let ytr = trace_num(&rq.context.trace_context);
                            o.push(format!("OYield {k} {id} {dl} {ytr} {}", rq.message));
                            tags.insert(if ytr & 1 == 1 { "yield-sampled" } else { "yield-unsampled" }.into());
                            shadow.push(Shadow { id, dl, phase: Phase::NotStarted });
                            slots.push(Slot::Yielded(ifr));
                            tags.insert("yield".into());
                            last_poll = "yield";
                            if dl <= now {
                                tags.insert("expired-on-arrival".into());
                            }
                            if let Some(l) = s.limit {
                                if before.0 + 1 == l {
                                    tags.insert("yield-fills-limit".into());
                                }
                            }
                        }
                        Ok(Poll::Ready(Some(Err(e)))) => {
                            o.push(format!("OStreamErr {}", activity(&e)));
                            tags.insert("stream-err".into());
                            last_poll = "err";
                        }
                        Ok(Poll::Ready(None)) => {
                            o.push("OStreamEnd".into());
                            tags.insert("stream-end".into());
                            last_poll = "end";
                        }
                        Ok(Poll::Pending) => {
                            o.push("OPending".into());
                            last_poll = "pending";
                            if let Some(l) = s.limit {
                                if before.0 >= l && saw_ready_pending {
                                    tags.insert("limiter-blocked-on-sink".into());
                                }
                            }
                        }
                        Err(p) => {
                            last_poll = "panic";
                            if p.downcast_ref::<BudgetExceeded>().is_some() {
                                o.push("OFuel".into());
                                tags.insert("budget-exceeded".into());
                            } else {
                                o.push("OPanic".into());
                                tags.insert("panic".into());
                            }
                        }
                    }
                    let after = ch.gauges();
                    // deadline position tags
                    for sh in &shadow {
                        if matches!(sh.phase, Phase::NotStarted | Phase::Running | Phase::WaitBuf | Phase::Buffered) {
                            if sh.dl == now + 1 {
                                tags.insert("poll@deadline-1".into());
                            } else if sh.dl == now {
                                tags.insert("poll@deadline".into());
                            } else if sh.dl + 1 == now {
                                tags.insert("poll@deadline+1".into());
                            }
                        }
                    }
                    if after.0 < before.0 {
                        tags.insert("inflight-dropped".into());
                    }
                    if after == (0, 0) && before.0 > 0 {
                        tags.insert("drained-to-zero".into());
                    }
                }
            }
            Op::Req { id, dl, tr, body } => {
                ctl.deliver(ClientMessage::Request(make_request(base, *id, *dl, *tr, *body)));
                if *dl >= (1u64 << 36) {
                    tags.insert("deadline-beyond-timer-range".into());
                }
            }
            Op::Cancel { id, tr } => {
                ctl.deliver(ClientMessage::Cancel {
                    trace_context: trace_ctx(*tr),
                    request_id: *id,
                });
            }
            Op::Eof => ctl.eof(),
            Op::SetReady(b) => {
                sink_ready = *b;
                ctl.set_ready(*b)
            }
            Op::SetFlush(b) => ctl.set_flush(*b),
            Op::SetClose(b) => ctl.set_close(*b),
            Op::Fail(m) => ctl.fail_next(*m),
            Op::Drain(k) => {
                ctl.drain(*k);
                tags.insert("drain".into());
            }
            Op::HPoll(k, step) => {
                if *k < slots.len() {
                    if let Slot::Yielded(_) = &slots[*k] {
                        let Slot::Yielded(ifr) = std::mem::replace(&mut slots[*k], Slot::Gone) else { unreachable!() };
                        let hc = Rc::new(RefCell::new(HCtl {
                            step: *step,
                            polled: false,
                            completed: false,
                            result: None,
                            dropped: false,
                        }));
                        let hc2 = hc.clone();
                        let fut: Pin<Box<dyn Future<Output = ()>>> =
                            Box::pin(ifr.execute(serve(move |_ctx, _req: u64| ScriptedHandler { ctl: hc2 })));
                        slots[*k] = Slot::Exec(fut, hc, TaskWaker::new());
                    }
                    let mut finished = false;
                    if let Slot::Exec(fut, hc, w) = &mut slots[*k] {
                        let was_completed = hc.borrow().completed;
                        {
                            let mut c = hc.borrow_mut();
                            c.step = *step;
                            c.polled = false;
                        }
                        let mut cx = Context::from_waker(&w.waker);
                        let r = catch_unwind(AssertUnwindSafe(|| fut.as_mut().poll(&mut cx)));
                        let c = hc.borrow();
                        if c.polled {
                            o.push(format!("OHPolled {k}"));
                            if shadow[*k].phase == Phase::NotStarted {
                                shadow[*k].phase = Phase::Running;
                            }
                        }
                        if c.completed && !was_completed {
                            o.push(match c.result {
                                Some(Ok(v)) => format!("OHDone {k} (BOk {v})"),
                                _ => format!("OHDone {k} BErr"),
                            });
                            tags.insert("handler-done".into());
                            if now >= shadow[*k].dl {
                                tags.insert("handler-done-after-deadline".into());
                            }
                        }
                        if c.dropped {
                            o.push(format!("OHDropped {k}"));
                        }
                        match r {
                            Ok(Poll::Ready(())) => {
                                o.push(format!("OExecReady {k}"));
                                finished = true;
                                if c.completed && !c.dropped {
                                    if shadow[*k].phase == Phase::WaitBuf {
                                        tags.insert("buffered-after-wait".into());
                                    }
                                    // either buffered or aborted while waiting: the wire tells
                                    shadow[*k].phase = Phase::Buffered;
                                } else {
                                    tags.insert("handler-aborted".into());
                                    if now >= shadow[*k].dl {
                                        tags.insert("aborted-after-deadline".into());
                                    }
                                    if chan.is_none() {
                                        tags.insert("aborted-by-channel-drop".into());
                                    }
                                    shadow[*k].phase = Phase::Ended;
                                }
                            }
                            Ok(Poll::Pending) => {
                                o.push(format!("OExecPending {k}"));
                                if c.completed {
                                    shadow[*k].phase = Phase::WaitBuf;
                                    tags.insert("exec-waits-for-buffer".into());
                                }
                            }
                            Err(_) => {
                                o.push("OPanic".into());
                                finished = true;
                                tags.insert("panic".into());
                            }
                        }
                    }
                    if finished {
                        slots[*k] = Slot::Done;
                    }
                }
            }
            Op::DropH(k) => {
                if *k < slots.len() {
                    if let Slot::Exec(..) = &slots[*k] {
                        let Slot::Exec(fut, hc, _) = std::mem::replace(&mut slots[*k], Slot::Gone) else { unreachable!() };
                        let was = hc.borrow().dropped;
                        drop(fut);
                        if hc.borrow().dropped && !was {
                            o.push(format!("OHDropped {k}"));
                        }
                        tags.insert(
                            match shadow[*k].phase {
                                Phase::WaitBuf => "drop-exec@waitbuf",
                                _ => "drop-exec@running",
                            }
                            .into(),
                        );
                        shadow[*k].phase = Phase::Ended;
                    }
                }
            }
            Op::DropY(k) => {
                if *k < slots.len() {
                    if let Slot::Yielded(_) = &slots[*k] {
                        slots[*k] = Slot::Gone;
                        shadow[*k].phase = Phase::Ended;
                        tags.insert("drop-yielded".into());
                    }
                }
            }
            Op::DropChan => {
                if chan.is_some() {
                    let inflight = chan.as_ref().unwrap().gauges().0;
                    chan = None;
                    tags.insert(if inflight > 0 { "drop-channel-with-inflight".into() } else { "drop-channel-idle".into() });
                }
            }
            Op::Advance(d) => {
                vclock::advance(&rt, Duration::from_millis(*d));
                now += *d;
            }
        }
        if let Some(ch) = chan.as_ref() {
            let (a, b) = ch.gauges();
            o.push(format!("OGauges {a} {b}"));
        }
        obs.push(o);
        ops_done.push(op.clone());
    }
    if ops_done.len() >= 300 {
        tags.insert("long".into());
    }
    // deterministic teardown
    slots.clear();
    drop(chan);
    drop(_g);
    drop(rt);
    vclock::off();
    (ops_done, obs, tags.into_iter().collect())
}

pub fn run_impl(s: &Script) -> (Vec<Vec<String>>, Vec<String>) {
    let mut it = s.ops.iter().cloned();
    let (_, obs, tags) = drive(s, |_| it.next());
    (obs, tags)
}

pub fn cfg_term(s: &Script) -> String {
    format!(
        "(mkcfg {} {}, st_init cmsg {} {})",
        match s.limit {
            None => "None".to_string(),
            Some(l) => format!("(Some {l})"),
        },
        s.buf,
        s.cap,
        s.coupled
    )
}

pub fn to_case(s: &Script) -> Case {
    let (obs, tags) = run_impl(s);
    let ops: Vec<String> = s.ops.iter().map(coq_op).collect();
    let obs: Vec<String> = obs.iter().map(|l| coq_list(l)).collect();
    Case { cfg: cfg_term(s), ops: coq_list(&ops), obs: coq_list(&obs), tags, nops: s.ops.len() }
}

// ------------------------------------------------------------------------------- generator

/// Per-property bias of the one generator.
#[derive(Clone, Copy, PartialEq, Debug)]
pub enum Bias {
    C04,
    C06,
    C08,
    C09,
    C10,
    C11,
    C12,
    C14,
    Mixed,
}

pub fn bias_of(p: &str) -> Bias {
    match p.to_ascii_lowercase().as_str() {
        "c04" => Bias::C04,
        "c06" => Bias::C06,
        "c08" => Bias::C08,
        "c09" | "c09s" => Bias::C09,
        "c10" | "c10s" => Bias::C10,
        "c11" | "c11s" => Bias::C11,
        "c12" => Bias::C12,
        "c14" | "c14s" => Bias::C14,
        _ => Bias::Mixed,
    }
}

fn live(p: PhaseV) -> bool {
    matches!(p, PhaseV::NotStarted | PhaseV::Running | PhaseV::WaitBuf)
}

/// State-aware generation: the script is produced while the real code runs it, so the choice of
/// the next op can look at the real in-flight count, handler phases, clock and sink state.
/// All randomness comes from `rng`.
pub fn gen_srv(rng: &mut Rng, prop: &str) -> Script {
    let bias = bias_of(prop);
    let limit = match bias {
        Bias::C12 => Some(rng.weighted(&[2, 5, 4, 2]) as usize),
        Bias::C11 | Bias::C10 | Bias::C09 => {
            if rng.chance(1, 4) {
                Some(rng.range(1, 3) as usize)
            } else {
                None
            }
        }
        _ => {
            if rng.chance(2, 5) {
                Some(rng.weighted(&[1, 6, 4, 2]) as usize)
            } else {
                None
            }
        }
    };
    let buf = rng.range(1, 3) as usize;
    let (cap, coupled) = match bias {
        Bias::C14 => (rng.weighted(&[1, 5, 2, 1]) as usize, rng.chance(1, 2)),
        _ => (if rng.chance(1, 2) { 0 } else { rng.range(1, 3) as usize }, rng.chance(1, 2)),
    };
    let len = match bias {
        Bias::C11 => {
            if rng.chance(1, 6) {
                rng.range(300, 420) as usize
            } else {
                rng.range(20, 90) as usize
            }
        }
        _ => rng.range(6, 60) as usize,
    };
    let cfg = Script { limit, buf, cap, coupled, ops: vec![] };
    let mut next_id: u64 = 1;
    let mut sent_ids: Vec<u64> = vec![];
    let mut cancelled_ids: Vec<u64> = vec![];
    let mut pending: std::collections::VecDeque<Op> = Default::default();
    let fault_at = if matches!(bias, Bias::C09) || rng.chance(1, 12) { Some(rng.below(len as u64) as usize) } else { None };
    let eof_at = if matches!(bias, Bias::C10 | Bias::C09) && rng.chance(3, 4) || rng.chance(1, 10) {
        Some(rng.below(len as u64) as usize)
    } else {
        None
    };
    let zap_at = if rng.chance(1, 10) { Some(len - 1 - rng.below((len / 3).max(1) as u64) as usize) } else { None };
    let b1_ok = rng.chance(1, 25); // rarely: ids reused outside the hypothesis of C08/C04
    let mut rng = rng.fork();
    let (ops, _, _) = drive(&cfg, |v| {
        if let Some(o) = pending.pop_front() {
            return Some(o);
        }
        if v.nops >= len {
            return None;
        }
        if Some(v.nops) == fault_at {
            let m = *rng.pick(&[Method::Ready, Method::Send, Method::Flush, Method::Next, Method::Next, Method::Ready, Method::Flush]);
            pending.push_back(Op::Poll);
            return Some(Op::Fail(m));
        }
        if Some(v.nops) == eof_at && !v.eof {
            return Some(Op::Eof);
        }
        if Some(v.nops) == zap_at && v.alive {
            return Some(Op::DropChan);
        }
        let live_incs: Vec<usize> = v.incs.iter().enumerate().filter(|(_, i)| live(i.2)).map(|(k, _)| k).collect();
        let open_ids: Vec<u64> = v
            .incs
            .iter()
            .filter(|i| matches!(i.2, PhaseV::NotStarted | PhaseV::Running | PhaseV::WaitBuf | PhaseV::Buffered))
            .map(|i| i.0)
            .collect();
        // ids that may be duplicated within the hypothesis of C08/C04: surely still in flight
        let dup_ids: Vec<u64> = v
            .incs
            .iter()
            .filter(|i| {
                matches!(i.2, PhaseV::NotStarted | PhaseV::Running | PhaseV::WaitBuf | PhaseV::Buffered)
                    && v.now < i.1
                    && !v.cancel_read.contains(&i.0)
                    && !cancelled_ids.contains(&i.0)
            })
            .map(|i| i.0)
            .collect();
        // weights: poll, request, cancel, handler step, drop handler/yielded, advance, sink ctl, drain
        let mut w: [u64; 8] = match bias {
            Bias::C04 => [30, 18, 16, 22, 3, 3, 6, 2],
            Bias::C06 => [30, 16, 3, 16, 2, 24, 7, 2],
            Bias::C08 => [30, 24, 8, 26, 3, 3, 4, 2],
            Bias::C09 => [32, 20, 6, 22, 4, 4, 8, 4],
            Bias::C10 => [32, 18, 6, 24, 5, 5, 6, 4],
            Bias::C11 => [30, 20, 8, 20, 10, 6, 4, 2],
            Bias::C12 => [30, 26, 12, 18, 3, 5, 5, 1],
            Bias::C14 => [34, 16, 6, 18, 2, 2, 16, 6],
            Bias::Mixed => [30, 18, 8, 20, 5, 8, 8, 3],
        };
        if !v.alive {
            w[0] = 1;
            w[1] = 1;
            w[2] = 0;
            w[6] = 0;
            w[7] = 0;
        }
        if v.eof {
            w[1] = 0;
            w[2] = 0;
        }
        if live_incs.is_empty() {
            w[3] = 0;
            w[4] = 0;
        }
        if v.inbox > 0 {
            w[0] += 25;
        }
        match rng.weighted(&w) {
            0 => Some(Op::Poll),
            1 => {
                // request: fresh / duplicate of an open id / id reused after completion
                let kind = rng.weighted(&[70, if dup_ids.is_empty() { 0 } else { 12 }, if v.completed_ids.is_empty() { 0 } else { 14 }, if b1_ok && !cancelled_ids.is_empty() { 10 } else { 0 }]);
                let id = match kind {
                    1 => *rng.pick(&dup_ids),
                    2 => {
                        // only ids that are not open again and were not cancelled meanwhile
                        let c: Vec<u64> = v
                            .completed_ids
                            .iter()
                            .cloned()
                            .filter(|i| !open_ids.contains(i) && (b1_ok || !cancelled_ids.contains(i)))
                            .collect();
                        if c.is_empty() {
                            next_id += 1;
                            next_id - 1
                        } else {
                            *rng.pick(&c)
                        }
                    }
                    3 => *rng.pick(&cancelled_ids),
                    _ => {
                        next_id += 1;
                        next_id - 1
                    }
                };
                let rel: u64 = match bias {
                    Bias::C06 => *rng.pick(&[0, 1, 2, 3, 5, 8, 13, 40, 70, 100, 130, 4095, 4096, 5000, 1 << 40]),
                    Bias::C11 => *rng.pick(&[3, 20, 200, 10_000, 10_000, 100_000, 1 << 37]),
                    _ => *rng.pick(&[0, 2, 10, 50, 1000, 10_000, 10_000, 10_000, 100_000, 1 << 38]),
                };
                let dl = if rng.chance(1, 30) { v.now.saturating_sub(rng.below(5)) } else { v.now + rel };
                if !sent_ids.contains(&id) {
                    sent_ids.push(id);
                }
                if rng.chance(1, 2) {
                    pending.push_back(Op::Poll);
                }
                Some(Op::Req { id, dl, tr: rng.range(1, 9), body: rng.below(100) })
            }
            2 => {
                let kind = rng.weighted(&[if open_ids.is_empty() { 0 } else { 70 }, 10, if v.completed_ids.is_empty() { 0 } else { 20 }]);
                let id = match kind {
                    0 => *rng.pick(&open_ids),
                    2 => *rng.pick(&v.completed_ids),
                    _ => 900 + rng.below(5),
                };
                if !cancelled_ids.contains(&id) {
                    cancelled_ids.push(id);
                }
                // C12: a request right behind the cancel, read by the same poll (K1's shape)
                if matches!(bias, Bias::C12) && rng.chance(1, 2) {
                    next_id += 1;
                    pending.push_back(Op::Req { id: next_id - 1, dl: v.now + 10_000, tr: 1, body: 0 });
                }
                if rng.chance(2, 3) {
                    pending.push_back(Op::Poll);
                }
                Some(Op::Cancel { id, tr: rng.range(1, 9) })
            }
            3 => {
                let k = *rng.pick(&live_incs);
                let step = match rng.weighted(&[40, 50, 10]) {
                    0 => Step::Run,
                    1 => Step::Finish(rng.below(1000)),
                    _ => Step::Fail,
                };
                Some(Op::HPoll(k, step))
            }
            4 => {
                let k = *rng.pick(&live_incs);
                Some(if v.incs[k].2 == PhaseV::NotStarted { Op::DropY(k) } else { Op::DropH(k) })
            }
            5 => {
                // clock: to deadline-1 / deadline / deadline+1 of a live incarnation, or a small step
                let targets: Vec<u64> = v
                    .incs
                    .iter()
                    .filter(|i| !matches!(i.2, PhaseV::Ended | PhaseV::Written) && i.1 + 1 > v.now && i.1 < v.now + 200_000)
                    .map(|i| i.1)
                    .collect();
                let dt = if !targets.is_empty() && rng.chance(3, 4) {
                    let d = *rng.pick(&targets);
                    let t = match rng.below(3) {
                        0 => d.saturating_sub(1),
                        1 => d,
                        _ => d + 1,
                    };
                    t.saturating_sub(v.now)
                } else {
                    *rng.pick(&[1, 1, 2, 7, 50, 64, 100, 1000])
                };
                if dt == 0 {
                    Some(Op::Poll)
                } else {
                    if rng.chance(2, 3) {
                        pending.push_back(Op::Poll);
                    }
                    Some(Op::Advance(dt))
                }
            }
            6 => Some(match rng.weighted(&[if v.sink_ready { 30 } else { 0 }, if v.sink_ready { 0 } else { 45 }, if v.flush_ok { 15 } else { 0 }, if v.flush_ok { 0 } else { 35 }, 1]) {
                0 => Op::SetReady(false),
                1 => Op::SetReady(true),
                2 => Op::SetFlush(false),
                3 => Op::SetFlush(true),
                _ => Op::SetClose(rng.chance(1, 2)),
            }),
            _ => Some(Op::Drain(rng.range(1, 3) as usize)),
        }
    });
    Script { ops, ..cfg }
}

// ------------------------------------------------------------------------------- chains (C04)
//
// Real chains of depth 1..3: node i = a client (`client::new`) whose dispatch talks over an
// in-memory transport to a `BaseChannel::requests()` server; the handler of server i makes a
// nested call on client i+1 with its own context; the last handler waits until the script lets it
// finish.  Everything is polled by hand, wake-driven (`w` polls every task whose real waker fired
// until none is woken).  Script: `chain,n=<depth>|tok ...` with
//   call  head issues a call        head  poll the head call        x  head abandons its call
//   d<i> s<i> h<i>   poll dispatch / request stream / handler futures of node i (1-based)
//   w     run to quiescence         t<ms> advance the clock         leaf  the last handler may finish

#[derive(Clone, Debug, PartialEq)]
pub enum COp {
    Call,
    Head,
    Abandon,
    Dispatch(usize),
    Server(usize),
    Handlers(usize),
    Wake,
    Advance(u64),
    Leaf,
}

#[derive(Clone, Debug)]
pub struct ChainScript {
    pub depth: usize,
    pub ops: Vec<COp>,
}

pub fn parse_chain(line: &str) -> Option<ChainScript> {
    let (cfg, rest) = line.trim().split_once('|')?;
    let depth: usize = cfg.strip_prefix("chain,n=")?.parse().ok()?;
    if depth == 0 || depth > 4 {
        return None;
    }
    let mut ops = vec![];
    for t in rest.split_whitespace() {
        ops.push(match t {
            "call" => COp::Call,
            "head" => COp::Head,
            "x" => COp::Abandon,
            "w" => COp::Wake,
            "leaf" => COp::Leaf,
            _ => {
                let (h, a) = t.split_at(1);
                match h {
                    "d" => COp::Dispatch(a.parse().ok()?),
                    "s" => COp::Server(a.parse().ok()?),
                    "h" => COp::Handlers(a.parse().ok()?),
                    "t" => COp::Advance(a.parse().ok()?),
                    _ => return None,
                }
            }
        });
    }
    Some(ChainScript { depth, ops })
}

pub fn show_chain(s: &ChainScript) -> String {
    let toks: Vec<String> = s
        .ops
        .iter()
        .map(|o| match o {
            COp::Call => "call".into(),
            COp::Head => "head".into(),
            COp::Abandon => "x".into(),
            COp::Wake => "w".into(),
            COp::Leaf => "leaf".into(),
            COp::Dispatch(i) => format!("d{i}"),
            COp::Server(i) => format!("s{i}"),
            COp::Handlers(i) => format!("h{i}"),
            COp::Advance(d) => format!("t{d}"),
        })
        .collect();
    format!("chain,n={}|{}", s.depth, toks.join(" "))
}

struct CRec {
    node: usize,
    events: Rc<RefCell<Vec<String>>>,
    started: bool,
    completed: bool,
}

struct Recorded<F> {
    inner: Pin<Box<F>>,
    rec: CRec,
}

impl<F: Future> Future for Recorded<F> {
    type Output = F::Output;
    fn poll(mut self: Pin<&mut Self>, cx: &mut Context<'_>) -> Poll<F::Output> {
        if !self.rec.started {
            self.rec.started = true;
            let n = self.rec.node;
            self.rec.events.borrow_mut().push(format!("CStart {n}"));
        }
        let r = self.inner.as_mut().poll(cx);
        if r.is_ready() {
            self.rec.completed = true;
            let n = self.rec.node;
            self.rec.events.borrow_mut().push(format!("CDone {n}"));
        }
        r
    }
}

impl<F> Drop for Recorded<F> {
    fn drop(&mut self) {
        if self.rec.started && !self.rec.completed {
            self.rec.events.borrow_mut().push(format!("CDrop {}", self.rec.node));
        }
    }
}

struct LeafWait {
    done: Rc<RefCell<(bool, Option<std::task::Waker>)>>,
    v: u64,
}

impl Future for LeafWait {
    type Output = Result<u64, ServerError>;
    fn poll(self: Pin<&mut Self>, cx: &mut Context<'_>) -> Poll<Self::Output> {
        let mut d = self.done.borrow_mut();
        if d.0 {
            Poll::Ready(Ok(self.v))
        } else {
            d.1 = Some(cx.waker().clone());
            Poll::Pending
        }
    }
}

type CTr = tarpc::transport::channel::UnboundedChannel<ClientMessage<u64>, Response<u64>>;
type CServer = Requests<BaseChannel<u64, u64, CTr>>;
type BoxFut<T> = Pin<Box<dyn Future<Output = T>>>;

pub fn run_chain(s: &ChainScript) -> (Vec<Vec<String>>, Vec<String>) {
    use tarpc::client;
    vclock::reset();
    let rt = vclock::runtime();
    let _g = rt.enter();
    let n = s.depth;
    let events: Rc<RefCell<Vec<String>>> = Rc::new(RefCell::new(vec![]));
    let leaf = Rc::new(RefCell::new((false, None::<std::task::Waker>)));
    let mut clients: Vec<client::Channel<u64, u64>> = vec![];
    let mut dispatches: Vec<(Option<BoxFut<bool>>, TaskWaker)> = vec![];
    let mut servers: Vec<(Option<Pin<Box<CServer>>>, TaskWaker)> = vec![];
    let mut handlers: Vec<Vec<(Option<BoxFut<()>>, TaskWaker)>> = vec![];
    for _ in 0..n {
        let (ctx, stx) = tarpc::transport::channel::unbounded();
        let nc = client::new(client::Config::default(), ctx);
        clients.push(nc.client);
        let d = nc.dispatch;
        dispatches.push((Some(Box::pin(async move { d.await.is_ok() })), TaskWaker::new()));
        servers.push((Some(Box::pin(BaseChannel::with_defaults(stx).requests())), TaskWaker::new()));
        handlers.push(vec![]);
    }
    let mut head: Option<BoxFut<Result<u64, tarpc::client::RpcError>>> = None;
    let head_w = TaskWaker::new();
    let mut obs: Vec<Vec<String>> = vec![];
    let mut tags: BTreeSet<String> = BTreeSet::new();
    tags.insert("chain".into());
    tags.insert(format!("chain-depth{n}"));
    let mut abandoned = false;

    // one poll of each kind; returns whether something was polled
    macro_rules! poll_head {
        () => {{
            if let Some(f) = head.as_mut() {
                head_w.take();
                let mut cx = Context::from_waker(&head_w.waker);
                if let Poll::Ready(r) = f.as_mut().poll(&mut cx) {
                    events.borrow_mut().push(if r.is_ok() { "CHeadOk".into() } else { "CHeadErr".into() });
                    tags.insert(if r.is_ok() { "chain-head-ok".into() } else { "chain-head-err".into() });
                    head = None;
                }
            }
        }};
    }
    let poll_dispatch = |i: usize, dispatches: &mut Vec<(Option<BoxFut<bool>>, TaskWaker)>| {
        let (f, w) = &mut dispatches[i];
        if let Some(fut) = f.as_mut() {
            w.take();
            let mut cx = Context::from_waker(&w.waker);
            if fut.as_mut().poll(&mut cx).is_ready() {
                *f = None;
            }
        }
    };
    let poll_server = |i: usize,
                       servers: &mut Vec<(Option<Pin<Box<CServer>>>, TaskWaker)>,
                       handlers: &mut Vec<Vec<(Option<BoxFut<()>>, TaskWaker)>>,
                       clients: &Vec<client::Channel<u64, u64>>| {
        let (st, w) = &mut servers[i];
        w.take();
        loop {
            let Some(stream) = st.as_mut() else { break };
            let mut cx = Context::from_waker(&w.waker);
            match stream.as_mut().poll_next(&mut cx) {
                Poll::Ready(Some(Ok(ifr))) => {
                    let ev = events.clone();
                    let fut: BoxFut<()> = if i + 1 < n {
                        let c = clients[i + 1].clone();
                        Box::pin(ifr.execute(serve(move |ctx: context::Context, req: u64| Recorded {
                            inner: Box::pin(async move {
                                c.call(ctx, req + 1)
                                    .await
                                    .map_err(|e| ServerError::new(std::io::ErrorKind::Other, e.to_string()))
                            }),
                            rec: CRec { node: i + 1, events: ev, started: false, completed: false },
                        })))
                    } else {
                        let l = leaf.clone();
                        Box::pin(ifr.execute(serve(move |_ctx: context::Context, req: u64| Recorded {
                            inner: Box::pin(LeafWait { done: l, v: req }),
                            rec: CRec { node: i + 1, events: ev, started: false, completed: false },
                        })))
                    };
                    handlers[i].push((Some(fut), TaskWaker::new()));
                }
                Poll::Ready(Some(Err(_))) | Poll::Ready(None) => {
                    *st = None;
                }
                Poll::Pending => break,
            }
        }
    };
    let poll_handlers = |i: usize, handlers: &mut Vec<Vec<(Option<BoxFut<()>>, TaskWaker)>>, only_woken: bool| -> bool {
        let mut any = false;
        for (f, w) in handlers[i].iter_mut() {
            if let Some(fut) = f.as_mut() {
                if only_woken && !w.woken() {
                    continue;
                }
                any = true;
                w.take();
                let mut cx = Context::from_waker(&w.waker);
                if fut.as_mut().poll(&mut cx).is_ready() {
                    *f = None;
                }
            }
        }
        any
    };

    for op in &s.ops {
        match op {
            COp::Call => {
                if head.is_none() {
                    let c = clients[0].clone();
                    head = Some(Box::pin(async move { c.call(context::current(), 1).await }));
                    head_w.flag.0.store(true, std::sync::atomic::Ordering::SeqCst);
                }
            }
            COp::Head => poll_head!(),
            COp::Abandon => {
                if head.take().is_some() {
                    abandoned = true;
                    tags.insert("chain-abandon".into());
                    let started = events.borrow().iter().filter(|e| e.starts_with("CStart")).count()
                        + obs.iter().flatten().filter(|e| e.starts_with("CStart")).count();
                    tags.insert(format!("chain-abandon-after-{started}-handlers-started"));
                }
            }
            COp::Dispatch(i) if *i >= 1 && *i <= n => poll_dispatch(*i - 1, &mut dispatches),
            COp::Server(i) if *i >= 1 && *i <= n => poll_server(*i - 1, &mut servers, &mut handlers, &clients),
            COp::Handlers(i) if *i >= 1 && *i <= n => {
                poll_handlers(*i - 1, &mut handlers, false);
            }
            COp::Leaf => {
                let mut l = leaf.borrow_mut();
                l.0 = true;
                if let Some(w) = l.1.take() {
                    w.wake();
                }
                tags.insert("chain-leaf-finishes".into());
            }
            COp::Advance(d) => {
                vclock::advance(&rt, Duration::from_millis(*d));
                if *d >= 10_000 {
                    tags.insert("chain-deadline-passes".into());
                }
            }
            COp::Wake => {
                for _round in 0..400 {
                    let mut any = false;
                    if head.is_some() && head_w.woken() {
                        any = true;
                        poll_head!();
                    }
                    for i in 0..n {
                        if dispatches[i].0.is_some() && dispatches[i].1.woken() {
                            any = true;
                            poll_dispatch(i, &mut dispatches);
                        }
                        if servers[i].0.is_some() && servers[i].1.woken() {
                            any = true;
                            poll_server(i, &mut servers, &mut handlers, &clients);
                        }
                        if poll_handlers(i, &mut handlers, true) {
                            any = true;
                        }
                    }
                    if !any {
                        break;
                    }
                }
                if abandoned {
                    tags.insert("chain-quiescent-after-abandon".into());
                }
            }
            _ => {}
        }
        let mut o: Vec<String> = std::mem::take(&mut *events.borrow_mut());
        let g: Vec<String> = servers
            .iter()
            .map(|(st, _)| st.as_ref().map(|r| r.channel().verif_gauges().0).unwrap_or(0).to_string())
            .collect();
        o.push(format!("CGauges {}", coq_list(&g)));
        obs.push(o);
    }
    // teardown without recording further events
    events.borrow_mut().clear();
    drop(head);
    handlers.clear();
    servers.clear();
    dispatches.clear();
    clients.clear();
    events.borrow_mut().clear();
    drop(_g);
    drop(rt);
    vclock::off();
    (obs, tags.into_iter().collect())
}

pub fn chain_to_case(s: &ChainScript) -> Case {
    let (obs, tags) = run_chain(s);
    let ops: Vec<String> = s
        .ops
        .iter()
        .map(|o| match o {
            COp::Call => "KCall".into(),
            COp::Head => "KHead".into(),
            COp::Abandon => "KAbandon".into(),
            COp::Wake => "KWake".into(),
            COp::Leaf => "KLeaf".into(),
            COp::Dispatch(i) => format!("KDispatch {i}"),
            COp::Server(i) => format!("KServer {i}"),
            COp::Handlers(i) => format!("KHandlers {i}"),
            COp::Advance(d) => format!("KAdvance {d}"),
        })
        .collect();
    let obs: Vec<String> = obs.iter().map(|l| coq_list(l)).collect();
    Case { cfg: format!("{}", s.depth), ops: coq_list(&ops), obs: coq_list(&obs), tags, nops: s.ops.len() }
}

pub fn gen_chain(rng: &mut Rng) -> ChainScript {
    let depth = rng.range(1, 3) as usize;
    let mut ops = vec![COp::Call];
    // propagate the request some way down the chain: a prefix of the pipeline order
    let mut pipeline = vec![COp::Head, COp::Dispatch(1)];
    for i in 1..=depth {
        pipeline.push(COp::Server(i));
        pipeline.push(COp::Handlers(i));
        if i < depth {
            pipeline.push(COp::Dispatch(i + 1));
        }
    }
    match rng.weighted(&[50, 30, 20]) {
        0 => {
            let k = rng.range(0, pipeline.len() as u64) as usize;
            ops.extend(pipeline[..k].iter().cloned());
        }
        1 => ops.push(COp::Wake),
        _ => {
            let k = rng.range(0, pipeline.len() as u64) as usize;
            ops.extend(pipeline[..k].iter().cloned());
            if rng.chance(1, 2) {
                ops.push(COp::Wake);
            }
        }
    }
    match rng.weighted(&[70, 12, 10, 8]) {
        0 => {
            ops.push(COp::Abandon);
            ops.push(COp::Wake);
        }
        1 => {
            // the chain completes; abandoning afterwards changes nothing
            ops.push(COp::Wake);
            ops.push(COp::Leaf);
            ops.push(COp::Wake);
            ops.push(COp::Abandon);
            ops.push(COp::Wake);
        }
        2 => {
            // the deadline (10 s) passes instead: every server aborts on its own
            ops.push(COp::Wake);
            ops.push(COp::Advance(10_001));
            ops.push(COp::Wake);
        }
        _ => {
            // abandon in the middle of the completion wave
            ops.push(COp::Wake);
            ops.push(COp::Leaf);
            let k = rng.range(0, 4);
            for _ in 0..k {
                let i = rng.range(1, depth as u64) as usize;
                ops.push(rng.pick(&[COp::Handlers(i), COp::Server(i), COp::Dispatch(i)]).clone());
            }
            ops.push(COp::Abandon);
            ops.push(COp::Wake);
        }
    }
    ChainScript { depth, ops }
}

// ------------------------------------------------------------------------------- script kinds

pub enum AnyScript {
    Srv(Script),
    Chain(ChainScript),
}

pub fn parse_any(line: &str) -> Option<AnyScript> {
    if line.trim_start().starts_with("chain,") {
        parse_chain(line).map(AnyScript::Chain)
    } else {
        parse(line).map(AnyScript::Srv)
    }
}

pub fn show(s: &AnyScript) -> String {
    match s {
        AnyScript::Srv(s) => show_srv(s),
        AnyScript::Chain(s) => show_chain(s),
    }
}

pub fn any_to_case(s: &AnyScript) -> Case {
    match s {
        AnyScript::Srv(s) => to_case(s),
        AnyScript::Chain(s) => chain_to_case(s),
    }
}

pub fn gen(rng: &mut Rng, prop: &str) -> AnyScript {
    if prop.eq_ignore_ascii_case("c04chain") {
        AnyScript::Chain(gen_chain(rng))
    } else {
        AnyScript::Srv(gen_srv(rng, prop))
    }
}

/// Bounded-exhaustive families (thorough tier): every script of exactly `len` ops over a small
/// per-property alphabet, for a few configurations; for chains: every depth x every propagation
/// prefix x every ending.
pub fn sweep(prop: &str, mut f: impl FnMut(AnyScript)) {
    if prop.eq_ignore_ascii_case("c04chain") {
        for depth in 1..=3usize {
            let mut pipeline = vec![COp::Head, COp::Dispatch(1)];
            for i in 1..=depth {
                pipeline.push(COp::Server(i));
                pipeline.push(COp::Handlers(i));
                if i < depth {
                    pipeline.push(COp::Dispatch(i + 1));
                }
            }
            for k in 0..=pipeline.len() {
                for ending in 0..4 {
                    let mut ops = vec![COp::Call];
                    ops.extend(pipeline[..k].iter().cloned());
                    match ending {
                        0 => ops.extend([COp::Abandon, COp::Wake]),
                        1 => ops.extend([COp::Wake, COp::Abandon, COp::Wake]),
                        2 => ops.extend([COp::Wake, COp::Leaf, COp::Wake, COp::Abandon, COp::Wake]),
                        _ => ops.extend([COp::Wake, COp::Advance(10_001), COp::Wake]),
                    }
                    f(AnyScript::Chain(ChainScript { depth, ops }));
                }
            }
        }
        return;
    }
    let r = |id: u64, dl: u64, body: u64| Op::Req { id, dl, tr: 1, body };
    let (cfgs, alpha, len): (Vec<(Option<usize>, usize, usize, bool)>, Vec<Op>, usize) = match bias_of(prop) {
        Bias::C12 => (
            vec![(Some(1), 1, 0, true), (Some(0), 1, 0, true)],
            vec![r(1, 1000, 1), r(2, 1000, 2), Op::Cancel { id: 1, tr: 1 }, Op::Poll, Op::HPoll(0, Step::Finish(7)), Op::SetReady(false), Op::SetReady(true)],
            5,
        ),
        Bias::C06 => (
            vec![(None, 1, 0, true), (Some(1), 1, 0, true)],
            vec![r(1, 100, 1), Op::Poll, Op::HPoll(0, Step::Run), Op::Advance(99), Op::Advance(1), Op::SetReady(false), Op::SetReady(true)],
            5,
        ),
        Bias::C14 => (
            vec![(None, 1, 1, true), (None, 1, 1, false), (Some(1), 1, 1, false)],
            vec![r(1, 1000, 1), Op::Poll, Op::HPoll(0, Step::Finish(7)), Op::SetReady(false), Op::SetReady(true), Op::SetFlush(false), Op::Drain(1)],
            5,
        ),
        Bias::C09 | Bias::C10 => (
            vec![(None, 1, 0, true)],
            vec![r(1, 1000, 1), Op::Poll, Op::HPoll(0, Step::Finish(7)), Op::Eof, Op::Fail(Method::Flush), Op::Fail(Method::Next), Op::DropChan],
            5,
        ),
        Bias::C11 => (
            vec![(None, 1, 0, true), (Some(1), 1, 0, true)],
            vec![r(1, 100, 1), Op::Poll, Op::HPoll(0, Step::Finish(7)), Op::DropH(0), Op::DropY(0), Op::Advance(100), Op::Cancel { id: 1, tr: 1 }],
            5,
        ),
        _ => (
            vec![(None, 1, 0, true), (None, 2, 0, true)],
            vec![r(1, 1000, 1), r(1, 1000, 2), Op::Cancel { id: 1, tr: 1 }, Op::Poll, Op::HPoll(0, Step::Finish(7)), Op::HPoll(1, Step::Run), Op::SetReady(false)],
            5,
        ),
    };
    for (limit, buf, cap, coupled) in cfgs {
        let mut idx = vec![0usize; len];
        'outer: loop {
            f(AnyScript::Srv(Script { limit, buf, cap, coupled, ops: idx.iter().map(|&i| alpha[i].clone()).collect() }));
            let mut p = 0;
            loop {
                if p == len {
                    break 'outer;
                }
                idx[p] += 1;
                if idx[p] < alpha.len() {
                    break;
                }
                idx[p] = 0;
                p += 1;
            }
        }
    }
}

#[allow(dead_code)]
fn unused(_: BTreeMap<u8, u8>) {}
