//! Virtual time. tarpc measures deadlines with `std::time::Instant::now()`, which tokio's paused
//! clock does not move. The harness therefore interposes `clock_gettime` for the whole process:
//! while virtual time is on, CLOCK_MONOTONIC and CLOCK_REALTIME (and their coarse/boottime
//! variants) return a base plus an offset that only `advance` moves. `advance` moves tokio's
//! paused clock by the same amount, so `DelayQueue` timers and tarpc's own arithmetic agree.
use std::sync::atomic::{AtomicBool, AtomicI64, Ordering};
use std::time::Duration;

static VIRT: AtomicBool = AtomicBool::new(false);
static OFF_NS: AtomicI64 = AtomicI64::new(0);

/// monotonic base: 1_000_000 s of "uptime"; realtime base: 2020-09-13T12:26:40Z
const MONO_BASE_S: i64 = 1_000_000;
const REAL_BASE_S: i64 = 1_600_000_000;

#[repr(C)]
pub struct Timespec {
    tv_sec: i64,
    tv_nsec: i64,
}

extern "C" {
    fn syscall(n: i64, ...) -> i64;
}

#[no_mangle]
pub unsafe extern "C" fn clock_gettime(clk: i32, ts: *mut Timespec) -> i32 {
    if VIRT.load(Ordering::SeqCst) {
        let base = match clk {
            1 | 4 | 6 | 7 => Some(MONO_BASE_S), // MONOTONIC, MONOTONIC_RAW, MONOTONIC_COARSE, BOOTTIME
            0 | 5 => Some(REAL_BASE_S),         // REALTIME, REALTIME_COARSE
            _ => None,
        };
        if let Some(base) = base {
            let off = OFF_NS.load(Ordering::SeqCst);
            (*ts).tv_sec = base + off / 1_000_000_000;
            (*ts).tv_nsec = off % 1_000_000_000;
            return 0;
        }
    }
    syscall(228, clk as i64, ts) as i32 // SYS_clock_gettime on x86_64
}

/// Turns virtual time on and resets it to 0.
pub fn reset() {
    OFF_NS.store(0, Ordering::SeqCst);
    VIRT.store(true, Ordering::SeqCst);
}

pub fn off() {
    VIRT.store(false, Ordering::SeqCst);
}

pub fn now_ms() -> i64 {
    OFF_NS.load(Ordering::SeqCst) / 1_000_000
}

/// A current-thread tokio runtime with a paused clock. Create it *after* `reset()`.
pub fn runtime() -> tokio::runtime::Runtime {
    tokio::runtime::Builder::new_current_thread()
        .enable_time()
        .start_paused(true)
        .build()
        .expect("runtime")
}

/// Advances both clocks by `d` and lets tokio's timer driver fire what is due.
pub fn advance(rt: &tokio::runtime::Runtime, d: Duration) {
    OFF_NS.fetch_add(d.as_nanos() as i64, Ordering::SeqCst);
    rt.block_on(tokio::time::advance(d));
}
