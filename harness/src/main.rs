//! Correspondence harness: runs the real tarpc code on scripted operation sequences and prints
//! canonical observations as Coq terms (one case per line) for the model to be compared with.
mod c13;
mod exec;
mod rng;
mod stransport;
mod vclock;

use exec::{write_cases, Case};
use rng::Rng;
use std::io::{BufRead, Write};

fn arg(args: &[String], name: &str) -> Option<String> {
    args.iter().position(|a| a == name).and_then(|i| args.get(i + 1).cloned())
}

fn main() {
    let args: Vec<String> = std::env::args().collect();
    if args.len() < 3 {
        eprintln!("usage: harness <prop> <gen|run|sweep> [--seed N] [--count N] [--in F] [--out F]");
        std::process::exit(2);
    }
    let prop = args[1].as_str();
    let cmd = args[2].as_str();
    let seed: u64 = arg(&args, "--seed").and_then(|s| s.parse().ok()).unwrap_or(1);
    let count: usize = arg(&args, "--count").and_then(|s| s.parse().ok()).unwrap_or(100);
    let out = arg(&args, "--out");
    let input = arg(&args, "--in");
    // silence panics caught by catch_unwind; they are observations, not crashes
    std::panic::set_hook(Box::new(|_| {}));
    match (prop, cmd) {
        ("c13", "gen") => {
            let mut rng = Rng::new(seed);
            let mut w = open_out(&out);
            for _ in 0..count {
                writeln!(w, "{}", c13::show(&c13::gen(&mut rng))).unwrap();
            }
        }
        ("c13", "sweep") => {
            let len: usize = arg(&args, "--len").and_then(|s| s.parse().ok()).unwrap_or(6);
            let mut w = open_out(&out);
            for n in 1..=2 {
                c13::sweep(n, len, |s| writeln!(w, "{}", c13::show(&s)).unwrap());
            }
        }
        ("c13", "run") => {
            let cases: Vec<Case> = read_lines(&input)
                .iter()
                .filter_map(|l| c13::parse(l))
                .map(|s| c13::to_case(&s))
                .collect();
            write_cases(&out.expect("--out"), &cases);
        }
        _ => {
            eprintln!("unknown property/command {prop} {cmd}");
            std::process::exit(2);
        }
    }
}

fn open_out(out: &Option<String>) -> Box<dyn Write> {
    match out {
        Some(p) => Box::new(std::io::BufWriter::new(std::fs::File::create(p).expect("create"))),
        None => Box::new(std::io::stdout()),
    }
}

fn read_lines(input: &Option<String>) -> Vec<String> {
    let f = std::fs::File::open(input.as_ref().expect("--in")).expect("open input");
    std::io::BufReader::new(f)
        .lines()
        .map(|l| l.unwrap())
        .filter(|l| !l.trim().is_empty() && !l.starts_with('#'))
        .collect()
}
