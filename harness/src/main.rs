//! Correspondence harness: runs the real tarpc code on scripted operation sequences and prints
//! canonical observations as Coq terms (one case per line) for the model to be compared with.
mod c07;
mod c13;
mod c13r;
mod ioerr;
mod sock;
mod spans;
mod seqt;
mod c16;
mod c17;
mod c19;
mod c20;
mod chain;
mod cli;
mod exec;
mod rng;
mod shape;
mod srv;
mod srvw;
mod srvx;
mod stransport;
mod vclock;
mod wire;

use exec::{write_cases, Case};
use rng::Rng;
use std::io::{BufRead, Write};

fn arg(args: &[String], name: &str) -> Option<String> {
    args.iter().position(|a| a == name).and_then(|i| args.get(i + 1).cloned())
}

fn main() {
    let args: Vec<String> = std::env::args().collect();
    if args.len() < 3 {
        eprintln!("usage: harness <prop> <gen|run|sweep> [--seed N] [--count N] [--in F] [--out F]");
        std::process::exit(2);
    }
    let prop = args[1].as_str();
    let cmd = args[2].as_str();
    let seed: u64 = arg(&args, "--seed").and_then(|s| s.parse().ok()).unwrap_or(1);
    let count: usize = arg(&args, "--count").and_then(|s| s.parse().ok()).unwrap_or(100);
    let out = arg(&args, "--out");
    let input = arg(&args, "--in");
    // silence panics caught by catch_unwind; they are observations, not crashes
    std::panic::set_hook(Box::new(|_| {}));
    // WIRE/TIME layer (C15, C07, C16, `wire shape`): dispatched in wire.rs
    if wire::dispatch(&args) {
        return;
    }
    match (prop, cmd) {
        ("c13", "gen") => {
            let mut rng = Rng::new(seed);
            let mut w = open_out(&out);
            for _ in 0..count {
                writeln!(w, "{}", c13::show(&c13::gen(&mut rng))).unwrap();
            }
        }
        ("c13", "sweep") => {
            let len: usize = arg(&args, "--len").and_then(|s| s.parse().ok()).unwrap_or(6);
            let mut w = open_out(&out);
            for n in 1..=2 {
                c13::sweep(n, len, |s| writeln!(w, "{}", c13::show(&s)).unwrap());
            }
        }
        ("c13", "run") => {
            let cases: Vec<Case> = read_lines(&input)
                .iter()
                .filter_map(|l| c13::parse(l))
                .map(|s| c13::to_case(&s))
                .collect();
            write_cases(&out.expect("--out"), &cases);
        }
        ("c13r", "gen") => {
            let mut rng = Rng::new(seed);
            let mut w = open_out(&out);
            for _ in 0..count {
                writeln!(w, "{}", c13r::show(&c13r::gen(&mut rng))).unwrap();
            }
        }
        ("c13r", "sweep") => {
            let mut w = open_out(&out);
            c13r::sweep(|s| writeln!(w, "{}", c13r::show(&s)).unwrap());
        }
        ("c13r", "run") => {
            let cases: Vec<Case> = read_lines(&input)
                .iter()
                .filter_map(|l| c13r::parse(l))
                .map(|s| c13r::to_case(&s))
                .collect();
            write_cases(&out.expect("--out"), &cases);
        }
        ("ioerr", "gen") => {
            let mut rng = Rng::new(seed);
            let mut w = open_out(&out);
            for _ in 0..count {
                writeln!(w, "{}", ioerr::show(&ioerr::gen(&mut rng))).unwrap();
            }
        }
        ("ioerr", "sweep") => {
            let mut w = open_out(&out);
            ioerr::sweep(|s| writeln!(w, "{}", ioerr::show(&s)).unwrap());
        }
        ("ioerr", "run") => {
            let cases: Vec<Case> = read_lines(&input)
                .iter()
                .filter_map(|l| ioerr::parse(l))
                .map(|s| ioerr::to_case(&s))
                .collect();
            write_cases(&out.expect("--out"), &cases);
        }
        ("sock", "gen") => {
            let mut rng = Rng::new(seed);
            let mut w = open_out(&out);
            for _ in 0..count {
                writeln!(w, "{}", sock::show(&sock::gen(&mut rng))).unwrap();
            }
        }
        ("sock", "sweep") => {
            let mut w = open_out(&out);
            sock::sweep(|s| writeln!(w, "{}", sock::show(&s)).unwrap());
        }
        ("sock", "run") => {
            let cases: Vec<Case> = read_lines(&input)
                .iter()
                .filter_map(|l| sock::parse(l))
                .enumerate()
                .map(|(i, s)| sock::to_case(&s, i))
                .collect();
            write_cases(&out.expect("--out"), &cases);
        }
        ("spans", "gen") => {
            let mut rng = Rng::new(seed);
            let mut w = open_out(&out);
            for _ in 0..count {
                writeln!(w, "{}", spans::show(&spans::gen(&mut rng))).unwrap();
            }
        }
        ("spans", "sweep") => {
            let mut w = open_out(&out);
            spans::sweep(|s| writeln!(w, "{}", spans::show(&s)).unwrap());
        }
        ("spans", "run") => {
            let cases: Vec<Case> = read_lines(&input)
                .iter()
                .filter_map(|l| spans::parse(l))
                .map(|s| spans::to_case(&s))
                .collect();
            write_cases(&out.expect("--out"), &cases);
        }
        ("seqt", "gen") => {
            let mut rng = Rng::new(seed);
            let mut w = open_out(&out);
            for _ in 0..count {
                writeln!(w, "{}", seqt::show(&seqt::gen(&mut rng))).unwrap();
            }
        }
        ("seqt", "sweep") => {
            let mut w = open_out(&out);
            seqt::sweep(|s| writeln!(w, "{}", seqt::show(&s)).unwrap());
        }
        ("seqt", "run") => {
            let cases: Vec<Case> = read_lines(&input)
                .iter()
                .filter_map(|l| seqt::parse(l))
                .map(|s| seqt::to_case(&s))
                .collect();
            write_cases(&out.expect("--out"), &cases);
        }
        ("cli", "gen") => {
            let bias = cli::bias_of(&arg(&args, "--prop").unwrap_or_default());
            let mut rng = Rng::new(seed);
            let mut w = open_out(&out);
            for _ in 0..count {
                writeln!(w, "{}", cli::show(&cli::gen(&mut rng, bias))).unwrap();
            }
        }
        ("cli", "sweep") => {
            let mut w = open_out(&out);
            if arg(&args, "--family").as_deref() == Some("volume") {
                cli::volume(|s| writeln!(w, "{}", cli::show(&s)).unwrap());
            } else if arg(&args, "--family").as_deref() == Some("midvolume") {
                cli::midvolume(|s| writeln!(w, "{}", cli::show(&s)).unwrap());
            } else {
                let len: usize = arg(&args, "--len").and_then(|s| s.parse().ok()).unwrap_or(4);
                cli::sweep(len, |s| writeln!(w, "{}", cli::show(&s)).unwrap());
            }
        }
        ("cliw", "gen") => {
            let mut rng = Rng::new(seed);
            let mut w = open_out(&out);
            for _ in 0..count {
                writeln!(w, "{}", cli::show(&cli::gen_wake(&mut rng))).unwrap();
            }
        }
        ("cliw", "run") => {
            if arg(&args, "--order").as_deref() == Some("alt") {
                cli::ALT_ORDER.store(true, std::sync::atomic::Ordering::Relaxed);
            }
            let cases: Vec<Case> = read_lines(&input)
                .iter()
                .filter_map(|l| cli::parse(l))
                .map(|s| cli::to_case_wake(&s))
                .collect();
            write_cases(&out.expect("--out"), &cases);
        }
        ("cli", "run") => {
            let cases: Vec<Case> = read_lines(&input)
                .iter()
                .filter_map(|l| cli::parse(l))
                .map(|s| cli::to_case(&s))
                .collect();
            write_cases(&out.expect("--out"), &cases);
        }
        ("c19", "gen") => {
            let mut rng = Rng::new(seed);
            let mut w = open_out(&out);
            for _ in 0..count {
                writeln!(w, "{}", c19::show(&c19::gen(&mut rng))).unwrap();
            }
        }
        ("c19", "sweep") => {
            let mut w = open_out(&out);
            c19::sweep(|s| writeln!(w, "{}", c19::show(&s)).unwrap());
        }
        ("c19", "run") => {
            let cases: Vec<Case> = read_lines(&input)
                .iter()
                .filter_map(|l| c19::parse(l))
                .map(|s| c19::to_case(&s))
                .collect();
            write_cases(&out.expect("--out"), &cases);
        }
        ("srv", "gen") => {
            let bias = arg(&args, "--prop").unwrap_or_default();
            let mut rng = Rng::new(seed);
            let mut w = open_out(&out);
            for _ in 0..count {
                writeln!(w, "{}", srv::show(&srv::gen(&mut rng, &bias))).unwrap();
            }
        }
        ("srv", "sweep") => {
            let bias = arg(&args, "--prop").unwrap_or_default();
            let mut w = open_out(&out);
            srv::sweep(&bias, |s| writeln!(w, "{}", srv::show(&s)).unwrap());
        }
        ("srv", "run") => {
            let cases: Vec<Case> = read_lines(&input)
                .iter()
                .filter_map(|l| srv::parse_any(l))
                .map(|s| srv::any_to_case(&s))
                .collect();
            write_cases(&out.expect("--out"), &cases);
        }
        ("srvx", "gen") => {
            let mut rng = Rng::new(seed);
            let mut w = open_out(&out);
            for _ in 0..count {
                writeln!(w, "{}", srv::show_srv(&srvx::gen(&mut rng))).unwrap();
            }
        }
        ("srvx", "sweep") => {
            let mut w = open_out(&out);
            srvx::sweep(|s| writeln!(w, "{}", srv::show_srv(&s)).unwrap());
        }
        ("srvx", "run") => {
            let cases: Vec<Case> = read_lines(&input)
                .iter()
                .filter_map(|l| srv::parse(l))
                .map(|s| srvx::to_case(&s))
                .collect();
            write_cases(&out.expect("--out"), &cases);
        }
        ("srvw", "gen") => {
            let mut rng = Rng::new(seed);
            let mut w = open_out(&out);
            for _ in 0..count {
                writeln!(w, "{}", srvw::show(&srvw::gen(&mut rng))).unwrap();
            }
        }
        ("srvw", "sweep") => {
            let mut w = open_out(&out);
            srvw::sweep(|s| writeln!(w, "{}", srvw::show(&s)).unwrap());
        }
        ("srvw", "run") => {
            if arg(&args, "--order").as_deref() == Some("alt") {
                srvw::ALT_ORDER.store(true, std::sync::atomic::Ordering::Relaxed);
            }
            let cases: Vec<Case> = read_lines(&input)
                .iter()
                .filter_map(|l| srvw::parse(l))
                .map(|s| srvw::to_case(&s))
                .collect();
            write_cases(&out.expect("--out"), &cases);
        }
        ("chain", "gen") => {
            let mut rng = Rng::new(seed);
            let mut w = open_out(&out);
            for _ in 0..count {
                writeln!(w, "{}", chain::show(&chain::gen(&mut rng))).unwrap();
            }
        }
        ("chain", "sweep") => {
            let mut w = open_out(&out);
            chain::sweep(|s| writeln!(w, "{}", chain::show(&s)).unwrap());
        }
        ("chain", "run") => {
            let cases: Vec<Case> = read_lines(&input)
                .iter()
                .filter_map(|l| chain::parse(l))
                .map(|s| chain::to_case(&s))
                .collect();
            write_cases(&out.expect("--out"), &cases);
        }
        ("c20", "gen") => {
            let mut rng = Rng::new(seed);
            let mut w = open_out(&out);
            for _ in 0..count {
                writeln!(w, "{}", c20::show(&c20::gen(&mut rng))).unwrap();
            }
        }
        ("c20", "sweep") => {
            let mut w = open_out(&out);
            c20::sweep(|s| writeln!(w, "{}", c20::show(&s)).unwrap());
        }
        ("c20", "run") => {
            let cases: Vec<Case> = read_lines(&input)
                .iter()
                .filter_map(|l| c20::parse(l))
                .map(|s| c20::to_case(&s))
                .collect();
            write_cases(&out.expect("--out"), &cases);
        }
        ("c17", "gen") => {
            let mut rng = Rng::new(seed);
            let mut w = open_out(&out);
            for _ in 0..count {
                writeln!(w, "{}", c17::show(&c17::gen(&mut rng))).unwrap();
            }
        }
        ("c17", "sweep") => {
            let mut w = open_out(&out);
            c17::sweep(|d| writeln!(w, "{}", c17::show(&d)).unwrap());
        }
        ("c17", "run") => {
            let cases: Vec<Case> = c17::run_scripts(&read_lines(&input));
            write_cases(&out.expect("--out"), &cases);
        }
        _ => {
            eprintln!("unknown property/command {prop} {cmd}");
            std::process::exit(2);
        }
    }
}

fn open_out(out: &Option<String>) -> Box<dyn Write> {
    match out {
        Some(p) => Box::new(std::io::BufWriter::new(std::fs::File::create(p).expect("create"))),
        None => Box::new(std::io::stdout()),
    }
}

fn read_lines(input: &Option<String>) -> Vec<String> {
    let f = std::fs::File::open(input.as_ref().expect("--in")).expect("open input");
    std::io::BufReader::new(f)
        .lines()
        .map(|l| l.unwrap())
        .filter(|l| !l.trim().is_empty() && !l.starts_with('#'))
        .collect()
}
