//! tarpc's own consumer of the Requests stream: drives the REAL `Channel::execute(serve)`
//! (= `self.requests().execute(serve)` = take_while(is_ok).filter_map(ok).map(execute), server.rs)
//! over the scripted transport, hand-polls the resulting stream and every execute() future it
//! yields.  Model: coq/ServerExec.v (`exec_run`); check: coq/Checks/ExecCorr.v.
//!
//! Script language = srv.rs's (same header, same tokens); the meaning of three tokens changes:
//!   P      poll the execute-stream once (OPollExec), not the Requests stream
//!   H<k>.. poll the execute() future that the execute-stream yielded as item k
//!   Y<k>   drop item k before it was ever polled (it still holds the InFlightRequest: OEDropYielded)
//!   Q<k>   drop item k after it was polled at least once, unfinished (OEDropHandler)
//!   Z      drop the execute-stream (and with it the Requests stream and the channel)
//!
//! execute() consumes the channel, so the harness cannot look at it afterwards.  To keep srv.rs's
//! observations (gauges, what the Requests stream returned) the channel handed to the real
//! `execute` is `Probe(real channel)`: a decorator `Channel` (the pattern tarpc documents) that
//! forwards every call unchanged and notes the gauges, the request or error that came back, and
//! whether it was polled at all during the current poll of the execute-stream.
use crate::exec::{coq_list, Case, TaskWaker};
use crate::rng::Rng;
use crate::srv::{self, Base, Body, HCtl, Op, Recv, Script, ScriptedHandler, Sent, Step, Tr, THROTTLE_TEXT};
use crate::stransport::{coq_calls, BudgetExceeded, Call, NextRes, STransport, TRes};
use crate::vclock;
use futures::{Sink, Stream, StreamExt};
use std::cell::{Cell, RefCell};
use std::collections::BTreeSet;
use std::future::Future;
use std::panic::{catch_unwind, AssertUnwindSafe};
use std::pin::Pin;
use std::rc::Rc;
use std::task::{Context, Poll};
use std::time::{Duration, Instant};
use tarpc::server::limits::channels_per_key::TrackedChannel;
use tarpc::server::limits::requests_per_channel::MaxRequests;
use tarpc::server::{serve, BaseChannel, Channel, Config, TrackedRequest};
use tarpc::{ChannelError, ClientMessage, Response};

// ------------------------------------------------------------------------------- the probe

type Tracked = TrackedChannel<Base, u64>;

/// The channel under the probe: the bare BaseChannel, the limiter over it, and both again behind
/// `TrackedChannel` (the decorator `Incoming::max_channels_per_key` hands out; channels_per_key.rs
/// 63-134: every Stream / Sink / Channel method must pass through unchanged).
enum Inner {
    Plain(Pin<Box<Base>>),
    Lim(Pin<Box<MaxRequests<Base>>>),
    Tracked(Pin<Box<Tracked>>),
    TrackedLim(Pin<Box<MaxRequests<Tracked>>>),
}

fn tracked(ch: Base) -> Tracked {
    use futures::{FutureExt, StreamExt};
    use tarpc::server::incoming::Incoming;
    let mut s = Box::pin(futures::stream::iter(vec![ch]).max_channels_per_key(1, |_: &Base| 7u64));
    s.next().now_or_never().expect("ready").expect("one channel")
}

#[derive(Default)]
struct PState {
    gauges: (usize, usize),
    alive: bool,
    /// per poll of the execute-stream
    polled: bool,
    err: Option<&'static str>,
    last_req: Option<(u64, u64, u64, u64)>,
}

struct Probe {
    inner: Inner,
    st: Rc<RefCell<PState>>,
    base: Instant,
}

type CErr = ChannelError<std::io::Error>;

impl Probe {
    fn note(&mut self) {
        let g = match &self.inner {
            Inner::Plain(c) => c.verif_gauges(),
            Inner::Lim(c) => c.get_ref().verif_gauges(),
            Inner::Tracked(c) => c.get_ref().verif_gauges(),
            Inner::TrackedLim(c) => c.get_ref().get_ref().verif_gauges(),
        };
        self.st.borrow_mut().gauges = g;
    }
    fn note_err<T>(&mut self, r: &Poll<Result<T, CErr>>) {
        if let Poll::Ready(Err(e)) = r {
            self.st.borrow_mut().err = Some(srv::activity(e));
        }
        self.note();
    }
}

impl Drop for Probe {
    fn drop(&mut self) {
        self.st.borrow_mut().alive = false;
    }
}

impl Stream for Probe {
    type Item = Result<TrackedRequest<u64>, CErr>;
    fn poll_next(self: Pin<&mut Self>, cx: &mut Context<'_>) -> Poll<Option<Self::Item>> {
        let this = self.get_mut();
        this.st.borrow_mut().polled = true;
        let r = match &mut this.inner {
            Inner::Plain(c) => c.as_mut().poll_next(cx),
            Inner::Lim(c) => c.as_mut().poll_next(cx),
            Inner::Tracked(c) => c.as_mut().poll_next(cx),
            Inner::TrackedLim(c) => c.as_mut().poll_next(cx),
        };
        match &r {
            Poll::Ready(Some(Ok(t))) => {
                let q = &t.request;
                this.st.borrow_mut().last_req = Some((
                    q.id,
                    srv::ms_since(this.base, q.context.deadline),
                    srv::trace_num(&q.context.trace_context),
                    q.message,
                ));
            }
            Poll::Ready(Some(Err(e))) => this.st.borrow_mut().err = Some(srv::activity(e)),
            _ => {}
        }
        this.note();
        r
    }
}

impl Sink<Response<u64>> for Probe {
    type Error = CErr;
    fn poll_ready(self: Pin<&mut Self>, cx: &mut Context<'_>) -> Poll<Result<(), CErr>> {
        let this = self.get_mut();
        let r = match &mut this.inner {
            Inner::Plain(c) => c.as_mut().poll_ready(cx),
            Inner::Lim(c) => c.as_mut().poll_ready(cx),
            Inner::Tracked(c) => c.as_mut().poll_ready(cx),
            Inner::TrackedLim(c) => c.as_mut().poll_ready(cx),
        };
        this.note_err(&r);
        r
    }
    fn start_send(self: Pin<&mut Self>, item: Response<u64>) -> Result<(), CErr> {
        let this = self.get_mut();
        let r = match &mut this.inner {
            Inner::Plain(c) => c.as_mut().start_send(item),
            Inner::Lim(c) => c.as_mut().start_send(item),
            Inner::Tracked(c) => c.as_mut().start_send(item),
            Inner::TrackedLim(c) => c.as_mut().start_send(item),
        };
        if let Err(e) = &r {
            this.st.borrow_mut().err = Some(srv::activity(e));
        }
        this.note();
        r
    }
    fn poll_flush(self: Pin<&mut Self>, cx: &mut Context<'_>) -> Poll<Result<(), CErr>> {
        let this = self.get_mut();
        let r = match &mut this.inner {
            Inner::Plain(c) => c.as_mut().poll_flush(cx),
            Inner::Lim(c) => c.as_mut().poll_flush(cx),
            Inner::Tracked(c) => c.as_mut().poll_flush(cx),
            Inner::TrackedLim(c) => c.as_mut().poll_flush(cx),
        };
        this.note_err(&r);
        r
    }
    fn poll_close(self: Pin<&mut Self>, cx: &mut Context<'_>) -> Poll<Result<(), CErr>> {
        let this = self.get_mut();
        let r = match &mut this.inner {
            Inner::Plain(c) => c.as_mut().poll_close(cx),
            Inner::Lim(c) => c.as_mut().poll_close(cx),
            Inner::Tracked(c) => c.as_mut().poll_close(cx),
            Inner::TrackedLim(c) => c.as_mut().poll_close(cx),
        };
        this.note_err(&r);
        r
    }
}

impl Channel for Probe {
    type Req = u64;
    type Resp = u64;
    type Transport = Tr;
    fn config(&self) -> &Config {
        match &self.inner {
            Inner::Plain(c) => c.config(),
            Inner::Lim(c) => c.config(),
            Inner::Tracked(c) => c.config(),
            Inner::TrackedLim(c) => c.config(),
        }
    }
    fn in_flight_requests(&self) -> usize {
        match &self.inner {
            Inner::Plain(c) => c.in_flight_requests(),
            Inner::Lim(c) => c.in_flight_requests(),
            Inner::Tracked(c) => c.in_flight_requests(),
            Inner::TrackedLim(c) => c.in_flight_requests(),
        }
    }
    fn transport(&self) -> &Tr {
        match &self.inner {
            Inner::Plain(c) => c.transport(),
            Inner::Lim(c) => c.transport(),
            Inner::Tracked(c) => c.transport(),
            Inner::TrackedLim(c) => c.transport(),
        }
    }
}

// ------------------------------------------------------------------------------- the driver

type ExecFut = Pin<Box<dyn Future<Output = ()>>>;
type ExecStream = Pin<Box<dyn Stream<Item = ExecFut>>>;

enum Slot {
    /// yielded by the execute-stream, with its handler control and whether it was ever polled
    Live(ExecFut, Rc<RefCell<HCtl>>, TaskWaker, bool),
    Done,
    Gone,
}

fn coq_eop(o: &Op) -> String {
    match o {
        Op::Poll => "OPollExec".into(),
        Op::HPoll(k, Step::Run) => format!("OEHandlerPoll {k} SRun"),
        Op::HPoll(k, Step::Finish(v)) => format!("OEHandlerPoll {k} (SFinish {v})"),
        Op::HPoll(k, Step::Fail) => format!("OEHandlerPoll {k} SFail"),
        Op::DropH(k) => format!("OEDropHandler {k}"),
        Op::DropY(k) => format!("OEDropYielded {k}"),
        Op::DropChan => "OEDropChannel".into(),
        Op::Advance(d) => format!("OEAdvance {d}"),
        other => {
            // OCtl x  ->  OECtl x
            let s = srv::coq_op(other);
            format!("OECtl{}", s.strip_prefix("OCtl").expect("control op"))
        }
    }
}

/// Runs the script on the real code; one `eobs` term per op, plus scenario tags.
pub fn run_impl(s: &Script) -> (Vec<String>, Vec<String>) {
    vclock::reset();
    let rt = vclock::runtime();
    let _g = rt.enter();
    let base = Instant::now();
    let show_sent = Box::new(|r: &Response<u64>| Sent {
        id: r.request_id,
        body: match &r.message {
            Ok(v) => Body::Ok(*v),
            Err(e) if e.kind == std::io::ErrorKind::WouldBlock && e.detail == THROTTLE_TEXT => Body::Throttle,
            Err(e) if e.kind == std::io::ErrorKind::Other && e.detail == "handler failed" => Body::HErr,
            Err(_) => Body::OtherErr,
        },
    });
    let show_recv = Box::new(move |m: &ClientMessage<u64>| match m {
        ClientMessage::Request(r) => Recv::Req {
            id: r.id,
            dl: srv::ms_since(base, r.context.deadline),
            tr: srv::trace_num(&r.context.trace_context),
            body: r.message,
        },
        ClientMessage::Cancel { trace_context, request_id } => {
            Recv::Cancel { id: *request_id, tr: srv::trace_num(trace_context) }
        }
        _ => Recv::Cancel { id: u64::MAX, tr: 0 },
    });
    let tr: Tr = STransport::new(s.cap, s.coupled, show_sent, show_recv);
    let ctl = tr.clone();
    let pst = Rc::new(RefCell::new(PState { alive: true, ..Default::default() }));
    let basech = BaseChannel::new(Config { pending_response_buffer: s.buf }, tr);
    // odd transport capacities: the same channel behind TrackedChannel
    let inner = match (s.limit, s.cap % 2 == 1) {
        (None, false) => Inner::Plain(Box::pin(basech)),
        (Some(l), false) => Inner::Lim(Box::pin(crate::srv::limited(basech, l, s.buf))),
        (None, true) => Inner::Tracked(Box::pin(tracked(basech))),
        (Some(l), true) => Inner::TrackedLim(Box::pin(crate::srv::limited(tracked(basech), l, s.buf))),
    };
    let probe = Probe { inner, st: pst.clone(), base };
    // scripted handlers: the serve function hands out the control block of the item being polled
    let ctls: Rc<RefCell<Vec<Rc<RefCell<HCtl>>>>> = Rc::new(RefCell::new(vec![]));
    let cur: Rc<Cell<usize>> = Rc::new(Cell::new(0));
    let (ctls2, cur2) = (ctls.clone(), cur.clone());
    let serve_fn = serve(move |_ctx, _req: u64| {
        let hc = ctls2.borrow()[cur2.get()].clone();
        ScriptedHandler { ctl: hc }
    });
    // THE code under test: Channel::execute -> Requests::execute
    let mut stream: Option<ExecStream> =
        Some(Box::pin(probe.execute(serve_fn).map(|f| Box::pin(f) as ExecFut)));
    let swaker = TaskWaker::new();
    let mut slots: Vec<Slot> = vec![];
    let mut obs: Vec<String> = vec![];
    let mut tags: BTreeSet<String> = BTreeSet::new();
    let mut errored = false; // the Requests stream yielded an error
    tags.insert(match s.limit {
        None => "nolimit".to_string(),
        Some(0) => "limit0".to_string(),
        Some(_) => "limit".to_string(),
    });
    tags.insert(format!("buf{}", s.buf.min(3)));
    tags.insert(match s.cap {
        0 => "cap-unbounded".to_string(),
        1 => "cap1".to_string(),
        _ => "cap2+".to_string(),
    });
    let gauges = |o: &mut Vec<String>| {
        let p = pst.borrow();
        if p.alive {
            o.push(format!("OGauges {} {}", p.gauges.0, p.gauges.1));
        }
    };
    for op in &s.ops {
        let mut o: Vec<String> = vec![];
        match op {
            Op::Poll => {
                let Some(st) = stream.as_mut() else {
                    // the stream is gone: nothing to poll (the model's op is a no-op there)
                    obs.push(if errored { "EPolled [] EEnd" } else { "EPolled [[]] EPend" }.into());
                    continue;
                };
                ctl.reset_budget();
                ctl.take_log();
                {
                    let mut p = pst.borrow_mut();
                    p.polled = false;
                    p.err = None;
                    p.last_req = None;
                }
                let mut cx = Context::from_waker(&swaker.waker);
                let r = catch_unwind(AssertUnwindSafe(|| st.as_mut().poll_next(&mut cx)));
                let mut log = ctl.take_log();
                if matches!(&r, Err(p) if p.downcast_ref::<BudgetExceeded>().is_some()) {
                    log.truncate(64);
                }
                for c in &log {
                    match c {
                        Call::Ready(TRes::Err) => drop(tags.insert("fault-ready".into())),
                        Call::Flush(TRes::Err) => drop(tags.insert("fault-flush".into())),
                        Call::Next(NextRes::Err) => drop(tags.insert("fault-next".into())),
                        Call::Send(m, ok) => {
                            if !*ok {
                                tags.insert("fault-send".into());
                            }
                            tags.insert(if m.body == Body::Throttle { "throttle" } else { "resp-write" }.into());
                        }
                        Call::Next(NextRes::Eof) => drop(tags.insert("eof".into())),
                        _ => {}
                    }
                }
                let (polled, err, last) = {
                    let p = pst.borrow();
                    (p.polled, p.err, p.last_req)
                };
                if errored {
                    tags.insert("polled-after-error".into());
                    if !polled && log.is_empty() {
                        tags.insert("adapter-answers-end-itself".into());
                    } else {
                        tags.insert("INNER-POLLED-AFTER-ERROR".into());
                    }
                }
                let calls = coq_calls(&log, srv::coq_sent, srv::coq_recv);
                let (res, inner_res): (&str, String) = match r {
                    Ok(Poll::Ready(Some(fut))) => {
                        let k = slots.len();
                        let hc = Rc::new(RefCell::new(HCtl {
                            step: Step::Run,
                            polled: false,
                            completed: false,
                            result: None,
                            dropped: false,
                        }));
                        ctls.borrow_mut().push(hc.clone());
                        slots.push(Slot::Live(fut, hc, TaskWaker::new(), false));
                        tags.insert("item".into());
                        if errored {
                            tags.insert("ITEM-AFTER-ERROR".into());
                        }
                        let (id, dl, t, b) = last.unwrap_or((u64::MAX, 0, 0, 0));
                        obs.push(format!(
                            "EPolled [[OCalls {calls}; OYield {k} {id} {dl} {t} {b}; OGauges {} {}]] (EItem {k})",
                            pst.borrow().gauges.0,
                            pst.borrow().gauges.1
                        ));
                        continue;
                    }
                    Ok(Poll::Ready(None)) => match err {
                        Some(a) => {
                            errored = true;
                            tags.insert("stream-err".into());
                            ("EEnd", format!("OStreamErr {a}"))
                        }
                        None => {
                            if polled {
                                tags.insert("stream-end".into());
                            }
                            ("EEnd", "OStreamEnd".to_string())
                        }
                    },
                    Ok(Poll::Pending) => ("EPend", "OPending".to_string()),
                    Err(p) => {
                        if p.downcast_ref::<BudgetExceeded>().is_some() {
                            tags.insert("budget-exceeded".into());
                            ("EPend", "OFuel".to_string())
                        } else {
                            tags.insert("panic".into());
                            ("EPend", "OPanic".to_string())
                        }
                    }
                };
                if !polled && log.is_empty() && res == "EEnd" {
                    // TakeWhile answered by itself (done_taking)
                    obs.push("EPolled [] EEnd".into());
                } else {
                    let p = pst.borrow();
                    let g = if p.alive { format!("; OGauges {} {}", p.gauges.0, p.gauges.1) } else { String::new() };
                    obs.push(format!("EPolled [[OCalls {calls}; {inner_res}{g}]] {res}"));
                }
                continue;
            }
            Op::Req { id, dl, tr, body } => {
                ctl.deliver(ClientMessage::Request(srv::make_request(base, *id, *dl, *tr, *body)));
                if errored {
                    tags.insert("request-after-error".into());
                }
            }
            Op::Cancel { id, tr } => {
                ctl.deliver(ClientMessage::Cancel { trace_context: srv::trace_ctx(*tr), request_id: *id });
            }
            Op::Eof => ctl.eof(),
            Op::SetReady(b) => ctl.set_ready(*b),
            Op::SetFlush(b) => ctl.set_flush(*b),
            Op::SetClose(b) => ctl.set_close(*b),
            Op::Fail(m) => ctl.fail_next(*m),
            Op::Drain(k) => ctl.drain(*k),
            Op::HPoll(k, step) => {
                let mut finished = false;
                if let Some(Slot::Live(fut, hc, w, polled_once)) = slots.get_mut(*k) {
                    let was_completed = hc.borrow().completed;
                    {
                        let mut c = hc.borrow_mut();
                        c.step = *step;
                        c.polled = false;
                    }
                    *polled_once = true;
                    cur.set(*k);
                    let mut cx = Context::from_waker(&w.waker);
                    let r = catch_unwind(AssertUnwindSafe(|| fut.as_mut().poll(&mut cx)));
                    let c = hc.borrow();
                    if c.polled {
                        o.push(format!("OHPolled {k}"));
                    }
                    if c.completed && !was_completed {
                        o.push(match c.result {
                            Some(Ok(v)) => format!("OHDone {k} (BOk {v})"),
                            _ => format!("OHDone {k} BErr"),
                        });
                        tags.insert("handler-done".into());
                        if errored {
                            tags.insert("handler-done-after-error".into());
                        }
                    }
                    if c.dropped {
                        o.push(format!("OHDropped {k}"));
                    }
                    match r {
                        Ok(Poll::Ready(())) => {
                            o.push(format!("OExecReady {k}"));
                            finished = true;
                            if !(c.completed && !c.dropped) {
                                tags.insert("handler-aborted".into());
                            }
                        }
                        Ok(Poll::Pending) => o.push(format!("OExecPending {k}")),
                        Err(_) => {
                            o.push("OPanic".into());
                            finished = true;
                            tags.insert("panic".into());
                        }
                    }
                }
                if finished {
                    slots[*k] = Slot::Done;
                }
            }
            Op::DropH(k) => {
                if let Some(Slot::Live(_, _, _, true)) = slots.get(*k) {
                    let Slot::Live(fut, hc, _, _) = std::mem::replace(&mut slots[*k], Slot::Gone) else { unreachable!() };
                    let was = hc.borrow().dropped;
                    drop(fut);
                    if hc.borrow().dropped && !was {
                        o.push(format!("OHDropped {k}"));
                    }
                    tags.insert("drop-exec".into());
                }
            }
            Op::DropY(k) => {
                if let Some(Slot::Live(_, _, _, false)) = slots.get(*k) {
                    slots[*k] = Slot::Gone;
                    tags.insert("drop-unpolled-item".into());
                }
            }
            Op::DropChan => {
                if stream.is_some() {
                    let inflight = pst.borrow().gauges.0;
                    stream = None;
                    tags.insert(if inflight > 0 { "drop-stream-with-inflight" } else { "drop-stream-idle" }.into());
                }
            }
            Op::Advance(d) => vclock::advance(&rt, Duration::from_millis(*d)),
        }
        gauges(&mut o);
        obs.push(format!("EOp {}", coq_list(&o)));
    }
    slots.clear();
    drop(stream);
    drop(_g);
    drop(rt);
    vclock::off();
    (obs, tags.into_iter().collect())
}

pub fn to_case(s: &Script) -> Case {
    let (obs, tags) = run_impl(s);
    let ops: Vec<String> = s.ops.iter().map(coq_eop).collect();
    Case { cfg: srv::cfg_term(s), ops: coq_list(&ops), obs: coq_list(&obs), tags, nops: s.ops.len() }
}

// ------------------------------------------------------------------------------- generator

fn fault(rng: &mut Rng) -> Op {
    use crate::stransport::Method;
    Op::Fail(*rng.pick(&[Method::Ready, Method::Send, Method::Flush, Method::Next, Method::Next, Method::Flush]))
}

/// A server script from srv.rs's state-aware generator (fault / shutdown / contract / limiter
/// biases), cut at a random point, then: a transport fault that makes the Requests stream yield
/// an error, and the application KEEPS POLLING the execute-stream while requests keep arriving
/// and handlers keep finishing; or end of stream followed by further polls.
pub fn gen(rng: &mut Rng) -> Script {
    let bias = *rng.pick(&["c09", "c14", "c10", "c12", "c08"]);
    let mut s = srv::gen_srv(rng, bias);
    let keep = rng.range(2, 24).min(s.ops.len() as u64) as usize;
    s.ops.truncate(keep);
    let nreq = s.ops.iter().filter(|o| matches!(o, Op::Req { .. })).count();
    let next_id = Cell::new(500 + rng.below(50));
    let mut yields = nreq; // upper bound of the item indices in use
    let req = |rng: &mut Rng, ops: &mut Vec<Op>| {
        next_id.set(next_id.get() + 1);
        ops.push(Op::Req { id: next_id.get(), dl: 100_000, tr: rng.range(1, 9), body: rng.below(100) });
    };
    match rng.below(5) {
        // fault, then keep polling
        0..=2 => {
            // make sure something is there to fail on
            if rng.chance(1, 2) {
                req(rng, &mut s.ops);
                s.ops.push(Op::Poll);
                s.ops.push(Op::HPoll(yields.saturating_sub(rng.below(2) as usize), Step::Finish(rng.below(100))));
                yields += 1;
            }
            s.ops.push(Op::SetReady(true));
            s.ops.push(Op::SetFlush(true));
            s.ops.push(fault(rng));
            s.ops.push(Op::Poll);
            s.ops.push(Op::Poll);
            for _ in 0..rng.range(2, 8) {
                match rng.below(6) {
                    0 | 1 => req(rng, &mut s.ops),
                    2 => s.ops.push(Op::HPoll(rng.below(yields as u64 + 1) as usize, Step::Finish(rng.below(100)))),
                    3 => s.ops.push(Op::Advance(rng.range(1, 50))),
                    4 => s.ops.push(fault(rng)),
                    _ => s.ops.push(Op::Cancel { id: next_id.get(), tr: 1 }),
                }
                s.ops.push(Op::Poll);
            }
        }
        // end of stream, then keep polling (TakeWhile does not latch the end)
        3 => {
            s.ops.push(Op::Eof);
            for _ in 0..rng.range(2, 6) {
                if rng.chance(1, 3) {
                    s.ops.push(Op::HPoll(rng.below(yields as u64 + 1) as usize, Step::Finish(rng.below(100))));
                }
                if rng.chance(1, 4) {
                    req(rng, &mut s.ops); // after eof the scripted peer delivers nothing any more
                }
                s.ops.push(Op::Poll);
            }
        }
        // no error at all: the adapter is transparent
        _ => {
            for _ in 0..rng.range(2, 6) {
                req(rng, &mut s.ops);
                s.ops.push(Op::Poll);
                if rng.chance(1, 2) {
                    s.ops.push(Op::HPoll(rng.below(yields as u64 + 1) as usize, Step::Finish(rng.below(100))));
                    s.ops.push(Op::Poll);
                }
                yields += 1;
            }
        }
    }
    if rng.chance(1, 6) {
        s.ops.push(Op::DropChan);
        s.ops.push(Op::Poll);
        s.ops.push(Op::HPoll(0, Step::Run));
    }
    s
}

/// Bounded-exhaustive: every script of 5 ops over an alphabet around "error, then more polls".
pub fn sweep(mut f: impl FnMut(Script)) {
    use crate::stransport::Method;
    let alpha: Vec<Op> = vec![
        Op::Poll,
        Op::Req { id: 1, dl: 1000, tr: 7, body: 5 },
        Op::Req { id: 2, dl: 1000, tr: 4, body: 6 },
        Op::HPoll(0, Step::Finish(9)),
        Op::Fail(Method::Next),
        Op::Fail(Method::Flush),
        Op::Fail(Method::Ready),
        Op::Eof,
    ];
    let n = alpha.len();
    let depth = 5;
    for limit in [None, Some(1)] {
        for code in 0..n.pow(depth as u32) {
            let mut c = code;
            let mut ops = vec![];
            for _ in 0..depth {
                ops.push(alpha[c % n].clone());
                c /= n;
            }
            ops.push(Op::Poll);
            f(Script { limit, buf: 1, cap: 0, coupled: true, ops });
        }
    }
}
