//! C13, part `race`: drives the real `MaxChannelsPerKey` through the yield points of hook H5
//! (`cpk_before_upgrade`, `cpk_before_recv`, `cpk_before_check`, `cpk_tracker_drop`) so that the
//! actions of OTHER threads (dropping tracked channels, new arrivals, the end of the listener)
//! happen BETWEEN the atomic actions of one `poll_next` - the interleavings of `coq/PerKeyRace.v`.
//! What another thread would do at such a point is done by the yield callback on this thread:
//! the effect on the shared state (`Arc` counts, `dropped_keys`) is the same, the schedule is
//! deterministic.  The run is logged as the flat list of `PerKeyRace.rop` it amounts to, with the
//! decision-view observations and the program counter after every listener action.
//!
//! Script: `n=<limit>|tok tok ...` with
//!   A<k>  arrival with key k          E  the listener ends          P  poll_next
//!   C<c>  drop channel c (c = index of its yield); with a pending `@d` directive the drop is
//!         split: release, the directive's ops inside `Tracker::drop` before it sends, notify
//!   @u:<ops> / @r:<ops> / @k:<ops> / @d:<ops>   queue <ops> (comma separated A/E/C, and P in
//!         @d) for the next firing of the yield point before upgrade / before recv / before the
//!         entry check / inside Tracker::drop of a top-level C.
//! Ops that refer to something absent are no-ops and are not logged.
use crate::c13::{Chan, HKey, KeyedTransport};
use crate::exec::{coq_list, Case};
use crate::rng::Rng;
use futures::{channel::mpsc, Stream};
use std::cell::RefCell;
use std::collections::{BTreeMap, BTreeSet, VecDeque};
use std::pin::Pin;
use std::rc::Rc;
use std::task::{Context, Poll};
use tarpc::server::incoming::Incoming;
use tarpc::server::BaseChannel;

#[derive(Clone, Debug, PartialEq)]
pub enum Op {
    Arrive(u32),
    Close(u32),
    Poll,
    End,
    At(usize, Vec<Op>), // 0 upgrade, 1 recv, 2 check, 3 tracker drop
}

pub struct Script {
    pub n: u32,
    pub ops: Vec<Op>,
}

fn parse_simple(t: &str) -> Option<Op> {
    if t.is_empty() {
        return None;
    }
    let (h, a) = t.split_at(1);
    Some(match h {
        "A" => Op::Arrive(a.parse().ok()?),
        "C" => Op::Close(a.parse().ok()?),
        "P" if a.is_empty() => Op::Poll,
        "E" if a.is_empty() => Op::End,
        _ => return None,
    })
}

pub fn parse(line: &str) -> Option<Script> {
    let (cfg, rest) = line.trim().split_once('|')?;
    let n = cfg.trim().strip_prefix("n=")?.parse().ok()?;
    let mut ops = vec![];
    for t in rest.split_whitespace() {
        if let Some(d) = t.strip_prefix('@') {
            let (k, l) = d.split_once(':')?;
            let k = match k {
                "u" => 0,
                "r" => 1,
                "k" => 2,
                "d" => 3,
                _ => return None,
            };
            let mut v = vec![];
            for x in l.split(',') {
                if !x.is_empty() {
                    v.push(parse_simple(x)?);
                }
            }
            ops.push(Op::At(k, v));
        } else {
            ops.push(parse_simple(t)?);
        }
    }
    Some(Script { n, ops })
}

fn show_op(o: &Op) -> String {
    match o {
        Op::Arrive(k) => format!("A{k}"),
        Op::Close(c) => format!("C{c}"),
        Op::Poll => "P".into(),
        Op::End => "E".into(),
        Op::At(k, v) => format!(
            "@{}:{}",
            ["u", "r", "k", "d"][*k],
            v.iter().map(show_op).collect::<Vec<_>>().join(",")
        ),
    }
}

pub fn show(s: &Script) -> String {
    format!("n={}|{}", s.n, s.ops.iter().map(show_op).collect::<Vec<_>>().join(" "))
}

struct Entry {
    op: String,
    obs: Vec<String>,
    pc: u8, // 0 idle, 1 loop, 2 upgrade, 3 closed, 4 check, 9 not compared
}

type Filt = Pin<Box<dyn Stream<Item = Box<dyn std::any::Any>>>>;

struct World {
    tx: Option<mpsc::UnboundedSender<Chan>>,
    drops: Rc<RefCell<Vec<(usize, u32)>>>,
    own: BTreeSet<usize>,
    serial: usize,
    next_cid: u32,
    live: BTreeMap<u32, (Box<dyn std::any::Any>, u32, usize)>,
    log: Vec<Entry>,
    q: [VecDeque<Vec<Op>>; 4],
    in_poll: bool,
    prev: Option<usize>,
    last_recv_l: Option<usize>,
    drop_fired: bool,
    split_drop: bool,
    tags: BTreeSet<String>,
}

type W = Rc<RefCell<World>>;
type F = Rc<RefCell<Filt>>;

#[derive(Clone, Copy, PartialEq)]
enum Ctx {
    Top,
    InDrop,
    InPoll,
}

fn install(w: &W, f: &F) {
    let (w2, f2) = (w.clone(), f.clone());
    tarpc::verif::set_yield_hook(Some(Box::new(move |name, _| on_yield(&w2, &f2, name))));
}

fn push(w: &W, op: String, pc: u8) {
    w.borrow_mut().log.push(Entry { op, obs: vec![], pc });
}

/// channels dropped by the code under test since the last call (the shed ones), oldest first
fn take_sheds(s: &mut World) -> Vec<String> {
    let own = s.own.clone();
    let v: Vec<String> = s
        .drops
        .borrow_mut()
        .drain(..)
        .filter(|(ser, _)| !own.contains(ser))
        .map(|(_, k)| format!("OShed {k}"))
        .collect();
    if !v.is_empty() {
        s.tags.insert("shed".into());
    }
    v
}

fn on_yield(w: &W, f: &F, name: &str) {
    let kind = match name {
        "cpk_before_upgrade" => 0,
        "cpk_before_recv" => 1,
        "cpk_before_check" => 2,
        "cpk_tracker_drop" => 3,
        _ => return,
    };
    if kind == 3 {
        let ops = {
            let mut s = w.borrow_mut();
            if s.split_drop {
                s.split_drop = false;
                s.drop_fired = true;
                s.q[3].pop_front().unwrap_or_default()
            } else {
                return;
            }
        };
        w.borrow_mut().tags.insert("ops-inside-tracker-drop".into());
        // the callback of the enclosing yield point is out of its slot while it runs: install an
        // equivalent one so that the yield points of a nested poll fire
        install(w, f);
        for o in &ops {
            do_op(w, f, o, Ctx::InDrop);
        }
        return;
    }
    if !w.borrow().in_poll {
        return;
    }
    let ops = {
        let mut s = w.borrow_mut();
        // the listener actions since the previous yield point of this poll
        let two = matches!((s.prev, kind), (Some(1), 0) | (Some(1), 1) | (Some(2), _));
        if two {
            s.log.push(Entry { op: "RListener".into(), obs: vec![], pc: 1 });
        }
        let sheds = take_sheds(&mut s);
        s.log.push(Entry { op: "RListener".into(), obs: sheds, pc: (kind + 2) as u8 });
        if kind == 1 {
            s.last_recv_l = Some(s.log.len() - 1);
        }
        s.prev = Some(kind);
        let t = ["yield:before-upgrade", "yield:before-recv", "yield:before-check"][kind];
        s.tags.insert(t.into());
        s.q[kind].pop_front().unwrap_or_default()
    };
    if !ops.is_empty() {
        let t = ["ops-before-upgrade", "ops-before-recv", "ops-before-check"][kind];
        w.borrow_mut().tags.insert(t.into());
    }
    for o in &ops {
        do_op(w, f, o, Ctx::InPoll);
    }
}

fn do_op(w: &W, f: &F, op: &Op, ctx: Ctx) {
    match op {
        Op::At(k, v) => {
            if ctx == Ctx::Top {
                w.borrow_mut().q[*k].push_back(v.clone());
            }
        }
        Op::Arrive(k) => {
            let mut s = w.borrow_mut();
            if let Some(tx) = &s.tx {
                let t = KeyedTransport { key: *k, serial: s.serial, drops: s.drops.clone() };
                let _ = tx.unbounded_send(BaseChannel::with_defaults(t));
                s.serial += 1;
            }
            s.log.push(Entry { op: format!("RArrive {k}"), obs: vec![], pc: 9 });
        }
        Op::End => {
            let mut s = w.borrow_mut();
            s.tx = None;
            s.tags.insert("listener-end".into());
            s.log.push(Entry { op: "REndListener".into(), obs: vec![], pc: 9 });
        }
        Op::Close(c) => {
            let taken = {
                let mut s = w.borrow_mut();
                let t = s.live.remove(c);
                if let Some((_, _, ser)) = &t {
                    s.own.insert(*ser);
                }
                t
            };
            let Some((ch, k, _)) = taken else { return };
            let split = ctx == Ctx::Top && !w.borrow().q[3].is_empty();
            {
                let mut s = w.borrow_mut();
                if split {
                    s.drop_fired = false;
                    s.split_drop = true;
                }
                s.tags.insert(
                    match ctx {
                        Ctx::Top => "close",
                        Ctx::InDrop => "close-inside-tracker-drop",
                        Ctx::InPoll => "close-inside-poll",
                    }
                    .into(),
                );
            }
            if split {
                push(w, format!("RRelease {c}"), 9);
                drop(ch);
                let mut s = w.borrow_mut();
                s.split_drop = false;
                if s.drop_fired {
                    s.log.push(Entry { op: format!("RNotify {k}"), obs: vec![], pc: 9 });
                }
            } else {
                push(w, format!("RClose {c}"), 9);
                drop(ch);
            }
        }
        Op::Poll => {
            if ctx == Ctx::InPoll || w.borrow().in_poll {
                return;
            }
            {
                let mut s = w.borrow_mut();
                s.in_poll = true;
                s.prev = None;
                s.last_recv_l = None;
                let _ = take_sheds(&mut s);
            }
            let waker = futures::task::noop_waker();
            let mut cx = Context::from_waker(&waker);
            let r = f.borrow_mut().as_mut().poll_next(&mut cx);
            let mut s = w.borrow_mut();
            s.in_poll = false;
            let mut obs = take_sheds(&mut s);
            match r {
                Poll::Ready(Some(ch)) => {
                    let tc = ch
                        .downcast_ref::<tarpc::server::limits::channels_per_key::TrackedChannel<Chan, HKey>>()
                        .expect("tracked channel");
                    let k = tc.get_ref().get_ref().key;
                    let ser = tc.get_ref().get_ref().serial;
                    let cid = s.next_cid;
                    s.next_cid += 1;
                    let o = format!("OYield {cid} {k}");
                    match s.last_recv_l {
                        Some(i) => s.log[i].obs.push(o),
                        None => obs.push(o),
                    }
                    s.live.insert(cid, (ch, k, ser));
                    s.tags.insert("yield".into());
                }
                Poll::Ready(None) => obs.push("OEnd".into()),
                Poll::Pending => obs.push("OPending".into()),
            }
            s.log.push(Entry { op: "RListener".into(), obs, pc: 0 });
        }
    }
}

pub fn run_impl(sc: &Script) -> (Vec<(String, Vec<String>, u8)>, Vec<String>) {
    let (tx, rx) = mpsc::unbounded::<Chan>();
    let drops: Rc<RefCell<Vec<(usize, u32)>>> = Rc::new(RefCell::new(vec![]));
    let filter = rx.max_channels_per_key(sc.n, |c: &Chan| HKey(c.get_ref().key));
    let filt: Filt = Box::pin(futures::StreamExt::map(filter, |c| Box::new(c) as Box<dyn std::any::Any>));
    let f: F = Rc::new(RefCell::new(filt));
    let w: W = Rc::new(RefCell::new(World {
        tx: Some(tx),
        drops,
        own: BTreeSet::new(),
        serial: 0,
        next_cid: 0,
        live: BTreeMap::new(),
        log: vec![],
        q: Default::default(),
        in_poll: false,
        prev: None,
        last_recv_l: None,
        drop_fired: false,
        split_drop: false,
        tags: BTreeSet::new(),
    }));
    install(&w, &f);
    for op in &sc.ops {
        do_op(&w, &f, op, Ctx::Top);
    }
    tarpc::verif::set_yield_hook(None);
    let mut s = w.borrow_mut();
    let live = std::mem::take(&mut s.live);
    let log: Vec<(String, Vec<String>, u8)> = s.log.drain(..).map(|e| (e.op, e.obs, e.pc)).collect();
    let tags: Vec<String> = s.tags.iter().cloned().collect();
    s.tx = None;
    drop(s);
    drop(live);
    (log, tags)
}

pub fn to_case(sc: &Script) -> Case {
    let (log, mut tags) = run_impl(sc);
    let ops: Vec<&str> = log.iter().map(|e| e.0.as_str()).collect();
    let obs: Vec<String> = log.iter().map(|e| coq_list(&e.1)).collect();
    let pcs: Vec<String> = log.iter().map(|e| format!("{}%N", e.2)).collect();
    // a release of the last holder between the count read and upgrade(): the F2 neighbourhood
    for (i, e) in log.iter().enumerate() {
        if e.2 == 2 && log.get(i + 1).map_or(false, |x| x.0.starts_with("RClose")) {
            tags.push("close-between-read-and-upgrade".into());
            break;
        }
    }
    Case {
        cfg: format!("{}", sc.n),
        ops: coq_list(&ops),
        obs: format!("({}, {})", coq_list(&obs), coq_list(&pcs)),
        tags,
        nops: log.len(),
    }
}

fn gen_simple(rng: &mut Rng, nkeys: u32, polls: u32, allow_poll: bool) -> Op {
    match rng.weighted(&[30, 45, if allow_poll { 25 } else { 0 }, 2]) {
        0 => Op::Arrive(rng.below(nkeys as u64) as u32),
        1 => Op::Close(rng.below(polls.max(1) as u64 + 1) as u32),
        2 => Op::Poll,
        _ => Op::End,
    }
}

/// State-aware random scripts: arrivals, polls and drops at top level, and directives that put
/// drops / arrivals at the yield points of the following polls and inside `Tracker::drop`.
pub fn gen(rng: &mut Rng) -> Script {
    let n = rng.range(1, 3) as u32;
    let nkeys = rng.range(1, 3) as u32;
    let len = rng.range(4, 30) as usize;
    let mut ops = vec![];
    let mut polls = 0u32;
    while ops.len() < len {
        match rng.weighted(&[25, 30, 12, if ops.len() > len / 2 { 1 } else { 0 }, 32]) {
            0 => ops.push(Op::Arrive(rng.below(nkeys as u64) as u32)),
            1 => {
                ops.push(Op::Poll);
                polls += 1;
            }
            2 => ops.push(Op::Close(rng.below(polls.max(1) as u64) as u32)),
            3 => ops.push(Op::End),
            _ => {
                let k = rng.weighted(&[35, 25, 20, 20]);
                let cnt = rng.range(1, 3);
                let mut v = vec![];
                for _ in 0..cnt {
                    v.push(gen_simple(rng, nkeys, polls, k == 3));
                }
                ops.push(Op::At(k, v));
                if k == 3 {
                    ops.push(Op::Close(rng.below(polls.max(1) as u64) as u32));
                } else {
                    if k == 0 {
                        // make the count read likely: an arrival for a key that may be tracked
                        ops.push(Op::Arrive(rng.below(nkeys as u64) as u32));
                    }
                    ops.push(Op::Poll);
                    polls += 1;
                }
            }
        }
    }
    Script { n, ops }
}

/// Bounded-exhaustive family (thorough tier): one key, limit 1 and 2; a prefix that yields one or
/// two channels, then every choice of one op at each of the three yield points of the next poll
/// and every one of a few follow-ups.
pub fn sweep(mut f: impl FnMut(Script)) {
    let at: Vec<Vec<Op>> = vec![
        vec![],
        vec![Op::Close(0)],
        vec![Op::Close(1)],
        vec![Op::Arrive(0)],
        vec![Op::Close(0), Op::Close(1)],
        vec![Op::Close(0), Op::Arrive(0)],
    ];
    let prefixes: Vec<Vec<Op>> = vec![
        vec![Op::Arrive(0), Op::Poll],
        vec![Op::Arrive(0), Op::Poll, Op::Arrive(0), Op::Poll],
        vec![Op::Arrive(0), Op::Poll, Op::Close(0), Op::Arrive(0), Op::Poll],
    ];
    let tails: Vec<Vec<Op>> = vec![
        vec![Op::Poll],
        vec![Op::Arrive(0), Op::Poll, Op::Poll],
        vec![Op::Close(1), Op::Arrive(0), Op::Poll, Op::Arrive(0), Op::Poll],
        vec![Op::At(3, vec![Op::Arrive(0), Op::Poll, Op::Poll]), Op::Close(1), Op::Arrive(0), Op::Poll, Op::Poll],
    ];
    for n in 1..=2u32 {
        for p in &prefixes {
            for u in &at {
                for r in &at {
                    for k in &at {
                        for t in &tails {
                            let mut ops = p.clone();
                            for (i, d) in [u, r, k].iter().enumerate() {
                                if !d.is_empty() {
                                    ops.push(Op::At(i, (*d).clone()));
                                }
                            }
                            ops.push(Op::Arrive(0));
                            ops.push(Op::Poll);
                            ops.extend(t.iter().cloned());
                            f(Script { n, ops });
                        }
                    }
                }
            }
        }
    }
}
