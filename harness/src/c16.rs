//! C16: no peer-supplied input can crash an endpoint.
//!
//! Scripts:  `mode=<server|client|stream>,sub=<none|fmt|otel>,codec=<json|bincode>[,rd=<n.n>,cut=<k>]|tok …`
//!  server   a real BaseChannel + Requests over the real serde transport; the peer is the script:
//!           Q<id>:<secs>:<nanos>  request, handler echoes     Qo<id>  the same with the deadline omitted (JSON)
//!           H<id>:<secs>:<nanos>  request, handler never ends Ho<id>
//!           F<id>:<n>             n copies of a never-ending request with one id (duplicate flood)
//!           X<id>                 cancel                      V<id>   probe: valid request, 10 s, must be served
//!  client   a real client::new dispatch over the real serde transport; the peer and the local caller are the script:
//!           K<+|-><secs>:<nanos>  local call with deadline = now +/- offset (skipped if not an Instant)
//!           W<id>:<o|e>           response (ok / error) for request id
//!           Y                     (gated by --wrong-variant) a generated two-method client receives the other method's response
//!  stream   raw bytes into the framed decoders: F:<hex payload> a frame, G:<hex> unframed bytes, Z end of stream
//! Every poll of tarpc code runs under catch_unwind; a panic is the observation OPanic.
use crate::exec::{coq_list, Case};
use crate::rng::Rng;
use crate::vclock;
use crate::wire::{hex, unhex};
use futures::{Future, Sink, Stream};
use std::cell::RefCell;
use std::collections::VecDeque;
use std::io;
use std::panic::{catch_unwind, AssertUnwindSafe};
use std::pin::Pin;
use std::rc::Rc;
use std::task::{Context, Poll};
use std::time::{Duration, Instant};
use tarpc::server::{BaseChannel, Channel as _};
use tarpc::{client, context, ClientMessage, Response};
use tokio::io::{AsyncRead, AsyncWrite, ReadBuf};
use tokio_util::codec::{Framed, LengthDelimitedCodec};

// ------------------------------------------------------------------------------- live byte pipe

#[derive(Default)]
pub struct Shared {
    pub inbound: VecDeque<u8>,
    pub eof: bool,
    pub outbound: Vec<u8>,
}

/// A byte stream whose inbound bytes are supplied while the script runs (Pending when empty).
#[derive(Clone)]
pub struct LivePipe(pub Rc<RefCell<Shared>>);

impl LivePipe {
    pub fn new() -> LivePipe {
        LivePipe(Rc::new(RefCell::new(Shared::default())))
    }
    pub fn push_frame(&self, payload: &[u8]) {
        let mut s = self.0.borrow_mut();
        s.inbound.extend((payload.len() as u32).to_be_bytes());
        s.inbound.extend(payload.iter().copied());
    }
    /// frames the endpoint wrote since the last call
    pub fn take_frames(&self) -> Vec<Vec<u8>> {
        let mut s = self.0.borrow_mut();
        let mut out = vec![];
        let mut pos = 0;
        while s.outbound.len() >= pos + 4 {
            let n = u32::from_be_bytes([s.outbound[pos], s.outbound[pos + 1], s.outbound[pos + 2], s.outbound[pos + 3]]) as usize;
            if s.outbound.len() < pos + 4 + n {
                break;
            }
            out.push(s.outbound[pos + 4..pos + 4 + n].to_vec());
            pos += 4 + n;
        }
        s.outbound.drain(..pos);
        out
    }
}

impl AsyncRead for LivePipe {
    fn poll_read(self: Pin<&mut Self>, _: &mut Context<'_>, buf: &mut ReadBuf<'_>) -> Poll<io::Result<()>> {
        let mut s = self.0.borrow_mut();
        if s.inbound.is_empty() {
            return if s.eof { Poll::Ready(Ok(())) } else { Poll::Pending };
        }
        while buf.remaining() > 0 {
            match s.inbound.pop_front() {
                Some(b) => buf.put_slice(&[b]),
                None => break,
            }
        }
        Poll::Ready(Ok(()))
    }
}
impl AsyncWrite for LivePipe {
    fn poll_write(self: Pin<&mut Self>, _: &mut Context<'_>, buf: &[u8]) -> Poll<io::Result<usize>> {
        self.0.borrow_mut().outbound.extend_from_slice(buf);
        Poll::Ready(Ok(buf.len()))
    }
    fn poll_flush(self: Pin<&mut Self>, _: &mut Context<'_>) -> Poll<io::Result<()>> {
        Poll::Ready(Ok(()))
    }
    fn poll_shutdown(self: Pin<&mut Self>, _: &mut Context<'_>) -> Poll<io::Result<()>> {
        Poll::Ready(Ok(()))
    }
}

// ------------------------------------------------------------------------------- scripts

#[derive(Clone, Debug, PartialEq)]
pub enum Mode {
    Server,
    Client,
    Stream,
}
#[derive(Clone, Debug, PartialEq)]
pub enum Sub {
    None,
    Fmt,
    Otel,
}
#[derive(Clone, Debug, PartialEq)]
pub enum Cd {
    Json,
    Bincode,
}

#[derive(Clone, Debug, PartialEq)]
pub enum Tok {
    Req { id: u64, dl: Option<(u64, u32)>, hang: bool },
    Flood { id: u64, n: u32 },
    Cancel(u64),
    Probe(u64),
    Call { neg: bool, secs: u64, nanos: u32 },
    /// det = (len, off): an error response whose detail is `off` ASCII bytes followed by 2-, 3- and
    /// 4-byte UTF-8 characters up to at least `len` bytes; (0, _) = the short detail "busy"
    Resp { id: u64, ok: bool, det: (usize, usize) },
    Wrong,
    Frame(Vec<u8>),
    Garbage(Vec<u8>),
    Eof,
    /// the connection stays quiet for so many seconds (only leading Age tokens count)
    Age(u64),
}

#[derive(Clone, Debug)]
pub struct Script {
    pub mode: Mode,
    pub sub: Sub,
    pub codec: Cd,
    pub rd: Vec<usize>,
    pub cut: usize,
    /// JSON only: how the hand-made frames write structs: 0 = objects (as serde_json prints them),
    /// 1 = every struct and struct variant as a positional ARRAY (serde's visit_seq; Duration as
    /// [secs,nanos]), 2 = mixed (request and Duration as arrays, contexts as objects)
    pub form: u8,
    pub toks: Vec<Tok>,
}

impl Tok {
    pub fn show(&self) -> String {
        match self {
            Tok::Req { id, dl: Some((s, n)), hang } => format!("{}{id}:{s}:{n}", if *hang { "H" } else { "Q" }),
            Tok::Req { id, dl: None, hang } => format!("{}o{id}", if *hang { "H" } else { "Q" }),
            Tok::Flood { id, n } => format!("F{id}:{n}"),
            Tok::Cancel(id) => format!("X{id}"),
            Tok::Probe(id) => format!("V{id}"),
            Tok::Call { neg, secs, nanos } => format!("K{}{secs}:{nanos}", if *neg { "-" } else { "+" }),
            Tok::Resp { id, ok, det } => format!(
                "W{id}:{}",
                if *ok { "o".to_string() } else if det.0 > 0 { format!("e{}.{}", det.0, det.1) } else { "e".to_string() }
            ),
            Tok::Wrong => "Y".into(),
            Tok::Frame(b) => format!("F:{}", hex(b)),
            Tok::Garbage(b) => format!("G:{}", hex(b)),
            Tok::Eof => "Z".into(),
            Tok::Age(secs) => format!("A{secs}"),
        }
    }
    pub fn parse(mode: &Mode, t: &str) -> Option<Tok> {
        if *mode == Mode::Stream {
            return Some(match t.split_once(':') {
                Some(("F", h)) => Tok::Frame(unhex(h)?),
                Some(("G", h)) => Tok::Garbage(unhex(h)?),
                None if t == "Z" => Tok::Eof,
                None if t.starts_with('A') => Tok::Age(t[1..].parse().ok()?),
                _ => return None,
            });
        }
        let (h, rest) = t.split_at(1);
        Some(match h {
            "Q" | "H" => {
                let hang = h == "H";
                if let Some(id) = rest.strip_prefix('o') {
                    Tok::Req { id: id.parse().ok()?, dl: None, hang }
                } else {
                    let p: Vec<&str> = rest.split(':').collect();
                    if p.len() != 3 {
                        return None;
                    }
                    Tok::Req { id: p[0].parse().ok()?, dl: Some((p[1].parse().ok()?, p[2].parse().ok()?)), hang }
                }
            }
            "F" => {
                let (a, b) = rest.split_once(':')?;
                Tok::Flood { id: a.parse().ok()?, n: b.parse().ok()? }
            }
            "X" => Tok::Cancel(rest.parse().ok()?),
            "V" => Tok::Probe(rest.parse().ok()?),
            "K" => {
                let neg = rest.starts_with('-');
                let (a, b) = rest[1..].split_once(':')?;
                Tok::Call { neg, secs: a.parse().ok()?, nanos: b.parse().ok()? }
            }
            "W" => {
                let (a, b) = rest.split_once(':')?;
                let det = match b.strip_prefix('e').and_then(|d| d.split_once('.')) {
                    Some((l, o)) => (l.parse::<usize>().ok()?.min(200_000), o.parse::<usize>().ok()? % 8),
                    None => (0, 0),
                };
                Tok::Resp { id: a.parse().ok()?, ok: b == "o", det }
            }
            "Y" => Tok::Wrong,
            "A" => Tok::Age(rest.parse().ok()?),
            _ => return None,
        })
    }
}

pub fn parse(line: &str) -> Option<Script> {
    let (cfg, rest) = line.trim().split_once('|')?;
    let mut s = Script { mode: Mode::Server, sub: Sub::None, codec: Cd::Json, rd: vec![], cut: 0, form: 0, toks: vec![] };
    for kv in cfg.split(',') {
        let (k, v) = kv.split_once('=')?;
        match k {
            "mode" => s.mode = match v { "server" => Mode::Server, "client" => Mode::Client, "stream" => Mode::Stream, _ => return None },
            "sub" => s.sub = match v { "none" => Sub::None, "fmt" => Sub::Fmt, "otel" => Sub::Otel, _ => return None },
            "codec" => s.codec = match v { "json" => Cd::Json, "bincode" => Cd::Bincode, _ => return None },
            "rd" => s.rd = v.split('.').filter_map(|x| x.parse().ok()).collect(),
            "cut" => s.cut = v.parse().ok()?,
            "form" => s.form = match v { "obj" => 0, "arr" => 1, "mix" => 2, _ => return None },
            _ => return None,
        }
    }
    for t in rest.split_whitespace() {
        s.toks.push(Tok::parse(&s.mode, t)?);
    }
    Some(s)
}

pub fn show(s: &Script) -> String {
    format!(
        "mode={},sub={},codec={},rd={},cut={},form={}|{}",
        match s.mode { Mode::Server => "server", Mode::Client => "client", Mode::Stream => "stream" },
        match s.sub { Sub::None => "none", Sub::Fmt => "fmt", Sub::Otel => "otel" },
        match s.codec { Cd::Json => "json", Cd::Bincode => "bincode" },
        s.rd.iter().map(|x| x.to_string()).collect::<Vec<_>>().join("."),
        s.cut,
        ["obj", "arr", "mix"][s.form.min(2) as usize],
        s.toks.iter().map(|t| t.show()).collect::<Vec<_>>().join(" ")
    )
}

// ------------------------------------------------------------------------------- hostile encoders

fn varint(out: &mut Vec<u8>, n: u64) {
    if n < 251 {
        out.push(n as u8);
    } else if n <= u16::MAX as u64 {
        out.push(251);
        out.extend((n as u16).to_le_bytes());
    } else if n <= u32::MAX as u64 {
        out.push(252);
        out.extend((n as u32).to_le_bytes());
    } else {
        out.push(253);
        out.extend(n.to_le_bytes());
    }
}

const TRACE_JSON: &str = r#"{"trace_id":[7,0,0,0,0,0,0,0,0,0,0,0,0,0,0,0],"span_id":3,"sampling_decision":"Sampled"}"#;

/// A request frame payload with an arbitrary wire deadline, written without tarpc's serializer.
const TRACE_ARR: &str = r#"[[7,0,0,0,0,0,0,0,0,0,0,0,0,0,0,0],3,"Sampled"]"#;

pub fn request_payload(codec: &Cd, id: u64, dl: Option<(u64, u32)>, body: &str) -> Vec<u8> {
    request_payload_form(codec, id, dl, body, 0)
}

pub fn request_payload_form(codec: &Cd, id: u64, dl: Option<(u64, u32)>, body: &str, form: u8) -> Vec<u8> {
    match codec {
        Cd::Json if form == 1 => {
            // positional at every level; an omitted deadline cannot be written positionally (it is the
            // FIRST field of the context), so that context falls back to the object form
            let ctx = match dl {
                Some((s, n)) => format!("[[{s},{n}],{TRACE_ARR}]"),
                None => format!(r#"{{"trace_context":{TRACE_ARR}}}"#),
            };
            format!(r#"{{"Request":[{ctx},{id},"{body}"]}}"#).into_bytes()
        }
        Cd::Json if form == 2 => {
            let d = match dl {
                Some((s, n)) => format!(r#""deadline":[{s},{n}],"#),
                None => String::new(),
            };
            format!(r#"{{"Request":[{{{d}"trace_context":{TRACE_JSON}}},{id},"{body}"]}}"#).into_bytes()
        }
        Cd::Json => {
            let d = match dl {
                Some((s, n)) => format!(r#""deadline":{{"secs":{s},"nanos":{n}}},"#),
                None => String::new(),
            };
            format!(r#"{{"Request":{{"context":{{{d}"trace_context":{TRACE_JSON}}},"id":{id},"message":"{body}"}}}}"#).into_bytes()
        }
        Cd::Bincode => {
            let (s, n) = dl.unwrap_or((10, 0));
            let mut o = vec![0u8];
            varint(&mut o, s);
            varint(&mut o, n as u64);
            o.push(7);
            o.extend([0u8; 15]);
            varint(&mut o, 3);
            o.push(0);
            varint(&mut o, id);
            varint(&mut o, body.len() as u64);
            o.extend(body.as_bytes());
            o
        }
    }
}
pub fn cancel_payload(codec: &Cd, id: u64) -> Vec<u8> {
    cancel_payload_form(codec, id, 0)
}
pub fn cancel_payload_form(codec: &Cd, id: u64, form: u8) -> Vec<u8> {
    match codec {
        Cd::Json if form == 1 => format!(r#"{{"Cancel":[{TRACE_ARR},{id}]}}"#).into_bytes(),
        Cd::Json if form == 2 => format!(r#"{{"Cancel":[{TRACE_JSON},{id}]}}"#).into_bytes(),
        Cd::Json => format!(r#"{{"Cancel":{{"trace_context":{TRACE_JSON},"request_id":{id}}}}}"#).into_bytes(),
        Cd::Bincode => {
            let mut o = vec![1u8, 7];
            o.extend([0u8; 15]);
            varint(&mut o, 3);
            o.push(0);
            varint(&mut o, id);
            o
        }
    }
}
/// `off` ASCII bytes, then 2-, 3- and 4-byte characters in turn, up to at least `len` bytes
pub fn long_detail(det: (usize, usize)) -> String {
    let mut d = "a".repeat(det.1);
    let cs = ['\u{e9}', '\u{20ac}', '\u{1f600}'];
    let mut i = det.1;
    while d.len() < det.0 {
        d.push(cs[i % 3]);
        i += 1;
    }
    d
}
/// an error response (kind 10) carrying `long_detail(det)`
pub fn error_payload_detail(codec: &Cd, id: u64, form: u8, det: (usize, usize)) -> Vec<u8> {
    let d = long_detail(det);
    match codec {
        Cd::Json if form == 1 => format!(r#"[{id},{{"Err":[10,"{d}"]}}]"#).into_bytes(),
        Cd::Json if form >= 2 => format!(r#"[{id},{{"Err":{{"kind":10,"detail":"{d}"}}}}]"#).into_bytes(),
        Cd::Json => format!(r#"{{"request_id":{id},"message":{{"Err":{{"kind":10,"detail":"{d}"}}}}}}"#).into_bytes(),
        Cd::Bincode => {
            let mut o = vec![];
            varint(&mut o, id);
            o.extend([1, 10]);
            varint(&mut o, d.len() as u64);
            o.extend(d.as_bytes());
            o
        }
    }
}
pub fn response_payload(codec: &Cd, id: u64, ok: bool) -> Vec<u8> {
    response_payload_form(codec, id, ok, 0)
}
pub fn response_payload_form(codec: &Cd, id: u64, ok: bool, form: u8) -> Vec<u8> {
    match codec {
        Cd::Json if form >= 1 => {
            if ok {
                format!(r#"[{id},{{"Ok":"r"}}]"#).into_bytes()
            } else if form == 1 {
                format!(r#"[{id},{{"Err":[10,"busy"]}}]"#).into_bytes()
            } else {
                format!(r#"[{id},{{"Err":{{"kind":10,"detail":"busy"}}}}]"#).into_bytes()
            }
        }
        Cd::Json => {
            if ok {
                format!(r#"{{"request_id":{id},"message":{{"Ok":"r"}}}}"#).into_bytes()
            } else {
                format!(r#"{{"request_id":{id},"message":{{"Err":{{"kind":10,"detail":"busy"}}}}}}"#).into_bytes()
            }
        }
        Cd::Bincode => {
            let mut o = vec![];
            varint(&mut o, id);
            if ok {
                o.extend([0, 1, b'r']);
            } else {
                o.extend([1, 10, 4]);
                o.extend(b"busy");
            }
            o
        }
    }
}

// ------------------------------------------------------------------------------- subscribers

fn with_subscriber<R>(sub: &Sub, f: impl FnOnce() -> R) -> R {
    use tracing_subscriber::layer::SubscriberExt;
    match sub {
        Sub::None => f(),
        Sub::Fmt => {
            let s = tracing_subscriber::fmt()
                .with_max_level(tracing::Level::TRACE)
                .with_writer(std::io::sink)
                .finish();
            let r = tracing::subscriber::with_default(s, f);
            tracing::callsite::rebuild_interest_cache();
            r
        }
        Sub::Otel => {
            use opentelemetry::trace::TracerProvider as _;
            let provider = opentelemetry_sdk::trace::TracerProvider::builder().build();
            let tracer = provider.tracer("tarpc-verif");
            let s = tracing_subscriber::registry().with(tracing_opentelemetry::layer().with_tracer(tracer));
            let r = tracing::subscriber::with_default(s, f);
            tracing::callsite::rebuild_interest_cache();
            r
        }
    }
}

// ------------------------------------------------------------------------------- server mode

type HEvents = Rc<RefCell<Vec<String>>>;

struct HandlerGuard {
    id: u64,
    done: bool,
    ev: HEvents,
}
impl Drop for HandlerGuard {
    fn drop(&mut self) {
        if !self.done {
            self.ev.borrow_mut().push(format!("OAborted {}", self.id));
        }
    }
}

/// Leading `A<secs>` tokens: the endpoint exists (its DelayQueue was created at virtual time 0) and
/// nothing happens on the connection while both clocks move; an Age token anywhere else is a no-op.
/// 37 183 476 s is the largest age inside the model's dq_env for a queue that never fired.
fn quiet_age(rt: &tokio::runtime::Runtime, fresh: bool, secs: u64) {
    if fresh && secs > 0 && secs <= 40_000_000 {
        vclock::advance(rt, Duration::from_secs(secs));
    }
}

macro_rules! server_run {
    ($codec:ident, $s:expr, $rt:expr) => {{
        let s: &Script = $s;
        let rt: &tokio::runtime::Runtime = $rt;
        let mut fresh = true;
        type CM = ClientMessage<String>;
        type RS = Response<String>;
        let pipe = LivePipe::new();
        let transport: tarpc::serde_transport::Transport<LivePipe, CM, RS, tokio_serde::formats::$codec<CM, RS>> =
            tarpc::serde_transport::new(
                Framed::new(pipe.clone(), LengthDelimitedCodec::new()),
                tokio_serde::formats::$codec::<CM, RS>::default(),
            );
        let channel = BaseChannel::with_defaults(transport);
        let mut requests = Box::pin(channel.requests());
        let waker = futures::task::noop_waker();
        let mut cx = Context::from_waker(&waker);
        let ev: HEvents = Rc::new(RefCell::new(vec![]));
        let mut handlers: Vec<Pin<Box<dyn Future<Output = ()>>>> = vec![];
        let mut over = false;
        let mut obs: Vec<Vec<String>> = vec![];
        let mut tags: Vec<String> = vec![];
        for t in &s.toks {
            let mut o: Vec<String> = vec![];
            if let Tok::Age(secs) = t {
                quiet_age(rt, fresh && !over, *secs);
                obs.push(o);
                continue;
            }
            fresh = false;
            if over {
                obs.push(o);
                continue;
            }
            let mut fed = true;
            match t {
                Tok::Req { id, dl, hang } => {
                    if dl.is_none() && s.codec == Cd::Bincode {
                        fed = false;
                    } else {
                        pipe.push_frame(&request_payload_form(&s.codec, *id, *dl, if *hang { "hang" } else { "echo" }, s.form));
                    }
                }
                Tok::Flood { id, n } => {
                    for _ in 0..(*n).min(2000) {
                        pipe.push_frame(&request_payload_form(&s.codec, *id, Some((3600, 0)), "hang", s.form));
                    }
                    tags.push("duplicate-flood".into());
                }
                Tok::Cancel(id) => pipe.push_frame(&cancel_payload_form(&s.codec, *id, s.form)),
                Tok::Probe(id) => pipe.push_frame(&request_payload_form(&s.codec, *id, Some((10, 0)), "echo", s.form)),
                _ => fed = false,
            }
            if fed {
                // pump: poll the request stream and every handler until nothing moves
                let r = catch_unwind(AssertUnwindSafe(|| {
                    let mut local: Vec<String> = vec![];
                    for _round in 0..10_000 {
                        let mut progressed = false;
                        match requests.as_mut().poll_next(&mut cx) {
                            Poll::Ready(Some(Ok(req))) => {
                                progressed = true;
                                let id = req.get().id;
                                let hang = req.get().message == "hang";
                                let ev2 = ev.clone();
                                ev.borrow_mut().push(format!("OStarted {id}"));
                                let fut = req.execute(tarpc::server::serve(move |_ctx: context::Context, m: String| {
                                    let g = HandlerGuard { id, done: false, ev: ev2 };
                                    async move {
                                        let mut g = g;
                                        if hang {
                                            futures::future::pending::<()>().await;
                                        }
                                        g.done = true;
                                        Ok::<String, tarpc::ServerError>(m)
                                    }
                                }));
                                handlers.push(Box::pin(fut));
                            }
                            Poll::Ready(Some(Err(_))) => {
                                local.push("OReadErr".into());
                                return (local, true);
                            }
                            Poll::Ready(None) => return (local, true),
                            Poll::Pending => {}
                        }
                        let mut i = 0;
                        while i < handlers.len() {
                            match handlers[i].as_mut().poll(&mut cx) {
                                Poll::Ready(()) => {
                                    progressed = true;
                                    drop(handlers.remove(i));
                                }
                                Poll::Pending => i += 1,
                            }
                        }
                        local.extend(ev.borrow_mut().drain(..));
                        if !progressed {
                            break;
                        }
                    }
                    (local, false)
                }));
                match r {
                    Ok((l, ended)) => {
                        o.extend(l);
                        if ended {
                            over = true;
                        }
                    }
                    Err(_) => {
                        o.extend(ev.borrow_mut().drain(..));
                        o.push("OPanic".into());
                        tags.push("panic".into());
                        over = true;
                    }
                }
                o.extend(ev.borrow_mut().drain(..));
                // responses the server wrote
                for f in pipe.take_frames() {
                    let id = match s.codec {
                        Cd::Json => serde_json::from_slice::<RS>(&f).map(|r| r.request_id).ok(),
                        Cd::Bincode => {
                            use bincode::Options;
                            bincode::DefaultOptions::new().deserialize::<RS>(&f).map(|r| r.request_id).ok()
                        }
                    };
                    match id {
                        Some(id) => o.push(format!("OServed {id}")),
                        None => o.push("OServed 0".into()),
                    }
                }
            }
            obs.push(o);
        }
        // drop order: handlers first (their guards report aborts that nobody observes any more)
        let _ = catch_unwind(AssertUnwindSafe(|| {
            drop(handlers);
            drop(requests);
        }));
        (obs, tags)
    }};
}

// ------------------------------------------------------------------------------- client mode

macro_rules! client_run {
    ($codec:ident, $s:expr, $rt:expr) => {{
        let s: &Script = $s;
        let rt: &tokio::runtime::Runtime = $rt;
        let mut fresh = true;
        type CM = ClientMessage<String>;
        type RS = Response<String>;
        let pipe = LivePipe::new();
        let transport: tarpc::serde_transport::Transport<LivePipe, RS, CM, tokio_serde::formats::$codec<RS, CM>> =
            tarpc::serde_transport::new(
                Framed::new(pipe.clone(), LengthDelimitedCodec::new()),
                tokio_serde::formats::$codec::<RS, CM>::default(),
            );
        let client::NewClient { client, dispatch } = client::new::<String, String, _>(client::Config::default(), transport);
        let mut dispatch = Box::pin(dispatch);
        let waker = futures::task::noop_waker();
        let mut cx = Context::from_waker(&waker);
        let mut calls: Vec<(u64, Pin<Box<dyn Future<Output = Result<String, client::RpcError>>>>)> = vec![];
        let mut next_id = 0u64;
        let mut over = false;
        let mut obs: Vec<Vec<String>> = vec![];
        let mut tags: Vec<String> = vec![];
        for t in &s.toks {
            let mut o: Vec<String> = vec![];
            if let Tok::Age(secs) = t {
                quiet_age(rt, fresh && !over, *secs);
                obs.push(o);
                continue;
            }
            fresh = false;
            if over {
                obs.push(o);
                continue;
            }
            let mut act = true;
            match t {
                Tok::Call { neg, secs, nanos } => {
                    let d = Duration::new(*secs, 0).checked_add(Duration::new(0, *nanos));
                    let now = Instant::now();
                    let deadline = d.and_then(|d| if *neg { now.checked_sub(d) } else { now.checked_add(d) });
                    match deadline {
                        None => act = false,
                        Some(deadline) => {
                            let ctx = crate::wire::ctx_with(deadline, tarpc::trace::Context::default());
                            let c = client.clone();
                            let id = next_id;
                            next_id += 1;
                            // the call future is created AND first polled under catch_unwind
                            let r = catch_unwind(AssertUnwindSafe(|| {
                                let mut fut: Pin<Box<dyn Future<Output = Result<String, client::RpcError>>>> =
                                    Box::pin(async move { c.call(ctx, "x".to_string()).await });
                                let p = fut.as_mut().poll(&mut cx);
                                (fut, p)
                            }));
                            match r {
                                Ok((fut, Poll::Pending)) => calls.push((id, fut)),
                                Ok((_, Poll::Ready(res))) => o.push(format!("OCallDone {id} {}", res_coq(&res))),
                                Err(_) => {
                                    o.push("OPanic".into());
                                    tags.push("panic".into());
                                    over = true;
                                }
                            }
                        }
                    }
                }
                Tok::Resp { id, ok, det } => {
                    if !*ok && det.0 > 0 {
                        pipe.push_frame(&error_payload_detail(&s.codec, *id, s.form, *det))
                    } else {
                        pipe.push_frame(&response_payload_form(&s.codec, *id, *ok, s.form))
                    }
                }
                _ => act = false,
            }
            if act && !over {
                let r = catch_unwind(AssertUnwindSafe(|| {
                    let mut local: Vec<String> = vec![];
                    for _round in 0..10_000 {
                        let mut progressed = false;
                        match dispatch.as_mut().poll(&mut cx) {
                            Poll::Ready(r) => {
                                local.push(if r.is_ok() { "ODispatchEnd".into() } else { "OReadErr".into() });
                                return (local, true);
                            }
                            Poll::Pending => {}
                        }
                        for f in pipe.take_frames() {
                            progressed = true;
                            let m = match s.codec {
                                Cd::Json => serde_json::from_slice::<serde_json::Value>(&f).ok().and_then(|v| {
                                    let r = v.get("Request")?;
                                    let d = r.get("context")?.get("deadline")?;
                                    Some((r.get("id")?.as_u64()?, d.get("secs")?.as_u64()?, d.get("nanos")?.as_u64()?))
                                }),
                                Cd::Bincode => {
                                    use bincode::Options;
                                    // the deadline is decoded by hand: decoding it with tarpc would add `now`
                                    #[derive(serde::Deserialize)]
                                    struct Ctx {
                                        deadline: Duration,
                                        #[allow(dead_code)]
                                        trace_context: tarpc::trace::Context,
                                    }
                                    #[derive(serde::Deserialize)]
                                    struct Rq {
                                        context: Ctx,
                                        id: u64,
                                        #[allow(dead_code)]
                                        message: String,
                                    }
                                    #[derive(serde::Deserialize)]
                                    enum Msg {
                                        Request(Rq),
                                        #[allow(dead_code)]
                                        Cancel { trace_context: tarpc::trace::Context, request_id: u64 },
                                    }
                                    match bincode::DefaultOptions::new().deserialize::<Msg>(&f) {
                                        Ok(Msg::Request(r)) => Some((r.id, r.context.deadline.as_secs(), r.context.deadline.subsec_nanos() as u64)),
                                        _ => None,
                                    }
                                }
                            };
                            match m {
                                Some((id, sc, ns)) => local.push(format!("OCallSent {id} {sc} {ns}")),
                                None => local.push("OCancelSent".into()),
                            }
                        }
                        let mut i = 0;
                        while i < calls.len() {
                            match calls[i].1.as_mut().poll(&mut cx) {
                                Poll::Ready(res) => {
                                    progressed = true;
                                    local.push(format!("OCallDone {} {}", calls[i].0, res_coq(&res)));
                                    drop(calls.remove(i));
                                }
                                Poll::Pending => i += 1,
                            }
                        }
                        if !progressed {
                            break;
                        }
                    }
                    (local, false)
                }));
                match r {
                    Ok((l, ended)) => {
                        o.extend(l);
                        if ended {
                            over = true;
                        }
                    }
                    Err(_) => {
                        o.push("OPanic".into());
                        tags.push("panic".into());
                        over = true;
                    }
                }
            }
            obs.push(o);
        }
        let _ = catch_unwind(AssertUnwindSafe(|| {
            drop(calls);
            drop(dispatch);
        }));
        (obs, tags)
    }};
}

fn res_coq(r: &Result<String, client::RpcError>) -> &'static str {
    match r {
        Ok(_) => "RReply",
        Err(client::RpcError::Server(_)) => "RServerErr",
        Err(client::RpcError::DeadlineExceeded) => "RDeadline",
        Err(_) => "ROther",
    }
}

// ------------------------------------------------------------------------------- wrong-variant response

#[tarpc::service]
pub trait TwoMethods {
    async fn alpha(x: String) -> String;
    async fn beta(x: u64) -> u64;
}

/// A client generated by #[tarpc::service] calls `alpha`; the peer answers with `beta`'s response
/// variant (well-typed for the channel, wrong for the method).
fn wrong_variant() -> Vec<String> {
    let (ct, mut st) = tarpc::transport::channel::unbounded::<Response<TwoMethodsResponse>, ClientMessage<TwoMethodsRequest>>();
    let (ct, st_item): (_, ()) = (ct, ());
    let _ = st_item;
    let client::NewClient { client, dispatch } = TwoMethodsClient::new(client::Config::default(), ct);
    let mut dispatch = Box::pin(dispatch);
    let waker = futures::task::noop_waker();
    let mut cx = Context::from_waker(&waker);
    let mut o = vec![];
    let r = catch_unwind(AssertUnwindSafe(|| {
        let c = client.clone();
        let mut fut: Pin<Box<dyn Future<Output = Result<String, client::RpcError>>>> =
            Box::pin(async move { c.alpha(context::current(), "a".to_string()).await });
        let _ = fut.as_mut().poll(&mut cx);
        let _ = dispatch.as_mut().poll(&mut cx);
        let mut id = None;
        if let Poll::Ready(Some(Ok(ClientMessage::Request(r)))) = Pin::new(&mut st).poll_next(&mut cx) {
            id = Some(r.id);
        }
        if let Some(id) = id {
            let _ = Pin::new(&mut st).start_send(Response { request_id: id, message: Ok(TwoMethodsResponse::Beta(5)) });
        }
        let _ = dispatch.as_mut().poll(&mut cx);
        match fut.as_mut().poll(&mut cx) {
            Poll::Ready(r) => format!("OCallDone 0 {}", match r { Ok(_) => "RReply", Err(client::RpcError::Server(_)) => "RServerErr", Err(client::RpcError::DeadlineExceeded) => "RDeadline", Err(_) => "ROther" }),
            Poll::Pending => "OCallPending".to_string(),
        }
    }));
    match r {
        Ok(x) => o.push(x),
        Err(_) => o.push("OPanic".into()),
    }
    o
}

// ------------------------------------------------------------------------------- stream mode

fn stream_error(e: &io::Error) -> bool {
    match e.get_ref() {
        Some(inner) => match inner.downcast_ref::<io::Error>() {
            Some(ioe) => !ioe
                .get_ref()
                .map(|x| x.is::<Box<bincode::ErrorKind>>() || x.is::<serde_json::Error>())
                .unwrap_or(false),
            None => true,
        },
        None => true,
    }
}

macro_rules! stream_run {
    ($codec:ident, $s:expr) => {{
        let s: &Script = $s;
        type CM = ClientMessage<String>;
        type RS = Response<String>;
        let mut stream: Vec<u8> = vec![];
        let mut last_frame = 0usize;
        let mut obs: Vec<Vec<String>> = vec![];
        let mut tags: Vec<String> = vec![];
        let mut closed = false;
        let mut chunks_used: Vec<usize> = vec![];
        for t in &s.toks {
            let mut o: Vec<String> = vec![];
            if closed {
                obs.push(o);
                continue;
            }
            match t {
                Tok::Frame(p) => {
                    stream.extend((p.len() as u32).to_be_bytes());
                    stream.extend(p);
                    last_frame = p.len() + 4;
                }
                Tok::Garbage(b) => {
                    stream.extend(b);
                    last_frame = 0;
                    tags.push("garbage".into());
                }
                Tok::Eof => {
                    closed = true;
                    if s.cut > 0 && s.cut < last_frame {
                        let keep = stream.len() - last_frame + s.cut;
                        stream.truncate(keep);
                        tags.push(if s.cut == 4 { "cut-after-header".into() } else { "cut".into() });
                    }
                    let pat: Vec<usize> = if s.rd.iter().any(|&x| x > 0) { s.rd.clone() } else { vec![usize::MAX] };
                    let mut cs: Vec<Option<Vec<u8>>> = vec![];
                    let (mut pos, mut i) = (0usize, 0usize);
                    while pos < stream.len() {
                        let k = pat[i % pat.len()].min(stream.len() - pos);
                        i += 1;
                        chunks_used.push(k);
                        if k == 0 {
                            cs.push(None);
                        } else {
                            cs.push(Some(stream[pos..pos + k].to_vec()));
                            pos += k;
                        }
                    }
                    let rp = crate::wire::Pipe::reader(cs);
                    let mut b: tarpc::serde_transport::Transport<crate::wire::Pipe, CM, RS, tokio_serde::formats::$codec<CM, RS>> =
                        tarpc::serde_transport::new(
                            Framed::new(rp, LengthDelimitedCodec::new()),
                            tokio_serde::formats::$codec::<CM, RS>::default(),
                        );
                    let waker = futures::task::noop_waker();
                    let mut cx = Context::from_waker(&waker);
                    let (mut items, mut guard) = (0usize, 0usize);
                    let mut end = "OEndClean";
                    loop {
                        guard += 1;
                        if guard > 2_000_000 {
                            end = "OPanic";
                            break;
                        }
                        match catch_unwind(AssertUnwindSafe(|| Pin::new(&mut b).poll_next(&mut cx))) {
                            Err(_) => {
                                end = "OPanic";
                                tags.push("panic".into());
                                break;
                            }
                            Ok(Poll::Pending) => continue,
                            Ok(Poll::Ready(None)) => break,
                            Ok(Poll::Ready(Some(Ok(_)))) => {
                                items += 1;
                                tags.push("decoded-item".into());
                            }
                            Ok(Poll::Ready(Some(Err(e)))) => {
                                if stream_error(&e) {
                                    end = "OEndErr";
                                } else {
                                    items += 1;
                                    tags.push("payload-rejected".into());
                                }
                            }
                        }
                    }
                    o.push(format!("OYield {items}"));
                    o.push(end.to_string());
                }
                _ => {}
            }
            obs.push(o);
        }
        (obs, tags, chunks_used)
    }};
}

// ------------------------------------------------------------------------------- case

pub fn to_case(s: &Script, wrong_variant_on: bool) -> Case {
    vclock::reset();
    let rt = vclock::runtime();
    let _g = rt.enter();
    let mut chunks: Vec<usize> = vec![];
    let (mut obs, mut tags): (Vec<Vec<String>>, Vec<String>) = with_subscriber(&s.sub, || match (&s.mode, &s.codec) {
        (Mode::Server, Cd::Json) => server_run!(Json, s, &rt),
        (Mode::Server, Cd::Bincode) => server_run!(Bincode, s, &rt),
        (Mode::Client, Cd::Json) => client_run!(Json, s, &rt),
        (Mode::Client, Cd::Bincode) => client_run!(Bincode, s, &rt),
        (Mode::Stream, Cd::Json) => {
            let (o, t, c) = stream_run!(Json, s);
            chunks = c;
            (o, t)
        }
        (Mode::Stream, Cd::Bincode) => {
            let (o, t, c) = stream_run!(Bincode, s);
            chunks = c;
            (o, t)
        }
    });
    // the wrong-variant class: its own little world, one observation list for the token
    if s.mode == Mode::Client {
        for (i, t) in s.toks.iter().enumerate() {
            if *t == Tok::Wrong && wrong_variant_on {
                let o = with_subscriber(&s.sub, wrong_variant);
                if o.iter().any(|x| x == "OPanic") {
                    tags.push("panic".into());
                }
                tags.push("wrong-variant".into());
                obs[i] = o;
            }
        }
    }
    let ops: Vec<String> = s
        .toks
        .iter()
        .map(|t| match t {
            Tok::Req { id, dl: Some((a, b)), hang } => format!("SReq {id} (Some ({a}, {b})) {hang}"),
            Tok::Req { id, dl: None, hang } => format!("SReq {id} None {hang}"),
            Tok::Flood { id, n } => format!("SFlood {id} {}", (*n).min(2000)),
            Tok::Cancel(id) => format!("SCancel {id}"),
            Tok::Probe(id) => format!("SProbe {id}"),
            Tok::Call { neg, secs, nanos } => format!("CCall {neg} {secs} {nanos}"),
            Tok::Resp { id, ok, .. } => format!("CResp {id} {ok}"),
            Tok::Wrong => format!("CWrong {wrong_variant_on}"),
            Tok::Frame(p) => format!("MFrame {}", crate::wire::coq_bytes_smart(p)),
            Tok::Garbage(p) => format!("MGarbage {}", crate::wire::coq_bytes_smart(p)),
            Tok::Eof => "MEof".into(),
            Tok::Age(secs) => format!("Age {secs}"),
        })
        .collect();
    for t in &s.toks {
        match t {
            Tok::Req { dl: Some((a, b)), .. } => {
                if *a > 68_719_476 {
                    tags.push("beyond-timer-range".into());
                }
                if *a > 253_402_300_799 - 1_600_000_000 {
                    tags.push("beyond-year-9999".into());
                }
                if *a > (i64::MAX as u64) - 2_000_000 {
                    tags.push("overflows-instant".into());
                }
                if *b >= 1_000_000_000 {
                    tags.push("nanos-carry".into());
                }
            }
            Tok::Req { dl: None, .. } => tags.push("deadline-omitted".into()),
            Tok::Call { neg, secs, .. } => {
                if *neg {
                    tags.push("past-deadline".into());
                } else if *secs > 68_719_476 {
                    tags.push("beyond-timer-range".into());
                }
                if !*neg && *secs > 253_402_300_799 - 1_600_000_000 {
                    tags.push("beyond-year-9999".into());
                }
            }
            Tok::Cancel(_) => tags.push("cancel".into()),
            Tok::Resp { ok, det, .. } => {
                tags.push("response".into());
                if !*ok && det.0 > 0 {
                    tags.push("long-multibyte-error-detail".into());
                }
            }
            Tok::Probe(_) => tags.push("probe".into()),
            _ => {}
        }
    }
    tags.push(match s.sub { Sub::None => "sub-none".into(), Sub::Fmt => "sub-fmt".into(), Sub::Otel => "sub-otel".into() });
    if s.form > 0 && s.codec == Cd::Json {
        tags.push("array-form".into());
    }
    tags.push(match s.mode { Mode::Server => "server".into(), Mode::Client => "client".into(), Mode::Stream => "stream".into() });
    tags.sort();
    tags.dedup();
    let chunk_items: Vec<String> = chunks.iter().map(|k| k.to_string()).collect();
    let cfg = format!(
        "{{| mode := {}; listening := {}; json := {}; hchunks := {}%nat; hcut := {}%nat |}}",
        match s.mode { Mode::Server => "MServer", Mode::Client => "MClient", Mode::Stream => "MStream" },
        s.sub != Sub::None,
        s.codec == Cd::Json,
        coq_list(&chunk_items),
        s.cut
    );
    let obs_items: Vec<String> = obs.iter().map(|l| coq_list(l)).collect();
    Case { cfg, ops: coq_list(&ops), obs: coq_list(&obs_items), tags, nops: s.toks.len() }
}

// ------------------------------------------------------------------------------- generation

const SECS: [u64; 16] = [
    0, 1, 10, 3600, 31_536_000, 31_536_001, 68_719_476, 68_719_477, 94_608_000, 3_155_760_000,
    251_802_300_798, 251_802_300_800, 9_223_372_036_853_775_806, 9_223_372_036_854_775_807,
    9_223_372_036_854_775_808, u64::MAX,
];
/// quiet connection ages: 0, 1 day, 65, 100, 300, 429 days (all inside dq_env: 430.36 days)
const AGES: [u64; 6] = [0, 86_400, 5_616_000, 8_640_000, 25_920_000, 37_065_600];
/// deadlines years away: 2, 3, 100, 285 years
const FAR: [u64; 4] = [63_072_000, 94_608_000, 3_155_760_000, 8_987_760_000];
const NANOS: [u32; 6] = [0, 1, 999_999_999, 1_000_000_000, 1_999_999_999, u32::MAX];
const IDS: [u64; 8] = [0, 1, 250, 251, 65536, 4294967296, u64::MAX - 1, u64::MAX];

pub fn gen(rng: &mut Rng, wrong_variant_on: bool) -> Script {
    let sub = match rng.below(3) { 0 => Sub::None, 1 => Sub::Fmt, _ => Sub::Otel };
    let codec = if rng.chance(1, 2) { Cd::Json } else { Cd::Bincode };
    let mode = match rng.below(10) { 0..=4 => Mode::Server, 5..=7 => Mode::Client, _ => Mode::Stream };
    let mut toks = vec![];
    let mut rd = vec![];
    let mut cut = 0;
    match mode {
        Mode::Server => {
            let mut used: Vec<u64> = vec![];
            let n = rng.range(2, 9);
            for _ in 0..n {
                let id = if !used.is_empty() && rng.chance(1, 3) { *rng.pick(&used) } else if rng.chance(1, 2) { *rng.pick(&IDS) } else { rng.below(1000) };
                let dl = if codec == Cd::Json && rng.chance(1, 8) {
                    None
                } else {
                    // nanos that carry only with seconds that cannot overflow u64 (an overflowing pair is a decode error, drawn separately)
                    let s = *rng.pick(&SECS);
                    let nn = *rng.pick(&NANOS);
                    Some((s, if s == u64::MAX && nn >= 1_000_000_000 && !rng.chance(1, 6) { 999_999_999 } else { nn }))
                };
                toks.push(match rng.below(10) {
                    0..=4 => { used.push(id); Tok::Req { id, dl, hang: false } }
                    5..=6 => { used.push(id); Tok::Req { id, dl, hang: true } }
                    7 => Tok::Cancel(id),
                    8 => { used.push(id); Tok::Flood { id, n: rng.range(2, 300) as u32 } }
                    _ => Tok::Probe(1_000_000 + rng.below(1000)),
                });
            }
            toks.push(Tok::Probe(2_000_000 + rng.below(1000)));
            // a third of the scripts: the connection was quiet for a while, then a request whose
            // deadline is years away (the timer is clamped to MAX_TIMEOUT; age + clamp must fit the wheel)
            if rng.chance(1, 3) {
                toks.insert(0, Tok::Age(*rng.pick(&AGES)));
                toks.insert(1, Tok::Req { id: 3_000_000, dl: Some((*rng.pick(&FAR), 0)), hang: rng.chance(1, 2) });
            }
        }
        Mode::Client => {
            let n = rng.range(2, 8);
            for _ in 0..n {
                toks.push(match rng.below(10) {
                    0..=5 => Tok::Call { neg: rng.chance(1, 5), secs: *rng.pick(&SECS), nanos: *rng.pick(&NANOS[..3]) },
                    6..=8 => {
                        let ok = rng.chance(1, 2);
                        // a third of the error responses: a long detail whose multi-byte characters straddle the
                        // byte offsets a careless truncation would cut at (powers of two and their neighbours)
                        let det = if !ok && rng.chance(1, 3) {
                            let base = *rng.pick(&[16usize, 32, 64, 100, 128, 255, 256, 512, 1000, 1024, 4096, 65536]);
                            (base + rng.below(4) as usize, rng.below(8) as usize)
                        } else {
                            (0, 0)
                        };
                        Tok::Resp { id: if rng.chance(1, 2) { rng.below(6) } else { *rng.pick(&IDS) }, ok, det }
                    }
                    _ => if wrong_variant_on { Tok::Wrong } else { Tok::Resp { id: 0, ok: true, det: (0, 0) } },
                });
            }
            toks.push(Tok::Call { neg: false, secs: 10, nanos: 0 });
            if rng.chance(1, 3) {
                toks.insert(0, Tok::Age(*rng.pick(&AGES)));
                toks.insert(1, Tok::Call { neg: false, secs: *rng.pick(&FAR), nanos: 0 });
            }
        }
        Mode::Stream => {
            rd = rng.pick(&[vec![1usize], vec![1, 0], vec![3, 0, 5, 2], vec![1_000_000], vec![7, 11]]).clone();
            let valid = |rng: &mut Rng| -> Vec<u8> {
                match rng.below(3) {
                    0 => request_payload(&codec, *rng.pick(&IDS), Some((*rng.pick(&SECS[..8]), 5)), "echo"),
                    1 => cancel_payload(&codec, *rng.pick(&IDS)),
                    _ => request_payload(&codec, 7, Some((10, 0)), "a longer body, to have something to cut into"),
                }
            };
            let clean = rng.chance(1, 2);
            let n = rng.range(1, 4);
            for _ in 0..n {
                let mut p = valid(rng);
                if !clean {
                    match rng.below(5) {
                        0 => { let i = rng.below(p.len() as u64) as usize; p[i] ^= 1 << rng.below(8); }
                        1 => { let k = rng.below(p.len() as u64) as usize; p.truncate(k); }
                        2 => { p = (0..rng.below(40)).map(|_| rng.next() as u8).collect(); }
                        3 => { p.extend((0..rng.range(1, 5)).map(|_| rng.next() as u8)); }
                        _ => {}
                    }
                }
                toks.push(Tok::Frame(p));
            }
            if !clean && rng.chance(1, 2) {
                let g: Vec<u8> = match rng.below(4) {
                    0 => vec![0xff, 0xff, 0xff, 0xff, 1, 2, 3],           // a length above the 8 MiB cap
                    1 => vec![0, 0x80, 0, 1],                              // 8 MiB + 1
                    2 => (0..rng.range(1, 12)).map(|_| rng.next() as u8).collect(),
                    _ => vec![0, 0, 0],
                };
                toks.push(Tok::Garbage(g));
            }
            if clean && rng.chance(2, 3) {
                // the cut positions: 4 (exactly the header) in a minority of scripts
                cut = *rng.pick(&[1usize, 2, 3, 4, 5, 6, 9, 17, 4]);
            }
            toks.push(Tok::Eof);
        }
    }
    // half of the JSON server / client scripts write every struct in its ARRAY form (or mixed)
    let form = if codec == Cd::Json && mode != Mode::Stream && rng.chance(1, 2) { rng.range(1, 2) as u8 } else { 0 };
    Script { mode, sub, codec, rd, cut, form, toks }
}

pub fn sweep(mut f0: impl FnMut(Script)) {
    // every JSON server / client script of the sweep also in the array form and in the mixed form
    let mut f = |s: Script| {
        if s.codec == Cd::Json && s.mode != Mode::Stream {
            for form in [1u8, 2] {
                let mut a = s.clone();
                a.form = form;
                f0(a);
            }
        }
        f0(s)
    };
    // every quiet age x every far deadline, server and client, then a probe
    for codec in [Cd::Json, Cd::Bincode] {
        for &a in &AGES {
            for &d in &FAR {
                f(Script { mode: Mode::Server, sub: Sub::None, codec: codec.clone(), rd: vec![], cut: 0, form: 0,
                           toks: vec![Tok::Age(a), Tok::Req { id: 1, dl: Some((d, 0)), hang: true }, Tok::Req { id: 2, dl: Some((d, 1)), hang: false }, Tok::Probe(9)] });
                f(Script { mode: Mode::Client, sub: Sub::None, codec: codec.clone(), rd: vec![], cut: 0, form: 0,
                           toks: vec![Tok::Age(a), Tok::Call { neg: false, secs: d, nanos: 0 }, Tok::Call { neg: false, secs: 10, nanos: 0 }] });
            }
        }
    }
    // every boundary duration x every subscriber x both codecs, server and client, each followed by a probe
    for sub in [Sub::None, Sub::Fmt, Sub::Otel] {
        for codec in [Cd::Json, Cd::Bincode] {
            for &s in &SECS {
                for &n in &NANOS {
                    f(Script { mode: Mode::Server, sub: sub.clone(), codec: codec.clone(), rd: vec![], cut: 0, form: 0,
                               toks: vec![Tok::Req { id: 1, dl: Some((s, n)), hang: false }, Tok::Req { id: 2, dl: Some((s, n)), hang: true }, Tok::Probe(9)] });
                }
                for neg in [false, true] {
                    f(Script { mode: Mode::Client, sub: sub.clone(), codec: codec.clone(), rd: vec![], cut: 0, form: 0,
                               toks: vec![Tok::Call { neg, secs: s, nanos: 1 }, Tok::Resp { id: 5, ok: true, det: (0, 0) }, Tok::Call { neg: false, secs: 10, nanos: 0 }, Tok::Resp { id: 1, ok: false, det: (0, 0) }] });
                }
            }
        }
    }
    // every cut position of a two-frame stream
    for codec in [Cd::Json, Cd::Bincode] {
        for cut in 1..40 {
            f(Script { mode: Mode::Stream, sub: Sub::None, codec: codec.clone(), rd: vec![2, 0, 3], cut, form: 0,
                       toks: vec![Tok::Frame(cancel_payload(&codec, 1)), Tok::Frame(request_payload(&codec, 300, Some((10, 0)), "echo")), Tok::Eof] });
        }
    }
}
