//! The translator's eyes: a *recording* `serde::Serializer` and a *probing* `serde::Deserializer`.
//!
//! `record(&value)` returns the exact list of serde calls the real `Serialize` impl makes
//! (struct / variant names and indices, field order, the primitive `serialize_*` of every leaf).
//! `probe::<T>(plan)` drives the real `Deserialize` impl with scripted answers and records which
//! `deserialize_*` every leaf asks for, the field / variant lists it declares, and -- by leaving
//! one field out of a struct's map -- which fields may be omitted (`#[serde(default)]`).
//! `protocol_shapes()` merges both views of `ClientMessage<String>` and `Response<String>` into
//! Coq terms of type `Schema.shape`; `tools/gen` writes them into `coq/Generated.v`.
use serde::de::{self, DeserializeSeed, Visitor};
use serde::ser::{self, Serialize};
use std::collections::BTreeMap;
use std::fmt;

// --------------------------------------------------------------------------------- recorder

#[derive(Clone, Debug, PartialEq)]
pub enum Ev {
    Int(&'static str, i128),
    Str(Vec<u8>),
    Tuple(usize),
    TupleEnd,
    Newtype(String),
    Struct(String, usize),
    Field(String),
    StructEnd,
    UnitVariant(String, u32, String),
    NewtypeVariant(String, u32, String),
    StructVariant(String, u32, String, usize),
    StructVariantEnd,
    Other(String),
}

fn coq_str(s: &str) -> String {
    format!("\"{}\"", s.replace('"', "\"\""))
}

pub fn coq_bytes(b: &[u8]) -> String {
    let mut s = String::with_capacity(b.len() * 4 + 2);
    s.push('[');
    for (i, x) in b.iter().enumerate() {
        if i > 0 {
            s.push(';');
        }
        s.push_str(&x.to_string());
    }
    s.push(']');
    s
}

impl Ev {
    /// As a term of `Wire.event` (string_scope and N_scope closed: everything is annotated).
    pub fn coq(&self) -> String {
        match self {
            Ev::Int(p, z) => format!("EInt {} ({})%Z", prim_coq(p), z),
            Ev::Str(b) => format!("EStr {}%N", coq_bytes(b)),
            Ev::Tuple(n) => format!("ETuple {n}"),
            Ev::TupleEnd => "ETupleEnd".into(),
            Ev::Newtype(n) => format!("ENewtype {}", coq_str(n)),
            Ev::Struct(n, k) => format!("EStruct {} {k}", coq_str(n)),
            Ev::Field(n) => format!("EField {}", coq_str(n)),
            Ev::StructEnd => "EStructEnd".into(),
            Ev::UnitVariant(e, i, v) => format!("EUnitVariant {} {i} {}", coq_str(e), coq_str(v)),
            Ev::NewtypeVariant(e, i, v) => format!("ENewtypeVariant {} {i} {}", coq_str(e), coq_str(v)),
            Ev::StructVariant(e, i, v, n) => {
                format!("EStructVariant {} {i} {} {n}", coq_str(e), coq_str(v))
            }
            Ev::StructVariantEnd => "EStructVariantEnd".into(),
            Ev::Other(_) => "EBad".into(),
        }
    }
}

pub fn prim_coq(p: &str) -> &'static str {
    match p {
        "u8" => "PU8",
        "u16" => "PU16",
        "u32" => "PU32",
        "u64" => "PU64",
        "i8" => "PI8",
        "i16" => "PI16",
        "i32" => "PI32",
        "i64" => "PI64",
        "str" | "string" => "PStr",
        _ => "POther",
    }
}

#[derive(Debug)]
pub struct RecErr(String);
impl fmt::Display for RecErr {
    fn fmt(&self, f: &mut fmt::Formatter) -> fmt::Result {
        write!(f, "{}", self.0)
    }
}
impl std::error::Error for RecErr {}
impl ser::Error for RecErr {
    fn custom<T: fmt::Display>(msg: T) -> Self {
        RecErr(msg.to_string())
    }
}
impl de::Error for RecErr {
    fn custom<T: fmt::Display>(msg: T) -> Self {
        RecErr(msg.to_string())
    }
}

#[derive(Default)]
pub struct Recorder {
    pub out: Vec<Ev>,
}

pub fn record<T: Serialize>(v: &T) -> Vec<Ev> {
    let mut r = Recorder::default();
    if let Err(e) = v.serialize(&mut r) {
        r.out.push(Ev::Other(format!("error: {e}")));
    }
    r.out
}

macro_rules! rec_int {
    ($f:ident, $t:ty, $n:expr) => {
        fn $f(self, v: $t) -> Result<(), RecErr> {
            self.out.push(Ev::Int($n, v as i128));
            Ok(())
        }
    };
}

impl<'a> ser::Serializer for &'a mut Recorder {
    type Ok = ();
    type Error = RecErr;
    type SerializeSeq = Self;
    type SerializeTuple = Self;
    type SerializeTupleStruct = Self;
    type SerializeTupleVariant = Self;
    type SerializeMap = Self;
    type SerializeStruct = Self;
    type SerializeStructVariant = Self;

    rec_int!(serialize_u8, u8, "u8");
    rec_int!(serialize_u16, u16, "u16");
    rec_int!(serialize_u32, u32, "u32");
    rec_int!(serialize_u64, u64, "u64");
    rec_int!(serialize_i8, i8, "i8");
    rec_int!(serialize_i16, i16, "i16");
    rec_int!(serialize_i32, i32, "i32");
    rec_int!(serialize_i64, i64, "i64");

    fn serialize_bool(self, _: bool) -> Result<(), RecErr> {
        self.out.push(Ev::Other("bool".into()));
        Ok(())
    }
    fn serialize_f32(self, _: f32) -> Result<(), RecErr> {
        self.out.push(Ev::Other("f32".into()));
        Ok(())
    }
    fn serialize_f64(self, _: f64) -> Result<(), RecErr> {
        self.out.push(Ev::Other("f64".into()));
        Ok(())
    }
    fn serialize_char(self, _: char) -> Result<(), RecErr> {
        self.out.push(Ev::Other("char".into()));
        Ok(())
    }
    fn serialize_str(self, v: &str) -> Result<(), RecErr> {
        self.out.push(Ev::Str(v.as_bytes().to_vec()));
        Ok(())
    }
    fn serialize_bytes(self, _: &[u8]) -> Result<(), RecErr> {
        self.out.push(Ev::Other("bytes".into()));
        Ok(())
    }
    fn serialize_none(self) -> Result<(), RecErr> {
        self.out.push(Ev::Other("none".into()));
        Ok(())
    }
    fn serialize_some<T: ?Sized + Serialize>(self, v: &T) -> Result<(), RecErr> {
        self.out.push(Ev::Other("some".into()));
        v.serialize(self)
    }
    fn serialize_unit(self) -> Result<(), RecErr> {
        self.out.push(Ev::Other("unit".into()));
        Ok(())
    }
    fn serialize_unit_struct(self, n: &'static str) -> Result<(), RecErr> {
        self.out.push(Ev::Other(format!("unit_struct {n}")));
        Ok(())
    }
    fn serialize_unit_variant(self, e: &'static str, i: u32, v: &'static str) -> Result<(), RecErr> {
        self.out.push(Ev::UnitVariant(e.into(), i, v.into()));
        Ok(())
    }
    fn serialize_newtype_struct<T: ?Sized + Serialize>(self, n: &'static str, v: &T) -> Result<(), RecErr> {
        self.out.push(Ev::Newtype(n.into()));
        v.serialize(self)
    }
    fn serialize_newtype_variant<T: ?Sized + Serialize>(
        self,
        e: &'static str,
        i: u32,
        vn: &'static str,
        v: &T,
    ) -> Result<(), RecErr> {
        self.out.push(Ev::NewtypeVariant(e.into(), i, vn.into()));
        v.serialize(self)
    }
    fn serialize_seq(self, _: Option<usize>) -> Result<Self, RecErr> {
        self.out.push(Ev::Other("seq".into()));
        Ok(self)
    }
    fn serialize_tuple(self, n: usize) -> Result<Self, RecErr> {
        self.out.push(Ev::Tuple(n));
        Ok(self)
    }
    fn serialize_tuple_struct(self, n: &'static str, _: usize) -> Result<Self, RecErr> {
        self.out.push(Ev::Other(format!("tuple_struct {n}")));
        Ok(self)
    }
    fn serialize_tuple_variant(self, e: &'static str, _: u32, _: &'static str, _: usize) -> Result<Self, RecErr> {
        self.out.push(Ev::Other(format!("tuple_variant {e}")));
        Ok(self)
    }
    fn serialize_map(self, _: Option<usize>) -> Result<Self, RecErr> {
        self.out.push(Ev::Other("map".into()));
        Ok(self)
    }
    fn serialize_struct(self, n: &'static str, k: usize) -> Result<Self, RecErr> {
        self.out.push(Ev::Struct(n.into(), k));
        Ok(self)
    }
    fn serialize_struct_variant(self, e: &'static str, i: u32, v: &'static str, k: usize) -> Result<Self, RecErr> {
        self.out.push(Ev::StructVariant(e.into(), i, v.into(), k));
        Ok(self)
    }
}

impl<'a> ser::SerializeSeq for &'a mut Recorder {
    type Ok = ();
    type Error = RecErr;
    fn serialize_element<T: ?Sized + Serialize>(&mut self, v: &T) -> Result<(), RecErr> {
        v.serialize(&mut **self)
    }
    fn end(self) -> Result<(), RecErr> {
        self.out.push(Ev::Other("seq_end".into()));
        Ok(())
    }
}
impl<'a> ser::SerializeTuple for &'a mut Recorder {
    type Ok = ();
    type Error = RecErr;
    fn serialize_element<T: ?Sized + Serialize>(&mut self, v: &T) -> Result<(), RecErr> {
        v.serialize(&mut **self)
    }
    fn end(self) -> Result<(), RecErr> {
        self.out.push(Ev::TupleEnd);
        Ok(())
    }
}
impl<'a> ser::SerializeTupleStruct for &'a mut Recorder {
    type Ok = ();
    type Error = RecErr;
    fn serialize_field<T: ?Sized + Serialize>(&mut self, v: &T) -> Result<(), RecErr> {
        v.serialize(&mut **self)
    }
    fn end(self) -> Result<(), RecErr> {
        self.out.push(Ev::Other("tuple_struct_end".into()));
        Ok(())
    }
}
impl<'a> ser::SerializeTupleVariant for &'a mut Recorder {
    type Ok = ();
    type Error = RecErr;
    fn serialize_field<T: ?Sized + Serialize>(&mut self, v: &T) -> Result<(), RecErr> {
        v.serialize(&mut **self)
    }
    fn end(self) -> Result<(), RecErr> {
        self.out.push(Ev::Other("tuple_variant_end".into()));
        Ok(())
    }
}
impl<'a> ser::SerializeMap for &'a mut Recorder {
    type Ok = ();
    type Error = RecErr;
    fn serialize_key<T: ?Sized + Serialize>(&mut self, v: &T) -> Result<(), RecErr> {
        v.serialize(&mut **self)
    }
    fn serialize_value<T: ?Sized + Serialize>(&mut self, v: &T) -> Result<(), RecErr> {
        v.serialize(&mut **self)
    }
    fn end(self) -> Result<(), RecErr> {
        self.out.push(Ev::Other("map_end".into()));
        Ok(())
    }
}
impl<'a> ser::SerializeStruct for &'a mut Recorder {
    type Ok = ();
    type Error = RecErr;
    fn serialize_field<T: ?Sized + Serialize>(&mut self, k: &'static str, v: &T) -> Result<(), RecErr> {
        self.out.push(Ev::Field(k.into()));
        v.serialize(&mut **self)
    }
    fn end(self) -> Result<(), RecErr> {
        self.out.push(Ev::StructEnd);
        Ok(())
    }
}
impl<'a> ser::SerializeStructVariant for &'a mut Recorder {
    type Ok = ();
    type Error = RecErr;
    fn serialize_field<T: ?Sized + Serialize>(&mut self, k: &'static str, v: &T) -> Result<(), RecErr> {
        self.out.push(Ev::Field(k.into()));
        v.serialize(&mut **self)
    }
    fn end(self) -> Result<(), RecErr> {
        self.out.push(Ev::StructVariantEnd);
        Ok(())
    }
}

// --------------------------------------------------------------------------------- shape trees

#[derive(Clone, Debug, PartialEq)]
pub enum Sh {
    /// serialize_* name, deserialize_* name ("?" = not seen on that side)
    Prim(String, String),
    Tuple(usize, Box<Sh>),
    Newtype(String, Box<Sh>),
    Struct(String, Vec<Fld>),
    /// variants by index; None = not (yet) seen
    Enum(String, Vec<Option<(String, Vk)>>),
    Bad(String),
}
#[derive(Clone, Debug, PartialEq)]
pub struct Fld {
    pub name: String,
    pub dflt: bool,
    pub sh: Sh,
}
#[derive(Clone, Debug, PartialEq)]
pub enum Vk {
    Unit,
    Newtype(Box<Sh>),
    Struct(Vec<Fld>),
}

/// The serializer's view: parse one recorded event list into a tree.
pub fn tree_of_events(evs: &[Ev]) -> Sh {
    let mut pos = 0;
    let t = parse_ev(evs, &mut pos);
    if pos != evs.len() {
        return Sh::Bad(format!("trailing events after position {pos}"));
    }
    t
}

fn parse_fields(evs: &[Ev], pos: &mut usize, end: &Ev) -> Result<Vec<Fld>, String> {
    let mut fs = vec![];
    loop {
        match evs.get(*pos) {
            Some(e) if e == end => {
                *pos += 1;
                return Ok(fs);
            }
            Some(Ev::Field(n)) => {
                *pos += 1;
                let sh = parse_ev(evs, pos);
                fs.push(Fld { name: n.clone(), dflt: false, sh });
            }
            other => return Err(format!("expected field or end, got {other:?}")),
        }
    }
}

fn parse_ev(evs: &[Ev], pos: &mut usize) -> Sh {
    let Some(e) = evs.get(*pos) else { return Sh::Bad("unexpected end of events".into()) };
    *pos += 1;
    match e {
        Ev::Int(p, _) => Sh::Prim((*p).into(), "?".into()),
        Ev::Str(_) => Sh::Prim("str".into(), "?".into()),
        Ev::Tuple(n) => {
            let mut elems = vec![];
            while evs.get(*pos) != Some(&Ev::TupleEnd) {
                if *pos >= evs.len() {
                    return Sh::Bad("unterminated tuple".into());
                }
                elems.push(parse_ev(evs, pos));
            }
            *pos += 1;
            if elems.len() != *n {
                return Sh::Bad(format!("tuple({n}) with {} elements", elems.len()));
            }
            match elems.first() {
                None => Sh::Bad("empty tuple".into()),
                Some(f) if elems.iter().all(|x| x == f) => Sh::Tuple(*n, Box::new(f.clone())),
                Some(_) => Sh::Bad("heterogeneous tuple".into()),
            }
        }
        Ev::Newtype(n) => Sh::Newtype(n.clone(), Box::new(parse_ev(evs, pos))),
        Ev::Struct(n, k) => match parse_fields(evs, pos, &Ev::StructEnd) {
            Ok(fs) if fs.len() == *k => Sh::Struct(n.clone(), fs),
            Ok(fs) => Sh::Bad(format!("struct {n} announced {k} fields, wrote {}", fs.len())),
            Err(m) => Sh::Bad(m),
        },
        Ev::UnitVariant(en, i, v) => one_variant(en, *i, v, Vk::Unit),
        Ev::NewtypeVariant(en, i, v) => {
            let inner = parse_ev(evs, pos);
            one_variant(en, *i, v, Vk::Newtype(Box::new(inner)))
        }
        Ev::StructVariant(en, i, v, k) => match parse_fields(evs, pos, &Ev::StructVariantEnd) {
            Ok(fs) if fs.len() == *k => one_variant(en, *i, v, Vk::Struct(fs)),
            Ok(fs) => Sh::Bad(format!("variant {v} announced {k} fields, wrote {}", fs.len())),
            Err(m) => Sh::Bad(m),
        },
        other => Sh::Bad(format!("unsupported serializer call {other:?}")),
    }
}

fn one_variant(en: &str, i: u32, v: &str, k: Vk) -> Sh {
    let mut vs = vec![None; i as usize + 1];
    vs[i as usize] = Some((v.to_string(), k));
    Sh::Enum(en.to_string(), vs)
}

/// Union of two views of the same type (different enum variants seen, "?" sides filled in,
/// `dflt` flags or-ed).
pub fn merge(a: &Sh, b: &Sh) -> Sh {
    match (a, b) {
        (Sh::Bad(m), _) | (_, Sh::Bad(m)) => Sh::Bad(m.clone()),
        (Sh::Prim(s1, d1), Sh::Prim(s2, d2)) => {
            let s = pick(s1, s2);
            let d = pick(d1, d2);
            match (s, d) {
                (Some(s), Some(d)) => Sh::Prim(s, d),
                _ => Sh::Bad(format!("leaf seen as {s1}/{d1} and {s2}/{d2}")),
            }
        }
        (Sh::Tuple(n1, e1), Sh::Tuple(n2, e2)) if n1 == n2 => Sh::Tuple(*n1, Box::new(merge(e1, e2))),
        (Sh::Newtype(n1, e1), Sh::Newtype(n2, e2)) if n1 == n2 => {
            Sh::Newtype(n1.clone(), Box::new(merge(e1, e2)))
        }
        (Sh::Struct(n1, f1), Sh::Struct(n2, f2)) if n1 == n2 => match merge_fields(f1, f2) {
            Ok(fs) => Sh::Struct(n1.clone(), fs),
            Err(m) => Sh::Bad(format!("struct {n1}: {m}")),
        },
        (Sh::Enum(n1, v1), Sh::Enum(n2, v2)) if n1 == n2 => {
            let mut out = vec![];
            for i in 0..v1.len().max(v2.len()) {
                let x = v1.get(i).cloned().flatten();
                let y = v2.get(i).cloned().flatten();
                out.push(match (x, y) {
                    (None, None) => None,
                    (Some(x), None) | (None, Some(x)) => Some(x),
                    (Some((nx, kx)), Some((ny, ky))) => {
                        if nx != ny {
                            return Sh::Bad(format!("enum {n1}: variant {i} is {nx} and {ny}"));
                        }
                        let k = match (kx, ky) {
                            (Vk::Unit, Vk::Unit) => Vk::Unit,
                            (Vk::Newtype(p), Vk::Newtype(q)) => Vk::Newtype(Box::new(merge(&p, &q))),
                            (Vk::Struct(p), Vk::Struct(q)) => match merge_fields(&p, &q) {
                                Ok(fs) => Vk::Struct(fs),
                                Err(m) => return Sh::Bad(format!("variant {nx}: {m}")),
                            },
                            _ => return Sh::Bad(format!("enum {n1}: variant {nx} has two kinds")),
                        };
                        Some((nx, k))
                    }
                });
            }
            Sh::Enum(n1.clone(), out)
        }
        _ => Sh::Bad(format!("structure differs: {} vs {}", head(a), head(b))),
    }
}

fn head(s: &Sh) -> String {
    match s {
        Sh::Prim(a, b) => format!("leaf {a}/{b}"),
        Sh::Tuple(n, _) => format!("tuple {n}"),
        Sh::Newtype(n, _) => format!("newtype {n}"),
        Sh::Struct(n, _) => format!("struct {n}"),
        Sh::Enum(n, _) => format!("enum {n}"),
        Sh::Bad(m) => format!("bad {m}"),
    }
}

fn pick(a: &str, b: &str) -> Option<String> {
    if a == "?" {
        Some(b.to_string())
    } else if b == "?" || a == b {
        Some(a.to_string())
    } else {
        None
    }
}

fn merge_fields(a: &[Fld], b: &[Fld]) -> Result<Vec<Fld>, String> {
    if a.len() != b.len() {
        return Err(format!("{} fields vs {}", a.len(), b.len()));
    }
    let mut out = vec![];
    for (x, y) in a.iter().zip(b) {
        if x.name != y.name {
            return Err(format!("field {} vs {}", x.name, y.name));
        }
        out.push(Fld { name: x.name.clone(), dflt: x.dflt || y.dflt, sh: merge(&x.sh, &y.sh) });
    }
    Ok(out)
}

fn coq_fields(fs: &[Fld]) -> String {
    let mut s = String::from("FNil");
    for f in fs.iter().rev() {
        s = format!("(FCons {} {} {} {})", coq_str(&f.name), f.dflt, coq_shape(&f.sh), s);
    }
    s
}

pub fn coq_shape(s: &Sh) -> String {
    match s {
        Sh::Prim(a, b) => format!("(SPrim {} {})", prim_coq(a), prim_coq(b)),
        Sh::Tuple(n, e) => format!("(STuple {n} {})", coq_shape(e)),
        Sh::Newtype(n, e) => format!("(SNewtype {} {})", coq_str(n), coq_shape(e)),
        Sh::Struct(n, fs) => format!("(SStruct {} {})", coq_str(n), coq_fields(fs)),
        Sh::Enum(n, vs) => {
            let mut t = String::from("VNil");
            for v in vs.iter().rev() {
                match v {
                    None => return format!("(SBad {})", coq_str(&format!("enum {n}: a variant was never seen"))),
                    Some((vn, k)) => {
                        let kc = match k {
                            Vk::Unit => "VkUnit".to_string(),
                            Vk::Newtype(e) => format!("(VkNewtype {})", coq_shape(e)),
                            Vk::Struct(fs) => format!("(VkStruct {})", coq_fields(fs)),
                        };
                        t = format!("(VCons {} {} {})", coq_str(vn), kc, t);
                    }
                }
            }
            format!("(SEnum {} {})", coq_str(n), t)
        }
        Sh::Bad(m) => format!("(SBad {})", coq_str(m)),
    }
}

// --------------------------------------------------------------------------------- prober

/// What the prober is told to do: which variant to pick for each enum (by enum name), and which
/// (struct, field) to leave out of the struct's map.
#[derive(Clone, Default)]
pub struct Plan {
    pub choice: BTreeMap<String, usize>,
    pub omit: Option<(String, String)>,
    /// drive the struct (or struct variant) with this (name, first field name) through visit_seq,
    /// offering only its first k fields (serde_json does that for a JSON array)
    pub seq: Option<(String, String, usize)>,
}

/// What one probe run saw: the de-side tree, and how many variants each enum declares.
pub struct Probe<'p> {
    plan: &'p Plan,
    pub tree: Option<Sh>,
    pub enums: BTreeMap<String, usize>,
}

impl<'p> Probe<'p> {
    fn new(plan: &'p Plan) -> Self {
        Probe { plan, tree: None, enums: BTreeMap::new() }
    }
    fn leaf(&mut self, de: &str) {
        self.tree = Some(Sh::Prim("?".into(), de.into()));
    }
    fn child(&self) -> Probe<'p> {
        Probe::new(self.plan)
    }
    fn absorb(&mut self, c: &Probe<'p>) {
        for (k, v) in &c.enums {
            self.enums.insert(k.clone(), *v);
        }
    }
}

pub fn probe<'de, T: de::Deserialize<'de>>(plan: &Plan) -> (Result<(), String>, Option<Sh>, BTreeMap<String, usize>) {
    let mut p = Probe::new(plan);
    let r = T::deserialize(&mut p).map(|_| ()).map_err(|e: RecErr| e.0);
    (r, p.tree, p.enums)
}

macro_rules! probe_int {
    ($f:ident, $v:ident, $n:expr) => {
        fn $f<V: Visitor<'de>>(self, visitor: V) -> Result<V::Value, RecErr> {
            self.leaf($n);
            visitor.$v(0)
        }
    };
}

impl<'de, 'a, 'p> de::Deserializer<'de> for &'a mut Probe<'p> {
    type Error = RecErr;

    probe_int!(deserialize_u8, visit_u8, "u8");
    probe_int!(deserialize_u16, visit_u16, "u16");
    probe_int!(deserialize_u32, visit_u32, "u32");
    probe_int!(deserialize_u64, visit_u64, "u64");
    probe_int!(deserialize_i8, visit_i8, "i8");
    probe_int!(deserialize_i16, visit_i16, "i16");
    probe_int!(deserialize_i32, visit_i32, "i32");
    probe_int!(deserialize_i64, visit_i64, "i64");

    fn deserialize_any<V: Visitor<'de>>(self, _: V) -> Result<V::Value, RecErr> {
        self.leaf("any");
        Err(RecErr("deserialize_any is not scripted".into()))
    }
    fn deserialize_bool<V: Visitor<'de>>(self, v: V) -> Result<V::Value, RecErr> {
        self.leaf("bool");
        v.visit_bool(false)
    }
    fn deserialize_f32<V: Visitor<'de>>(self, v: V) -> Result<V::Value, RecErr> {
        self.leaf("f32");
        v.visit_f32(0.0)
    }
    fn deserialize_f64<V: Visitor<'de>>(self, v: V) -> Result<V::Value, RecErr> {
        self.leaf("f64");
        v.visit_f64(0.0)
    }
    fn deserialize_char<V: Visitor<'de>>(self, v: V) -> Result<V::Value, RecErr> {
        self.leaf("char");
        v.visit_char('x')
    }
    fn deserialize_str<V: Visitor<'de>>(self, v: V) -> Result<V::Value, RecErr> {
        self.leaf("str");
        v.visit_str("x")
    }
    fn deserialize_string<V: Visitor<'de>>(self, v: V) -> Result<V::Value, RecErr> {
        self.leaf("string");
        v.visit_string("x".into())
    }
    fn deserialize_bytes<V: Visitor<'de>>(self, v: V) -> Result<V::Value, RecErr> {
        self.leaf("bytes");
        v.visit_bytes(b"x")
    }
    fn deserialize_byte_buf<V: Visitor<'de>>(self, v: V) -> Result<V::Value, RecErr> {
        self.leaf("byte_buf");
        v.visit_byte_buf(vec![b'x'])
    }
    fn deserialize_option<V: Visitor<'de>>(self, v: V) -> Result<V::Value, RecErr> {
        self.leaf("option");
        v.visit_none()
    }
    fn deserialize_unit<V: Visitor<'de>>(self, v: V) -> Result<V::Value, RecErr> {
        self.leaf("unit");
        v.visit_unit()
    }
    fn deserialize_unit_struct<V: Visitor<'de>>(self, _: &'static str, v: V) -> Result<V::Value, RecErr> {
        self.leaf("unit_struct");
        v.visit_unit()
    }
    fn deserialize_newtype_struct<V: Visitor<'de>>(self, name: &'static str, v: V) -> Result<V::Value, RecErr> {
        let mut c = self.child();
        let r = v.visit_newtype_struct(&mut c);
        self.absorb(&c);
        self.tree = Some(Sh::Newtype(name.into(), Box::new(c.tree.unwrap_or(Sh::Bad("newtype not read".into())))));
        r
    }
    fn deserialize_seq<V: Visitor<'de>>(self, _: V) -> Result<V::Value, RecErr> {
        self.leaf("seq");
        Err(RecErr("deserialize_seq is not scripted".into()))
    }
    fn deserialize_tuple<V: Visitor<'de>>(self, n: usize, v: V) -> Result<V::Value, RecErr> {
        let mut acc = SeqProbe { parent: self.child(), left: n, elems: vec![] };
        let r = v.visit_seq(&mut acc);
        self.absorb(&acc.parent);
        let elems = acc.elems;
        self.tree = Some(match elems.first() {
            Some(f) if elems.len() == n && elems.iter().all(|x| x == f) => Sh::Tuple(n, Box::new(f.clone())),
            _ => Sh::Bad(format!("tuple({n}) read {} elements / heterogeneous", elems.len())),
        });
        r
    }
    fn deserialize_tuple_struct<V: Visitor<'de>>(self, _: &'static str, _: usize, _: V) -> Result<V::Value, RecErr> {
        self.leaf("tuple_struct");
        Err(RecErr("deserialize_tuple_struct is not scripted".into()))
    }
    fn deserialize_map<V: Visitor<'de>>(self, _: V) -> Result<V::Value, RecErr> {
        self.leaf("map");
        Err(RecErr("deserialize_map is not scripted".into()))
    }
    fn deserialize_struct<V: Visitor<'de>>(
        self,
        name: &'static str,
        fields: &'static [&'static str],
        v: V,
    ) -> Result<V::Value, RecErr> {
        if let Some((sn, ff, k)) = &self.plan.seq {
            if sn == name && fields.first().map(|f| *f == ff.as_str()).unwrap_or(ff.is_empty()) {
                let mut acc = SeqProbe { parent: self.child(), left: *k, elems: vec![] };
                let r = v.visit_seq(&mut acc);
                self.absorb(&acc.parent);
                self.tree = Some(Sh::Bad("seq probe".into()));
                return r;
            }
        }
        let mut acc = MapProbe::new(self.child(), name, fields);
        let r = v.visit_map(&mut acc);
        self.absorb(&acc.parent);
        self.tree = Some(Sh::Struct(name.into(), acc.fields()));
        r
    }
    fn deserialize_enum<V: Visitor<'de>>(
        self,
        name: &'static str,
        variants: &'static [&'static str],
        v: V,
    ) -> Result<V::Value, RecErr> {
        self.enums.insert(name.into(), variants.len());
        let idx = self.plan.choice.get(name).copied().unwrap_or(0).min(variants.len().saturating_sub(1));
        let mut acc = EnumProbe { parent: self.child(), idx, kind: None, vname: variants.get(idx).copied().unwrap_or("") };
        let r = v.visit_enum(&mut acc);
        self.absorb(&acc.parent);
        let mut vs: Vec<Option<(String, Vk)>> = variants.iter().map(|_| None).collect();
        if let Some(k) = acc.kind {
            vs[idx] = Some((variants[idx].to_string(), k));
        }
        // remember all names even for variants not taken in this run
        self.tree = Some(Sh::Enum(name.into(), vs));
        r
    }
    fn deserialize_identifier<V: Visitor<'de>>(self, _: V) -> Result<V::Value, RecErr> {
        self.leaf("identifier");
        Err(RecErr("deserialize_identifier is not scripted here".into()))
    }
    fn deserialize_ignored_any<V: Visitor<'de>>(self, v: V) -> Result<V::Value, RecErr> {
        self.leaf("ignored_any");
        v.visit_unit()
    }
}

struct SeqProbe<'p> {
    parent: Probe<'p>,
    left: usize,
    elems: Vec<Sh>,
}
impl<'de, 'a, 'p> de::SeqAccess<'de> for &'a mut SeqProbe<'p> {
    type Error = RecErr;
    fn next_element_seed<S: DeserializeSeed<'de>>(&mut self, seed: S) -> Result<Option<S::Value>, RecErr> {
        if self.left == 0 {
            return Ok(None);
        }
        self.left -= 1;
        let mut c = self.parent.child();
        let r = seed.deserialize(&mut c);
        self.parent.absorb(&c);
        self.elems.push(c.tree.unwrap_or(Sh::Bad("element not read".into())));
        r.map(Some)
    }
}

struct MapProbe<'p> {
    parent: Probe<'p>,
    sname: &'static str,
    names: &'static [&'static str],
    next: usize,
    seen: Vec<(String, Sh)>,
}
impl<'p> MapProbe<'p> {
    fn new(parent: Probe<'p>, sname: &'static str, names: &'static [&'static str]) -> Self {
        MapProbe { parent, sname, names, next: 0, seen: vec![] }
    }
    fn omitted(&self, f: &str) -> bool {
        matches!(&self.parent.plan.omit, Some((s, g)) if s == self.sname && g == f)
    }
    fn fields(&self) -> Vec<Fld> {
        self.names
            .iter()
            .map(|n| Fld {
                name: n.to_string(),
                dflt: false,
                sh: self
                    .seen
                    .iter()
                    .find(|(m, _)| m == n)
                    .map(|(_, s)| s.clone())
                    .unwrap_or(Sh::Prim("?".into(), "?".into())),
            })
            .collect()
    }
}
impl<'de, 'a, 'p> de::MapAccess<'de> for &'a mut MapProbe<'p> {
    type Error = RecErr;
    fn next_key_seed<S: DeserializeSeed<'de>>(&mut self, seed: S) -> Result<Option<S::Value>, RecErr> {
        while self.next < self.names.len() && self.omitted(self.names[self.next]) {
            self.next += 1;
        }
        if self.next >= self.names.len() {
            return Ok(None);
        }
        let k = self.names[self.next];
        seed.deserialize(de::value::BorrowedStrDeserializer::<RecErr>::new(k)).map(Some)
    }
    fn next_value_seed<S: DeserializeSeed<'de>>(&mut self, seed: S) -> Result<S::Value, RecErr> {
        let k = self.names[self.next];
        self.next += 1;
        let mut c = self.parent.child();
        let r = seed.deserialize(&mut c);
        self.parent.absorb(&c);
        self.seen.push((k.to_string(), c.tree.unwrap_or(Sh::Bad("value not read".into()))));
        r
    }
}

struct EnumProbe<'p> {
    parent: Probe<'p>,
    idx: usize,
    kind: Option<Vk>,
    vname: &'static str,
}
impl<'de, 'a, 'p> de::EnumAccess<'de> for &'a mut EnumProbe<'p> {
    type Error = RecErr;
    type Variant = Self;
    fn variant_seed<S: DeserializeSeed<'de>>(self, seed: S) -> Result<(S::Value, Self), RecErr> {
        let v = seed.deserialize(de::value::U32Deserializer::<RecErr>::new(self.idx as u32))?;
        Ok((v, self))
    }
}
impl<'de, 'a, 'p> de::VariantAccess<'de> for &'a mut EnumProbe<'p> {
    type Error = RecErr;
    fn unit_variant(self) -> Result<(), RecErr> {
        self.kind = Some(Vk::Unit);
        Ok(())
    }
    fn newtype_variant_seed<S: DeserializeSeed<'de>>(self, seed: S) -> Result<S::Value, RecErr> {
        let mut c = self.parent.child();
        let r = seed.deserialize(&mut c);
        self.parent.absorb(&c);
        self.kind = Some(Vk::Newtype(Box::new(c.tree.unwrap_or(Sh::Bad("payload not read".into())))));
        r
    }
    fn tuple_variant<V: Visitor<'de>>(self, _: usize, _: V) -> Result<V::Value, RecErr> {
        self.kind = Some(Vk::Newtype(Box::new(Sh::Bad("tuple variant".into()))));
        Err(RecErr("tuple variants are not scripted".into()))
    }
    fn struct_variant<V: Visitor<'de>>(self, fields: &'static [&'static str], v: V) -> Result<V::Value, RecErr> {
        if let Some((sn, ff, k)) = &self.parent.plan.seq {
            if sn == self.vname && fields.first().map(|f| *f == ff.as_str()).unwrap_or(ff.is_empty()) {
                let mut acc = SeqProbe { parent: self.parent.child(), left: *k, elems: vec![] };
                let r = v.visit_seq(&mut acc);
                self.parent.absorb(&acc.parent);
                self.kind = Some(Vk::Struct(vec![]));
                return r;
            }
        }
        let mut acc = MapProbe::new(self.parent.child(), "", fields);
        // a struct variant's fields are addressed as (enum-variant has no struct name): use the
        // plan's omit with an empty struct name never matching; defaults of variant fields are
        // probed through the pseudo struct name "<variant>"
        acc.sname = "<variant>";
        let r = v.visit_map(&mut acc);
        self.parent.absorb(&acc.parent);
        self.kind = Some(Vk::Struct(acc.fields()));
        r
    }
}

// --------------------------------------------------------------------------------- the protocol

fn set_default_flag(s: &mut Sh, sname: &str, fname: &str) {
    fn in_fields(fs: &mut [Fld], here: &str, sname: &str, fname: &str) {
        for f in fs.iter_mut() {
            if here == sname && f.name == fname {
                f.dflt = true;
            }
            set_default_flag(&mut f.sh, sname, fname);
        }
    }
    match s {
        Sh::Tuple(_, e) | Sh::Newtype(_, e) => set_default_flag(e, sname, fname),
        Sh::Struct(n, fs) => {
            let n = n.clone();
            in_fields(fs, &n, sname, fname)
        }
        Sh::Enum(_, vs) => {
            for v in vs.iter_mut().flatten() {
                match &mut v.1 {
                    Vk::Unit => {}
                    Vk::Newtype(e) => set_default_flag(e, sname, fname),
                    Vk::Struct(fs) => in_fields(fs, "<variant>", sname, fname),
                }
            }
        }
        _ => {}
    }
}

fn collect_fields(s: &Sh, out: &mut Vec<(String, String)>) {
    fn in_fields(fs: &[Fld], here: &str, out: &mut Vec<(String, String)>) {
        for f in fs {
            let k = (here.to_string(), f.name.clone());
            if !out.contains(&k) {
                out.push(k);
            }
            collect_fields(&f.sh, out);
        }
    }
    match s {
        Sh::Tuple(_, e) | Sh::Newtype(_, e) => collect_fields(e, out),
        Sh::Struct(n, fs) => in_fields(fs, n, out),
        Sh::Enum(_, vs) => {
            for v in vs.iter().flatten() {
                match &v.1 {
                    Vk::Unit => {}
                    Vk::Newtype(e) => collect_fields(e, out),
                    Vk::Struct(fs) => in_fields(fs, "<variant>", out),
                }
            }
        }
        _ => {}
    }
}

/// The deserializer's view of T: every combination of variant choices, merged; then every
/// (struct, field) left out once per combination: a run that still succeeds marks the field
/// as defaulted.
pub fn de_shape<T: for<'de> de::Deserialize<'de>>() -> Sh {
    // discover enums
    let mut enums: BTreeMap<String, usize> = BTreeMap::new();
    let mut tree: Option<Sh> = None;
    for _round in 0..4 {
        let combos = combos(&enums);
        for c in &combos {
            let plan = Plan { choice: c.clone(), omit: None, seq: None };
            let (r, t, es) = probe::<T>(&plan);
            for (k, v) in es {
                enums.insert(k, v);
            }
            let t = match (r, t) {
                (Ok(()), Some(t)) => t,
                (Err(e), _) => Sh::Bad(format!("probe failed: {e}")),
                (_, None) => Sh::Bad("probe read nothing".into()),
            };
            tree = Some(match &tree {
                None => t,
                Some(old) => merge(old, &t),
            });
        }
    }
    let mut tree = tree.unwrap_or(Sh::Bad("no probe".into()));
    let mut fields = vec![];
    collect_fields(&tree, &mut fields);
    for (s, f) in fields {
        let mut ok_somewhere = false;
        let mut reached = false;
        for c in combos(&enums) {
            let with = Plan { choice: c.clone(), omit: Some((s.clone(), f.clone())), seq: None };
            let (r, _, _) = probe::<T>(&with);
            // the omission only matters in combinations that reach the struct; a run that does
            // not reach it succeeds trivially, so require a failing control: the same field of
            // the same struct omitted must make *some* difference or succeed with the field absent.
            if r.is_ok() {
                ok_somewhere = true;
            } else {
                reached = true;
            }
        }
        // defaulted iff no combination fails because of the omission
        if ok_somewhere && !reached {
            set_default_flag(&mut tree, &s, &f);
        }
    }
    tree
}

fn combos(enums: &BTreeMap<String, usize>) -> Vec<BTreeMap<String, usize>> {
    let mut out = vec![BTreeMap::new()];
    for (name, n) in enums {
        let mut next = vec![];
        for c in &out {
            for i in 0..(*n).max(1) {
                let mut c2 = c.clone();
                c2.insert(name.clone(), i);
                next.push(c2);
            }
        }
        out = next;
    }
    out
}

pub fn ser_shape(traces: &[Vec<Ev>]) -> Sh {
    let mut t: Option<Sh> = None;
    for tr in traces {
        let x = tree_of_events(tr);
        t = Some(match &t {
            None => x,
            Some(old) => merge(old, &x),
        });
    }
    t.unwrap_or(Sh::Bad("no trace".into()))
}

/// The visit_seq acceptance table of every struct / struct variant of T, in the depth-first order of
/// Wire.seq_table: (name, first field, [accepted with the first k fields offered, k = 0..n]).
/// A prefix is accepted iff the real Deserialize impl, driven through visit_seq with exactly those
/// elements, succeeds in every combination of variant choices.
pub fn seq_table<T: for<'de> de::Deserialize<'de>>(tree: &Sh) -> Vec<(String, String, Vec<bool>)> {
    // the enums and their sizes, as de_shape discovers them
    let mut enums: BTreeMap<String, usize> = BTreeMap::new();
    for _ in 0..4 {
        for c in combos(&enums) {
            let (_, _, es) = probe::<T>(&Plan { choice: c, omit: None, seq: None });
            for (k, v) in es {
                enums.insert(k, v);
            }
        }
    }
    let all = combos(&enums);
    let accepts = |name: &str, first: &str, n: usize| -> Vec<bool> {
        (0..=n)
            .map(|k| {
                all.iter().all(|c| {
                    let plan = Plan { choice: c.clone(), omit: None, seq: Some((name.to_string(), first.to_string(), k)) };
                    probe::<T>(&plan).0.is_ok()
                })
            })
            .collect()
    };
    fn walk(s: &Sh, acc: &dyn Fn(&str, &str, usize) -> Vec<bool>, out: &mut Vec<(String, String, Vec<bool>)>) {
        fn fields(fs: &[Fld], acc: &dyn Fn(&str, &str, usize) -> Vec<bool>, out: &mut Vec<(String, String, Vec<bool>)>) {
            for f in fs {
                walk(&f.sh, acc, out);
            }
        }
        match s {
            Sh::Tuple(_, e) | Sh::Newtype(_, e) => walk(e, acc, out),
            Sh::Struct(n, fs) => {
                let first = fs.first().map(|f| f.name.clone()).unwrap_or_default();
                out.push((n.clone(), first.clone(), acc(n, &first, fs.len())));
                fields(fs, acc, out);
            }
            Sh::Enum(_, vs) => {
                for v in vs.iter().flatten() {
                    match &v.1 {
                        Vk::Unit => {}
                        Vk::Newtype(e) => walk(e, acc, out),
                        Vk::Struct(fs) => {
                            let first = fs.first().map(|f| f.name.clone()).unwrap_or_default();
                            out.push((v.0.clone(), first.clone(), acc(&v.0, &first, fs.len())));
                            fields(fs, acc, out);
                        }
                    }
                }
            }
            _ => {}
        }
    }
    let mut out = vec![];
    walk(tree, &accepts, &mut out);
    out
}

pub fn coq_seq_table(t: &[(String, String, Vec<bool>)]) -> String {
    let items: Vec<String> = t
        .iter()
        .map(|(a, b, v)| {
            format!("({}, {}, [{}])", coq_str(a), coq_str(b), v.iter().map(|x| x.to_string()).collect::<Vec<_>>().join("; "))
        })
        .collect();
    format!("[{}]", items.join(";\n   "))
}
