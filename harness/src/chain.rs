//! Chains of services (C04 cascade, C18 / C07 multi-hop): REAL chains of depth 1..3.
//! Node i = `client::new` + `BaseChannel::with_defaults(rx).requests()` over
//! `tarpc::transport::channel::unbounded()` (the client's end goes through `Tap`, which forwards
//! every call unchanged and notes what was written: the wire is observed hop by hop);
//! the handler of node i < depth is a real async block
//! making the nested call through the next node's real client handle with the context of the
//! request it was given, wrapped in the real `InFlightRequest::execute(serve(..))`; the handlers
//! of the last node are scripted leaves.  Every component (each dispatch, each Requests stream,
//! each execute future, each head call) is polled explicitly by script ops under virtual time.
//! The model is coq/Chain.v (nodes are numbered 0.. there, 1.. in scripts).
//!
//! Script: `d=<depth>|tok tok ...`
//!   C<d>:<tid>:<smp>:<body>   the head caller creates a call on client 1: deadline now + d ms
//!   P<j>  X<j>                ... polls head call j / drops it
//!   D<i>                      poll the dispatch of node i
//!   R<i>                      poll the Requests stream of node i once
//!   H<i>.<k>  H<i>.<k>=<v>  H<i>.<k>!   poll the execute future of incarnation k of node i; a leaf
//!                             handler makes one step (still running / Ok(v) / ServerError)
//!   Z<i>  Y<i>                drop the dispatch / the Requests stream of node i (and its transport end)
//!   A<dt>                     advance the clock by dt ms (one clock for all nodes)
//!   S                         SettleAll: poll every component in a fixed order, round after round,
//!                             until nothing observable changes any more
//! Ops that refer to something absent are no-ops (scripts stay valid under token deletion).
use crate::exec::{coq_list, Case, TaskWaker};
use crate::rng::Rng;
use crate::srv::{ms_since, trace_num, Step};
use crate::vclock;
use futures::Stream;
use std::cell::RefCell;
use std::collections::BTreeSet;
use std::future::Future;
use std::io;
use std::panic::{catch_unwind, AssertUnwindSafe};
use std::pin::Pin;
use std::rc::Rc;
use std::task::{Context, Poll};
use std::time::{Duration, Instant};
use tarpc::client::{self, RpcError};
use tarpc::server::{serve, BaseChannel, Channel, InFlightRequest, Requests};
use tarpc::transport::channel::UnboundedChannel;
use tarpc::{context, trace, ChannelError, ClientMessage, Response, ServerError};

#[derive(Clone, Debug, PartialEq)]
pub enum Op {
    HCall { d: u64, tid: u64, smp: bool, body: u64 },
    HPoll(usize),
    HDrop(usize),
    PollD(usize),
    PollR(usize),
    HandlerPoll(usize, usize, Step),
    DropD(usize),
    DropS(usize),
    Adv(u64),
    Settle,
}

#[derive(Clone, Debug)]
pub struct Script {
    pub depth: usize,
    pub ops: Vec<Op>,
}

/// node numbers are 1-based in scripts, 0-based in `Op` and in the model
fn node(a: &str) -> Option<usize> {
    let i: usize = a.parse().ok()?;
    i.checked_sub(1)
}

pub fn parse(line: &str) -> Option<Script> {
    let (cfg, rest) = line.trim().split_once('|')?;
    let depth: usize = cfg.trim().strip_prefix("d=")?.parse().ok()?;
    if depth == 0 || depth > 4 {
        return None;
    }
    let mut ops = vec![];
    for t in rest.split_whitespace() {
        let (h, a) = t.split_at(1);
        ops.push(match h {
            "C" => {
                let v: Option<Vec<u64>> = a.split(':').map(|x| x.parse().ok()).collect();
                let v = v?;
                if v.len() != 4 {
                    return None;
                }
                Op::HCall { d: v[0], tid: v[1], smp: v[2] != 0, body: v[3] }
            }
            "P" => Op::HPoll(a.parse().ok()?),
            "X" => Op::HDrop(a.parse().ok()?),
            "D" => Op::PollD(node(a)?),
            "R" => Op::PollR(node(a)?),
            "H" => {
                let (i, rest) = a.split_once('.')?;
                let i = node(i)?;
                if let Some(k) = rest.strip_suffix('!') {
                    Op::HandlerPoll(i, k.parse().ok()?, Step::Fail)
                } else if let Some((k, v)) = rest.split_once('=') {
                    Op::HandlerPoll(i, k.parse().ok()?, Step::Finish(v.parse().ok()?))
                } else {
                    Op::HandlerPoll(i, rest.parse().ok()?, Step::Run)
                }
            }
            "Z" => Op::DropD(node(a)?),
            "Y" => Op::DropS(node(a)?),
            "A" => Op::Adv(a.parse().ok()?),
            "S" if a.is_empty() => Op::Settle,
            _ => return None,
        });
    }
    Some(Script { depth, ops })
}

pub fn show_op(o: &Op) -> String {
    match o {
        Op::HCall { d, tid, smp, body } => format!("C{d}:{tid}:{}:{body}", *smp as u8),
        Op::HPoll(j) => format!("P{j}"),
        Op::HDrop(j) => format!("X{j}"),
        Op::PollD(i) => format!("D{}", i + 1),
        Op::PollR(i) => format!("R{}", i + 1),
        Op::HandlerPoll(i, k, Step::Run) => format!("H{}.{k}", i + 1),
        Op::HandlerPoll(i, k, Step::Finish(v)) => format!("H{}.{k}={v}", i + 1),
        Op::HandlerPoll(i, k, Step::Fail) => format!("H{}.{k}!", i + 1),
        Op::DropD(i) => format!("Z{}", i + 1),
        Op::DropS(i) => format!("Y{}", i + 1),
        Op::Adv(d) => format!("A{d}"),
        Op::Settle => "S".into(),
    }
}

pub fn show(s: &Script) -> String {
    let toks: Vec<String> = s.ops.iter().map(show_op).collect();
    format!("d={}|{}", s.depth, toks.join(" "))
}

fn coq_op(o: &Op) -> String {
    match o {
        Op::HCall { d, tid, smp, body } => format!("HCall {d} {tid} {smp} {body}"),
        Op::HPoll(j) => format!("HPoll {j}"),
        Op::HDrop(j) => format!("HDrop {j}"),
        Op::PollD(i) => format!("PollDispatch {i}"),
        Op::PollR(i) => format!("PollRequests {i}"),
        Op::HandlerPoll(i, k, Step::Run) => format!("HandlerPoll {i} {k} Server.SRun"),
        Op::HandlerPoll(i, k, Step::Finish(v)) => format!("HandlerPoll {i} {k} (Server.SFinish {v})"),
        Op::HandlerPoll(i, k, Step::Fail) => format!("HandlerPoll {i} {k} Server.SFail"),
        Op::DropD(i) => format!("DropDispatch {i}"),
        Op::DropS(i) => format!("DropServer {i}"),
        Op::Adv(d) => format!("Advance {d}"),
        Op::Settle => "SettleAll".into(),
    }
}

// ------------------------------------------------------------------------------- handlers

struct HCtl {
    step: Step,
    polled: bool,
    started: bool,
    completed: bool,
    result: Option<Result<u64, ()>>,
    dropped: bool,
}

/// A leaf handler: its steps are given by the script.
struct Leaf {
    ctl: Rc<RefCell<HCtl>>,
}

impl Future for Leaf {
    type Output = Result<u64, ServerError>;
    fn poll(self: Pin<&mut Self>, _: &mut Context<'_>) -> Poll<Self::Output> {
        let mut c = self.ctl.borrow_mut();
        c.polled = true;
        match c.step {
            Step::Run => Poll::Pending,
            Step::Finish(v) => {
                c.completed = true;
                c.result = Some(Ok(v));
                Poll::Ready(Ok(v))
            }
            Step::Fail => {
                c.completed = true;
                c.result = Some(Err(()));
                Poll::Ready(Err(ServerError::new(io::ErrorKind::Other, "handler failed".into())))
            }
        }
    }
}

impl Drop for Leaf {
    fn drop(&mut self) {
        let mut c = self.ctl.borrow_mut();
        if !c.completed {
            c.dropped = true;
        }
    }
}

/// The handler of an inner node: a real async block (making the nested call), with a recorder
/// around it that notes polls, completion and drop.
struct Recorded {
    inner: Pin<Box<dyn Future<Output = Result<u64, ServerError>>>>,
    ctl: Rc<RefCell<HCtl>>,
}

impl Future for Recorded {
    type Output = Result<u64, ServerError>;
    fn poll(mut self: Pin<&mut Self>, cx: &mut Context<'_>) -> Poll<Self::Output> {
        self.ctl.borrow_mut().polled = true;
        let r = self.inner.as_mut().poll(cx);
        if let Poll::Ready(x) = &r {
            let mut c = self.ctl.borrow_mut();
            c.completed = true;
            c.result = Some(match x {
                Ok(v) => Ok(*v),
                Err(_) => Err(()),
            });
        }
        r
    }
}

impl Drop for Recorded {
    fn drop(&mut self) {
        let mut c = self.ctl.borrow_mut();
        if !c.completed {
            c.dropped = true;
        }
    }
}

type STr = UnboundedChannel<ClientMessage<u64>, Response<u64>>;
type RawCTr = UnboundedChannel<Response<u64>, ClientMessage<u64>>;

/// What a dispatch wrote into its link (span ids raw; canonicalised when printed).
#[derive(Clone, Debug)]
enum Wire {
    Req { id: u64, dl: u64, tr: u64, sid: u64, body: u64 },
    Cancel { id: u64, tr: u64, sid: u64 },
}

/// A tap on the client's end of the real `unbounded()` transport: every call is forwarded
/// unchanged; successful writes are noted.
struct Tap {
    inner: RawCTr,
    base: Instant,
    log: Rc<RefCell<Vec<Wire>>>,
}

impl Stream for Tap {
    type Item = Result<Response<u64>, tarpc::transport::channel::ChannelError>;
    fn poll_next(mut self: Pin<&mut Self>, cx: &mut Context<'_>) -> Poll<Option<Self::Item>> {
        Pin::new(&mut self.inner).poll_next(cx)
    }
}

impl futures::Sink<ClientMessage<u64>> for Tap {
    type Error = tarpc::transport::channel::ChannelError;
    fn poll_ready(mut self: Pin<&mut Self>, cx: &mut Context<'_>) -> Poll<Result<(), Self::Error>> {
        Pin::new(&mut self.inner).poll_ready(cx)
    }
    fn start_send(mut self: Pin<&mut Self>, item: ClientMessage<u64>) -> Result<(), Self::Error> {
        let w = match &item {
            ClientMessage::Request(r) => Some(Wire::Req {
                id: r.id,
                dl: ms_since(self.base, r.context.deadline),
                tr: trace_num(&r.context.trace_context),
                sid: u64::from(r.context.trace_context.span_id),
                body: r.message,
            }),
            ClientMessage::Cancel { trace_context, request_id } => Some(Wire::Cancel {
                id: *request_id,
                tr: trace_num(trace_context),
                sid: u64::from(trace_context.span_id),
            }),
            _ => None,
        };
        let r = Pin::new(&mut self.inner).start_send(item);
        if r.is_ok() {
            if let Some(w) = w {
                self.log.borrow_mut().push(w);
            }
        }
        r
    }
    fn poll_flush(mut self: Pin<&mut Self>, cx: &mut Context<'_>) -> Poll<Result<(), Self::Error>> {
        Pin::new(&mut self.inner).poll_flush(cx)
    }
    fn poll_close(mut self: Pin<&mut Self>, cx: &mut Context<'_>) -> Poll<Result<(), Self::Error>> {
        Pin::new(&mut self.inner).poll_close(cx)
    }
}

type CTr = Tap;
type Dispatch = client::RequestDispatch<u64, u64, CTr>;
type Srv = Requests<BaseChannel<u64, u64, STr>>;
type CallFut = Pin<Box<dyn Future<Output = Result<u64, RpcError>>>>;

enum Slot {
    Yielded(InFlightRequest<u64, u64>),
    Exec(Pin<Box<dyn Future<Output = ()>>>, Rc<RefCell<HCtl>>, TaskWaker),
    Done,
}

struct Node {
    client: client::Channel<u64, u64>,
    dispatch: Option<Pin<Box<Dispatch>>>,
    dwaker: TaskWaker,
    dfinished: bool,
    /// what the dispatch wrote since the log was last taken
    wire: Rc<RefCell<Vec<Wire>>>,
    /// request id -> raw span id seen on this link (for canonical naming)
    sid_of: Vec<(u64, u64)>,
    /// span ids of the contexts handed to `call` on this node's client
    caller_spans: Rc<RefCell<Vec<u64>>>,
    server: Option<Pin<Box<Srv>>>,
    swaker: TaskWaker,
    sover: bool,
    slots: Vec<Slot>,
}

struct HeadCall {
    fut: Option<CallFut>,
    waker: TaskWaker,
    polled: bool,
}

const KINDS: [io::ErrorKind; 18] = [
    io::ErrorKind::NotFound,
    io::ErrorKind::PermissionDenied,
    io::ErrorKind::ConnectionRefused,
    io::ErrorKind::ConnectionReset,
    io::ErrorKind::ConnectionAborted,
    io::ErrorKind::NotConnected,
    io::ErrorKind::AddrInUse,
    io::ErrorKind::AddrNotAvailable,
    io::ErrorKind::BrokenPipe,
    io::ErrorKind::AlreadyExists,
    io::ErrorKind::WouldBlock,
    io::ErrorKind::InvalidInput,
    io::ErrorKind::InvalidData,
    io::ErrorKind::TimedOut,
    io::ErrorKind::WriteZero,
    io::ErrorKind::Interrupted,
    io::ErrorKind::Other,
    io::ErrorKind::UnexpectedEof,
];

fn kind_code(k: io::ErrorKind) -> u64 {
    KINDS.iter().position(|x| *x == k).unwrap_or(16) as u64
}

fn activity<E>(e: &ChannelError<E>) -> &'static str
where
    E: std::error::Error + Send + Sync + 'static + ?Sized,
{
    match e {
        ChannelError::Read(_) => "ARead",
        ChannelError::Ready(_) => "AReady",
        ChannelError::Write(_) => "AWrite",
        ChannelError::Flush(_) => "AFlush",
        ChannelError::Close(_) => "AClose",
    }
}

fn outcome(r: &Result<u64, RpcError>) -> String {
    match r {
        Ok(v) => format!("Client.OReply {v}"),
        Err(RpcError::Shutdown) => "Client.OShutdown".into(),
        Err(RpcError::Send(_)) => "Client.OSendErr".into(),
        Err(RpcError::DeadlineExceeded) => "Client.ODeadline".into(),
        Err(RpcError::Server(e)) => format!("Client.OSrvErr {}", kind_code(e.kind)),
        Err(RpcError::Channel(e)) => format!("Client.OConnErr {}", activity(e)),
    }
}

fn is_event(o: &str) -> bool {
    if o.starts_with("KCall ") {
        return !o.ends_with("Client.CPending");
    }
    if o.starts_with("KWire ") {
        return !o.ends_with(" []");
    }
    if o.starts_with("KDisp ") {
        return !o.ends_with("Client.DPending");
    }
    if o.starts_with("KStream ") {
        return !o.ends_with("KPending");
    }
    !(o.starts_with("KHPolled ") || o.starts_with("KExecPending ") || o.starts_with("KCGauge ") || o.starts_with("KSGauge "))
}

struct World {
    base: Instant,
    n: usize,
    nodes: Vec<Node>,
    heads: Vec<HeadCall>,
    tags: BTreeSet<String>,
    tainted: bool,
}

impl World {
    fn poll_head(&mut self, j: usize) -> Vec<String> {
        let mut o = vec![];
        let Some(slot) = self.heads.get_mut(j) else { return o };
        let Some(fut) = slot.fut.as_mut() else { return o };
        slot.waker.take();
        slot.polled = true;
        let waker = slot.waker.waker.clone();
        let mut cx = Context::from_waker(&waker);
        match catch_unwind(AssertUnwindSafe(|| fut.as_mut().poll(&mut cx))) {
            Err(_) => {
                o.push("KPanic".into());
                self.tags.insert("PANIC".into());
                slot.fut = None;
            }
            Ok(Poll::Pending) => o.push(format!("KCall {j} Client.CPending")),
            Ok(Poll::Ready(res)) => {
                o.push(format!("KCall {j} (Client.CDone ({}))", outcome(&res)));
                self.tags.insert(
                    match &res {
                        Ok(_) => "head:reply",
                        Err(RpcError::DeadlineExceeded) => "head:deadline",
                        Err(RpcError::Server(_)) => "head:srverr",
                        Err(RpcError::Shutdown) => "head:shutdown",
                        Err(_) => "head:connerr",
                    }
                    .into(),
                );
                slot.fut = None;
            }
        }
        o
    }

    fn cgauge(&self, i: usize) -> String {
        match &self.nodes[i].dispatch {
            Some(d) => {
                let (a, b) = d.verif_gauges();
                format!("KCGauge {i} {a} {b}")
            }
            None => format!("KCGauge {i} 0 0"),
        }
    }

    fn sgauge(&self, i: usize) -> Option<String> {
        self.nodes[i].server.as_ref().map(|s| {
            let (a, b) = s.channel().verif_gauges();
            format!("KSGauge {i} {a} {b}")
        })
    }

    fn poll_dispatch(&mut self, i: usize) -> Vec<String> {
        let mut o = vec![];
        if i >= self.n {
            return o;
        }
        let nd = &mut self.nodes[i];
        if nd.dfinished || nd.dispatch.is_none() {
            return o;
        }
        nd.dwaker.take();
        let waker = nd.dwaker.waker.clone();
        let mut cx = Context::from_waker(&waker);
        let d = nd.dispatch.as_mut().unwrap();
        nd.wire.borrow_mut().clear();
        let r = catch_unwind(AssertUnwindSafe(|| d.as_mut().poll(&mut cx)));
        // the span id drawn for a request is named after the request id - unless it is not a
        // fresh draw: the caller's own span id (or none), or one already used on this link
        let written: Vec<Wire> = std::mem::take(&mut *nd.wire.borrow_mut());
        let mut shown: Vec<String> = vec![];
        for m in &written {
            match m {
                Wire::Req { id, dl, tr, sid, body } => {
                    let reused_caller = *sid == 0 || nd.caller_spans.borrow().contains(sid);
                    let reused_wire = nd.sid_of.iter().any(|(i2, s2)| *i2 != *id && *s2 == *sid);
                    if !nd.sid_of.iter().any(|(i2, _)| *i2 == *id) {
                        nd.sid_of.push((*id, *sid));
                    }
                    let name = if reused_caller {
                        888_888
                    } else if reused_wire {
                        777_777
                    } else {
                        *id
                    };
                    if reused_caller || reused_wire {
                        self.tags.insert("SPAN-REUSED".into());
                    }
                    shown.push(format!("WReq {id} {dl} {tr} {name} {body}"));
                }
                Wire::Cancel { id, tr, sid } => {
                    let name = nd.sid_of.iter().find(|(_, s2)| *s2 == *sid).map(|(i2, _)| *i2).unwrap_or(999_999);
                    shown.push(format!("WCancel {id} {tr} {name}"));
                    self.tags.insert(format!("wire-cancel@node{}", i + 1));
                }
            }
        }
        o.push(format!("KWire {i} {}", coq_list(&shown)));
        match r {
            Err(_) => {
                o.push("KPanic".into());
                self.tags.insert("PANIC".into());
                nd.dfinished = true;
            }
            Ok(Poll::Pending) => o.push(format!("KDisp {i} Client.DPending")),
            Ok(Poll::Ready(Ok(()))) => {
                o.push(format!("KDisp {i} (Client.DReady Client.DOk)"));
                nd.dfinished = true;
                self.tags.insert("dispatch-ended".into());
            }
            Ok(Poll::Ready(Err(e))) => {
                o.push(format!("KDisp {i} (Client.DReady (Client.DErr {}))", activity(&e)));
                nd.dfinished = true;
                self.tags.insert("dispatch-failed".into());
            }
        }
        o.push(self.cgauge(i));
        o
    }

    fn poll_requests(&mut self, i: usize) -> Vec<String> {
        let mut o = vec![];
        if i >= self.n {
            return o;
        }
        let base = self.base;
        let nd = &mut self.nodes[i];
        if nd.sover || nd.server.is_none() {
            return o;
        }
        nd.swaker.take();
        let waker = nd.swaker.waker.clone();
        let mut cx = Context::from_waker(&waker);
        let s = nd.server.as_mut().unwrap();
        match catch_unwind(AssertUnwindSafe(|| s.as_mut().poll_next(&mut cx))) {
            Err(_) => {
                o.push("KPanic".into());
                self.tags.insert("PANIC".into());
                nd.sover = true;
            }
            Ok(Poll::Pending) => o.push(format!("KStream {i} KPending")),
            Ok(Poll::Ready(None)) => {
                o.push(format!("KStream {i} KEnd"));
                nd.sover = true;
                self.tags.insert("stream-end".into());
            }
            Ok(Poll::Ready(Some(Err(e)))) => {
                o.push(format!("KStream {i} (KErr {})", activity(&e)));
                nd.sover = true;
                self.tags.insert("stream-err".into());
            }
            Ok(Poll::Ready(Some(Ok(ifr)))) => {
                let k = nd.slots.len();
                let rq = ifr.get();
                let dl = ms_since(base, rq.context.deadline);
                let tr = trace_num(&rq.context.trace_context);
                o.push(format!("KYield {i} {k} {} {dl} {tr} {}", rq.id, rq.message));
                self.tags.insert(format!("yield@node{}", i + 1));
                nd.slots.push(Slot::Yielded(ifr));
            }
        }
        if let Some(g) = self.sgauge(i) {
            o.push(g);
        }
        o
    }

    fn poll_handler(&mut self, i: usize, k: usize, step: Step) -> Vec<String> {
        let mut o = vec![];
        if i >= self.n || k >= self.nodes[i].slots.len() {
            return o;
        }
        if let Slot::Yielded(_) = &self.nodes[i].slots[k] {
            let Slot::Yielded(ifr) = std::mem::replace(&mut self.nodes[i].slots[k], Slot::Done) else { unreachable!() };
            let hc = Rc::new(RefCell::new(HCtl {
                step,
                polled: false,
                started: false,
                completed: false,
                result: None,
                dropped: false,
            }));
            let hc2 = hc.clone();
            let fut: Pin<Box<dyn Future<Output = ()>>> = if i + 1 < self.n {
                // the real async block: the nested call with the context of the request
                let c = self.nodes[i + 1].client.clone();
                let spans = self.nodes[i + 1].caller_spans.clone();
                Box::pin(ifr.execute(serve(move |ctx: context::Context, req: u64| Recorded {
                    inner: Box::pin(async move {
                        spans.borrow_mut().push(u64::from(ctx.trace_context.span_id));
                        c.call(ctx, req)
                            .await
                            .map_err(|e| ServerError::new(io::ErrorKind::Other, e.to_string()))
                    }),
                    ctl: hc2,
                })))
            } else {
                Box::pin(ifr.execute(serve(move |_ctx: context::Context, _req: u64| Leaf { ctl: hc2 })))
            };
            self.nodes[i].slots[k] = Slot::Exec(fut, hc, TaskWaker::new());
        }
        let mut finished = false;
        if let Slot::Exec(fut, hc, w) = &mut self.nodes[i].slots[k] {
            let (was_completed, was_dropped) = {
                let mut c = hc.borrow_mut();
                c.step = step;
                c.polled = false;
                (c.completed, c.dropped)
            };
            w.take();
            let mut cx = Context::from_waker(&w.waker);
            let r = catch_unwind(AssertUnwindSafe(|| fut.as_mut().poll(&mut cx)));
            let mut c = hc.borrow_mut();
            if c.polled && !c.started {
                c.started = true;
                o.push(format!("KHStart {i} {k}"));
                self.tags.insert(format!("handler-started@node{}", i + 1));
            }
            if c.polled {
                o.push(format!("KHPolled {i} {k}"));
            }
            if c.completed && !was_completed {
                o.push(match c.result {
                    Some(Ok(v)) => format!("KHDone {i} {k} (Server.BOk {v})"),
                    _ => format!("KHDone {i} {k} Server.BErr"),
                });
                self.tags.insert(if matches!(c.result, Some(Ok(_))) { "handler-done-ok".into() } else { "handler-done-err".into() });
            }
            if c.dropped && !was_dropped {
                o.push(format!("KHDropped {i} {k}"));
                self.tags.insert(format!("handler-dropped@node{}", i + 1));
            }
            match r {
                Ok(Poll::Ready(())) => {
                    o.push(format!("KExecReady {i} {k}"));
                    finished = true;
                }
                Ok(Poll::Pending) => o.push(format!("KExecPending {i} {k}")),
                Err(_) => {
                    o.push("KPanic".into());
                    finished = true;
                    self.tags.insert("PANIC".into());
                }
            }
        } else {
            return o;
        }
        if finished {
            self.nodes[i].slots[k] = Slot::Done;
        }
        if let Some(g) = self.sgauge(i) {
            o.push(g);
        }
        o
    }

    fn all_gauges(&self) -> Vec<String> {
        let mut g = vec![];
        for i in 0..self.n {
            g.push(self.cgauge(i));
            if let Some(s) = self.sgauge(i) {
                g.push(s);
            }
        }
        g
    }

    /// Polls every component in the fixed order (head calls; then node by node: dispatch,
    /// request stream, every execute future) round after round until three consecutive rounds
    /// produced no event and changed no gauge.  Explicit polling, not wake-driven.
    fn settle(&mut self) -> Vec<String> {
        let mut events: Vec<String> = vec![];
        let mut quiet = 0;
        let mut rounds = 0;
        loop {
            rounds += 1;
            if rounds > 600 {
                events.push("KRounds".into());
                self.tags.insert("SETTLE-DIVERGES".into());
                break;
            }
            let g0 = self.all_gauges();
            let mut ev: Vec<String> = vec![];
            for j in 0..self.heads.len() {
                if self.heads[j].fut.is_some() {
                    ev.extend(self.poll_head(j).into_iter().filter(|x| is_event(x)));
                }
            }
            for i in 0..self.n {
                ev.extend(self.poll_dispatch(i).into_iter().filter(|x| is_event(x)));
                ev.extend(self.poll_requests(i).into_iter().filter(|x| is_event(x)));
                let cnt = self.nodes[i].slots.len();
                for k in 0..cnt {
                    ev.extend(self.poll_handler(i, k, Step::Run).into_iter().filter(|x| is_event(x)));
                }
            }
            let g1 = self.all_gauges();
            if ev.is_empty() && g0 == g1 {
                quiet += 1;
            } else {
                quiet = 0;
            }
            events.extend(ev);
            if quiet >= 3 {
                break;
            }
        }
        // scenario tags
        let all_over = !self.heads.is_empty() && self.heads.iter().all(|h| h.fut.is_none());
        if all_over && !self.tainted {
            self.tags.insert("settle-owed".into());
            if events.iter().any(|e| e.starts_with("KHDropped")) {
                self.tags.insert("cascade-dropped-handlers".into());
            }
            for i in 0..self.n {
                if events.iter().any(|e| e.starts_with(&format!("KHDropped {i} "))) {
                    self.tags.insert(format!("cascade-reached-node{}", i + 1));
                }
            }
        }
        events.extend(self.all_gauges());
        events
    }
}

pub fn run_impl(s: &Script) -> (Vec<Vec<String>>, Vec<String>) {
    vclock::reset();
    let rt = vclock::runtime();
    let guard = rt.enter();
    let base = Instant::now();
    let n = s.depth;
    let mut nodes = vec![];
    for _ in 0..n {
        let (ctx, stx): (RawCTr, STr) = tarpc::transport::channel::unbounded();
        let wire = Rc::new(RefCell::new(vec![]));
        let nc = client::new::<u64, u64, _>(client::Config::default(), Tap { inner: ctx, base, log: wire.clone() });
        let srv: Srv = BaseChannel::with_defaults(stx).requests();
        nodes.push(Node {
            client: nc.client,
            dispatch: Some(Box::pin(nc.dispatch)),
            dwaker: TaskWaker::new(),
            dfinished: false,
            wire,
            sid_of: vec![],
            caller_spans: Rc::new(RefCell::new(vec![])),
            server: Some(Box::pin(srv)),
            swaker: TaskWaker::new(),
            sover: false,
            slots: vec![],
        });
    }
    let mut w = World { base, n, nodes, heads: vec![], tags: BTreeSet::new(), tainted: false };
    w.tags.insert(format!("depth{n}"));
    let mut obs: Vec<Vec<String>> = vec![];
    for op in &s.ops {
        let o: Vec<String> = match op {
            Op::HCall { d, tid, smp, body } => {
                let ch = w.nodes[0].client.clone();
                let mut ctx = context::current();
                ctx.deadline = Instant::now() + Duration::from_millis(*d);
                ctx.trace_context = trace::Context {
                    trace_id: trace::TraceId::from(*tid as u128),
                    span_id: trace::SpanId::from(0u64),
                    sampling_decision: if *smp {
                        trace::SamplingDecision::Sampled
                    } else {
                        trace::SamplingDecision::Unsampled
                    },
                };
                let body = *body;
                let fut: CallFut = Box::pin(async move { ch.call(ctx, body).await });
                w.heads.push(HeadCall { fut: Some(fut), waker: TaskWaker::new(), polled: false });
                if *d > 31_536_000_000 {
                    w.tainted = true;
                    w.tags.insert("deadline-beyond-clamp".into());
                }
                vec![]
            }
            Op::HPoll(j) => w.poll_head(*j),
            Op::HDrop(j) => {
                let fut = match w.heads.get_mut(*j) {
                    Some(h) => {
                        if h.fut.is_some() {
                            // where has the request got to?
                            let started: usize = w
                                .nodes
                                .iter()
                                .map(|nd| nd.slots.iter().filter(|s| matches!(s, Slot::Exec(..))).count().min(1))
                                .sum();
                            w.tags.insert(if h.polled { format!("abandon-with-{started}-nodes-running") } else { "abandon-unpolled".into() });
                        }
                        h.fut.take()
                    }
                    None => None,
                };
                drop(fut);
                vec![]
            }
            Op::PollD(i) => w.poll_dispatch(*i),
            Op::PollR(i) => w.poll_requests(*i),
            Op::HandlerPoll(i, k, st) => w.poll_handler(*i, *k, *st),
            Op::DropD(i) => {
                if *i < n {
                    if let Some(d) = w.nodes[*i].dispatch.take() {
                        drop(d);
                        w.tainted = true;
                        w.tags.insert("drop-dispatch".into());
                    }
                }
                vec![]
            }
            Op::DropS(i) => {
                if *i < n {
                    if let Some(sv) = w.nodes[*i].server.take() {
                        drop(sv);
                        w.tainted = true;
                        w.tags.insert("drop-server".into());
                    }
                }
                vec![]
            }
            Op::Adv(d) => {
                vclock::advance(&rt, Duration::from_millis(*d));
                vec![]
            }
            Op::Settle => w.settle(),
        };
        obs.push(o);
    }
    // deterministic teardown, nothing recorded
    let tags: Vec<String> = w.tags.iter().cloned().collect();
    {
        let heads = std::mem::take(&mut w.heads);
        drop(heads);
        for nd in w.nodes.iter_mut() {
            nd.slots.clear();
        }
        for nd in w.nodes.iter_mut() {
            nd.server = None;
            nd.dispatch = None;
        }
        w.nodes.clear();
    }
    drop(w);
    drop(guard);
    drop(rt);
    vclock::off();
    (obs, tags)
}

pub fn to_case(s: &Script) -> Case {
    let (obs, tags) = run_impl(s);
    let ops: Vec<String> = s.ops.iter().map(coq_op).collect();
    let obs: Vec<String> = obs.iter().map(|l| coq_list(l)).collect();
    Case { cfg: format!("{}", s.depth), ops: coq_list(&ops), obs: coq_list(&obs), tags, nops: s.ops.len() }
}

// ------------------------------------------------------------------------------- generator

/// the explicit polls that carry head call `c` (whose request becomes incarnation `k` on every
/// node) down the chain, one hop per op
fn pipeline(depth: usize, c: usize, k: usize) -> Vec<Op> {
    let mut p = vec![Op::HPoll(c), Op::PollD(0)];
    for i in 0..depth {
        p.push(Op::PollR(i));
        p.push(Op::HandlerPoll(i, k, Step::Run));
        if i + 1 < depth {
            p.push(Op::PollD(i + 1));
        }
    }
    p
}

/// the explicit polls that carry the reply of incarnation `k` back up, one hop per op
fn back_pipeline(depth: usize, c: usize, k: usize) -> Vec<Op> {
    let mut p = vec![];
    for i in (0..depth).rev() {
        p.push(Op::PollR(i)); // the server writes the response
        p.push(Op::PollD(i)); // the client reads it
        if i > 0 {
            p.push(Op::HandlerPoll(i - 1, k, Step::Run)); // the handler above sees its call resolve
        }
    }
    p.push(Op::HPoll(c));
    p
}

/// Unstructured scripts: any op at any time (most refer to things that exist).
fn gen_chaos(rng: &mut Rng) -> Script {
    let depth = 1 + rng.weighted(&[2, 4, 4]);
    let len = rng.range(8, 70) as usize;
    let mut ops: Vec<Op> = vec![];
    let mut ncalls = 0usize;
    let mut tids: Vec<u64> = vec![];
    let mut now = 0u64;
    let mut deadlines: Vec<u64> = vec![];
    let drops = rng.chance(1, 5);
    while ops.len() < len {
        let w = [
            if ncalls < 4 { 10 } else { 1 },
            12,
            5,
            14,
            14,
            16,
            if drops { 1 } else { 0 },
            6,
            8,
        ];
        let i = rng.below(depth as u64) as usize;
        match rng.weighted(&w) {
            0 => {
                let d = *rng.pick(&[3, 20, 100, 1000, 10_000, 10_000, 100_000]);
                let mut tid = rng.range(1, 999);
                while tids.contains(&tid) {
                    tid = rng.range(1, 999);
                }
                tids.push(tid);
                deadlines.push(now + d);
                ops.push(Op::HCall { d, tid, smp: rng.chance(1, 2), body: 10 * (ncalls as u64 + 1) + rng.below(10) });
                ncalls += 1;
            }
            1 => ops.push(Op::HPoll(rng.below(ncalls.max(1) as u64) as usize)),
            2 => ops.push(Op::HDrop(rng.below(ncalls.max(1) as u64) as usize)),
            3 => ops.push(Op::PollD(i)),
            4 => ops.push(Op::PollR(i)),
            5 => {
                let k = rng.below(ncalls.max(1) as u64 + 1) as usize;
                let st = if i + 1 == depth {
                    match rng.weighted(&[5, 4, 1]) {
                        0 => Step::Run,
                        1 => Step::Finish(rng.range(1, 999)),
                        _ => Step::Fail,
                    }
                } else {
                    Step::Run
                };
                ops.push(Op::HandlerPoll(i, k, st));
            }
            6 => ops.push(if rng.chance(1, 2) { Op::DropD(i) } else { Op::DropS(i) }),
            7 => {
                let dt = if !deadlines.is_empty() && rng.chance(1, 2) {
                    let t = *rng.pick(&deadlines);
                    let t = match rng.below(3) {
                        0 => t.saturating_sub(1),
                        1 => t,
                        _ => t + 1,
                    };
                    t.saturating_sub(now).min(200_000)
                } else {
                    rng.range(1, 30)
                };
                if dt > 0 {
                    now += dt;
                    ops.push(Op::Adv(dt));
                }
            }
            _ => ops.push(Op::Settle),
        }
    }
    if rng.chance(2, 3) {
        for j in 0..ncalls {
            if rng.chance(2, 3) {
                ops.push(Op::HDrop(j));
            }
        }
        ops.push(Op::Settle);
    }
    Script { depth, ops }
}

pub fn gen(rng: &mut Rng) -> Script {
    if rng.chance(1, 4) {
        return gen_chaos(rng);
    }
    let depth = 1 + rng.weighted(&[2, 4, 4]);
    let ncalls = 1 + rng.weighted(&[6, 3, 1]);
    let mut ops: Vec<Op> = vec![];
    let mut tids: Vec<u64> = vec![];
    let mut mk_call = |rng: &mut Rng, c: usize, ops: &mut Vec<Op>| {
        let d = if rng.chance(1, 40) {
            1u64 << 36
        } else {
            *rng.pick(&[20, 100, 1000, 10_000, 10_000, 10_000, 100_000])
        };
        let mut tid = rng.range(1, 999);
        while tids.contains(&tid) {
            tid = rng.range(1, 999);
        }
        tids.push(tid);
        ops.push(Op::HCall { d, tid, smp: rng.chance(1, 2), body: 10 * (c as u64 + 1) + rng.below(10) });
        d
    };
    let noise = |rng: &mut Rng, ops: &mut Vec<Op>| {
        if rng.chance(1, 6) {
            ops.push(match rng.below(5) {
                0 => Op::Adv(rng.range(1, 15)),
                1 => Op::PollD(rng.below(depth as u64) as usize),
                2 => Op::PollR(rng.below(depth as u64) as usize),
                3 => Op::HandlerPoll(rng.below(depth as u64) as usize, rng.below(2) as usize, Step::Run),
                _ => Op::HPoll(rng.below(ncalls as u64) as usize),
            });
        }
    };
    // the earlier calls travel all the way down first: their requests are incarnations 0.. on every node
    for c in 0..ncalls - 1 {
        mk_call(rng, c, &mut ops);
    }
    if ncalls > 1 {
        ops.push(Op::Settle);
    }
    // the focus call
    let c = ncalls - 1;
    let d = mk_call(rng, c, &mut ops);
    let pipe = pipeline(depth, c, c);
    let leaf = depth - 1;
    let finish = |rng: &mut Rng| if rng.chance(1, 6) { Step::Fail } else { Step::Finish(rng.range(1, 999)) };
    match rng.weighted(&[38, 20, 10, 10, 8, 6, 8]) {
        0 => {
            // abandon at every stage on the way down: before transmission, in flight at depth 1, 2, 3
            let stage = rng.range(0, pipe.len() as u64) as usize;
            for o in &pipe[..stage] {
                ops.push(o.clone());
                noise(rng, &mut ops);
            }
            ops.push(Op::HDrop(c));
            ops.push(Op::Settle);
        }
        1 => {
            // the reply is on its way back when the head call is abandoned
            ops.push(Op::Settle);
            ops.push(Op::HandlerPoll(leaf, c, finish(rng)));
            let back = back_pipeline(depth, c, c);
            let stage = rng.range(0, back.len() as u64 - 1) as usize;
            for o in &back[..stage] {
                ops.push(o.clone());
                noise(rng, &mut ops);
            }
            ops.push(Op::HDrop(c));
            ops.push(Op::Settle);
        }
        2 => {
            // normal completion (or a leaf failure travelling up)
            ops.push(Op::Settle);
            ops.push(Op::HandlerPoll(leaf, c, finish(rng)));
            ops.push(Op::Settle);
            if rng.chance(1, 2) {
                ops.push(Op::HDrop(c));
                ops.push(Op::Settle);
            }
        }
        3 => {
            // the deadline passes instead: every node gives up on its own
            if rng.chance(1, 2) {
                ops.push(Op::Settle);
            } else {
                let stage = rng.range(0, pipe.len() as u64) as usize;
                ops.extend(pipe[..stage].iter().cloned());
            }
            let dd = d.min(200_000);
            ops.push(Op::Adv(match rng.below(3) {
                0 => dd.saturating_sub(1),
                1 => dd,
                _ => dd + 1,
            }));
            ops.push(Op::Settle);
            if rng.chance(1, 2) {
                ops.push(Op::Adv(2));
                ops.push(Op::Settle);
            }
            if rng.chance(1, 2) {
                ops.push(Op::HDrop(c));
                ops.push(Op::Settle);
            }
        }
        4 => {
            // abandon in the middle, by explicit polls only, then explicit cascade hop by hop
            let stage = rng.range(2, pipe.len() as u64) as usize;
            ops.extend(pipe[..stage].iter().cloned());
            ops.push(Op::HDrop(c));
            for i in 0..depth {
                ops.push(Op::PollD(i));
                ops.push(Op::PollR(i));
                if rng.chance(1, 3) {
                    ops.push(Op::PollR(i));
                }
                ops.push(Op::HandlerPoll(i, c, Step::Run));
                noise(rng, &mut ops);
            }
            ops.push(Op::Settle);
        }
        5 => {
            // an earlier call is abandoned, the focus call goes on
            ops.push(Op::Settle);
            if c > 0 {
                ops.push(Op::HDrop(rng.below(c as u64) as usize));
            }
            ops.push(Op::Settle);
            ops.push(Op::HandlerPoll(leaf, c, finish(rng)));
            ops.push(Op::Settle);
        }
        _ => {
            // an end of a link is dropped: connection failures travel instead (no cascade owed)
            let i = rng.below(depth as u64) as usize;
            match rng.below(3) {
                0 => {
                    // ... while the request sits unread in link i
                    let upto = pipe.iter().position(|o| *o == Op::PollD(i)).unwrap();
                    ops.extend(pipe[..=upto].iter().cloned());
                }
                1 => {
                    // ... while a cancellation sits unread in link i
                    ops.push(Op::Settle);
                    ops.push(Op::HDrop(c));
                    for j in 0..i {
                        ops.push(Op::PollD(j));
                        ops.push(Op::PollR(j));
                        ops.push(Op::HandlerPoll(j, c, Step::Run));
                    }
                    ops.push(Op::PollD(i));
                }
                _ => {
                    let stage = rng.range(0, pipe.len() as u64) as usize;
                    ops.extend(pipe[..stage].iter().cloned());
                }
            }
            ops.push(if rng.chance(2, 3) { Op::DropD(i) } else { Op::DropS(i) });
            if rng.chance(1, 2) {
                ops.push(Op::PollR(i));
                ops.push(Op::HandlerPoll(i, c, Step::Run));
            }
            ops.push(Op::Settle);
            ops.push(Op::HDrop(c));
            ops.push(Op::Settle);
        }
    }
    // usually: every other head call comes to an end as well, so that the cascade clause is owed
    if rng.chance(3, 4) {
        for j in 0..ncalls - 1 {
            match rng.below(3) {
                0 => ops.push(Op::HDrop(j)),
                1 => {
                    ops.push(Op::HandlerPoll(leaf, j, finish(rng)));
                    ops.push(Op::Settle);
                }
                _ => {
                    ops.push(Op::HandlerPoll(leaf, j, finish(rng)));
                    let back = back_pipeline(depth, j, j);
                    let stage = rng.range(0, back.len() as u64) as usize;
                    ops.extend(back[..stage].iter().cloned());
                    ops.push(Op::HDrop(j));
                }
            }
        }
        ops.push(Op::Settle);
        if rng.chance(1, 4) {
            ops.push(Op::Adv(rng.range(1, 50)));
            ops.push(Op::Settle);
        }
    }
    Script { depth, ops }
}

/// Bounded-exhaustive family: every depth x every abandonment stage on the way down and on the
/// way back, for one call and for two.
pub fn sweep(mut f: impl FnMut(Script)) {
    for depth in 1..=3usize {
        for two in [false, true] {
            let c = if two { 1 } else { 0 };
            let mut pre = vec![];
            if two {
                pre.push(Op::HCall { d: 10_000, tid: 7, smp: true, body: 11 });
                pre.push(Op::Settle);
            }
            pre.push(Op::HCall { d: 10_000, tid: 9, smp: false, body: 22 });
            let pipe = pipeline(depth, c, c);
            for stage in 0..=pipe.len() {
                let mut ops = pre.clone();
                ops.extend(pipe[..stage].iter().cloned());
                ops.push(Op::HDrop(c));
                if two {
                    ops.push(Op::HDrop(0));
                }
                ops.push(Op::Settle);
                f(Script { depth, ops });
            }
            let back = back_pipeline(depth, c, c);
            for stage in 0..back.len() {
                for st in [Step::Finish(5), Step::Fail] {
                    let mut ops = pre.clone();
                    ops.push(Op::Settle);
                    ops.push(Op::HandlerPoll(depth - 1, c, st));
                    ops.extend(back[..stage].iter().cloned());
                    ops.push(Op::HDrop(c));
                    if two {
                        ops.push(Op::HDrop(0));
                    }
                    ops.push(Op::Settle);
                    f(Script { depth, ops });
                }
            }
        }
    }
}
